#!/bin/sh
# C09 finding replay: attributes that change what a command does but are not part of its signature.
# Each history builds once, runs a null build, changes ONLY the named attribute and builds again with the
# real tool; "runs" counts how often the command's process was started (3rd column must be 2 if the
# command re-ran after the change; it is 1 for every line marked FINDING).
# usage: corpus/C09/unsigned-attributes.sh [path to llbuild]      (default: build/plain/bin/llbuild)
V="$(cd "$(dirname "$0")/../.." && pwd)"
L="${1:-$V/build/plain/bin/llbuild}"
R="$(mktemp -d)"
trap 'rm -rf "$R"' EXIT

fake() {  # stands in for cc / swiftc: records its command line in the output, writes the dependency files
  cat > "$1" <<EOF
#!/bin/sh
D="$2"
if [ "\$1" = "--version" ]; then echo "fake 1.0"; exit 0; fi
echo "\$@" > "\$D/out"
printf 'out: %s/src\n' "\$D" > "\$D/src.d"; mkdir -p "\$D/tmp"; printf 'out: %s/src\n' "\$D" > "\$D/tmp/M.d"
echo ran >> "\$D/log"
EOF
  chmod +x "$1"
}

history() {  # tool, attribute, common attribute lines, first value, second value
  D="$R/$1-$2"; mkdir -p "$D/w1" "$D/w2"; fake "$D/fake" "$D"; fake "$D/fake2" "$D"
  echo x > "$D/src"; printf 'out: %s/src\n' "$D" > "$D/d1.d"; cp "$D/d1.d" "$D/d2.d"
  for v in "$4" "$4" "$5"; do
    { printf 'client:\n  name: basic\ntargets:\n  "": ["%s/out"]\ndefault: ""\ncommands:\n  C:\n    tool: %s\n    outputs: ["%s/out"]\n' "$D" "$1" "$D"
      printf '%s' "$3" | sed "s|\$D|$D|g"; printf '    %s: %s\n' "$2" "$v" | sed "s|\$D|$D|g"; } > "$D/build.llbuild"
    "$L" buildsystem build --serial -C "$D" > /dev/null 2>&1
  done
  runs=$(wc -l < "$D/log" 2>/dev/null || echo 0)
  printf '%-16s %-34s runs=%s  %s\n' "$1" "$2" "$runs" "$([ "$runs" = 1 ] && echo 'FINDING: not re-run after the change' || echo 're-ran')"
  [ -f "$D/out" ] && printf '    output still says: %s\n' "$(tr '\n' ' ' < "$D/out" | cut -c1-150)"
}

SH='    args: ["/bin/sh", "-c", "(pwd; echo fd=$LLBUILD_CONTROL_FD) > $D/out; echo ran >> $D/log"]
'
CL='    args: ["/bin/sh", "-c", "echo obj > $D/out; echo ran >> $D/log"]
'
SL='    inputs: ["$D/src"]
'
SW='    inputs: ["$D/src"]
    executable: "$D/fake"
    module-name: "M"
    sources: ["$D/src"]
    objects: ["$D/out"]
    temps-path: "$D/tmp"
'
history shell working-directory "$SH" '"$D/w1"' '"$D/w2"'
history shell control-enabled "$SH" true false
history clang deps "$CL" '"$D/d1.d"' '"$D/d2.d"'
history shared-library other-args "$SL    executable: \"\$D/fake\"
    compiler-style: \"clang\"
" '["-O1"]' '["-O2"]'
history shared-library compiler-style "$SL    executable: \"\$D/fake\"
    other-args: [\"-O1\"]
" '"clang"' '"swiftc"'
history shared-library executable "$SL    compiler-style: \"clang\"
" '"$D/fake"' '"$D/fake2"'
history swift-compiler enable-whole-module-optimization "$SW" false true
history swift-compiler num-threads "$SW    enable-whole-module-optimization: true
" 0 4
echo "--- control: a hashed attribute (must re-run)"
history swift-compiler other-args "$SW" '["-O"]' '["-Onone"]'

# A symlink command without an `outputs:` key loads (configureOutputs is never called) and its getSignature()
# reads outputs[0]: a build of the command key crashes.  Only reachable through BuildKey::makeCommand (API).
if [ -x "$V/build/plain/vharness/vc09" ]; then
  echo "--- symlink command without outputs, built by command key through harness/vc09 (expected: crash, exit 139)"
  echo "symlink 4c . . 0 0 0 contents=74" | "$V/build/plain/vharness/vc09" sig; echo "exit=$?"
fi
