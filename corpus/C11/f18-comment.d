# x
a: b
