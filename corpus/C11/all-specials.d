a\ b\#c: d\\e $$f g:h \
  i
