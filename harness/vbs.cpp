// Correspondence harness driving the real BuildSystem in-process.
// usage: vbs <mode> <scratch-dir>
#include "vcommon.h"

#include "llbuild/BuildSystem/BuildDescription.h"
#include "llbuild/BuildSystem/BuildSystem.h"
#include "llbuild/BuildSystem/BuildKey.h"
#include "llbuild/BuildSystem/BuildValue.h"
#include "llbuild/BuildSystem/Command.h"
#include "llbuild/BuildSystem/Tool.h"
#include "llbuild/Basic/ExecutionQueue.h"
#include "llbuild/Basic/FileSystem.h"
#include "llvm/Support/raw_ostream.h"
#include "llvm/Support/SourceMgr.h"
#include "llvm/Support/MemoryBuffer.h"

#include <fstream>
#include <memory>
#include <mutex>
#include <sys/stat.h>
#include <unistd.h>

using namespace llvm;
using namespace llbuild;
using namespace llbuild::basic;
using namespace llbuild::buildsystem;

namespace {

class QDelegate : public ExecutionQueueDelegate {
  void queueJobStarted(JobDescriptor*) override {}
  void queueJobFinished(JobDescriptor*) override {}
  void processStarted(ProcessContext*, ProcessHandle, llbuild_pid_t) override {}
  void processHadError(ProcessContext*, ProcessHandle, const Twine&) override {}
  void processHadOutput(ProcessContext*, ProcessHandle, StringRef) override {}
  void processFinished(ProcessContext*, ProcessHandle, const ProcessResult&) override {}
};

class VDelegate : public BuildSystemDelegate {
public:
  std::vector<std::string> messages;
  std::mutex mu;
  QDelegate qd;
  unsigned lanes = 1;
  VDelegate() : BuildSystemDelegate("mock", 0) {}
  void add(std::string s) { std::unique_lock<std::mutex> l(mu); messages.push_back(std::move(s)); }

  void setFileContentsBeingParsed(StringRef) override {}
  void error(StringRef filename, const Token&, const Twine& message) override { add("error " + message.str()); }
  std::unique_ptr<Tool> lookupTool(StringRef) override { return nullptr; }
  std::unique_ptr<ExecutionQueue> createExecutionQueue() override {
    return std::unique_ptr<ExecutionQueue>(createLaneBasedExecutionQueue(
        qd, lanes, SchedulerAlgorithm::NamePriority, getDefaultQualityOfService(), nullptr));
  }
  void hadCommandFailure() override { add("hadCommandFailure"); }
  void commandStatusChanged(Command*, CommandStatusKind) override {}
  void commandPreparing(Command* c) override { add(("preparing " + c->getName()).str()); }
  bool shouldCommandStart(Command*) override { return true; }
  void commandStarted(Command* c) override { add(("started " + c->getName()).str()); }
  void commandHadError(Command* c, StringRef d) override { add(("cmderror " + c->getName() + " " + d).str()); }
  void commandHadNote(Command* c, StringRef d) override { add(("note " + c->getName() + " " + d).str()); }
  void commandHadWarning(Command* c, StringRef d) override { add(("warning " + c->getName() + " " + d).str()); }
  void commandFinished(Command* c, ProcessStatus r) override { add(("finished " + c->getName() + " " + std::to_string((int)r)).str()); }
  void commandFoundDiscoveredDependency(Command*, StringRef, DiscoveredDependencyKind) override {}
  void commandCannotBuildOutputDueToMissingInputs(Command* c, Node* o, ArrayRef<BuildKey>) override {
    add(("missing-inputs " + c->getName()).str());
  }
  Command* chooseCommandFromMultipleProducers(Node*, std::vector<Command*>) override { return nullptr; }
  void cannotBuildNodeDueToMultipleProducers(Node* o, std::vector<Command*>) override { add("multiple-producers"); }
  void determinedRuleNeedsToRun(core::Rule* r, core::Rule::RunReason reason, core::Rule* in) override {
    reasons.push_back(r->key.str() + "|" + std::to_string((int)reason) + "|" + (in ? in->key.str() : std::string()));
  }
  std::vector<std::string> reasons;
};

// Forwards everything to the local file system except remove(), which is only recorded.
class RecordingFS : public FileSystem {
public:
  std::unique_ptr<FileSystem> base = createLocalFileSystem();
  std::vector<std::string> removed;
  bool createDirectory(const std::string& p) override { return base->createDirectory(p); }
  std::unique_ptr<llvm::MemoryBuffer> getFileContents(const std::string& p) override { return base->getFileContents(p); }
  bool remove(const std::string& p) override { removed.push_back(p); return true; }
  FileChecksum getFileChecksum(const std::string& p) override { return base->getFileChecksum(p); }
  bool createDirectories(const std::string& p) override { return base->createDirectories(p); }
  FileInfo getFileInfo(const std::string& p) override { return base->getFileInfo(p); }
  FileInfo getLinkInfo(const std::string& p) override { return base->getLinkInfo(p); }
  bool createSymlink(const std::string& s, const std::string& t) override { return base->createSymlink(s, t); }
};

class RefFS : public FileSystem {
public:
  FileSystem& r;
  RefFS(FileSystem& r) : r(r) {}
  bool createDirectory(const std::string& p) override { return r.createDirectory(p); }
  std::unique_ptr<llvm::MemoryBuffer> getFileContents(const std::string& p) override { return r.getFileContents(p); }
  bool remove(const std::string& p) override { return r.remove(p); }
  FileChecksum getFileChecksum(const std::string& p) override { return r.getFileChecksum(p); }
  bool createDirectories(const std::string& p) override { return r.createDirectories(p); }
  FileInfo getFileInfo(const std::string& p) override { return r.getFileInfo(p); }
  FileInfo getLinkInfo(const std::string& p) override { return r.getLinkInfo(p); }
  bool createSymlink(const std::string& s, const std::string& t) override { return r.createSymlink(s, t); }
};

std::string yamlQuote(const std::string& s) {
  std::string out = "\"";
  char buf[8];
  for (unsigned char c : s) {
    if (c == '"' || c == '\\') { out.push_back('\\'); out.push_back(c); }
    else if (c < 0x20 || c >= 0x7f) { snprintf(buf, sizeof buf, "\\x%02X", c); out += buf; }
    else out.push_back(c);
  }
  return out + "\"";
}

std::string yamlList(const std::vector<std::string>& l) {
  std::string out = "[";
  for (size_t i = 0; i < l.size(); i++) { if (i) out += ", "; out += yamlQuote(l[i]); }
  return out + "]";
}

void writeFile(const std::string& path, const std::string& data) {
  std::ofstream f(path, std::ios::binary | std::ios::trunc);
  f << data;
}

// line: <prior-list> <expected-list> <roots-list>   (hex lists)
// Build 1 records `prior` as the expected outputs (no roots); build 2, in a new BuildSystem over the
// same database, runs with `expected` and `roots`; prints what build 2 asked the file system to remove
// and which warnings it gave, in order.
void mode_c14run(const std::string& scratch) {
  std::string line;
  unsigned n = 0;
  while (std::getline(std::cin, line)) {
    auto f = vh::split(line);
    if (f.size() != 3) { std::cout << "bad-op\n"; continue; }
    auto prior = vh::hexList(f[0]), expected = vh::hexList(f[1]), roots = vh::hexList(f[2]);
    std::string dir = scratch + "/c14-" + std::to_string(getpid()) + "-" + std::to_string(n++);
    mkdir(dir.c_str(), 0755);
    std::string manifest = dir + "/manifest.llbuild", db = dir + "/build.db";
    auto key = BuildKey::makeCommand("C.1");
    std::string hdr = "client:\n  name: mock\n\ncommands:\n    C.1:\n      tool: stale-file-removal\n      expectedOutputs: ";
    bool ok = true;
    {
      writeFile(manifest, hdr + yamlList(prior) + "\n");
      VDelegate d;
      BuildSystem system(d, createLocalFileSystem());
      system.attachDB(db, nullptr);
      ok = system.loadDescription(manifest);
      if (ok) { auto r = system.build(key); ok = r.hasValue() && r.getValue().isStaleFileRemoval(); }
    }
    std::string out;
    if (!ok) { out = "build1-failed"; }
    else {
      writeFile(manifest, hdr + yamlList(expected) + "\n" + (roots.empty() ? "" : "      roots: " + yamlList(roots) + "\n"));
      RecordingFS rfs;
      VDelegate d;
      BuildSystem system(d, std::unique_ptr<FileSystem>(new RefFS(rfs)));
      system.attachDB(db, nullptr);
      if (!system.loadDescription(manifest)) out = "load2-failed";
      else {
        auto r = system.build(key);
        if (!r.hasValue() || !r.getValue().isStaleFileRemoval()) out = "build2-failed";
        else {
          // actions, in the order the command took them
          size_t ri = 0;
          std::vector<std::string> acts;
          for (auto& m : d.messages) {
            if (m.find("note C.1 Removed stale file '") == 0) { acts.push_back("R:" + vh::hexEncode(rfs.removed.at(ri++))); }
            else if (m.find("warning C.1 Stale file '") == 0) {
              auto a = m.find('\''), b = m.rfind('\'');
              std::string p = m.substr(a + 1, b - a - 1);
              acts.push_back((m.find("has a relative path") != std::string::npos ? "WR:" : "WO:") + vh::hexEncode(p));
            }
          }
          if (ri != rfs.removed.size()) acts.push_back("unreported-removals");
          out = "value=" + [&] { std::vector<std::string> v; for (auto s : r.getValue().getStaleFileList()) v.push_back(s.str()); return vh::hexListEncode(v); }() + " acts=";
          if (acts.empty()) out += ".";
          for (size_t i = 0; i < acts.size(); i++) { if (i) out += ","; out += acts[i]; }
        }
      }
    }
    std::cout << out << "\n";
    std::cout.flush();
    unlink(manifest.c_str()); unlink(db.c_str()); rmdir(dir.c_str());
  }
}

}  // namespace

int main(int argc, char** argv) {
  std::ios::sync_with_stdio(false);
  if (argc < 3) { fprintf(stderr, "usage: vbs <mode> <scratch>\n"); return 2; }
  std::string mode = argv[1];
  if (mode == "c14run") mode_c14run(argv[2]);
  else { fprintf(stderr, "unknown mode %s\n", argv[1]); return 2; }
  return 0;
}
