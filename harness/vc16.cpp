// C16 harness: the REAL LaneBasedExecutionQueue / SerialExecutionQueue / spawnProcess.
// usage: vc16 <mode>     one op per stdin line, one canonical line per op on stdout
//   queue      <lanes> <alg:fifo|name> <policy:now|drain> <jobs>      job mixes through the lane queue
//   serial     (same line format; <lanes>/<alg> ignored)               job mixes through createSerialQueue
//   order      <alg> <jobs>                                            1 lane, all jobs queued behind a gate: pop order
//   proc       exit|sig|out|slowout|early|release|noexe|env ...        real children, one launch per line
//   cancelrace <lanes> <jobs> <delayUs> <childSleepMs> <trapint> <safe>  cancelAllJobs racing executeProcess
//   lanerelease <sleepMs>                                              control-channel lane release frees the lane
//   pollfail                                                           poll() failure injected in spawnProcess (single shot)
//   cancelphase <lanes> <trigger> <cancelDelayMs> <destroyDelayMs> <procs>   cancellation at a chosen phase of chosen children,
//              then destruction of the queue; see mode_cancelphase for the grammar
//   child ...                                                          (internal) the spawned child
// jobs := comma separated  id:key:high:parent:durUs:flags   parent '-' = added by the main thread, in order;
//         flags: c = calls cancelAllJobs, n = null descriptor (QueueJob{}), e = adds its children after its work,
//         x = (external marker) main thread calls cancelAllJobs before adding this job; '.' = none
#include "vcommon.h"

#include "llbuild/Basic/ExecutionQueue.h"
#include "llbuild/Basic/Subprocess.h"
#include "llvm/ADT/ArrayRef.h"
#include "llvm/ADT/Optional.h"
#include "llvm/ADT/SmallString.h"
#include "llvm/ADT/Twine.h"
#include "llvm/Support/MD5.h"

#include <algorithm>
#include <atomic>
#include <chrono>
#include <condition_variable>
#include <fstream>
#include <future>
#include <map>
#include <memory>
#include <mutex>
#include <thread>

#include <dirent.h>
#include <errno.h>
#include <fcntl.h>
#include <signal.h>
#include <sys/resource.h>
#include <sys/stat.h>
#include <sys/wait.h>
#include <unistd.h>

using namespace llbuild;
using namespace llbuild::basic;

static std::string selfExe;

static double nowMs() {
  return std::chrono::duration<double, std::milli>(std::chrono::steady_clock::now().time_since_epoch()).count();
}

// ------------------------------------------------------------------------------------------------
// child
// ------------------------------------------------------------------------------------------------
static void writeAll(int fd, const char* p, size_t n) {
  while (n) {
    ssize_t w = ::write(fd, p, n);
    if (w < 0) { if (errno == EINTR) continue; _exit(97); }
    p += w; n -= (size_t)w;
  }
}

// deterministic byte stream: 8-byte little-endian counters xor seed
static void genBytes(std::string& out, uint64_t nbytes, uint64_t seed) {
  out.resize((nbytes + 7) / 8 * 8);
  for (uint64_t i = 0; i * 8 < nbytes; i++) {
    uint64_t v = i ^ seed;
    for (int b = 0; b < 8; b++) out[i * 8 + b] = (char)((v >> (8 * b)) & 0xff);
  }
  out.resize(nbytes);
}

static void emitPattern(uint64_t nbytes, uint64_t seed, uint64_t chunk) {
  std::string data;
  genBytes(data, nbytes, seed);
  if (chunk == 0) chunk = 1;
  int turn = 0;
  for (uint64_t off = 0; off < nbytes; off += chunk, turn++) {
    uint64_t n = std::min<uint64_t>(chunk, nbytes - off);
    writeAll((turn & 1) ? 2 : 1, data.data() + off, n);   // stdout and stderr share the pipe
  }
}

extern "C" { extern char** environ; }

static int childMain(int argc, char** argv) {
  struct rlimit nocore = {0, 0};
  setrlimit(RLIMIT_CORE, &nocore);
  std::string k = argc > 2 ? argv[2] : "";
  auto num = [&](int i) -> long long { return argc > i ? atoll(argv[i]) : 0; };
  if (k == "exit") return (int)num(3);
  if (k == "sig") {
    int s = (int)num(3);
    signal(s, SIG_DFL);
    sigset_t none; sigemptyset(&none); sigprocmask(SIG_SETMASK, &none, nullptr);
    kill(getpid(), s);
    sleep(5);
    return 99;   // the signal did not terminate us
  }
  if (k == "out") { emitPattern(num(3), num(4), num(5)); return (int)num(6); }
  if (k == "early") {
    emitPattern(num(3), num(4), 4096);
    close(1); close(2);
    usleep((useconds_t)num(5) * 1000);
    return (int)num(6);
  }
  if (k == "release") {
    const char* fd = getenv("LLBUILD_CONTROL_FD");
    const char* tid = getenv("LLBUILD_TASK_ID");
    if (!fd || !tid) return 96;
    std::string msg = std::string("llbuild.1\n") + tid + "\n";
    writeAll(atoi(fd), msg.data(), msg.size());
    usleep((useconds_t)num(5) * 1000);
    emitPattern(num(3), num(4), 4096);
    return (int)num(6);
  }
  if (k == "env") {
    for (char** p = environ; *p; ++p) { std::string l = vh::hexEncode(*p) + "\n"; writeAll(1, l.data(), l.size()); }
    return 0;
  }
  if (k == "life") {
    // life <ignMask> <relMs> <lifeMs> <code> <outBytes> <seed> <outFirst>
    //   ignMask: 1 = ignore SIGINT, 2 = ignore SIGTERM;  relMs: >= 0 release the lane over the control channel after relMs,
    //   -1 never, -2 well-formed message with a wrong task id, -3 wrong protocol version
    long long ign = num(3), rel = num(4), life = num(5), code = num(6), nout = num(7), seed = num(8), outFirst = num(9);
    if (ign & 1) signal(SIGINT, SIG_IGN);
    if (ign & 2) signal(SIGTERM, SIG_IGN);
    if (outFirst) emitPattern((uint64_t)nout, (uint64_t)seed, 4096);
    const char* fd = getenv("LLBUILD_CONTROL_FD");
    const char* tid = getenv("LLBUILD_TASK_ID");
    if (rel != -1 && fd && tid) {
      if (rel > 0) usleep((useconds_t)rel * 1000);
      std::string msg = std::string(rel == -3 ? "llbuild.9\n" : "llbuild.1\n") + (rel == -2 ? "ffff" : "") + tid + "\n";
      writeAll(atoi(fd), msg.data(), msg.size());
    }
    double end = nowMs() + (double)life;
    for (;;) {
      double rem = end - nowMs();
      if (rem <= 0) break;
      usleep((useconds_t)(std::min(50.0, rem) * 1000.0) + 50);
    }
    if (!outFirst) emitPattern((uint64_t)nout, (uint64_t)seed, 4096);
    return (int)code;
  }
  if (k == "sleep") {
    if (num(4)) signal(SIGINT, SIG_IGN);
    usleep((useconds_t)num(3) * 1000);
    return 0;
  }
  return 98;
}

// ------------------------------------------------------------------------------------------------
// delegates
// ------------------------------------------------------------------------------------------------
struct Desc : public JobDescriptor {
  std::string name;
  int id;
  Desc(int id, long key) : id(id) { char b[32]; snprintf(b, sizeof b, "%012ld", key); name = b; }
  StringRef getOrdinalName() const override { return name; }
  void getShortDescription(SmallVectorImpl<char>& r) const override { r.append(name.begin(), name.end()); }
  void getVerboseDescription(SmallVectorImpl<char>& r) const override { r.append(name.begin(), name.end()); }
};

struct QDelegate : public ExecutionQueueDelegate {
  std::atomic<int> jobsStarted{0}, jobsFinished{0};
  void queueJobStarted(JobDescriptor*) override { jobsStarted++; }
  void queueJobFinished(JobDescriptor*) override { jobsFinished++; }
  void processStarted(ProcessContext*, ProcessHandle, llbuild_pid_t) override {}
  void processHadError(ProcessContext*, ProcessHandle, const Twine&) override {}
  void processHadOutput(ProcessContext*, ProcessHandle, StringRef) override {}
  void processFinished(ProcessContext*, ProcessHandle, const ProcessResult&) override {}
};

static const char* statusName(ProcessStatus s) {
  switch (s) {
    case ProcessStatus::Succeeded: return "Succeeded";
    case ProcessStatus::Failed: return "Failed";
    case ProcessStatus::Cancelled: return "Cancelled";
    case ProcessStatus::Skipped: return "Skipped";
    default: return "Unknown";
  }
}

// one process launch, observed through its own ProcessDelegate and its completion function
struct Launch : public ProcessDelegate {
  std::mutex m;
  int started = 0, finished = 0, errors = 0, completions = 0;
  long pid = -1;
  ProcessStatus finStatus = ProcessStatus::Unknown, compStatus = ProcessStatus::Unknown;
  int compExit = 0;
  long compPid = -1;
  llvm::MD5 md5;
  uint64_t outLen = 0;
  bool keepOutput = false;
  std::string output;
  std::string errText;
  bool outputAfterFinish = false;       // output delivered after processFinished / completion
  bool completionBeforeFinished = false;
  double startedAt = 0, completedAt = 0;
  std::promise<void> done;
  std::function<void(Launch&)> onStarted, onError;
  // cancelphase: hold the reader inside processHadOutput until the gate opens (the child can exit meanwhile and stays unreaped)
  bool gateEnabled = false, gateOpen = false, gateReached = false;
  std::condition_variable gateCv;
  int slowFinishMs = 0;                 // time spent inside processFinished
  int slowOutputUs = 0;                 // time spent per processHadOutput call

  void processStarted(ProcessContext*, ProcessHandle, llbuild_pid_t p) override {
    { std::lock_guard<std::mutex> g(m); started++; pid = (long)p; startedAt = nowMs(); }
    if (onStarted) onStarted(*this);
  }
  void processHadError(ProcessContext*, ProcessHandle, const Twine& msg) override {
    { std::lock_guard<std::mutex> g(m); errors++; if (errText.empty()) errText = msg.str(); }
    if (onError) onError(*this);
  }
  void processHadOutput(ProcessContext*, ProcessHandle, StringRef data) override {
    if (slowOutputUs) std::this_thread::sleep_for(std::chrono::microseconds(slowOutputUs));
    std::unique_lock<std::mutex> g(m);
    if (gateEnabled && !gateOpen) {
      gateReached = true;
      gateCv.notify_all();
      gateCv.wait_for(g, std::chrono::seconds(10), [&] { return gateOpen; });
    }
    if (finished || completions) outputAfterFinish = true;
    md5.update(data);
    outLen += data.size();
    if (keepOutput) output += data.str();
  }
  void processFinished(ProcessContext*, ProcessHandle, const ProcessResult& r) override {
    if (slowFinishMs) std::this_thread::sleep_for(std::chrono::milliseconds(slowFinishMs));
    std::lock_guard<std::mutex> g(m);
    if (completions) completionBeforeFinished = true;
    finished++;
    finStatus = r.status;
  }
  void complete(ProcessResult r) {
    bool first;
    {
      std::lock_guard<std::mutex> g(m);
      first = completions == 0;
      completions++;
      if (first) { compStatus = r.status; compExit = r.exitCode; compPid = (long)r.pid; completedAt = nowMs(); }
    }
    if (first) done.set_value();
  }
  std::string md5hex() {
    llvm::MD5::MD5Result res;
    md5.final(res);
    llvm::SmallString<32> s;
    llvm::MD5::stringifyResult(res, s);
    return s.str().str();
  }
};

// ------------------------------------------------------------------------------------------------
// queue / serial / order modes
// ------------------------------------------------------------------------------------------------
struct JobSpec {
  int id = 0; long key = 0; bool high = false; int parent = -1; int durUs = 0;
  bool cancel = false, null = false, atEnd = false, extCancel = false;
  std::vector<int> children;
};

static bool parseJobs(const std::string& s, std::vector<JobSpec>& jobs) {
  if (s == "." || s.empty()) return true;
  for (auto& f : vh::split(s, ',')) {
    auto p = vh::split(f, ':');
    if (p.size() != 6) return false;
    JobSpec j;
    j.id = atoi(p[0].c_str()); j.key = atol(p[1].c_str()); j.high = p[2] == "1";
    j.parent = p[3] == "-" ? -1 : atoi(p[3].c_str()); j.durUs = atoi(p[4].c_str());
    for (char c : p[5]) { if (c == 'c') j.cancel = true; if (c == 'n') j.null = true; if (c == 'e') j.atEnd = true; if (c == 'x') j.extCancel = true; }
    jobs.push_back(j);
  }
  std::map<int, size_t> idx;
  for (size_t i = 0; i < jobs.size(); i++) idx[jobs[i].id] = i;
  for (size_t i = 0; i < jobs.size(); i++)
    if (jobs[i].parent >= 0) { if (!idx.count(jobs[i].parent)) return false; jobs[idx[jobs[i].parent]].children.push_back((int)i); }
  return true;
}

struct QRun {
  std::vector<JobSpec> jobs;
  std::vector<std::unique_ptr<Desc>> descs;
  ExecutionQueue* q = nullptr;
  unsigned lanes = 0;
  std::mutex m;
  std::condition_variable cv;
  std::vector<int> executed, addedIds;
  std::atomic<int> inflight{0}, peak{0};
  bool badLane = false;
  std::vector<int>* orderLog = nullptr;

  void add(int idx) {
    JobSpec& js = jobs[idx];
    auto prio = js.high ? QueueJobPriority::High : QueueJobPriority::Normal;
    if (js.null) { q->addJob(QueueJob(), prio); return; }
    { std::lock_guard<std::mutex> g(m); addedIds.push_back(js.id); }
    q->addJob(QueueJob(descs[idx].get(), [this, idx](QueueJobContext* ctx) { run(idx, ctx); }), prio);
  }
  void run(int idx, QueueJobContext* ctx) {
    JobSpec& js = jobs[idx];
    int c = ++inflight;
    int p = peak.load();
    while (c > p && !peak.compare_exchange_weak(p, c)) {}
    if (lanes && ctx->laneID() >= lanes) badLane = true;
    if (!js.atEnd) for (int ch : js.children) add(ch);
    if (js.durUs) std::this_thread::sleep_for(std::chrono::microseconds(js.durUs));
    if (js.cancel) q->cancelAllJobs();
    if (js.atEnd) for (int ch : js.children) add(ch);
    --inflight;
    { std::lock_guard<std::mutex> g(m); executed.push_back(js.id); cv.notify_all(); }
  }
};

static std::string idList(std::vector<int> v) {
  std::sort(v.begin(), v.end());
  if (v.empty()) return ".";
  std::string s;
  for (size_t i = 0; i < v.size(); i++) { if (i) s += ","; s += std::to_string(v[i]); }
  return s;
}

static void mode_queue(bool serial) {
  std::string line;
  while (std::getline(std::cin, line)) {
    auto f = vh::split(line);
    QRun r;
    if (f.size() < 4 || !parseJobs(f[3], r.jobs)) { std::cout << "bad-op\n"; continue; }
    unsigned lanes = (unsigned)atoi(f[0].c_str());
    bool fifo = f[1] == "fifo";
    bool drain = f[2] == "drain";
    for (auto& j : r.jobs) r.descs.emplace_back(new Desc(j.id, j.key));
    QDelegate del;
    std::unique_ptr<ExecutionQueue> sq;
    if (serial) { sq = createSerialQueue(del, nullptr); r.q = sq.get(); r.lanes = 1; }
    else { r.q = createLaneBasedExecutionQueue(del, (int)lanes, fifo ? SchedulerAlgorithm::FIFO : SchedulerAlgorithm::NamePriority,
                                               QualityOfService::Normal, nullptr); r.lanes = lanes; }
    size_t expected = 0;
    for (auto& j : r.jobs) if (!j.null) expected++;
    for (size_t i = 0; i < r.jobs.size(); i++) {
      if (r.jobs[i].parent >= 0) continue;
      if (r.jobs[i].extCancel) r.q->cancelAllJobs();
      r.add((int)i);
    }
    if (drain) {
      std::unique_lock<std::mutex> lk(r.m);
      r.cv.wait_for(lk, std::chrono::seconds(20), [&] { return r.executed.size() >= expected; });
    }
    // destroy the queue: returns once every lane has been joined
    if (serial) sq.reset(); else delete r.q;
    std::vector<int> stranded;
    {
      std::vector<int> ex = r.executed;
      std::sort(ex.begin(), ex.end());
      for (int id : r.addedIds) if (!std::binary_search(ex.begin(), ex.end(), id)) stranded.push_back(id);
    }
    int pk = r.peak.load();
    bool peakOk = serial ? pk <= 1 : (unsigned)pk <= std::max(1u, lanes) && (lanes > 0 || pk == 0);
    bool paired = serial ? true : (del.jobsStarted.load() == del.jobsFinished.load() && (size_t)del.jobsStarted.load() == r.executed.size());
    std::cout << "executed=" << idList(r.executed) << " stranded=" << idList(stranded)
              << " peak_ok=" << (peakOk ? 1 : 0) << " lane_ok=" << (r.badLane ? 0 : 1) << " paired=" << (paired ? 1 : 0)
              << " # peak=" << pk << " lanes=" << lanes << "\n";
    std::cout.flush();
  }
}

static void mode_order() {
  std::string line;
  while (std::getline(std::cin, line)) {
    auto f = vh::split(line);
    QRun r;
    if (f.size() != 2 || !parseJobs(f[1], r.jobs)) { std::cout << "bad-op\n"; continue; }
    bool fifo = f[0] == "fifo";
    for (auto& j : r.jobs) r.descs.emplace_back(new Desc(j.id, j.key));
    QDelegate del;
    r.q = createLaneBasedExecutionQueue(del, 1, fifo ? SchedulerAlgorithm::FIFO : SchedulerAlgorithm::NamePriority,
                                        QualityOfService::Normal, nullptr);
    r.lanes = 1;
    std::mutex gm; std::condition_variable gcv; bool gateStarted = false, gateOpen = false;
    Desc gateDesc(-1, 0);
    r.q->addJob(QueueJob(&gateDesc, [&](QueueJobContext*) {
      std::unique_lock<std::mutex> lk(gm);
      gateStarted = true; gcv.notify_all();
      gcv.wait(lk, [&] { return gateOpen; });
    }));
    { std::unique_lock<std::mutex> lk(gm); gcv.wait(lk, [&] { return gateStarted; }); }
    for (size_t i = 0; i < r.jobs.size(); i++) if (r.jobs[i].parent < 0) r.add((int)i);
    { std::lock_guard<std::mutex> lk(gm); gateOpen = true; gcv.notify_all(); }
    delete r.q;
    std::string s;
    for (size_t i = 0; i < r.executed.size(); i++) { if (i) s += ","; s += std::to_string(r.executed[i]); }
    std::cout << "order=" << (s.empty() ? "." : s) << "\n";
    std::cout.flush();
  }
}

// ------------------------------------------------------------------------------------------------
// proc mode
// ------------------------------------------------------------------------------------------------
struct ProcOp {
  std::vector<std::string> argv;
  std::vector<std::pair<std::string, std::string>> env;
  ProcessAttributes attrs{true};
  std::string workingDir;
  std::unique_ptr<Launch> launch{new Launch};
  std::unique_ptr<Desc> desc;
  bool jobDone = false;
};

static void launchOn(ExecutionQueue* q, ProcOp& op, std::mutex& jm, std::condition_variable& jcv) {
  q->addJob(QueueJob(op.desc.get(), [q, &op, &jm, &jcv](QueueJobContext* ctx) {
    std::vector<StringRef> argv(op.argv.begin(), op.argv.end());
    std::vector<std::pair<StringRef, StringRef>> env;
    for (auto& e : op.env) env.push_back({e.first, e.second});
    Launch* L = op.launch.get();
    if (!op.workingDir.empty()) op.attrs.workingDir = op.workingDir;
    ProcessCompletionFn fn = [L](ProcessResult r) { L->complete(r); };
    q->executeProcess(ctx, llvm::ArrayRef<StringRef>(argv), llvm::ArrayRef<std::pair<StringRef, StringRef>>(env), op.attrs,
                      llvm::Optional<ProcessCompletionFn>(fn), L);
    { std::lock_guard<std::mutex> g(jm); op.jobDone = true; }
    jcv.notify_all();
  }));
}

static bool waitLaunch(ProcOp& op, std::mutex& jm, std::condition_variable& jcv, int timeoutS) {
  auto fut = op.launch->done.get_future();
  bool ok = fut.wait_for(std::chrono::seconds(timeoutS)) == std::future_status::ready;
  std::unique_lock<std::mutex> lk(jm);
  jcv.wait_for(lk, std::chrono::seconds(timeoutS), [&] { return op.jobDone; });
  return ok;
}

static std::string launchLine(Launch& L, bool timedOut) {
  std::lock_guard<std::mutex> g(L.m);
  std::ostringstream o;
  o << "completions=" << L.completions << " status=" << statusName(L.compStatus) << " exit=" << L.compExit
    << " started=" << L.started << " finished=" << L.finished << " finstatus=" << statusName(L.finStatus)
    << " errors=" << L.errors << " pid_valid=" << (L.pid > 0 ? 1 : 0)
    << " outlen=" << L.outLen << " late_output=" << (L.outputAfterFinish ? 1 : 0)
    << " completion_before_finished=" << (L.completionBeforeFinished ? 1 : 0);
  if (timedOut) o << " TIMEOUT";
  return o.str();
}

static bool processGone(long pid) {
  if (pid <= 0) return true;
  if (kill((pid_t)pid, 0) == -1 && errno == ESRCH) return true;
  // something has this pid: a child of ours that was not reaped, or (rarely) an unrelated process that got the recycled number
  std::ifstream st("/proc/" + std::to_string(pid) + "/stat");
  std::string l;
  if (!st || !std::getline(st, l)) return true;
  size_t rp = l.rfind(')');
  if (rp == std::string::npos) return false;
  std::istringstream is(l.substr(rp + 1));
  std::string state; long ppid = -1;
  is >> state >> ppid;
  return ppid != (long)getpid();
}

static void mode_proc() {
  QDelegate del;
  ExecutionQueue* q = createLaneBasedExecutionQueue(del, 2, SchedulerAlgorithm::FIFO, QualityOfService::Normal, nullptr);
  std::mutex jm; std::condition_variable jcv;
  std::vector<std::unique_ptr<ProcOp>> ops;
  std::vector<std::string> extra;     // per-op extra fields computed right after the wait
  std::vector<bool> timedOut;
  std::string line;
  int n = 0;
  while (std::getline(std::cin, line)) {
    auto f = vh::split(line);
    std::unique_ptr<ProcOp> op(new ProcOp);
    op->desc.reset(new Desc(n, n)); n++;
    std::string kind = f[0];
    ExecutionQueue* useQ = q;
    std::unique_ptr<ExecutionQueue> ownQ;
    std::vector<std::string> baseStore;
    std::vector<const char*> basePtrs;
    if (kind == "slowout" && f.size() == 6) {
      // slowout <bytes> <seed> <chunk> <code> <usPerCallback>: the child writes a burst and exits at once; the delegate is slow
      op->argv = {selfExe, "child", "out", f[1], f[2], f[3], f[4]};
      op->launch->slowOutputUs = atoi(f[5].c_str());
      op->attrs.controlEnabled = (n % 2) == 0;
    } else if (kind == "exit" || kind == "sig" || kind == "out" || kind == "early" || kind == "release") {
      op->argv = {selfExe, "child", kind};
      for (size_t i = 1; i < f.size(); i++) op->argv.push_back(f[i]);
      if (kind != "release") op->attrs.controlEnabled = (n % 2) == 0;
    } else if (kind == "noexe") {
      int v = atoi(f[1].c_str());
      if (v == 0) op->argv = {"/nonexistent-dir-c16/no-such-program"};
      else if (v == 1) op->argv = {"no-such-program-c16-xyz"};
      else if (v == 2) op->argv = {};
      else if (v == 3) op->argv = {"/etc/passwd"};
      else { op->argv = {selfExe, "child", "exit", "0"}; op->workingDir = "/nonexistent-dir-c16"; }
    } else if (kind == "env") {
      // env <inherit> <requested: hexlist of k=v> <base: hexlist of entries>
      op->attrs.inheritEnvironment = f[1] == "1";
      for (auto& kv : vh::hexList(f[2])) { auto e = kv.find('='); op->env.push_back({kv.substr(0, e), e == std::string::npos ? "" : kv.substr(e + 1)}); }
      baseStore = vh::hexList(f[3]);
      for (auto& s : baseStore) basePtrs.push_back(s.c_str());
      basePtrs.push_back(nullptr);
      ownQ.reset(createLaneBasedExecutionQueue(del, 1, SchedulerAlgorithm::FIFO, QualityOfService::Normal, basePtrs.data()));
      useQ = ownQ.get();
      op->argv = {selfExe, "child", "env"};
      op->launch->keepOutput = true;
      op->attrs.controlEnabled = f.size() > 4 && f[4] == "1";
    } else { std::cout << "bad-op\n"; continue; }
    launchOn(useQ, *op, jm, jcv);
    bool ok = waitLaunch(*op, jm, jcv, 30);
    std::ostringstream e;
    e << " md5=" << op->launch->md5hex() << " reaped=" << (processGone(op->launch->pid) ? 1 : 0);
    if (kind == "env") {
      // the child printed one hex line per environment entry, in envp order
      std::string o = op->launch->output, s;
      for (char c : o) s.push_back(c == '\n' ? ',' : c);
      if (!s.empty() && s.back() == ',') s.pop_back();
      e << " env=" << (s.empty() ? "." : s);
    }
    ownQ.reset();
    extra.push_back(e.str());
    timedOut.push_back(!ok);
    ops.push_back(std::move(op));
  }
  delete q;   // after this every launch has been accounted for; completion counts are final
  for (size_t i = 0; i < ops.size(); i++) std::cout << launchLine(*ops[i]->launch, timedOut[i]) << extra[i] << "\n";
}

// cancelAllJobs racing executeProcess: <lanes> <jobs> <delayUs> <childSleepMs> <trapint> <safe>
static void mode_cancelrace() {
  setenv("LLBUILD_TEST", "1", 1);   // SIGKILL escalation after 1 s instead of 10 s
  std::string line;
  while (std::getline(std::cin, line)) {
    auto f = vh::split(line);
    if (f.size() != 6) { std::cout << "bad-op\n"; continue; }
    int lanes = atoi(f[0].c_str()), njobs = atoi(f[1].c_str()), delayUs = atoi(f[2].c_str());
    bool trap = f[4] == "1", safe = f[5] == "1";
    QDelegate del;
    ExecutionQueue* q = createLaneBasedExecutionQueue(del, lanes, SchedulerAlgorithm::FIFO, QualityOfService::Normal, nullptr);
    std::mutex jm; std::condition_variable jcv;
    std::vector<std::unique_ptr<ProcOp>> ops;
    double t0 = nowMs();
    for (int i = 0; i < njobs; i++) {
      std::unique_ptr<ProcOp> op(new ProcOp);
      op->desc.reset(new Desc(i, i));
      op->argv = {selfExe, "child", "sleep", f[3], trap ? "1" : "0"};
      op->attrs.canSafelyInterrupt = safe;
      ops.push_back(std::move(op));
    }
    std::atomic<double> cancelReturned{0};
    std::thread canceller([&] {
      std::this_thread::sleep_for(std::chrono::microseconds(delayUs));
      q->cancelAllJobs();
      cancelReturned = nowMs();
    });
    for (auto& op : ops) launchOn(q, *op, jm, jcv);
    bool allOk = true;
    for (auto& op : ops) allOk &= waitLaunch(*op, jm, jcv, 30);
    canceller.join();
    double t1 = nowMs();
    delete q;
    int once = 0, cancelled = 0, succeeded = 0, failed = 0, realStarts = 0, afterCancel = 0, notReaped = 0, startedNoFinish = 0;
    for (auto& op : ops) {
      Launch& L = *op->launch;
      if (L.completions == 1) once++;
      if (L.compStatus == ProcessStatus::Cancelled) cancelled++;
      else if (L.compStatus == ProcessStatus::Succeeded) succeeded++;
      else failed++;
      if (L.pid > 0) { realStarts++; if (L.startedAt > cancelReturned.load()) afterCancel++; if (!processGone(L.pid)) notReaped++; }
      if (L.started != L.finished) startedNoFinish++;
    }
    std::cout << "launches=" << njobs << " once=" << once << " cancelled=" << cancelled << " succeeded=" << succeeded
              << " failed=" << failed << " spawned_after_cancel=" << afterCancel << " not_reaped=" << notReaped
              << " unpaired=" << startedNoFinish << " timeout=" << (allOk ? 0 : 1)
              << " # real_starts=" << realStarts << " elapsed_ms=" << (long)(t1 - t0) << "\n";
    std::cout.flush();
  }
}

// a child that releases its lane over the control channel: with ONE lane, a second job must be able to
// start while the first child is still running; its completion still fires exactly once, after all output.
static void mode_lanerelease() {
  std::string line;
  while (std::getline(std::cin, line)) {
    auto f = vh::split(line);
    QDelegate del;
    ExecutionQueue* q = createLaneBasedExecutionQueue(del, 1, SchedulerAlgorithm::FIFO, QualityOfService::Normal, nullptr);
    std::mutex jm; std::condition_variable jcv;
    ProcOp op;
    op.desc.reset(new Desc(0, 0));
    op.argv = {selfExe, "child", "release", "70000", "5", f[0], "3"};
    launchOn(q, op, jm, jcv);
    std::atomic<double> secondRan{0};
    Desc d2(1, 1);
    q->addJob(QueueJob(&d2, [&](QueueJobContext*) { secondRan = nowMs(); }));
    bool ok = waitLaunch(op, jm, jcv, 30);
    delete q;
    Launch& L = *op.launch;
    bool released = secondRan.load() > 0 && secondRan.load() < L.completedAt;
    std::cout << launchLine(L, !ok) << " md5=" << L.md5hex() << " reaped=" << (processGone(L.pid) ? 1 : 0)
              << " lane_released=" << (released ? 1 : 0) << "\n";
    std::cout.flush();
  }
}

// poll() failure inside spawnProcess's drain loop: lower RLIMIT_NOFILE below nfds when the process has
// started (poll then fails with EINVAL), restore it when the error is reported.
static void mode_pollfail() {
  QDelegate del;
  ExecutionQueue* q = createLaneBasedExecutionQueue(del, 1, SchedulerAlgorithm::FIFO, QualityOfService::Normal, nullptr);
  std::mutex jm; std::condition_variable jcv;
  ProcOp op;
  op.desc.reset(new Desc(0, 0));
  op.argv = {selfExe, "child", "exit", "0"};
  struct rlimit saved;
  getrlimit(RLIMIT_NOFILE, &saved);
  op.launch->onStarted = [&](Launch&) { struct rlimit low = {1, saved.rlim_max}; setrlimit(RLIMIT_NOFILE, &low); };
  op.launch->onError = [&](Launch&) { setrlimit(RLIMIT_NOFILE, &saved); };
  launchOn(q, op, jm, jcv);
  // the job returns from executeProcess either way; the completion may never come
  {
    std::unique_lock<std::mutex> lk(jm);
    jcv.wait_for(lk, std::chrono::seconds(10), [&] { return op.jobDone; });
  }
  auto fut = op.launch->done.get_future();
  bool ok = fut.wait_for(std::chrono::milliseconds(1500)) == std::future_status::ready;
  setrlimit(RLIMIT_NOFILE, &saved);
  std::cout << launchLine(*op.launch, false) << " job_returned=" << (op.jobDone ? 1 : 0) << " completed=" << (ok ? 1 : 0)
            << " err=" << vh::hexEncode(op.launch->errText) << "\n";
  std::cout.flush();
  // without a completion the process group never empties and the queue destructor would hang: leave
  _exit(0);
}

// ------------------------------------------------------------------------------------------------
// cancelphase: cancellation at a chosen phase of chosen children, then destruction of the queue
// ------------------------------------------------------------------------------------------------
// line:  <lanes> <trigger> <cancelDelayMs> <destroyDelayMs> <procs>
//   trigger  never            no cancellation: the queue is destroyed right after the jobs were added
//            pre              cancelAllJobs() before any job is added
//            added            right after the last addJob
//            start:<i>        after processStarted of launch i                     (child running, lane held)
//            rel:<i>          after executeProcess of launch i returned without a completion (lane released, child running)
//            zombie:<i>       after child i exited while its reader is held inside processHadOutput (exited, not reaped)
//            done:<i>         after the completion of launch i
//   then <cancelDelayMs> later cancelAllJobs() is called from the main (foreign) thread, the gates are opened,
//   and <destroyDelayMs> after it returned the queue is destroyed.  <destroyDelayMs> = <d>: first wait until every thread
//   that cancelAllJobs() started is parked (the escalation thread sits in its timed wait), then d ms;  r<d>: d ms, no such wait.
//   procs := comma separated  safe:ign:rel:life:code:out:ctl:first:slowfin
//            safe = canSafelyInterrupt, ign = mask (1 SIGINT, 2 SIGTERM) of signals the child ignores,
//            rel = ms before the child releases its lane (-1 never, -2 wrong id, -3 wrong protocol), life = ms the child runs
//            after that, code = exit code, out = bytes of output, ctl = controlEnabled, first = output before (1) / after (0) the
//            life time, slowfin = ms the delegate spends in processFinished
// output: one line; scenario fields and per launch  p<i>=<colon separated>, see the code
struct PhaseProc {
  bool safe = true; int ign = 0; long rel = -1, life = 0; int code = 0; long out = 0; bool ctl = true, first = false; int slowfin = 0;
  uint64_t seed = 0;
  std::unique_ptr<Launch> launch{new Launch};
  std::unique_ptr<Desc> desc;
  std::atomic<int> jobRuns{0};
  std::atomic<bool> jobReturned{false}, releasedSeen{false};
  double jobReturnedAt = 0;
};

static bool childIsZombie(long pid) {
  if (pid <= 0) return false;
  siginfo_t si;
  memset(&si, 0, sizeof si);
  if (waitid(P_PID, (id_t)pid, &si, WEXITED | WNOHANG | WNOWAIT) != 0) return false;
  return si.si_pid == (pid_t)pid;
}

// threads of this process; used to tell when the thread that cancelAllJobs() starts (killAfterTimeout) is parked in its timed wait
static std::vector<long> listTids() {
  std::vector<long> out;
  DIR* d = opendir("/proc/self/task");
  if (!d) return out;
  while (struct dirent* e = readdir(d)) if (e->d_name[0] != '.') out.push_back(atol(e->d_name));
  closedir(d);
  std::sort(out.begin(), out.end());
  return out;
}

// gone, or sleeping in a system call other than an untimed futex wait (= blocked on a mutex / plain condition wait)
static bool tidParked(long tid) {
  std::string base = "/proc/self/task/" + std::to_string(tid);
  std::ifstream st(base + "/stat");
  std::string l;
  if (!st || !std::getline(st, l)) return true;
  size_t rp = l.rfind(')');
  if (rp == std::string::npos || rp + 2 >= l.size()) return false;
  char state = l[rp + 2];
  if (state == 'Z' || state == 'X') return true;
  if (state != 'S') return false;
  std::ifstream sc(base + "/syscall");
  std::string c;
  if (!sc || !std::getline(sc, c)) return true;          // not readable here: sleeping is all we can tell
  auto a = vh::split(c);
  if (a.size() >= 5 && a[0] == "202") return a[4] != "0x0";   // futex: timed wait only
  return a[0] != "running";
}

static void mode_cancelphase() {
  setenv("LLBUILD_TEST", "1", 1);   // SIGKILL escalation after 1 s instead of 10 s
  std::string line;
  while (std::getline(std::cin, line)) {
    auto f = vh::split(line);
    if (f.size() != 5) { std::cout << "bad-op\n"; continue; }
    int lanes = atoi(f[0].c_str());
    std::string trig = f[1];
    int trigIdx = -1;
    { auto c = trig.find(':'); if (c != std::string::npos) { trigIdx = atoi(trig.substr(c + 1).c_str()); trig = trig.substr(0, c); } }
    bool rawDestroy = !f[3].empty() && f[3][0] == 'r';
    int cancelDelay = atoi(f[2].c_str()), destroyDelay = atoi(f[3].c_str() + (rawDestroy ? 1 : 0));
    std::vector<std::unique_ptr<PhaseProc>> ps;
    bool bad = false;
    for (auto& spec : vh::split(f[4], ',')) {
      auto a = vh::split(spec, ':');
      if (a.size() != 9) { bad = true; break; }
      std::unique_ptr<PhaseProc> p(new PhaseProc);
      p->safe = a[0] == "1"; p->ign = atoi(a[1].c_str()); p->rel = atol(a[2].c_str()); p->life = atol(a[3].c_str());
      p->code = atoi(a[4].c_str()); p->out = atol(a[5].c_str()); p->ctl = a[6] == "1"; p->first = a[7] == "1"; p->slowfin = atoi(a[8].c_str());
      p->seed = 1000003ull * (ps.size() + 1);
      p->desc.reset(new Desc((int)ps.size(), (long)ps.size()));
      p->launch->slowFinishMs = p->slowfin;
      ps.push_back(std::move(p));
    }
    if (bad || ps.empty() || (trigIdx >= (int)ps.size())) { std::cout << "bad-op\n"; continue; }
    if (trig == "zombie") ps[trigIdx]->launch->gateEnabled = true;

    QDelegate del;
    ExecutionQueue* q = createLaneBasedExecutionQueue(del, lanes, SchedulerAlgorithm::FIFO, QualityOfService::Normal, nullptr);
    std::mutex em; std::condition_variable ecv;             // events: started / job returned / completed
    std::atomic<int> inflight{0}, peak{0};
    double t0 = nowMs();
    double cancelAt = -1, cancelRet = -1;
    bool settled = true;
    auto doCancel = [&] {
      std::vector<long> before = listTids();
      cancelAt = nowMs(); q->cancelAllJobs(); cancelRet = nowMs();
      if (rawDestroy) return;
      settled = false;
      for (int spin = 0; spin < 20000 && !settled; spin++) {
        settled = true;
        for (long t : listTids()) if (!std::binary_search(before.begin(), before.end(), t) && !tidParked(t)) settled = false;
        if (!settled) std::this_thread::sleep_for(std::chrono::microseconds(100));
      }
    };
    if (trig == "pre") { if (cancelDelay) std::this_thread::sleep_for(std::chrono::milliseconds(cancelDelay)); doCancel(); }
    for (auto& up : ps) {
      PhaseProc* p = up.get();
      p->launch->onStarted = [&em, &ecv](Launch&) { std::lock_guard<std::mutex> g(em); ecv.notify_all(); };
      q->addJob(QueueJob(p->desc.get(), [q, p, &em, &ecv, &inflight, &peak](QueueJobContext* ctx) {
        p->jobRuns++;
        int c = ++inflight;
        int pk = peak.load();
        while (c > pk && !peak.compare_exchange_weak(pk, c)) {}
        std::vector<std::string> av = {selfExe, "child", "life", std::to_string(p->ign), std::to_string(p->rel), std::to_string(p->life),
                                       std::to_string(p->code), std::to_string(p->out), std::to_string(p->seed), p->first ? "1" : "0"};
        std::vector<StringRef> argv(av.begin(), av.end());
        ProcessAttributes attrs{p->safe};
        attrs.controlEnabled = p->ctl;
        Launch* L = p->launch.get();
        ProcessCompletionFn fn = [L, &em, &ecv](ProcessResult r) { L->complete(r); std::lock_guard<std::mutex> g(em); ecv.notify_all(); };
        q->executeProcess(ctx, llvm::ArrayRef<StringRef>(argv), llvm::ArrayRef<std::pair<StringRef, StringRef>>(), attrs,
                          llvm::Optional<ProcessCompletionFn>(fn), L);
        bool rel;
        { std::lock_guard<std::mutex> g(L->m); rel = L->completions == 0; }
        --inflight;
        {
          std::lock_guard<std::mutex> g(em);
          p->jobReturnedAt = nowMs();
          p->releasedSeen = rel;
          p->jobReturned = true;
          ecv.notify_all();
        }
      }));
    }
    bool trigHit = true;
    if (trig != "never" && trig != "pre") {
      if (trig != "added") {
        PhaseProc* p = ps[trigIdx].get();
        Launch* L = p->launch.get();
        auto deadline = std::chrono::steady_clock::now() + std::chrono::seconds(4);
        if (trig == "zombie") {
          // the reader must be held in the gate and the child must have exited
          trigHit = false;
          while (std::chrono::steady_clock::now() < deadline) {
            long pid; bool reached;
            { std::lock_guard<std::mutex> g(L->m); pid = L->pid; reached = L->gateReached; }
            if (reached && childIsZombie(pid)) { trigHit = true; break; }
            std::this_thread::sleep_for(std::chrono::milliseconds(1));
          }
        } else {
          std::unique_lock<std::mutex> lk(em);
          trigHit = ecv.wait_until(lk, deadline, [&] {
            std::lock_guard<std::mutex> g(L->m);
            if (trig == "start") return L->started > 0 && L->pid > 0;
            if (trig == "rel") return p->jobReturned.load() && p->releasedSeen.load();
            return L->completions > 0;   // done
          });
        }
      }
      if (cancelDelay) std::this_thread::sleep_for(std::chrono::milliseconds(cancelDelay));
      doCancel();
    }
    for (auto& p : ps) { std::lock_guard<std::mutex> g(p->launch->m); p->launch->gateOpen = true; p->launch->gateCv.notify_all(); }
    if (destroyDelay) std::this_thread::sleep_for(std::chrono::milliseconds(destroyDelay));
    double d0 = nowMs();
    delete q;     // joins the lanes and the escalation thread; ~ProcessGroup waits until every registered child was reaped
    double d1 = nowMs();
    std::vector<int> goneAtDestroy;
    for (auto& p : ps) { long pid; { std::lock_guard<std::mutex> g(p->launch->m); pid = p->launch->pid; } goneAtDestroy.push_back(processGone(pid) ? 1 : 0); }
    // a released child's completion comes from a detached thread: allow it to arrive
    bool allDone = true;
    for (auto& p : ps) allDone &= p->launch->done.get_future().wait_for(std::chrono::seconds(8)) == std::future_status::ready;
    std::this_thread::sleep_for(std::chrono::milliseconds(2));
    std::ostringstream o;
    o << "lanes=" << lanes << " peak=" << peak.load() << " trig_hit=" << (trigHit && settled ? 1 : 0)
      << " cancel_at=" << (cancelAt < 0 ? -1 : (long)(cancelAt - t0)) << " cancel_ms=" << (cancelAt < 0 ? 0 : (long)(cancelRet - cancelAt))
      << " destroy_at=" << (long)(d0 - t0) << " destroy_ms=" << (long)(d1 - d0) << " timeout=" << (allDone ? 0 : 1)
      << " jobs_started=" << del.jobsStarted.load() << " jobs_finished=" << del.jobsFinished.load();
    for (size_t i = 0; i < ps.size(); i++) {
      PhaseProc& p = *ps[i];
      Launch& L = *p.launch;
      std::string md5 = L.md5hex();
      std::lock_guard<std::mutex> g(L.m);
      // completions:status:rawexit:started:finished:finstatus:pidvalid:late:cbf:goneAtDestroy:jobRuns:released:
      // startedAtMs:completedAtMs:startedAfterCancelReturned:completedAfterDestroy:outlen:md5
      o << " p" << i << "=" << L.completions << ":" << statusName(L.compStatus) << ":" << L.compExit << ":" << L.started << ":" << L.finished
        << ":" << statusName(L.finStatus) << ":" << (L.pid > 0 ? 1 : 0) << ":" << (L.outputAfterFinish ? 1 : 0) << ":" << (L.completionBeforeFinished ? 1 : 0)
        << ":" << goneAtDestroy[i] << ":" << p.jobRuns.load() << ":" << (p.releasedSeen.load() ? 1 : 0)
        << ":" << (L.startedAt > 0 ? (long)(L.startedAt - t0) : -1) << ":" << (L.completedAt > 0 ? (long)(L.completedAt - t0) : -1)
        << ":" << ((L.pid > 0 && cancelRet > 0 && L.startedAt > cancelRet) ? 1 : 0)
        << ":" << ((L.completedAt > d1) ? 1 : 0) << ":" << L.outLen << ":" << md5;
    }
    std::cout << o.str() << "\n";
    std::cout.flush();
  }
}

int main(int argc, char** argv) {
  std::ios::sync_with_stdio(false);
  if (argc < 2) return 2;
  char buf[4096];
  ssize_t n = readlink("/proc/self/exe", buf, sizeof(buf) - 1);
  selfExe = n > 0 ? std::string(buf, (size_t)n) : argv[0];
  std::string mode = argv[1];
  if (mode == "child") return childMain(argc, argv);
  signal(SIGPIPE, SIG_IGN);
  if (mode == "queue") mode_queue(false);
  else if (mode == "serial") mode_queue(true);
  else if (mode == "order") mode_order();
  else if (mode == "proc") mode_proc();
  else if (mode == "cancelrace") mode_cancelrace();
  else if (mode == "lanerelease") mode_lanerelease();
  else if (mode == "pollfail") mode_pollfail();
  else if (mode == "cancelphase") mode_cancelphase();
  else { fprintf(stderr, "unknown mode %s\n", argv[1]); return 2; }
  return 0;
}
