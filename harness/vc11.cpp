// C11 / C19 (dependency parsers) harness.
// usage: vc11 <mode> [scratch-dir]   -- one op per stdin line, one canonical line per op (flushed after every op,
// so that when a sanitizer aborts the process the input that killed it is the one after the last printed line).
//
//   makedeps : "<ignoreSubsequentOutputs 0|1> <hex input>"  -> MakefileDepsParser action stream
//   depinfo  : "<hex input>"                                -> DependencyInfoParser action stream
//   resolve  : "<hex wd> <hex path>"                        -> the path computation of ShellCommand's actOnRuleDependency
//   c11bs    : "<style> <hex wd> <hex deps-file contents>"  -> one real BuildSystem build of a shell command with `deps:`
//   c11e2e   : "<hex case dir> <style> <hex working-directory | none> <s|l>:<hex deps name>,... <step>,..."
//              -> a whole HISTORY through the real shell-command path: every `B` step is one build of the command in a fresh
//              BuildSystem over the same database (like consecutive `llbuild buildsystem build` runs); the other steps change
//              the file system in between (W<path>:<contents> write, A<path> append one byte / create, R<path> remove)
//
// The parser inputs are copied into an exact-size malloc'd buffer with NO terminator: under the "asan" configuration a
// read at or after `end` is a heap-buffer-overflow report (= abort, = a result attributed to that input).
#include "vcommon.h"

#include "llbuild/Core/DependencyInfoParser.h"
#include "llbuild/Core/MakefileDepsParser.h"

#include "llbuild/BuildSystem/BuildDescription.h"
#include "llbuild/BuildSystem/BuildSystem.h"
#include "llbuild/BuildSystem/BuildKey.h"
#include "llbuild/BuildSystem/BuildValue.h"
#include "llbuild/BuildSystem/Command.h"
#include "llbuild/BuildSystem/Tool.h"
#include "llbuild/Basic/ExecutionQueue.h"
#include "llbuild/Basic/FileSystem.h"
#include "llvm/ADT/SmallString.h"
#include "llvm/Support/FileSystem.h"
#include "llvm/Support/Path.h"
#include "llvm/Support/raw_ostream.h"

#include <fcntl.h>
#include <fstream>
#include <ftw.h>
#include <limits.h>
#include <memory>
#include <mutex>
#include <sys/stat.h>
#include <unistd.h>

using namespace llvm;
using namespace llbuild;
using namespace llbuild::basic;
using namespace llbuild::buildsystem;

namespace {

struct ExactBuffer {
  char* p;
  size_t n;
  explicit ExactBuffer(const std::string& s) : p((char*)malloc(s.size())), n(s.size()) {
    if (n) memcpy(p, s.data(), n);
  }
  ~ExactBuffer() { free(p); }
  StringRef ref() const { return StringRef(p, n); }
  // hex of a StringRef handed to a callback, provided it lies inside the buffer
  std::string slice(StringRef s) const {
    if (s.data() < p || s.data() + s.size() > p + n)
      return "OUTSIDE@" + std::to_string((long)(s.data() - p)) + "+" + std::to_string(s.size());
    return vh::hexEncode(s.str());
  }
};

std::string join(const std::vector<std::string>& v) {
  if (v.empty()) return ".";
  std::string out;
  for (size_t i = 0; i < v.size(); i++) { if (i) out.push_back(';'); out += v[i]; }
  return out;
}

std::string mdCode(StringRef m) {
  if (m == "unexpected character in file") return "file";
  if (m == "missing ':' following rule") return "colon";
  if (m == "unexpected character in prerequisites") return "prereq";
  return "other-" + vh::hexEncode(m.str());
}

std::string diCode(StringRef m) {
  if (m == "missing null terminator") return "nul";
  if (m == "missing version record") return "ver";
  if (m == "empty operand") return "empty";
  if (m == "invalid duplicate version") return "dup";
  if (m == "unknown opcode in file") return "opcode";
  return "other-" + vh::hexEncode(m.str());
}

struct MDActions : public core::MakefileDepsParser::ParseActions {
  const ExactBuffer& buf;
  std::vector<std::string> out;
  explicit MDActions(const ExactBuffer& b) : buf(b) {}
  void error(StringRef message, uint64_t position) override {
    out.push_back("X:" + mdCode(message) + ":" + std::to_string(position));
  }
  void actOnRuleStart(StringRef name, StringRef unescaped) override {
    out.push_back("S:" + buf.slice(name) + ":" + vh::hexEncode(unescaped.str()));
  }
  void actOnRuleDependency(StringRef dep, StringRef unescaped) override {
    out.push_back("D:" + buf.slice(dep) + ":" + vh::hexEncode(unescaped.str()));
  }
  void actOnRuleEnd() override { out.push_back("E"); }
};

struct DIActions : public core::DependencyInfoParser::ParseActions {
  const ExactBuffer& buf;
  std::vector<std::string> out;
  explicit DIActions(const ExactBuffer& b) : buf(b) {}
  void error(const char* message, uint64_t position) override {
    out.push_back("X:" + diCode(message) + ":" + std::to_string(position));
  }
  void actOnVersion(StringRef s) override { out.push_back("V:" + buf.slice(s)); }
  void actOnInput(StringRef s) override { out.push_back("I:" + buf.slice(s)); }
  void actOnOutput(StringRef s) override { out.push_back("O:" + buf.slice(s)); }
  void actOnMissing(StringRef s) override { out.push_back("M:" + buf.slice(s)); }
};

void emit(const std::string& s) {
  fputs(s.c_str(), stdout);
  fputc('\n', stdout);
  fflush(stdout);
}

void mode_makedeps() {
  std::string line;
  while (std::getline(std::cin, line)) {
    auto f = vh::split(line);
    if (f.size() != 2 || (f[0] != "0" && f[0] != "1")) { emit("bad-op"); continue; }
    ExactBuffer buf(vh::hexDecode(f[1]));
    MDActions a(buf);
    core::MakefileDepsParser(buf.ref(), a, f[0] == "1").parse();
    emit(join(a.out));
  }
}

void mode_depinfo() {
  std::string line;
  while (std::getline(std::cin, line)) {
    auto f = vh::split(line);
    if (f.size() != 1) { emit("bad-op"); continue; }
    ExactBuffer buf(vh::hexDecode(f[0]));
    DIActions a(buf);
    core::DependencyInfoParser(buf.ref(), a).parse();
    emit(join(a.out));
  }
}

// The statements of ShellCommand::processMakefileDiscoveredDependencies()::DepsActions::actOnRuleDependency
// (the struct is local to that member function; `c11bs` below runs the member function itself).
void mode_resolve() {
  std::string line;
  while (std::getline(std::cin, line)) {
    auto f = vh::split(line);
    if (f.size() != 2) { emit("bad-op"); continue; }
    std::string wd = vh::hexDecode(f[0]), p = vh::hexDecode(f[1]);
    if (llvm::sys::path::is_absolute(p)) { emit("abs " + vh::hexEncode(p)); continue; }
    SmallString<PATH_MAX> absPath = StringRef(wd);
    llvm::sys::path::append(absPath, p);
    llvm::sys::fs::make_absolute(absPath);
    emit("rel " + vh::hexEncode(absPath.str().str()));
  }
}

// ---------------------------------------------------------------------------------------------------
// c11bs: the real decision (processDiscoveredDependencies -> command result) through a real BuildSystem
// ---------------------------------------------------------------------------------------------------
class QDelegate : public ExecutionQueueDelegate {
  void queueJobStarted(JobDescriptor*) override {}
  void queueJobFinished(JobDescriptor*) override {}
  void processStarted(ProcessContext*, ProcessHandle, llbuild_pid_t) override {}
  void processHadError(ProcessContext*, ProcessHandle, const Twine&) override {}
  void processHadOutput(ProcessContext*, ProcessHandle, StringRef) override {}
  void processFinished(ProcessContext*, ProcessHandle, const ProcessResult&) override {}
};

class VDelegate : public BuildSystemDelegate {
public:
  std::mutex mu;
  QDelegate qd;
  std::vector<std::string> deps;
  std::vector<std::string> other;
  unsigned depErrors = 0;
  unsigned openErrors = 0;
  unsigned started = 0;
  bool failure = false;
  VDelegate() : BuildSystemDelegate("mock", 0) {}

  void setFileContentsBeingParsed(StringRef) override {}
  void error(StringRef, const Token&, const Twine& message) override {
    std::unique_lock<std::mutex> l(mu); other.push_back("error " + message.str());
  }
  std::unique_ptr<Tool> lookupTool(StringRef) override { return nullptr; }
  std::unique_ptr<ExecutionQueue> createExecutionQueue() override {
    return std::unique_ptr<ExecutionQueue>(createLaneBasedExecutionQueue(
        qd, 1, SchedulerAlgorithm::NamePriority, getDefaultQualityOfService(), nullptr));
  }
  void hadCommandFailure() override { std::unique_lock<std::mutex> l(mu); failure = true; }
  void commandStatusChanged(Command*, CommandStatusKind) override {}
  void commandPreparing(Command*) override {}
  bool shouldCommandStart(Command*) override { return true; }
  void commandStarted(Command*) override { std::unique_lock<std::mutex> l(mu); started++; }
  void commandHadError(Command*, StringRef d) override {
    std::unique_lock<std::mutex> l(mu);
    if (d.startswith("error reading dependency file")) depErrors++;
    else if (d.startswith("unable to open dependencies file")) openErrors++;
    else other.push_back("cmderror " + d.str());
  }
  void commandHadNote(Command*, StringRef) override {}
  void commandHadWarning(Command*, StringRef) override {}
  void commandFinished(Command*, ProcessStatus) override {}
  void commandFoundDiscoveredDependency(Command*, StringRef path, DiscoveredDependencyKind kind) override {
    std::unique_lock<std::mutex> l(mu);
    const char* k = kind == DiscoveredDependencyKind::Input ? "I" : kind == DiscoveredDependencyKind::Missing ? "M" : "O";
    deps.push_back(std::string(k) + ":" + vh::hexEncode(path.str()));
  }
  void commandCannotBuildOutputDueToMissingInputs(Command*, Node*, ArrayRef<BuildKey>) override {}
  Command* chooseCommandFromMultipleProducers(Node*, std::vector<Command*>) override { return nullptr; }
  void cannotBuildNodeDueToMultipleProducers(Node*, std::vector<Command*>) override {}
  void determinedRuleNeedsToRun(core::Rule*, core::Rule::RunReason, core::Rule*) override {}
};

void writeFile(const std::string& path, const std::string& data) {
  std::ofstream f(path, std::ios::binary | std::ios::trunc);
  f.write(data.data(), data.size());
}

void mode_c11bs(const std::string& scratch) {
  std::string line;
  unsigned n = 0;
  while (std::getline(std::cin, line)) {
    auto f = vh::split(line);
    if (f.size() != 3) { emit("bad-op"); continue; }
    std::string style = f[0], wd = vh::hexDecode(f[1]), contents = vh::hexDecode(f[2]);
    std::string dir = scratch + "/c11-" + std::to_string(getpid()) + "-" + std::to_string(n++);
    mkdir(dir.c_str(), 0755);
    std::string manifest = dir + "/manifest.llbuild", depsFile = dir + "/deps.d";
    writeFile(depsFile, contents);
    writeFile(manifest,
              "client:\n  name: mock\n\ncommands:\n  C.1:\n    tool: shell\n    outputs: [\"<out>\"]\n"
              "    args: [\"/bin/true\"]\n    deps: \"" + depsFile + "\"\n    deps-style: " + style + "\n"
              "    working-directory: \"" + wd + "\"\n");
    std::string out;
    {
      VDelegate d;
      BuildSystem system(d, createLocalFileSystem());
      if (!system.loadDescription(manifest)) out = "load-failed";
      else {
        auto r = system.build(BuildKey::makeCommand("C.1"));
        if (!r.hasValue()) out = "no-value failure=" + std::to_string(d.failure) + " other=" + (d.other.empty() ? "-" : vh::hexEncode(d.other[0]));
        else {
          out = std::string("status=") + (r.getValue().isSuccessfulCommand() ? "ok" : r.getValue().isFailedCommand() ? "failed" : "other") +
                " errors=" + std::to_string(d.depErrors) + " deps=" + join(d.deps);
          if (!d.other.empty()) out += " other=" + vh::hexEncode(d.other[0]);
        }
      }
    }
    emit(out);
    unlink(manifest.c_str()); unlink(depsFile.c_str()); rmdir(dir.c_str());
  }
}


// ---------------------------------------------------------------------------------------------------
// c11e2e: histories (build / change a path / build ...) through the real shell-command path with a `deps:` list
// ---------------------------------------------------------------------------------------------------
std::string yamlQuote(const std::string& s) {
  std::string out = "\"";
  char buf[8];
  for (unsigned char c : s) {
    if (c == '"' || c == '\\') { out.push_back('\\'); out.push_back(c); }
    else if (c < 0x20 || c >= 0x7f) { snprintf(buf, sizeof buf, "\\x%02X", c); out += buf; }
    else out.push_back(c);
  }
  return out + "\"";
}

// mkdir -p of every proper prefix of `path` (components are taken literally, `..` included)
void makeParents(const std::string& path) {
  for (size_t i = 1; i < path.size(); i++)
    if (path[i] == '/' && path[i - 1] != '/') mkdir(path.substr(0, i).c_str(), 0755);
}

int rmOne(const char* p, const struct stat*, int, struct FTW*) { return remove(p); }

void mode_c11e2e(const std::string& scratch) {
  std::string line;
  char cwd0[PATH_MAX];
  if (!getcwd(cwd0, sizeof cwd0)) cwd0[0] = 0;
  while (std::getline(std::cin, line)) {
    auto f = vh::split(line);
    if (f.size() != 5) { emit("bad-op"); continue; }
    std::string root = vh::hexDecode(f[0]), style = f[1];
    // the case directory is removed recursively at the end: only ever below the scratch directory
    if (root.compare(0, scratch.size() + 1, scratch + "/") != 0 || root.find("/../") != std::string::npos) { emit("bad-root"); continue; }
    nftw(root.c_str(), rmOne, 16, FTW_DEPTH | FTW_PHYS);
    std::string cwd = root + "/r", dbdir = root + "/db";
    makeParents(cwd + "/x"); makeParents(dbdir + "/x");
    std::string manifest = dbdir + "/manifest.llbuild", db = dbdir + "/build.db";
    bool scalar = f[3].compare(0, 2, "s:") == 0;
    std::vector<std::string> names = vh::hexList(f[3].substr(2));
    std::string m = "client:\n  name: mock\n\ncommands:\n  C.1:\n    tool: shell\n    outputs: [\"<out>\"]\n    args: [\"/bin/true\"]\n";
    if (scalar && names.size() == 1) m += "    deps: " + yamlQuote(names[0]) + "\n";
    else {
      m += "    deps: [";
      for (size_t i = 0; i < names.size(); i++) { if (i) m += ", "; m += yamlQuote(names[i]); }
      m += "]\n";
    }
    m += "    deps-style: " + style + "\n";
    if (f[2] != "none") {
      std::string wd = vh::hexDecode(f[2]);
      m += "    working-directory: " + yamlQuote(wd) + "\n";
      makeParents((wd[0] == '/' ? wd : cwd + "/" + wd) + "/x");
    }
    writeFile(manifest, m);
    if (chdir(cwd.c_str()) != 0) { emit("bad-cwd"); continue; }
    std::string out;
    for (auto& st : vh::split(f[4], ',')) {
      if (st.empty()) continue;
      if (st == "B") {
        std::string o;
        VDelegate d;
        {
          BuildSystem system(d, createLocalFileSystem());
          std::string err;
          if (!system.attachDB(db, &err)) o = "attach-failed";
          else if (!system.loadDescription(manifest)) o = "load-failed";
          else {
            auto r = system.build(BuildKey::makeCommand("C.1"));
            o = std::string("status=") + (!r.hasValue() ? "novalue" : r.getValue().isSuccessfulCommand() ? "ok" :
                                          r.getValue().isFailedCommand() ? "failed" : "other");
          }
        }
        o += " ran=" + std::to_string(d.started) + " errors=" + std::to_string(d.depErrors) + " open=" + std::to_string(d.openErrors) +
             " deps=" + join(d.deps);
        if (!d.other.empty()) o += " other=" + vh::hexEncode(d.other[0]);
        if (!out.empty()) out += " | ";
        out += o;
        continue;
      }
      char op = st[0];
      auto colon = st.find(':');
      std::string path = vh::hexDecode(st.substr(1, colon == std::string::npos ? std::string::npos : colon - 1));
      if (path.compare(0, root.size() + 1, root + "/") != 0) { out += " bad-path"; continue; }
      if (op == 'W' && colon != std::string::npos) { makeParents(path); writeFile(path, vh::hexDecode(st.substr(colon + 1))); }
      else if (op == 'A') {
        makeParents(path);
        int fd = open(path.c_str(), O_WRONLY | O_CREAT | O_APPEND, 0644);
        if (fd < 0 || write(fd, "x", 1) != 1) out += " append-failed";
        if (fd >= 0) close(fd);
      }
      else if (op == 'R') { if (unlink(path.c_str()) != 0) out += " remove-failed"; }
      else out += " bad-step";
    }
    emit(out.empty() ? "." : out);
    if (chdir(cwd0[0] ? cwd0 : "/") != 0) {}
    nftw(root.c_str(), rmOne, 16, FTW_DEPTH | FTW_PHYS);
  }
}

}  // namespace

int main(int argc, char** argv) {
  if (argc < 2) { fprintf(stderr, "usage: vc11 <mode> [scratch]\n"); return 2; }
  std::string mode = argv[1];
  if (mode == "makedeps") mode_makedeps();
  else if (mode == "depinfo") mode_depinfo();
  else if (mode == "resolve") mode_resolve();
  else if (mode == "c11bs" && argc >= 3) mode_c11bs(argv[2]);
  else if (mode == "c11e2e" && argc >= 3) mode_c11e2e(argv[2]);
  else { fprintf(stderr, "unknown mode %s\n", argv[1]); return 2; }
  return 0;
}
