// C19 (build-description clause) harness: byte strings -> the REAL build-description (YAML) loader.
// usage: vc19yaml <mode>     -- one input per stdin line (hex of the file contents), one result line per input,
// flushed after every input, so that when the process dies (sanitizer report, signal, alarm) the input that killed
// it is the one after the last printed line (vlib/props/c19.py restarts the harness behind it).
//
//   file   : buildsystem::BuildFile("/vc19/build.llbuild", delegate).load() with a RECORDING BuildFileDelegate:
//            client name "vclient"; tool "vtool" (scalar attribute "opt", list attribute "opts", map attribute
//            "optmap", everything else is rejected through ConfigureContext::error) creating real ShellCommands;
//            real BuildNodes; every other tool name is unknown.
//   system : BuildSystem(delegate named "vclient", version 0).loadDescription(...): the same loader driven by
//            the build system's own file delegate, i.e. with the real built-in tools (shell, phony, clang, mkdir,
//            symlink, archive, shared-library, stale-file-removal, swift-compiler) and their attribute parsers.
//   model  : (C19 YAML loader MODEL correspondence; input line "<salt> <hex>" or "<salt> nofile")  BuildFile::load() with a
//            fully SCRIPTED delegate whose every answer is a fixed rule that lean/LLBuild/Drv/C19Yaml.lean replicates
//            (tools vtool/shell/phony -> external commands, mkdir/symlink -> non-external commands, archive -> a tool
//            that creates no command, everything else unknown; scripted Tool / Command classes; real BuildNodes).  With
//            salt = 2k+b (k >= 1) the k-th answerable call (configureClient, lookupTool, createCommand, tool / command
//            configureAttribute) is forced to fail: b=0 reporting "forced failure" through its ConfigureContext (where it
//            has one), b=1 silently.  One output line:
//              T <node tree of a SEPARATE run of the real llvm YAML parser over the same bytes> | O <iteration order of an
//              llvm::StringMap holding the loaded command names> | X <every delegate call and error callback of the real
//              load(), in order, with the token offsets of errors / ConfigureContexts> r=<result>
//            tree tokens (preorder): S@off:len:<hex value>  M@off:len:<n> (then n x: E@off:len key value)  L@off:len:<n>
//            N@ B@ A@ (null, block scalar, alias)  Z (a null Node*: malformed input)  D (next document)  '!' after a
//            count = children below depth kTreeDepthCap not printed (the loader never looks below depth 4).
//   capi   : the same loader driven through the public C API (products/libllbuild, llb_buildsystem_create / _initialize) by a
//            client that defines ONE custom tool, "ctool" (llb_buildsystem_tool_create; it creates no commands).  Prints
//            init=<llb_buildsystem_initialize returned> n=<number of handle_diagnostic calls> diags=<hex message,...|.>.
//            Used to replay the witness of C19_yaml_null_implies_error_full_false on an in-tree tool (CAPITool's
//            configureAttribute returns false without reporting).
//   wf     : only asks the vendored YAML parser whether it accepts the whole stream (prints wf=0|1); used to decide
//            whether an input that killed the loader was inside the property's quantifier (well-formed documents).
//
// result line:  r=<1 description returned | 0 null> n=<number of error callbacks> outside=<error tokens that do not
//               lie inside the buffer announced by setFileContentsBeingParsed> wf=<1 if the vendored YAML parser
//               accepts the whole stream> errs=<hex message,...|.>
// Each input runs under alarm(20): a hang kills the process with SIGALRM and is attributed like a crash.
#include "vcommon.h"

#include "llbuild/BuildSystem/BuildDescription.h"
#include "llbuild/BuildSystem/BuildFile.h"
#include "llbuild/BuildSystem/BuildKey.h"
#include "llbuild/BuildSystem/BuildNode.h"
#include "llbuild/BuildSystem/BuildSystem.h"
#include "llbuild/BuildSystem/BuildValue.h"
#include "llbuild/BuildSystem/Command.h"
#include "llbuild/BuildSystem/ShellCommand.h"
#include "llbuild/BuildSystem/Tool.h"
#include "llbuild/Basic/ExecutionQueue.h"
#include "llbuild/Basic/FileSystem.h"
#include "llvm/ADT/StringSet.h"
#include "llvm/Support/MemoryBuffer.h"
#include "llvm/Support/SourceMgr.h"
#include "llvm/Support/YAMLParser.h"
#include "llvm/Support/raw_ostream.h"

#include <llbuild/llbuild.h>

#include <algorithm>
#include <memory>
#include <unistd.h>

using namespace llvm;
using namespace llbuild;
using namespace llbuild::basic;
using namespace llbuild::buildsystem;

namespace {

const char* const kPath = "/vc19/build.llbuild";

// One in-memory file (the build description); everything else is missing.
class OneFileFS : public FileSystem {
public:
  std::string contents;
  bool createDirectory(const std::string&) override { return false; }
  bool createDirectories(const std::string&) override { return false; }
  std::unique_ptr<llvm::MemoryBuffer> getFileContents(const std::string& p) override {
    if (p != kPath) return nullptr;
    return llvm::MemoryBuffer::getMemBufferCopy(contents, p);
  }
  bool remove(const std::string&) override { return false; }
  FileChecksum getFileChecksum(const std::string&) override { return FileChecksum{}; }
  FileInfo getFileInfo(const std::string&) override { return FileInfo{}; }
  FileInfo getLinkInfo(const std::string&) override { return FileInfo{}; }
  bool createSymlink(const std::string&, const std::string&) override { return false; }
};

class RefFS : public FileSystem {
public:
  FileSystem& r;
  RefFS(FileSystem& r) : r(r) {}
  bool createDirectory(const std::string& p) override { return r.createDirectory(p); }
  std::unique_ptr<llvm::MemoryBuffer> getFileContents(const std::string& p) override { return r.getFileContents(p); }
  bool remove(const std::string& p) override { return r.remove(p); }
  FileChecksum getFileChecksum(const std::string& p) override { return r.getFileChecksum(p); }
  bool createDirectories(const std::string& p) override { return r.createDirectories(p); }
  FileInfo getFileInfo(const std::string& p) override { return r.getFileInfo(p); }
  FileInfo getLinkInfo(const std::string& p) override { return r.getLinkInfo(p); }
  bool createSymlink(const std::string& s, const std::string& t) override { return r.createSymlink(s, t); }
};

// What both delegates record.
struct Record {
  std::vector<std::string> errs;
  unsigned outside = 0;
  const char* bufStart = nullptr;
  size_t bufLen = 0;

  void setBuffer(StringRef b) { bufStart = b.data(); bufLen = b.size(); }
  void add(const BuildFileToken& at, const std::string& message) {
    errs.push_back(message);
    // a token is either absent or a range of the buffer being parsed (end-of-buffer position included)
    if (at.start != nullptr) {
      if (bufStart == nullptr || at.start < bufStart || at.start + at.length > bufStart + bufLen + 1) ++outside;
    }
  }
};

// ---- mode file: a recording BuildFileDelegate -------------------------------------------------------------------
class VTool : public Tool {
public:
  using Tool::Tool;
  bool configureAttribute(const ConfigureContext& ctx, StringRef name, StringRef) override {
    if (name == "opt") return true;
    ctx.error("unexpected attribute: '" + name + "'");
    return false;
  }
  bool configureAttribute(const ConfigureContext& ctx, StringRef name, ArrayRef<StringRef>) override {
    if (name == "opts") return true;
    ctx.error("unexpected attribute: '" + name + "'");
    return false;
  }
  bool configureAttribute(const ConfigureContext& ctx, StringRef name,
                          ArrayRef<std::pair<StringRef, StringRef>>) override {
    if (name == "optmap") return true;
    ctx.error("unexpected attribute: '" + name + "'");
    return false;
  }
  std::unique_ptr<Command> createCommand(StringRef name) override {
    return llvm::make_unique<ShellCommand>(name, /*controlEnabled=*/false);
  }
};

class RecFileDelegate : public BuildFileDelegate {
public:
  Record rec;
  OneFileFS fs;
  llvm::StringSet<> interned;
  unsigned targets = 0, commands = 0, defaults = 0;

  StringRef getInternedString(StringRef value) override { return interned.insert(value).first->getKey(); }
  FileSystem& getFileSystem() override { return fs; }
  void setFileContentsBeingParsed(StringRef buffer) override { rec.setBuffer(buffer); }
  void error(StringRef, const BuildFileToken& at, const Twine& message) override { rec.add(at, message.str()); }
  void cannotLoadDueToMultipleProducers(Node*, std::vector<Command*>) override {
    rec.add(BuildFileToken{nullptr, 0}, "multiple producers");
  }
  bool configureClient(const ConfigureContext&, StringRef name, uint32_t version, const property_list_type&) override {
    return name == "vclient" && version == 0;
  }
  std::unique_ptr<Tool> lookupTool(StringRef name) override {
    if (name == "vtool") return llvm::make_unique<VTool>(name);
    return nullptr;
  }
  void loadedTarget(StringRef, const Target&) override { ++targets; }
  void loadedDefaultTarget(StringRef) override { ++defaults; }
  void loadedCommand(StringRef, const Command&) override { ++commands; }
  std::unique_ptr<Node> createNode(StringRef name, bool) override {
    if (name.endswith("/")) return BuildNode::makeDirectory(name);
    if (!name.empty() && name[0] == '<' && name.back() == '>') return BuildNode::makeVirtual(name);
    return BuildNode::makePlain(name);
  }
};

// ---- mode system: the build system's own file delegate behind a recording BuildSystemDelegate -----------------------
class QDelegate : public ExecutionQueueDelegate {
  void queueJobStarted(JobDescriptor*) override {}
  void queueJobFinished(JobDescriptor*) override {}
  void processStarted(ProcessContext*, ProcessHandle, llbuild_pid_t) override {}
  void processHadError(ProcessContext*, ProcessHandle, const Twine&) override {}
  void processHadOutput(ProcessContext*, ProcessHandle, StringRef) override {}
  void processFinished(ProcessContext*, ProcessHandle, const ProcessResult&) override {}
};

class RecSystemDelegate : public BuildSystemDelegate {
public:
  Record rec;
  QDelegate qd;
  RecSystemDelegate() : BuildSystemDelegate("vclient", 0) {}

  void setFileContentsBeingParsed(StringRef buffer) override { rec.setBuffer(buffer); }
  void error(StringRef, const Token& at, const Twine& message) override {
    rec.add(BuildFileToken{at.start, at.length}, message.str());
  }
  std::unique_ptr<Tool> lookupTool(StringRef) override { return nullptr; }
  std::unique_ptr<ExecutionQueue> createExecutionQueue() override {
    return std::unique_ptr<ExecutionQueue>(createLaneBasedExecutionQueue(
        qd, 1, SchedulerAlgorithm::NamePriority, getDefaultQualityOfService(), nullptr));
  }
  void hadCommandFailure() override {}
  void commandStatusChanged(Command*, CommandStatusKind) override {}
  void commandPreparing(Command*) override {}
  bool shouldCommandStart(Command*) override { return false; }
  void commandStarted(Command*) override {}
  void commandHadError(Command*, StringRef) override {}
  void commandHadNote(Command*, StringRef) override {}
  void commandHadWarning(Command*, StringRef) override {}
  void commandFinished(Command*, ProcessStatus) override {}
  void commandFoundDiscoveredDependency(Command*, StringRef, DiscoveredDependencyKind) override {}
  void commandCannotBuildOutputDueToMissingInputs(Command*, Node*, ArrayRef<BuildKey>) override {}
  Command* chooseCommandFromMultipleProducers(Node*, std::vector<Command*>) override { return nullptr; }
  void cannotBuildNodeDueToMultipleProducers(Node*, std::vector<Command*>) override {
    rec.add(BuildFileToken{nullptr, 0}, "multiple producers");
  }
  void determinedRuleNeedsToRun(core::Rule*, core::Rule::RunReason, core::Rule*) override {}
};

// Does the vendored YAML parser accept the whole stream?  (Its diagnostics go to a handler that drops them.)
void dropDiag(const SMDiagnostic&, void*) {}

bool wellFormed(const std::string& contents) {
  SourceMgr sm;
  sm.setDiagHandler(dropDiag, nullptr);
  auto buf = MemoryBuffer::getMemBufferCopy(contents, "wf");
  yaml::Stream stream(buf->getMemBufferRef(), sm);
  for (auto it = stream.begin(); it != stream.end(); ++it) {
    if (auto* root = it->getRoot()) root->skip();
    else break;
  }
  return !stream.failed();
}

std::string resultLine(bool loaded, const Record& rec, bool wf) {
  std::string out = std::string("r=") + (loaded ? "1" : "0") + " n=" + std::to_string(rec.errs.size()) +
                    " outside=" + std::to_string(rec.outside) + " wf=" + (wf ? "1" : "0") + " errs=";
  if (rec.errs.empty()) out += ".";
  for (size_t i = 0; i < rec.errs.size(); i++) { if (i) out += ","; out += vh::hexEncode(rec.errs[i]); }
  return out;
}

void run(bool viaSystem) {
  std::string line;
  while (std::getline(std::cin, line)) {
    std::string contents = vh::hexDecode(line);
    alarm(20);
    std::string out;
    if (!viaSystem) {
      RecFileDelegate d;
      d.fs.contents = contents;
      bool loaded;
      {
        BuildFile file(kPath, d);
        std::unique_ptr<BuildDescription> description = file.load();
        loaded = description != nullptr;
      }
      out = resultLine(loaded, d.rec, wellFormed(contents));
    } else {
      OneFileFS fs;
      fs.contents = contents;
      RecSystemDelegate d;
      bool loaded;
      {
        BuildSystem system(d, std::unique_ptr<FileSystem>(new RefFS(fs)));
        loaded = system.loadDescription(kPath);
      }
      out = resultLine(loaded, d.rec, wellFormed(contents));
    }
    alarm(0);
    std::cout << out << "\n";
    std::cout.flush();
  }
}


// ---- mode model: scripted delegate + node tree of the real YAML parser ------------------------------------------------
const unsigned kTreeDepthCap = 6;

struct TreeDump {
  const char* base = nullptr;
  bool sawNull = false;
  std::string at(yaml::Node* n) {
    SMRange r = n->getSourceRange();
    return "@" + std::to_string(r.Start.getPointer() - base) + ":" + std::to_string(r.End.getPointer() - r.Start.getPointer());
  }
  void node(yaml::Node* n, unsigned depth, std::string& out) {
    if (!n) { sawNull = true; out += " Z"; return; }
    switch (n->getType()) {
    case yaml::Node::NK_Scalar: {
      SmallString<256> storage;
      out += " S" + at(n) + ":" + vh::hexEncode(static_cast<yaml::ScalarNode*>(n)->getValue(storage).str());
      return;
    }
    case yaml::Node::NK_Mapping: {
      std::string kids; unsigned count = 0; bool pruned = depth >= kTreeDepthCap;
      if (!pruned) {
        for (auto& e : *static_cast<yaml::MappingNode*>(n)) {
          kids += " E" + at(&e);
          node(e.getKey(), depth + 1, kids);
          node(e.getValue(), depth + 1, kids);
          ++count;
        }
      }
      out += " M" + at(n) + ":" + std::to_string(count) + (pruned ? "!" : "") + kids;
      return;
    }
    case yaml::Node::NK_Sequence: {
      std::string kids; unsigned count = 0; bool pruned = depth >= kTreeDepthCap;
      if (!pruned) {
        for (auto& e : *static_cast<yaml::SequenceNode*>(n)) { node(&e, depth + 1, kids); ++count; }
      }
      out += " L" + at(n) + ":" + std::to_string(count) + (pruned ? "!" : "") + kids;
      return;
    }
    case yaml::Node::NK_Null: out += " N" + at(n); return;
    case yaml::Node::NK_BlockScalar: out += " B" + at(n); return;
    case yaml::Node::NK_Alias: out += " A" + at(n); return;
    default: out += " K" + at(n); return;   // NK_KeyValue cannot be a child
    }
  }
};

// the tree of every document of the stream, as the real parser produces it; sets wf
std::string dumpTree(const std::string& contents, bool& wf) {
  SourceMgr sm;
  sm.setDiagHandler(dropDiag, nullptr);
  auto buf = MemoryBuffer::getMemBufferCopy(contents, "tree");
  yaml::Stream stream(buf->getMemBufferRef(), sm);
  TreeDump td;
  td.base = buf->getBufferStart();
  std::string out = "T";
  bool first = true;
  for (auto it = stream.begin(); it != stream.end(); ++it) {
    if (!first) out += " D";
    first = false;
    yaml::Node* root = it->getRoot();
    td.node(root, 0, out);
    if (!root) break;
  }
  wf = !stream.failed() && !td.sawNull;
  return out;
}

class MDelegate;

struct MTrace {
  std::vector<std::string> items;
  const char* bufStart = nullptr;
  size_t bufLen = 0;
  unsigned salt = 0, calls = 0;
  std::string at(const BuildFileToken& t) const {
    if (t.start == nullptr) return "none";
    if (bufStart == nullptr || t.start < bufStart || t.start + t.length > bufStart + bufLen + 1) return "outside";
    return std::to_string(t.start - bufStart) + "+" + std::to_string(t.length);
  }
  // the k-th answerable call is forced to fail when salt = 2k+b; silent iff b = 1
  bool forced(bool& silent) {
    ++calls;
    if (salt >= 2 && calls == salt / 2) { silent = (salt & 1) != 0; return true; }
    return false;
  }
  // an answer with a ConfigureContext: apply the forced failure, report, record the completed call
  bool answer(const std::string& item, const ConfigureContext& ctx, bool ok, const std::string& err) {
    bool silent = false;
    std::string e = ok ? std::string() : err;
    if (forced(silent)) { ok = false; e = silent ? std::string() : std::string("forced failure"); }
    if (!ok && !e.empty()) ctx.error(e);
    items.push_back(item + ":" + at(ctx.at) + ":" + (ok ? "1" : "0"));
    return ok;
  }
};

std::string hexNames(const std::vector<Node*>& v) {
  std::vector<std::string> l;
  for (auto* n : v) l.push_back(n->getName().str());
  return vh::hexListEncode(l);
}
std::string hexPairs(ArrayRef<std::pair<StringRef, StringRef>> v) {
  if (v.empty()) return ".";
  std::string out;
  for (size_t i = 0; i < v.size(); i++) { if (i) out += ","; out += vh::hexEncode(v[i].first.str()) + "=" + vh::hexEncode(v[i].second.str()); }
  return out;
}
std::string hexRefs(ArrayRef<StringRef> v) {
  std::vector<std::string> l;
  for (auto s : v) l.push_back(s.str());
  return vh::hexListEncode(l);
}

class MCommand : public Command {
  MTrace& t;
  bool external;
  std::string hn() const { return vh::hexEncode(getName().str()); }
public:
  MCommand(StringRef name, MTrace& t, bool external) : Command(name), t(t), external(external) {}
  void getShortDescription(SmallVectorImpl<char>&) const override {}
  void getVerboseDescription(SmallVectorImpl<char>&) const override {}
  void configureDescription(const ConfigureContext& ctx, StringRef v) override {
    if (v.empty()) ctx.error("empty description");
    t.items.push_back("cd:" + hn() + ":" + vh::hexEncode(v.str()) + ":" + t.at(ctx.at));
  }
  void configureInputs(const ConfigureContext& ctx, const std::vector<Node*>& v) override {
    for (auto* n : v) inputs.push_back(static_cast<BuildNode*>(n));
    t.items.push_back("ci:" + hn() + ":" + hexNames(v) + ":" + t.at(ctx.at));
  }
  void configureOutputs(const ConfigureContext& ctx, const std::vector<Node*>& v) override {
    for (auto* n : v) outputs.push_back(static_cast<BuildNode*>(n));
    t.items.push_back("co:" + hn() + ":" + hexNames(v) + ":" + t.at(ctx.at));
  }
  bool configureAttribute(const ConfigureContext& ctx, StringRef name, StringRef value) override {
    std::string item = "ca:" + hn() + ":" + vh::hexEncode(name.str()) + ":s=" + vh::hexEncode(value.str());
    if (name == "allow-missing-inputs" || name == "allow-modified-outputs" || name == "always-out-of-date") {
      bool ok = value == "true" || value == "false";
      return t.answer(item, ctx, ok, ("invalid value: '" + value + "' for attribute '" + name + "'").str());
    }
    if (name == "repair-via-ownership-analysis") {
      bool ok = value == "true" || value == "false";
      bool r = t.answer(item, ctx, ok, ("invalid value for attribute: '" + name + "'").str());
      if (r) repairViaOwnershipAnalysis = value == "true";
      return r;
    }
    bool known = name == "args" || name == "signature" || name == "working-directory" || name == "deps" || name == "deps-style" ||
                 name == "inherit-env" || name == "can-safely-interrupt" || name == "control-enabled";
    return t.answer(item, ctx, known, ("unexpected attribute: '" + name + "'").str());
  }
  bool configureAttribute(const ConfigureContext& ctx, StringRef name, ArrayRef<StringRef> values) override {
    std::string item = "ca:" + hn() + ":" + vh::hexEncode(name.str()) + ":l=" + hexRefs(values);
    return t.answer(item, ctx, name == "args" || name == "deps", ("unexpected attribute: '" + name + "'").str());
  }
  bool configureAttribute(const ConfigureContext& ctx, StringRef name, ArrayRef<std::pair<StringRef, StringRef>> values) override {
    std::string item = "ca:" + hn() + ":" + vh::hexEncode(name.str()) + ":m=" + hexPairs(values);
    return t.answer(item, ctx, name == "env", ("unexpected attribute: '" + name + "'").str());
  }
  BuildValue getResultForOutput(Node*, const BuildValue&) override { return BuildValue::makeInvalid(); }
  bool isResultValid(BuildSystem&, const BuildValue&) override { return false; }
  void start(BuildSystem&, core::TaskInterface) override {}
  void providePriorValue(BuildSystem&, core::TaskInterface, const BuildValue&) override {}
  void provideValue(BuildSystem&, core::TaskInterface, uintptr_t, const core::KeyType&, const BuildValue&) override {}
  bool isExternalCommand() const override { return external; }
  void execute(BuildSystem&, core::TaskInterface, basic::QueueJobContext*, ResultFn) override {}
};

class MTool : public Tool {
  MTrace& t;
  std::string hn() const { return vh::hexEncode(getName().str()); }
public:
  MTool(StringRef name, MTrace& t) : Tool(name), t(t) {}
  bool configureAttribute(const ConfigureContext& ctx, StringRef name, StringRef value) override {
    return t.answer("ta:" + hn() + ":" + vh::hexEncode(name.str()) + ":s=" + vh::hexEncode(value.str()), ctx, name == "opt",
                    ("unexpected attribute: '" + name + "'").str());
  }
  bool configureAttribute(const ConfigureContext& ctx, StringRef name, ArrayRef<StringRef> values) override {
    return t.answer("ta:" + hn() + ":" + vh::hexEncode(name.str()) + ":l=" + hexRefs(values), ctx, name == "opts",
                    ("unexpected attribute: '" + name + "'").str());
  }
  bool configureAttribute(const ConfigureContext& ctx, StringRef name, ArrayRef<std::pair<StringRef, StringRef>> values) override {
    return t.answer("ta:" + hn() + ":" + vh::hexEncode(name.str()) + ":m=" + hexPairs(values), ctx, name == "optmap",
                    ("unexpected attribute: '" + name + "'").str());
  }
  std::unique_ptr<Command> createCommand(StringRef name) override {
    bool silent = false;
    bool ok = getName() != "archive";
    if (t.forced(silent)) ok = false;
    t.items.push_back("mk:" + hn() + ":" + vh::hexEncode(name.str()) + ":" + (ok ? "1" : "0"));
    if (!ok) return nullptr;
    bool external = getName() == "vtool" || getName() == "shell" || getName() == "phony";
    return llvm::make_unique<MCommand>(name, t, external);
  }
};

class MDelegate : public BuildFileDelegate {
public:
  MTrace t;
  OneFileFS fs;
  bool readable = true;
  llvm::StringSet<> interned;
  std::vector<std::string> loadedCommands;

  StringRef getInternedString(StringRef value) override { return interned.insert(value).first->getKey(); }
  FileSystem& getFileSystem() override { return fs; }
  void setFileContentsBeingParsed(StringRef buffer) override {
    t.bufStart = buffer.data(); t.bufLen = buffer.size();
    t.items.push_back("sb");
  }
  void error(StringRef, const BuildFileToken& at, const Twine& message) override {
    t.items.push_back("x:" + vh::hexEncode(message.str()) + ":" + t.at(at));
  }
  void cannotLoadDueToMultipleProducers(Node* output, std::vector<Command*> commands) override {
    std::vector<std::string> l;
    for (auto* c : commands) l.push_back(c->getName().str());
    t.items.push_back("mp:" + vh::hexEncode(output->getName().str()) + ":" + vh::hexListEncode(l));
  }
  bool configureClient(const ConfigureContext& ctx, StringRef name, uint32_t version, const property_list_type& props) override {
    std::string p = ".";
    if (!props.empty()) {
      p.clear();
      for (size_t i = 0; i < props.size(); i++) { if (i) p += ","; p += vh::hexEncode(props[i].first) + "=" + vh::hexEncode(props[i].second); }
    }
    bool ok = name == "vclient" && version == 0;
    return t.answer("cc:" + vh::hexEncode(name.str()) + ":" + std::to_string(version) + ":" + p, ctx, ok, "unexpected client");
  }
  std::unique_ptr<Tool> lookupTool(StringRef name) override {
    bool silent = false;
    bool ok = name == "vtool" || name == "shell" || name == "phony" || name == "mkdir" || name == "symlink" || name == "archive";
    if (t.forced(silent)) ok = false;
    t.items.push_back("lt:" + vh::hexEncode(name.str()) + ":" + (ok ? "1" : "0"));
    if (!ok) return nullptr;
    return llvm::make_unique<MTool>(name, t);
  }
  void loadedTarget(StringRef name, const Target& target) override {
    t.items.push_back("tg:" + vh::hexEncode(name.str()) + ":" + hexNames(target.getNodes()));
  }
  void loadedDefaultTarget(StringRef name) override { t.items.push_back("dt:" + vh::hexEncode(name.str())); }
  void loadedCommand(StringRef name, const Command&) override {
    loadedCommands.push_back(name.str());
    t.items.push_back("lc:" + vh::hexEncode(name.str()));
  }
  std::unique_ptr<Node> createNode(StringRef name, bool isImplicit) override {
    t.items.push_back("cn:" + vh::hexEncode(name.str()) + ":" + (isImplicit ? "1" : "0"));
    if (name.endswith("/")) return BuildNode::makeDirectory(name);
    if (!name.empty() && name[0] == '<' && name.back() == '>') return BuildNode::makeVirtual(name);
    return BuildNode::makePlain(name);
  }
};

template <typename Map> std::string sortedKeys(const Map& m) {
  std::vector<std::string> l;
  for (auto& e : m) l.push_back(e.getKey().str());
  std::sort(l.begin(), l.end());
  return vh::hexListEncode(l);
}

void runModel() {
  std::string line;
  while (std::getline(std::cin, line)) {
    auto f = vh::split(line);
    if (f.size() != 2) { std::cout << "bad-op\n"; std::cout.flush(); continue; }
    alarm(20);
    MDelegate d;
    d.t.salt = (unsigned)atoi(f[0].c_str());
    std::string contents;
    bool readable = f[1] != "nofile";
    if (readable) contents = vh::hexDecode(f[1]);
    d.fs.contents = contents;
    std::string result;
    {
      BuildFile file(readable ? kPath : "/vc19/missing.llbuild", d);
      std::unique_ptr<BuildDescription> description = file.load();
      if (!description) result = "r=null";
      else {
        // the description: tools, targets, default target, nodes with their final type, commands (each sorted)
        std::vector<std::string> nodes;
        for (auto& e : description->getNodes()) {
          auto* n = static_cast<BuildNode*>(e.second.get());
          nodes.push_back(e.getKey().str() + (n->isVirtual() ? "=v" : n->isDirectory() ? "=d" : n->isDirectoryStructure() ? "=s" : "=p"));
        }
        std::sort(nodes.begin(), nodes.end());
        result = "r=desc:" + sortedKeys(description->getTools()) + ":" + sortedKeys(description->getTargets()) + ":" +
                 vh::hexEncode(description->getDefaultTarget()) + ":" + vh::hexListEncode(nodes) + ":" + sortedKeys(description->getCommands());
      }
    }
    // iteration order of a StringMap that received the loaded command names in the loader's insertion order
    BuildDescription::command_set order;
    for (auto& n : d.loadedCommands) order[n] = nullptr;
    std::vector<std::string> ord;
    for (auto& e : order) ord.push_back(e.getKey().str());
    bool wf = false;
    std::string tree = readable ? dumpTree(contents, wf) : std::string("T nofile");
    if (!readable) wf = true;
    alarm(0);
    std::string out = tree + " | O " + vh::hexListEncode(ord) + " | wf=" + (wf ? "1" : "0") + " | X";
    for (auto& it : d.t.items) out += " " + it;
    out += " " + result;
    std::cout << out << "\n";
    std::cout.flush();
  }
}


// ---- mode capi: the loader behind the public C API, with a client-defined tool --------------------------------------
struct CapiCtx { std::string contents; std::vector<std::string> diags; };

bool capiGetFileContents(void* c, const char* path, llb_data_t* out) {
  auto* ctx = static_cast<CapiCtx*>(c);
  if (std::string(path) != kPath) return false;
  char* copy = (char*)malloc(ctx->contents.size() + 1);
  memcpy(copy, ctx->contents.data(), ctx->contents.size());
  out->length = ctx->contents.size();
  out->data = (const uint8_t*)copy;
  return true;
}
void capiDiag(void* c, llb_buildsystem_diagnostic_kind_t, const char*, int, int, const char* message) {
  static_cast<CapiCtx*>(c)->diags.push_back(message);
}
llb_buildsystem_command_t* capiCreateCommand(void*, const llb_data_t*) { return nullptr; }
llb_buildsystem_tool_t* capiLookupTool(void*, const llb_data_t* name) {
  if (std::string((const char*)name->data, name->length) != "ctool") return nullptr;
  llb_buildsystem_tool_delegate_t td = {};
  td.create_command = capiCreateCommand;
  return llb_buildsystem_tool_create(name, td);
}
void capiCmd(void*, llb_buildsystem_command_t*) {}
void capiCmdFinished(void*, llb_buildsystem_command_t*, llb_buildsystem_command_result_t) {}
void capiDep(void*, llb_buildsystem_command_t*, const char*, llb_buildsystem_discovered_dependency_kind_t) {}
void capiProcStarted(void*, llb_buildsystem_command_t*, llb_buildsystem_process_t*) {}
void capiProcData(void*, llb_buildsystem_command_t*, llb_buildsystem_process_t*, const llb_data_t*) {}
void capiProcFinished(void*, llb_buildsystem_command_t*, llb_buildsystem_process_t*, const llb_buildsystem_command_extended_result_t*) {}

void runCAPI() {
  std::string line;
  while (std::getline(std::cin, line)) {
    alarm(20);
    CapiCtx ctx;
    ctx.contents = vh::hexDecode(line);
    llb_buildsystem_delegate_t d = {};
    d.context = &ctx;
    d.fs_get_file_contents = capiGetFileContents;
    d.handle_diagnostic = capiDiag;
    d.lookup_tool = capiLookupTool;
    d.command_started = capiCmd;
    d.command_finished = capiCmdFinished;
    d.command_found_discovered_dependency = capiDep;
    d.command_process_started = capiProcStarted;
    d.command_process_had_error = capiProcData;
    d.command_process_had_output = capiProcData;
    d.command_process_finished = capiProcFinished;
    llb_buildsystem_invocation_t inv = {};
    inv.buildFilePath = kPath;
    inv.useSerialBuild = true;
    llb_buildsystem_t* system = llb_buildsystem_create(d, inv);
    bool ok = llb_buildsystem_initialize(system);
    llb_buildsystem_destroy(system);
    alarm(0);
    std::cout << "init=" << (ok ? "1" : "0") << " n=" << ctx.diags.size() << " diags=" << vh::hexListEncode(ctx.diags) << "\n";
    std::cout.flush();
  }
}

}  // namespace

int main(int argc, char** argv) {
  std::ios::sync_with_stdio(false);
  if (argc < 2) return 2;
  std::string mode = argv[1];
  if (mode == "file") run(false);
  else if (mode == "system") run(true);
  else if (mode == "model") runModel();
  else if (mode == "capi") runCAPI();
  else if (mode == "wf") {
    std::string line;
    while (std::getline(std::cin, line)) {
      alarm(20);
      bool wf = wellFormed(vh::hexDecode(line));
      alarm(0);
      std::cout << "wf=" << (wf ? "1" : "0") << "\n";
      std::cout.flush();
    }
  }
  else { fprintf(stderr, "unknown mode %s\n", argv[1]); return 2; }
  return 0;
}
