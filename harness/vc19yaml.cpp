// C19 (build-description clause) harness: byte strings -> the REAL build-description (YAML) loader.
// usage: vc19yaml <mode>     -- one input per stdin line (hex of the file contents), one result line per input,
// flushed after every input, so that when the process dies (sanitizer report, signal, alarm) the input that killed
// it is the one after the last printed line (vlib/props/c19.py restarts the harness behind it).
//
//   file   : buildsystem::BuildFile("/vc19/build.llbuild", delegate).load() with a RECORDING BuildFileDelegate:
//            client name "vclient"; tool "vtool" (scalar attribute "opt", list attribute "opts", map attribute
//            "optmap", everything else is rejected through ConfigureContext::error) creating real ShellCommands;
//            real BuildNodes; every other tool name is unknown.
//   system : BuildSystem(delegate named "vclient", version 0).loadDescription(...): the same loader driven by
//            the build system's own file delegate, i.e. with the real built-in tools (shell, phony, clang, mkdir,
//            symlink, archive, shared-library, stale-file-removal, swift-compiler) and their attribute parsers.
//   wf     : only asks the vendored YAML parser whether it accepts the whole stream (prints wf=0|1); used to decide
//            whether an input that killed the loader was inside the property's quantifier (well-formed documents).
//
// result line:  r=<1 description returned | 0 null> n=<number of error callbacks> outside=<error tokens that do not
//               lie inside the buffer announced by setFileContentsBeingParsed> wf=<1 if the vendored YAML parser
//               accepts the whole stream> errs=<hex message,...|.>
// Each input runs under alarm(20): a hang kills the process with SIGALRM and is attributed like a crash.
#include "vcommon.h"

#include "llbuild/BuildSystem/BuildDescription.h"
#include "llbuild/BuildSystem/BuildFile.h"
#include "llbuild/BuildSystem/BuildKey.h"
#include "llbuild/BuildSystem/BuildNode.h"
#include "llbuild/BuildSystem/BuildSystem.h"
#include "llbuild/BuildSystem/BuildValue.h"
#include "llbuild/BuildSystem/Command.h"
#include "llbuild/BuildSystem/ShellCommand.h"
#include "llbuild/BuildSystem/Tool.h"
#include "llbuild/Basic/ExecutionQueue.h"
#include "llbuild/Basic/FileSystem.h"
#include "llvm/ADT/StringSet.h"
#include "llvm/Support/MemoryBuffer.h"
#include "llvm/Support/SourceMgr.h"
#include "llvm/Support/YAMLParser.h"
#include "llvm/Support/raw_ostream.h"

#include <memory>
#include <unistd.h>

using namespace llvm;
using namespace llbuild;
using namespace llbuild::basic;
using namespace llbuild::buildsystem;

namespace {

const char* const kPath = "/vc19/build.llbuild";

// One in-memory file (the build description); everything else is missing.
class OneFileFS : public FileSystem {
public:
  std::string contents;
  bool createDirectory(const std::string&) override { return false; }
  bool createDirectories(const std::string&) override { return false; }
  std::unique_ptr<llvm::MemoryBuffer> getFileContents(const std::string& p) override {
    if (p != kPath) return nullptr;
    return llvm::MemoryBuffer::getMemBufferCopy(contents, p);
  }
  bool remove(const std::string&) override { return false; }
  FileChecksum getFileChecksum(const std::string&) override { return FileChecksum{}; }
  FileInfo getFileInfo(const std::string&) override { return FileInfo{}; }
  FileInfo getLinkInfo(const std::string&) override { return FileInfo{}; }
  bool createSymlink(const std::string&, const std::string&) override { return false; }
};

class RefFS : public FileSystem {
public:
  FileSystem& r;
  RefFS(FileSystem& r) : r(r) {}
  bool createDirectory(const std::string& p) override { return r.createDirectory(p); }
  std::unique_ptr<llvm::MemoryBuffer> getFileContents(const std::string& p) override { return r.getFileContents(p); }
  bool remove(const std::string& p) override { return r.remove(p); }
  FileChecksum getFileChecksum(const std::string& p) override { return r.getFileChecksum(p); }
  bool createDirectories(const std::string& p) override { return r.createDirectories(p); }
  FileInfo getFileInfo(const std::string& p) override { return r.getFileInfo(p); }
  FileInfo getLinkInfo(const std::string& p) override { return r.getLinkInfo(p); }
  bool createSymlink(const std::string& s, const std::string& t) override { return r.createSymlink(s, t); }
};

// What both delegates record.
struct Record {
  std::vector<std::string> errs;
  unsigned outside = 0;
  const char* bufStart = nullptr;
  size_t bufLen = 0;

  void setBuffer(StringRef b) { bufStart = b.data(); bufLen = b.size(); }
  void add(const BuildFileToken& at, const std::string& message) {
    errs.push_back(message);
    // a token is either absent or a range of the buffer being parsed (end-of-buffer position included)
    if (at.start != nullptr) {
      if (bufStart == nullptr || at.start < bufStart || at.start + at.length > bufStart + bufLen + 1) ++outside;
    }
  }
};

// ---- mode file: a recording BuildFileDelegate -------------------------------------------------------------------
class VTool : public Tool {
public:
  using Tool::Tool;
  bool configureAttribute(const ConfigureContext& ctx, StringRef name, StringRef) override {
    if (name == "opt") return true;
    ctx.error("unexpected attribute: '" + name + "'");
    return false;
  }
  bool configureAttribute(const ConfigureContext& ctx, StringRef name, ArrayRef<StringRef>) override {
    if (name == "opts") return true;
    ctx.error("unexpected attribute: '" + name + "'");
    return false;
  }
  bool configureAttribute(const ConfigureContext& ctx, StringRef name,
                          ArrayRef<std::pair<StringRef, StringRef>>) override {
    if (name == "optmap") return true;
    ctx.error("unexpected attribute: '" + name + "'");
    return false;
  }
  std::unique_ptr<Command> createCommand(StringRef name) override {
    return llvm::make_unique<ShellCommand>(name, /*controlEnabled=*/false);
  }
};

class RecFileDelegate : public BuildFileDelegate {
public:
  Record rec;
  OneFileFS fs;
  llvm::StringSet<> interned;
  unsigned targets = 0, commands = 0, defaults = 0;

  StringRef getInternedString(StringRef value) override { return interned.insert(value).first->getKey(); }
  FileSystem& getFileSystem() override { return fs; }
  void setFileContentsBeingParsed(StringRef buffer) override { rec.setBuffer(buffer); }
  void error(StringRef, const BuildFileToken& at, const Twine& message) override { rec.add(at, message.str()); }
  void cannotLoadDueToMultipleProducers(Node*, std::vector<Command*>) override {
    rec.add(BuildFileToken{nullptr, 0}, "multiple producers");
  }
  bool configureClient(const ConfigureContext&, StringRef name, uint32_t version, const property_list_type&) override {
    return name == "vclient" && version == 0;
  }
  std::unique_ptr<Tool> lookupTool(StringRef name) override {
    if (name == "vtool") return llvm::make_unique<VTool>(name);
    return nullptr;
  }
  void loadedTarget(StringRef, const Target&) override { ++targets; }
  void loadedDefaultTarget(StringRef) override { ++defaults; }
  void loadedCommand(StringRef, const Command&) override { ++commands; }
  std::unique_ptr<Node> createNode(StringRef name, bool) override {
    if (name.endswith("/")) return BuildNode::makeDirectory(name);
    if (!name.empty() && name[0] == '<' && name.back() == '>') return BuildNode::makeVirtual(name);
    return BuildNode::makePlain(name);
  }
};

// ---- mode system: the build system's own file delegate behind a recording BuildSystemDelegate -----------------------
class QDelegate : public ExecutionQueueDelegate {
  void queueJobStarted(JobDescriptor*) override {}
  void queueJobFinished(JobDescriptor*) override {}
  void processStarted(ProcessContext*, ProcessHandle, llbuild_pid_t) override {}
  void processHadError(ProcessContext*, ProcessHandle, const Twine&) override {}
  void processHadOutput(ProcessContext*, ProcessHandle, StringRef) override {}
  void processFinished(ProcessContext*, ProcessHandle, const ProcessResult&) override {}
};

class RecSystemDelegate : public BuildSystemDelegate {
public:
  Record rec;
  QDelegate qd;
  RecSystemDelegate() : BuildSystemDelegate("vclient", 0) {}

  void setFileContentsBeingParsed(StringRef buffer) override { rec.setBuffer(buffer); }
  void error(StringRef, const Token& at, const Twine& message) override {
    rec.add(BuildFileToken{at.start, at.length}, message.str());
  }
  std::unique_ptr<Tool> lookupTool(StringRef) override { return nullptr; }
  std::unique_ptr<ExecutionQueue> createExecutionQueue() override {
    return std::unique_ptr<ExecutionQueue>(createLaneBasedExecutionQueue(
        qd, 1, SchedulerAlgorithm::NamePriority, getDefaultQualityOfService(), nullptr));
  }
  void hadCommandFailure() override {}
  void commandStatusChanged(Command*, CommandStatusKind) override {}
  void commandPreparing(Command*) override {}
  bool shouldCommandStart(Command*) override { return false; }
  void commandStarted(Command*) override {}
  void commandHadError(Command*, StringRef) override {}
  void commandHadNote(Command*, StringRef) override {}
  void commandHadWarning(Command*, StringRef) override {}
  void commandFinished(Command*, ProcessStatus) override {}
  void commandFoundDiscoveredDependency(Command*, StringRef, DiscoveredDependencyKind) override {}
  void commandCannotBuildOutputDueToMissingInputs(Command*, Node*, ArrayRef<BuildKey>) override {}
  Command* chooseCommandFromMultipleProducers(Node*, std::vector<Command*>) override { return nullptr; }
  void cannotBuildNodeDueToMultipleProducers(Node*, std::vector<Command*>) override {
    rec.add(BuildFileToken{nullptr, 0}, "multiple producers");
  }
  void determinedRuleNeedsToRun(core::Rule*, core::Rule::RunReason, core::Rule*) override {}
};

// Does the vendored YAML parser accept the whole stream?  (Its diagnostics go to a handler that drops them.)
void dropDiag(const SMDiagnostic&, void*) {}

bool wellFormed(const std::string& contents) {
  SourceMgr sm;
  sm.setDiagHandler(dropDiag, nullptr);
  auto buf = MemoryBuffer::getMemBufferCopy(contents, "wf");
  yaml::Stream stream(buf->getMemBufferRef(), sm);
  for (auto it = stream.begin(); it != stream.end(); ++it) {
    if (auto* root = it->getRoot()) root->skip();
    else break;
  }
  return !stream.failed();
}

std::string resultLine(bool loaded, const Record& rec, bool wf) {
  std::string out = std::string("r=") + (loaded ? "1" : "0") + " n=" + std::to_string(rec.errs.size()) +
                    " outside=" + std::to_string(rec.outside) + " wf=" + (wf ? "1" : "0") + " errs=";
  if (rec.errs.empty()) out += ".";
  for (size_t i = 0; i < rec.errs.size(); i++) { if (i) out += ","; out += vh::hexEncode(rec.errs[i]); }
  return out;
}

void run(bool viaSystem) {
  std::string line;
  while (std::getline(std::cin, line)) {
    std::string contents = vh::hexDecode(line);
    alarm(20);
    std::string out;
    if (!viaSystem) {
      RecFileDelegate d;
      d.fs.contents = contents;
      bool loaded;
      {
        BuildFile file(kPath, d);
        std::unique_ptr<BuildDescription> description = file.load();
        loaded = description != nullptr;
      }
      out = resultLine(loaded, d.rec, wellFormed(contents));
    } else {
      OneFileFS fs;
      fs.contents = contents;
      RecSystemDelegate d;
      bool loaded;
      {
        BuildSystem system(d, std::unique_ptr<FileSystem>(new RefFS(fs)));
        loaded = system.loadDescription(kPath);
      }
      out = resultLine(loaded, d.rec, wellFormed(contents));
    }
    alarm(0);
    std::cout << out << "\n";
    std::cout.flush();
  }
}

}  // namespace

int main(int argc, char** argv) {
  std::ios::sync_with_stdio(false);
  if (argc < 2) return 2;
  std::string mode = argv[1];
  if (mode == "file") run(false);
  else if (mode == "system") run(true);
  else if (mode == "wf") {
    std::string line;
    while (std::getline(std::cin, line)) {
      alarm(20);
      bool wf = wellFormed(vh::hexDecode(line));
      alarm(0);
      std::cout << "wf=" << (wf ? "1" : "0") << "\n";
      std::cout.flush();
    }
  }
  else { fprintf(stderr, "unknown mode %s\n", argv[1]); return 2; }
  return 0;
}
