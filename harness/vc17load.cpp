// C17LOAD harness: the REAL ninja::Parser and the REAL ninja::ManifestLoader on in-memory files.
//
// usage: vc17load <mode>      one case per stdin line, one canonical line per case on stdout
//   case line:  wd:<hex> file:<abs-path-hex>:<content-hex> [file:...]*       (first file = main manifest)
//   c17decls    runs Parser on every file with a printing ParseActions: the declaration stream
//               "wd:<hex> file:<hex> <items...> file:<hex> ..." consumed by the Lean driver (Drv/C17Load.lean)
//   c17load     runs ManifestLoader::load() in a forked child (stack overflow / hang = a result line
//               "CRASH sig=<n>") and prints the loaded manifest canonically (same format as the driver)
//   c17parse    case line = <hex of manifest bytes>: runs Parser on an exact-size heap copy (no terminator, so that a
//               sanitizer build sees any over-read) with a ParseActions that prints EVERY callback in order with its
//               token payloads (kind/offset/length/line/column) and the error message text:
//               "ok <item> <item> ..." - the same text as the Lean driver mode `c17parse` (Drv/C17Parse.lean).
//               One flushed line per case, alarm(20) per case: a crash / hang is attributed by the caller.
#include "vcommon.h"

#include "llbuild/Basic/LLVM.h"
#include "llbuild/Ninja/Lexer.h"
#include "llbuild/Ninja/Manifest.h"
#include "llbuild/Ninja/ManifestLoader.h"
#include "llbuild/Ninja/Parser.h"

#include "llvm/ADT/StringRef.h"
#include "llvm/Support/MemoryBuffer.h"

#include <algorithm>
#include <map>
#include <sys/resource.h>
#include <sys/wait.h>
#include <unistd.h>

using namespace llbuild;
using llvm::StringRef;

namespace {

struct Case {
  std::string wd;
  std::vector<std::pair<std::string, std::string>> files;  // absolute path, content
};

bool parseCase(const std::string& line, Case& c) {
  for (auto& it : vh::split(line)) {
    if (it.empty()) continue;
    auto f = vh::split(it, ':');
    if (f.size() == 2 && f[0] == "wd") c.wd = vh::hexDecode(f[1]);
    else if (f.size() == 3 && f[0] == "file") c.files.push_back({vh::hexDecode(f[1]), vh::hexDecode(f[2])});
    else return false;
  }
  return !c.files.empty() && !c.wd.empty();
}

std::string H(StringRef s) { return vh::hexEncode(s.str()); }
std::string H(const ninja::Token& t) { return vh::hexEncode(std::string(t.start, t.length)); }

std::string HL(ArrayRef<ninja::Token> toks) {
  if (toks.empty()) return ".";
  std::string out;
  for (size_t i = 0; i < toks.size(); i++) { if (i) out += ","; out += H(toks[i]); }
  return out;
}

// ---------------------------------------------------------------------------------------------
// declaration stream
// ---------------------------------------------------------------------------------------------
class PrintActions : public ninja::ParseActions {
  std::string& out;
  int dummy = 0;
public:
  explicit PrintActions(std::string& out) : out(out) {}
  void initialize(ninja::Parser*) override {}
  void error(StringRef, const ninja::Token&) override { out += " x"; }
  void actOnBeginManifest(StringRef) override {}
  void actOnEndManifest() override {}
  void actOnBindingDecl(const ninja::Token& n, const ninja::Token& v) override { out += " b:" + H(n) + ":" + H(v); }
  void actOnDefaultDecl(ArrayRef<ninja::Token> names) override { out += " d:" + HL(names); }
  void actOnIncludeDecl(bool isInclude, const ninja::Token& p) override { out += (isInclude ? " i:" : " s:") + H(p); }
  BuildResult actOnBeginBuildDecl(const ninja::Token& name, ArrayRef<ninja::Token> outs, ArrayRef<ninja::Token> ins,
                                  unsigned nExp, unsigned nImp) override {
    out += " B:" + H(name) + ":" + std::to_string(nExp) + ":" + std::to_string(nImp) + ":" + HL(outs) + ":" + HL(ins);
    return &dummy;
  }
  void actOnBuildBindingDecl(BuildResult, const ninja::Token& n, const ninja::Token& v) override { out += " p:" + H(n) + ":" + H(v); }
  void actOnEndBuildDecl(BuildResult, const ninja::Token&) override { out += " e"; }
  PoolResult actOnBeginPoolDecl(const ninja::Token& n) override { out += " P:" + H(n); return &dummy; }
  void actOnPoolBindingDecl(PoolResult, const ninja::Token& n, const ninja::Token& v) override { out += " p:" + H(n) + ":" + H(v); }
  void actOnEndPoolDecl(PoolResult, const ninja::Token&) override { out += " e"; }
  RuleResult actOnBeginRuleDecl(const ninja::Token& n) override { out += " r:" + H(n); return &dummy; }
  void actOnRuleBindingDecl(RuleResult, const ninja::Token& n, const ninja::Token& v) override { out += " p:" + H(n) + ":" + H(v); }
  void actOnEndRuleDecl(RuleResult, const ninja::Token&) override { out += " e"; }
};

std::string declStream(const Case& c) {
  std::string out = "wd:" + vh::hexEncode(c.wd);
  for (auto& f : c.files) {
    out += " file:" + vh::hexEncode(f.first);
    auto buf = llvm::MemoryBuffer::getMemBufferCopy(f.second, f.first);
    PrintActions actions(out);
    ninja::Parser parser(buf->getBuffer(), actions);
    parser.parse();
  }
  return out;
}

// ---------------------------------------------------------------------------------------------
// the real loader
// ---------------------------------------------------------------------------------------------
bool starts(StringRef s, const char* p) { return s.startswith(p); }

const char* errCode(StringRef m) {
  if (starts(m, "invalid '$'-escape at end of string")) return "dollarAtEnd";
  if (starts(m, "invalid variable reference in string (missing trailing '}')")) return "missingBrace";
  if (starts(m, "invalid variable name in reference")) return "badVarName";
  if (starts(m, "invalid '$'-escape (literal '$' should be written as '$$')")) return "badEscape";
  if (starts(m, "unknown target name")) return "unknownTarget";
  if (starts(m, "unknown rule")) return "unknownRule";
  if (starts(m, "empty output path")) return "emptyOutput";
  if (starts(m, "empty input path")) return "emptyInput";
  if (starts(m, "invalid 'deps' style")) return "badDeps";
  if (starts(m, "invalid 'depfile' attribute with selected 'deps' style")) return "depfileWithStyle";
  if (starts(m, "missing 'depfile' attribute with selected 'deps' style")) return "missingDepfile";
  if (starts(m, "unknown pool '")) return "unknownPool";
  if (starts(m, "duplicate pool")) return "duplicatePool";
  if (starts(m, "invalid depth")) return "badDepth";
  if (starts(m, "unexpected variable")) return "unexpectedVar";
  if (starts(m, "missing 'depth' variable assignment")) return "missingDepth";
  if (starts(m, "duplicate rule")) return "duplicateRule";
  if (starts(m, "missing 'command' variable assignment")) return "missingCommand";
  if (starts(m, "cycle in rule variables")) return "cycle";
  return "parse";
}

class LoadActions : public ninja::ManifestLoaderActions {
  const Case& c;
public:
  std::vector<std::string> errs;
  explicit LoadActions(const Case& c) : c(c) {}
  void initialize(ninja::ManifestLoader*) override {}
  void error(StringRef, StringRef message, const ninja::Token&) override { errs.push_back(errCode(message)); }
  std::unique_ptr<llvm::MemoryBuffer> readFile(StringRef path, StringRef, const ninja::Token*) override {
    for (auto& f : c.files)
      if (path == f.first) return llvm::MemoryBuffer::getMemBufferCopy(f.second, f.first);
    errs.push_back("readFile");
    return nullptr;
  }
};

std::string nodeList(std::vector<ninja::Node*>::const_iterator b, std::vector<ninja::Node*>::const_iterator e, bool canon) {
  if (b == e) return ".";
  std::string out;
  for (auto it = b; it != e; ++it) {
    if (it != b) out += ",";
    out += *it ? vh::hexEncode(canon ? (*it)->getCanonicalPath() : (*it)->getScreenPath()) : std::string("NULL");
  }
  return out;
}

std::string loadCanonical(const Case& c) {
  LoadActions actions(c);
  ninja::ManifestLoader loader(c.wd, c.files[0].first, actions);
  std::unique_ptr<ninja::Manifest> m = loader.load();
  if (!m) return "no-manifest";
  std::sort(actions.errs.begin(), actions.errs.end());
  std::string out = "errs=";
  if (actions.errs.empty()) out += ".";
  for (size_t i = 0; i < actions.errs.size(); i++) { if (i) out += ","; out += actions.errs[i]; }
  std::vector<std::string> pools;
  for (auto& e : m->getPools()) pools.push_back(vh::hexEncode(e.getKey().str()) + ":" + std::to_string(e.getValue()->getDepth()));
  std::sort(pools.begin(), pools.end());
  out += " pools=";
  if (pools.empty()) out += ".";
  for (size_t i = 0; i < pools.size(); i++) { if (i) out += ","; out += pools[i]; }
  out += " defaults=" + nodeList(m->getDefaultTargets().begin(), m->getDefaultTargets().end(), true);
  out += " ncmd=" + std::to_string(m->getCommands().size());
  for (auto* cmd : m->getCommands()) {
    out += " | rule=" + vh::hexEncode(cmd->getRule()->getName());
    out += " outs=" + nodeList(cmd->getOutputs().begin(), cmd->getOutputs().end(), false);
    out += " ocanon=" + nodeList(cmd->getOutputs().begin(), cmd->getOutputs().end(), true);
    out += " exp=" + nodeList(cmd->explicitInputs_begin(), cmd->explicitInputs_end(), false);
    out += " imp=" + nodeList(cmd->implicitInputs_begin(), cmd->implicitInputs_end(), false);
    out += " oo=" + nodeList(cmd->orderOnlyInputs_begin(), cmd->orderOnlyInputs_end(), false);
    out += " icanon=" + nodeList(cmd->getInputs().begin(), cmd->getInputs().end(), true);
    out += " cmd=" + vh::hexEncode(cmd->getCommandString());
    out += " desc=" + vh::hexEncode(cmd->getDescription());
    out += " depfile=" + vh::hexEncode(cmd->getDepsFile());
    out += " deps=" + std::to_string((unsigned)cmd->getDepsStyle());
    out += " rsp=" + vh::hexEncode(cmd->getRspFile());
    out += " rspc=" + vh::hexEncode(cmd->getRspFileContent());
    out += std::string(" gen=") + (cmd->hasGeneratorFlag() ? "1" : "0");
    out += std::string(" restat=") + (cmd->hasRestatFlag() ? "1" : "0");
    if (auto* p = cmd->getExecutionPool()) out += " pool=" + vh::hexEncode(p->getName()) + ":" + std::to_string(p->getDepth());
    else out += " pool=-";
  }
  return out;
}

// ---------------------------------------------------------------------------------------------
// full callback trace (parser correspondence)
// ---------------------------------------------------------------------------------------------
class TraceActions : public ninja::ParseActions {
  std::string& out;
  const char* base;
  int dummy = 0;
  std::string T(const ninja::Token& t) {
    return std::string(t.getKindName()) + "/" + std::to_string((long)(t.start - base)) + "/" + std::to_string(t.length) + "/" +
           std::to_string(t.line) + "/" + std::to_string(t.column);
  }
  std::string TL(ArrayRef<ninja::Token> toks) {
    if (toks.empty()) return ".";
    std::string r;
    for (size_t i = 0; i < toks.size(); i++) { if (i) r += ","; r += T(toks[i]); }
    return r;
  }
public:
  TraceActions(std::string& out, const char* base) : out(out), base(base) {}
  void initialize(ninja::Parser*) override {}
  void error(StringRef m, const ninja::Token& at) override { out += " x:" + H(m) + ":" + T(at); }
  void actOnBeginManifest(StringRef name) override { out += " bm:" + H(name); }
  void actOnEndManifest() override { out += " em"; }
  void actOnBindingDecl(const ninja::Token& n, const ninja::Token& v) override { out += " b:" + T(n) + ":" + T(v); }
  void actOnDefaultDecl(ArrayRef<ninja::Token> names) override { out += " d:" + TL(names); }
  void actOnIncludeDecl(bool isInclude, const ninja::Token& p) override { out += (isInclude ? " i:" : " s:") + T(p); }
  BuildResult actOnBeginBuildDecl(const ninja::Token& name, ArrayRef<ninja::Token> outs, ArrayRef<ninja::Token> ins,
                                  unsigned nExp, unsigned nImp) override {
    out += " B:" + T(name) + ":" + std::to_string(nExp) + ":" + std::to_string(nImp) + ":" + TL(outs) + ":" + TL(ins);
    return &dummy;
  }
  void actOnBuildBindingDecl(BuildResult, const ninja::Token& n, const ninja::Token& v) override { out += " pb:" + T(n) + ":" + T(v); }
  void actOnEndBuildDecl(BuildResult, const ninja::Token& st) override { out += " eb:" + T(st); }
  PoolResult actOnBeginPoolDecl(const ninja::Token& n) override { out += " P:" + T(n); return &dummy; }
  void actOnPoolBindingDecl(PoolResult, const ninja::Token& n, const ninja::Token& v) override { out += " pp:" + T(n) + ":" + T(v); }
  void actOnEndPoolDecl(PoolResult, const ninja::Token& st) override { out += " ep:" + T(st); }
  RuleResult actOnBeginRuleDecl(const ninja::Token& n) override { out += " R:" + T(n); return &dummy; }
  void actOnRuleBindingDecl(RuleResult, const ninja::Token& n, const ninja::Token& v) override { out += " pr:" + T(n) + ":" + T(v); }
  void actOnEndRuleDecl(RuleResult, const ninja::Token& st) override { out += " er:" + T(st); }
};

void mode_parse() {
  std::string line;
  while (std::getline(std::cin, line)) {
    while (!line.empty() && (line.back() == '\r' || line.back() == ' ')) line.pop_back();
    if (line.empty() || line.find(' ') != std::string::npos) { std::cout << "bad-op" << std::endl; continue; }
    std::string data = vh::hexDecode(line);
    alarm(20);
    // exact-size heap buffer without terminator
    char* mem = (char*)malloc(data.size() ? data.size() : 1);
    memcpy(mem, data.data(), data.size());
    std::string out = "ok";
    {
      TraceActions actions(out, mem);
      ninja::Parser parser(StringRef(mem, data.size()), actions);
      parser.parse();
    }
    free(mem);
    alarm(0);
    std::cout << out << std::endl;
  }
}

void mode_decls() {
  std::string line;
  while (std::getline(std::cin, line)) {
    Case c;
    if (!parseCase(line, c)) { std::cout << "bad-op\n"; continue; }
    std::cout << declStream(c) << "\n";
  }
}

void mode_load() {
  std::string line;
  while (std::getline(std::cin, line)) {
    Case c;
    if (!parseCase(line, c)) { std::cout << "bad-op\n"; continue; }
    std::cout.flush();
    fflush(stdout);
    int fds[2];
    if (pipe(fds) != 0) { std::cout << "pipe-failed\n"; continue; }
    pid_t pid = fork();
    if (pid == 0) {
      close(fds[0]);
      struct rlimit rl; rl.rlim_cur = rl.rlim_max = 16u << 20; setrlimit(RLIMIT_STACK, &rl);
      alarm(20);
      std::string out = loadCanonical(c) + "\n";
      size_t off = 0;
      while (off < out.size()) { ssize_t n = write(fds[1], out.data() + off, out.size() - off); if (n <= 0) break; off += n; }
      _exit(0);
    }
    close(fds[1]);
    std::string got;
    char buf[65536];
    ssize_t n;
    while ((n = read(fds[0], buf, sizeof buf)) > 0) got.append(buf, n);
    close(fds[0]);
    int status = 0;
    waitpid(pid, &status, 0);
    if (WIFSIGNALED(status)) std::cout << "CRASH sig=" << WTERMSIG(status) << "\n";
    else if (!WIFEXITED(status) || WEXITSTATUS(status) != 0 || got.empty() || got.back() != '\n') std::cout << "CRASH exit=" << (WIFEXITED(status) ? WEXITSTATUS(status) : -1) << "\n";
    else std::cout << got;
  }
}

}  // namespace

int main(int argc, char** argv) {
  std::ios::sync_with_stdio(false);
  if (argc < 2) return 2;
  std::string mode = argv[1];
  if (mode == "c17decls") mode_decls();
  else if (mode == "c17load") mode_load();
  else if (mode == "c17parse") mode_parse();
  else { fprintf(stderr, "unknown mode %s\n", argv[1]); return 2; }
  return 0;
}
