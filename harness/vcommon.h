// Shared helpers for the correspondence harnesses (line protocol, hex fields).
#pragma once
#include <cstdint>
#include <cstdio>
#include <cstdlib>
#include <cstring>
#include <iostream>
#include <sstream>
#include <string>
#include <vector>

namespace vh {

inline std::string hexEncode(const std::string& s) {
  if (s.empty()) return "-";
  static const char* d = "0123456789abcdef";
  std::string out;
  out.reserve(s.size() * 2);
  for (unsigned char c : s) { out.push_back(d[c >> 4]); out.push_back(d[c & 15]); }
  return out;
}

inline int hv(char c) {
  if (c >= '0' && c <= '9') return c - '0';
  if (c >= 'a' && c <= 'f') return c - 'a' + 10;
  if (c >= 'A' && c <= 'F') return c - 'A' + 10;
  return -1;
}

inline std::string hexDecode(const std::string& s) {
  if (s == "-") return std::string();
  std::string out;
  for (size_t i = 0; i + 1 < s.size(); i += 2) out.push_back((char)((hv(s[i]) << 4) | hv(s[i + 1])));
  return out;
}

inline std::vector<std::string> split(const std::string& s, char sep = ' ') {
  std::vector<std::string> out;
  std::string cur;
  for (char c : s) {
    if (c == sep) { out.push_back(cur); cur.clear(); } else cur.push_back(c);
  }
  out.push_back(cur);
  return out;
}

// "a,b,c" of hex fields -> list ; "" or "." -> empty list
inline std::vector<std::string> hexList(const std::string& s) {
  std::vector<std::string> out;
  if (s.empty() || s == ".") return out;
  for (auto& f : split(s, ',')) out.push_back(hexDecode(f));
  return out;
}

inline std::string hexListEncode(const std::vector<std::string>& l) {
  if (l.empty()) return ".";
  std::string out;
  for (size_t i = 0; i < l.size(); i++) { if (i) out.push_back(','); out += hexEncode(l[i]); }
  return out;
}

}  // namespace vh
