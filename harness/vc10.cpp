// C10 correspondence harness: calls the REAL decision methods of the build system for every value kind.
// usage: vc10 c10table <scratch-dir>     -- one op per stdin line, one canonical line per op (see Drv/C10.lean):
//                                        rfo / prov / valid / pnode / pdir / pred (value-kind tables), proc (real children through the
//                                        real execution queue), life (start / providePriorValue / provideValue / execute sequences)
//        vc10 c10build                   -- `build|session <dir> <lanes> [policy]`, `drop <dir>`: in-process keep-going builds for the end-to-end oracle
//                                           (policy: `-` none, `k<N>` cancel at the N-th failed command, `s<name>` / `f<name>` cancel when <name> starts / finished)
//
// The task and command classes live in an anonymous namespace of BuildSystem.cpp, so that translation unit
// is compiled into the harness (same flags as the library; the archive member is then not pulled in).
#include "vcommon.h"

#include "BuildSystem/BuildSystem.cpp"

#include "llbuild/Basic/ExecutionQueue.h"
#include "llbuild/Basic/FileSystem.h"

#include <chrono>
#include <condition_variable>
#include <fstream>
#include <map>
#include <mutex>
#include <sys/stat.h>
#include <unistd.h>

using namespace llbuild::basic;

namespace vc10 {

class QDelegate : public ExecutionQueueDelegate {
  void queueJobStarted(JobDescriptor*) override {}
  void queueJobFinished(JobDescriptor*) override {}
  void processStarted(ProcessContext*, ProcessHandle, llbuild_pid_t) override {}
  void processHadError(ProcessContext*, ProcessHandle, const Twine&) override {}
  void processHadOutput(ProcessContext*, ProcessHandle, StringRef) override {}
  void processFinished(ProcessContext*, ProcessHandle, const ProcessResult&) override {}
};

// Wraps a real tool so that the commands the real loader creates can be reached by name.
class RecordingTool : public Tool {
  std::unique_ptr<Tool> real;
  std::map<std::string, Command*>& commands;
public:
  RecordingTool(StringRef name, std::unique_ptr<Tool> real, std::map<std::string, Command*>& commands)
      : Tool(name), real(std::move(real)), commands(commands) {}
  bool configureAttribute(const ConfigureContext& c, StringRef n, StringRef v) override { return real->configureAttribute(c, n, v); }
  bool configureAttribute(const ConfigureContext& c, StringRef n, ArrayRef<StringRef> v) override { return real->configureAttribute(c, n, v); }
  bool configureAttribute(const ConfigureContext& c, StringRef n, ArrayRef<std::pair<StringRef, StringRef>> v) override {
    return real->configureAttribute(c, n, v);
  }
  std::unique_ptr<Command> createCommand(StringRef name) override {
    auto c = real->createCommand(name);
    commands[name.str()] = c.get();
    return c;
  }
  std::unique_ptr<Command> createCustomCommand(const BuildKey& key) override { return real->createCustomCommand(key); }
};

class VDelegate : public BuildSystemDelegate {
public:
  std::map<std::string, Command*> commands;
  std::vector<std::string> errors;
  unsigned failures = 0, started = 0, missingKeys = 0;
  QDelegate qd;
  VDelegate(const char* client = "mock") : BuildSystemDelegate(client, 0) {}
  void setFileContentsBeingParsed(StringRef) override {}
  void error(StringRef, const Token&, const Twine& message) override { errors.push_back(message.str()); }
  std::unique_ptr<Tool> lookupTool(StringRef name) override {
    std::unique_ptr<Tool> real;
    if (name == "shell") real = llvm::make_unique<ShellTool>(name);
    else if (name == "phony") real = llvm::make_unique<PhonyTool>(name);
    else if (name == "clang") real = llvm::make_unique<ClangTool>(name);
    else if (name == "mkdir") real = llvm::make_unique<MkdirTool>(name);
    else if (name == "symlink") real = llvm::make_unique<SymlinkTool>(name);
    else if (name == "archive") real = llvm::make_unique<ArchiveTool>(name);
    else if (name == "shared-library") real = llvm::make_unique<SharedLibraryTool>(name);
    else if (name == "stale-file-removal") real = llvm::make_unique<StaleFileRemovalTool>(name);
    else if (name == "swift-compiler") real = llvm::make_unique<SwiftCompilerTool>(name);
    else return nullptr;
    return std::unique_ptr<Tool>(new RecordingTool(name, std::move(real), commands));
  }
  std::unique_ptr<ExecutionQueue> createExecutionQueue() override {
    return std::unique_ptr<ExecutionQueue>(createLaneBasedExecutionQueue(
        qd, 1, SchedulerAlgorithm::NamePriority, getDefaultQualityOfService(), nullptr));
  }
  void hadCommandFailure() override { failures++; }
  void commandStatusChanged(Command*, CommandStatusKind) override {}
  void commandPreparing(Command*) override {}
  bool shouldCommandStart(Command*) override { return true; }
  void commandStarted(Command*) override { started++; }
  void commandHadError(Command*, StringRef) override {}
  void commandHadNote(Command*, StringRef) override {}
  void commandHadWarning(Command*, StringRef) override {}
  void commandFinished(Command*, ProcessStatus) override {}
  void commandFoundDiscoveredDependency(Command*, StringRef, DiscoveredDependencyKind) override {}
  void commandCannotBuildOutputDueToMissingInputs(Command*, Node*, ArrayRef<BuildKey> keys) override { missingKeys += keys.size(); }
  Command* chooseCommandFromMultipleProducers(Node*, std::vector<Command*>) override { return nullptr; }
  void cannotBuildNodeDueToMultipleProducers(Node*, std::vector<Command*>) override {}
  void determinedRuleNeedsToRun(core::Rule*, core::Rule::RunReason, core::Rule*) override {}
};

class NullEngineDelegate : public core::BuildEngineDelegate {
  QDelegate qd;
  std::unique_ptr<ExecutionQueue> createExecutionQueue() override { return createSerialQueue(qd, nullptr); }
  std::unique_ptr<core::Rule> lookupRule(const core::KeyType&) override { return nullptr; }
  void cycleDetected(const std::vector<core::Rule*>&) override {}
  void error(const Twine&) override {}
};

static FileInfo someInfo(bool missing) {
  FileInfo i{};
  if (!missing) { i.device = 1; i.inode = 7; i.mode = 0100644; i.size = 3; i.modTime.seconds = 5; }
  return i;
}

// A value of the given kind, built with the real factory functions.  Kinds that carry output infos get `n`
// of them; slot `idx` is missing iff `miss`, every other slot is the opposite (so a wrong index shows).
static bool makeValue(unsigned ord, unsigned n, unsigned idx, bool miss, llvm::Optional<BuildValue>& out) {
  std::vector<FileInfo> infos;
  for (unsigned i = 0; i < n; i++) infos.push_back(someInfo(i == idx ? miss : !miss));
  std::vector<std::string> strs{"a", "b"};
  switch ((BuildValue::Kind)ord) {
  case BuildValue::Kind::Invalid: out.emplace(BuildValue::makeInvalid()); return true;
  case BuildValue::Kind::VirtualInput: out.emplace(BuildValue::makeVirtualInput()); return true;
  case BuildValue::Kind::ExistingInput: out.emplace(BuildValue::makeExistingInput(someInfo(miss))); return true;
  case BuildValue::Kind::MissingInput: out.emplace(BuildValue::makeMissingInput()); return true;
  case BuildValue::Kind::DirectoryContents: out.emplace(BuildValue::makeDirectoryContents(someInfo(miss), strs)); return true;
  case BuildValue::Kind::DirectoryTreeSignature: out.emplace(BuildValue::makeDirectoryTreeSignature(CommandSignature(1))); return true;
  case BuildValue::Kind::DirectoryTreeStructureSignature: out.emplace(BuildValue::makeDirectoryTreeStructureSignature(CommandSignature(2))); return true;
  case BuildValue::Kind::StaleFileRemoval: out.emplace(BuildValue::makeStaleFileRemoval(strs)); return true;
  case BuildValue::Kind::MissingOutput: out.emplace(BuildValue::makeMissingOutput()); return true;
  case BuildValue::Kind::FailedInput: out.emplace(BuildValue::makeFailedInput()); return true;
  case BuildValue::Kind::SuccessfulCommand: out.emplace(BuildValue::makeSuccessfulCommand(infos)); return true;
  case BuildValue::Kind::FailedCommand: out.emplace(BuildValue::makeFailedCommand()); return true;
  case BuildValue::Kind::PropagatedFailureCommand: out.emplace(BuildValue::makePropagatedFailureCommand()); return true;
  case BuildValue::Kind::CancelledCommand: out.emplace(BuildValue::makeCancelledCommand()); return true;
  case BuildValue::Kind::SkippedCommand: out.emplace(BuildValue::makeSkippedCommand()); return true;
  case BuildValue::Kind::Target: out.emplace(BuildValue::makeTarget()); return true;
  case BuildValue::Kind::FilteredDirectoryContents: out.emplace(BuildValue::makeFilteredDirectoryContents(strs)); return true;
  case BuildValue::Kind::SuccessfulCommandWithOutputSignature:
    out.emplace(BuildValue::makeSuccessfulCommandWithOutputSignature(infos, CommandSignature(3))); return true;
  }
  return false;   // a kind this harness does not know: reported, never guessed
}

static bool evalPredicate(const std::string& n, const BuildValue& v, bool& r) {
#define P(name) if (n == #name) { r = v.name(); return true; }
  P(isInvalid) P(isVirtualInput) P(isExistingInput) P(isMissingInput) P(isDirectoryContents) P(isDirectoryTreeSignature)
  P(isDirectoryTreeStructureSignature) P(isStaleFileRemoval) P(isMissingOutput) P(isFailedInput) P(isSuccessfulCommand)
  P(isFailedCommand) P(isPropagatedFailureCommand) P(isCancelledCommand) P(isSkippedCommand) P(isTarget)
  P(isFilteredDirectoryContents)
#undef P
  return false;   // private predicates (kindHas*) are exercised through the codec elsewhere (C15)
}

static const char* kClassTool[][2] = {
  {"ShellCommand", "S"}, {"PhonyCommand", "P"}, {"ClangShellCommand", "C"}, {"MkdirCommand", "M"}, {"SymlinkCommand", "L"},
  {"ArchiveShellCommand", "A"}, {"SharedLibraryShellCommand", "D"}, {"StaleFileRemovalCommand", "R"},
  {"SwiftCompilerShellCommand", "W"}};
static const char* kNodeClass[] = {"plain", "directory", "directoryStructure", "virtual", "commandTimestamp"};

static std::string tableManifest(const std::string& scr) {
  std::string nodes = "nodes:\n", cmds = "commands:\n";
  auto outs = [&](const std::string& c) {
    nodes += "  \"<" + c + ".ts>\": { is-command-timestamp: true }\n";
    nodes += "  \"" + scr + "/" + c + ".ds/\": { is-directory-structure: true }\n";
    return "[\"" + scr + "/" + c + ".p\", \"" + scr + "/" + c + ".d/\", \"" + scr + "/" + c + ".ds/\", \"<" + c + ".v>\", \"<" + c + ".ts>\"]";
  };
  for (int aood = 0; aood < 2; aood++) {
    std::string sfx = aood ? ".aood" : "", flag = aood ? "    always-out-of-date: \"true\"\n" : "";
    cmds += "  S" + sfx + ":\n    tool: shell\n    outputs: " + outs("S" + sfx) + "\n    args: [\"true\"]\n" + flag;
    cmds += "  P" + sfx + ":\n    tool: phony\n    outputs: " + outs("P" + sfx) + "\n" + flag;
    cmds += "  C" + sfx + ":\n    tool: clang\n    outputs: " + outs("C" + sfx) + "\n    args: [\"true\"]\n" + flag;
    cmds += "  M" + sfx + ":\n    tool: mkdir\n    outputs: " + outs("M" + sfx) + "\n" + flag;
    cmds += "  A" + sfx + ":\n    tool: archive\n    inputs: [\"" + scr + "/a.o\"]\n    outputs: " + outs("A" + sfx) + "\n" + flag;
    cmds += "  D" + sfx + ":\n    tool: shared-library\n    inputs: [\"" + scr + "/a.o\"]\n    outputs: " + outs("D" + sfx) + "\n    executable: cc\n" + flag;
    cmds += "  W" + sfx + ":\n    tool: swift-compiler\n    outputs: " + outs("W" + sfx) + "\n    executable: swiftc\n    module-name: m\n"
            "    module-output-path: " + scr + "/m.swiftmodule\n    sources: [\"" + scr + "/a.swift\"]\n    objects: [\"" + scr + "/a.o\"]\n"
            "    temps-path: " + scr + "/tmp\n" + flag;
  }
  {
    std::string o = outs("L");   // registers the attributes of <L.ts> and L.ds/
    (void)o;
    const char* one[5] = {"/L.p\"", "/L.d/\"", "/L.ds/\"", "<L.v>\"", "<L.ts>\""};
    for (int i = 0; i < 5; i++)
      cmds += "  L" + std::to_string(i) + ":\n    tool: symlink\n    outputs: [\"" + (i < 3 ? scr : std::string()) + one[i] + "]\n    contents: target\n";
  }
  cmds += "  L.noout:\n    tool: symlink\n    contents: target\n    link-output-path: " + scr + "/L.lnk\n";
  cmds += "  R:\n    tool: stale-file-removal\n    expectedOutputs: [\"" + scr + "/x\"]\n    outputs: " + outs("R") + "\n";
  return "client:\n  name: mock\n\n" + nodes + "\n" + cmds;
}

static std::string provManifest(unsigned ninputs) {
  std::string ins = "[";
  for (unsigned i = 0; i < ninputs; i++) ins += std::string(i ? ", " : "") + "\"<i" + std::to_string(i) + ">\"";
  ins += "]";
  std::string m = "client:\n  name: mock\n\ncommands:\n";
  for (int allow = 0; allow < 2; allow++)
    m += std::string("  Q") + (allow ? ".allow" : "") + ":\n    tool: phony\n    inputs: " + ins + "\n    outputs: [\"<q" + (allow ? "a" : "") +
         ">\"]\n" + (allow ? "    allow-missing-inputs: \"true\"\n" : "");
  return m;
}

// One phony command per allow-modified-outputs setting, no inputs, one FILE output: the object on which the
// per-execution protocol of ExternalCommand (start / providePriorValue / provideValue / execute) is driven by `life` ops.
static std::string lifeManifest(const std::string& out) {
  std::string m = "client:\n  name: mock\n\ncommands:\n";
  for (int amo = 0; amo < 2; amo++)
    m += std::string("  U") + (amo ? ".amo" : "") + ":\n    tool: phony\n    outputs: [\"" + out + "\"]\n" +
         (amo ? "    allow-modified-outputs: \"true\"\n" : "");
  return m;
}

static const char* procStatusName(ProcessStatus s) {
  switch (s) {
  case ProcessStatus::Failed: return "Failed";
  case ProcessStatus::Cancelled: return "Cancelled";
  case ProcessStatus::Succeeded: return "Succeeded";
  case ProcessStatus::Skipped: return "Skipped";
  case ProcessStatus::Unknown: return "Unknown";
  }
  return "?";
}

// Runs `/bin/sh -c <script>` through the REAL execution queue (executeProcess -> spawnProcess -> wait4 ->
// cleanUpExecutedProcess) and returns the ProcessResult handed to the completion function.
class ProcJob : public JobDescriptor {
public:
  StringRef getOrdinalName() const override { return StringRef("proc"); }
  void getShortDescription(SmallVectorImpl<char>&) const override {}
  void getVerboseDescription(SmallVectorImpl<char>&) const override {}
};

static bool runChild(ExecutionQueue& q, const std::string& script, ProcessResult& out) {
  static ProcJob desc;
  struct Shared { std::mutex m; std::condition_variable cv; bool done = false; ProcessResult r; };
  auto sh = std::make_shared<Shared>();
  auto text = std::make_shared<std::string>(script);
  q.addJob(QueueJob(&desc, [&q, sh, text](QueueJobContext* ctx) {
    std::vector<StringRef> argv{"/bin/sh", "-c", *text};
    ProcessCompletionFn fn = [sh](ProcessResult r) {
      std::lock_guard<std::mutex> g(sh->m);
      sh->r = r; sh->done = true; sh->cv.notify_all();
    };
    ProcessAttributes attrs = {true};
    attrs.controlEnabled = false;
    q.executeProcess(ctx, llvm::ArrayRef<StringRef>(argv), {}, attrs, llvm::Optional<ProcessCompletionFn>(fn), nullptr);
  }));
  std::unique_lock<std::mutex> lk(sh->m);
  if (!sh->cv.wait_for(lk, std::chrono::seconds(20), [&] { return sh->done; })) return false;
  out = sh->r;
  return true;
}

static void writeFile(const std::string& path, const std::string& data) {
  std::ofstream f(path, std::ios::binary | std::ios::trunc);
  f << data;
}

static core::TaskInterface nullTaskInterface() {
  struct { void* a; void* b; } raw = {nullptr, nullptr};
  static_assert(sizeof(raw) == sizeof(core::TaskInterface), "TaskInterface layout");
  core::TaskInterface ti = *reinterpret_cast<core::TaskInterface*>(&raw);
  return ti;
}

struct Loaded {
  VDelegate d;
  std::unique_ptr<BuildSystem> system;
  bool ok = false;
  Loaded(const std::string& path, const std::string& text) {
    writeFile(path, text);
    system.reset(new BuildSystem(d, createLocalFileSystem()));
    ok = system->loadDescription(path);
  }
};

static void mode_table(const std::string& scratch) {
  std::string dir = scratch + "/c10-" + std::to_string(getpid());
  mkdir(dir.c_str(), 0755);
  std::string mpath = dir + "/table.llbuild", ppath = dir + "/prov.llbuild", lpath = dir + "/life.llbuild";
  QDelegate procDelegate;
  std::unique_ptr<ExecutionQueue> procQueue(createLaneBasedExecutionQueue(
      procDelegate, 1, SchedulerAlgorithm::FIFO, getDefaultQualityOfService(), nullptr));
  Loaded T(mpath, tableManifest(dir));
  // archive / shared-library complain about more than one file output but still configure all of them
  // (ExternalCommand::configureOutputs ran first); any other diagnostic means the manifest no longer loads as intended
  for (auto& e : T.d.errors)
    if (e.find("unexpected explicit output: ") != 0 && e != "missing declared output") {
      fprintf(stderr, "load error: %s\n", e.c_str());
      T.ok = false;
    }
  if (!T.ok) {
    for (auto& e : T.d.errors) fprintf(stderr, "load error: %s\n", e.c_str());
    fprintf(stderr, "cannot load the table manifest\n");
    exit(3);
  }
  NullEngineDelegate ed;
  core::BuildEngine engine(ed);
  SwiftGetVersionCommand sgv(BuildKey::makeCustomTask("swift-get-version", "/bin/true"));
  auto plain = BuildNode::makePlain(dir + "/n.p");
  auto dnode = BuildNode::makeDirectory(dir + "/n.d/");

  auto commandFor = [&](const std::string& cls, const std::string& sfx) -> Command* {
    for (auto& ct : kClassTool)
      if (cls == ct[0]) {
        auto it = T.d.commands.find(std::string(ct[1]) + sfx);
        return it == T.d.commands.end() ? nullptr : it->second;
      }
    return nullptr;
  };

  std::string line;
  while (std::getline(std::cin, line)) {
    auto f = vh::split(line);
    std::string out = "bad-op";
    if (f[0] == "rfo" && f.size() == 5) {
      int nc = -1;
      for (int i = 0; i < 5; i++) if (f[3] == kNodeClass[i]) nc = i;
      bool sym = f[1] == "SymlinkCommand";
      Command* c = sym ? (nc < 0 ? nullptr : T.d.commands["L" + std::to_string(nc)]) : commandFor(f[1], "");
      if (!c || nc < 0) out = "unknown-class";
      else {
        bool miss = f[4] == "1";
        unsigned n = f[1] == "SymlinkCommand" ? 1 : 5, idx = f[1] == "SymlinkCommand" ? 0 : nc;
        llvm::Optional<BuildValue> v;
        if (!makeValue(atoi(f[2].c_str()), n, idx, miss, v)) out = "unknown-kind";
        else {
          // stale-file-removal declares no outputs (its method ignores the node): lend it the shell command's node of that class
          auto& own = c->getOutputs();
          BuildNode* node = sym ? own[0] : (own.size() > (size_t)nc ? own[nc] : T.d.commands["S"]->getOutputs()[nc]);
          // requested combination not constructible for this kind (no output info to be missing/present)?
          bool eff = v->getNthOutputInfo(idx).isMissing();
          if (eff != miss) out = "n/a";
          else {
            BuildValue r = c->getResultForOutput(node, *v);
            out = std::string("virt=") + (node->isVirtual() ? "1" : "0") + " ts=" + (node->isCommandTimestamp() ? "1" : "0") +
                  " r=" + std::to_string((unsigned)r.getKind());
          }
        }
      }
    } else if (f[0] == "prov" && f.size() == 3) {
      std::vector<unsigned> ks;
      if (f[2] != ".") for (auto& s : vh::split(f[2], ',')) ks.push_back(atoi(s.c_str()));
      Loaded Pm(ppath, provManifest(ks.size()));
      Command* c = Pm.ok ? Pm.d.commands[f[1] == "1" ? "Q.allow" : "Q"] : nullptr;
      if (!c) out = "load-failed";
      else {
        auto ti = nullTaskInterface();
        bool bad = false;
        for (unsigned i = 0; i < ks.size() && !bad; i++) {
          llvm::Optional<BuildValue> v;
          if (!makeValue(ks[i], 1, 0, false, v)) { bad = true; break; }
          c->provideValue(*Pm.system, ti, i, BuildKey::makeNode(c->getInputs()[i]).toData(), *v);
        }
        if (bad) out = "unknown-kind";
        else {
          llvm::Optional<BuildValue> result;
          c->execute(*Pm.system, ti, nullptr, [&](BuildValue&& r) { result.emplace(std::move(r)); });
          if (!result.hasValue()) out = "no-result";
          else if (Pm.d.started) out = result->isSuccessfulCommand() ? "run" : "run-unsuccessful";
          else out = "skip=" + std::to_string((unsigned)result->getKind()) + " reported=" + std::to_string(Pm.d.failures) +
                     " missing=" + std::to_string(Pm.d.missingKeys);
        }
      }
    } else if (f[0] == "valid" && f.size() == 7) {
      bool aood = f[3] == "1", outEmpty = f[4] == "1", pathEmpty = f[5] == "1", ne1 = f[6] == "1";
      Command* c = nullptr;
      bool na = false;
      if (f[1] == "SwiftGetVersionCommand") c = &sgv;
      else if (f[1] == "SymlinkCommand") {
        if (pathEmpty) na = true;      // an empty output path cannot be configured through the loader
        else c = outEmpty ? T.d.commands["L.noout"] : T.d.commands["L0"];
      } else c = commandFor(f[1], aood ? ".aood" : "");
      if (f[1] == "StaleFileRemovalCommand") c = T.d.commands["R"];
      if (na) out = "n/a";
      else if (!c) out = "unknown-class";
      else {
        unsigned n = f[1] == "SymlinkCommand" ? (ne1 ? 2 : 1) : 5;
        llvm::Optional<BuildValue> v;
        if (!makeValue(atoi(f[2].c_str()), n, 0, true, v)) out = "unknown-kind";
        else out = c->isResultValid(*T.system, *v) ? "1" : "0";
      }
    } else if ((f[0] == "pnode" || f[0] == "pdir") && f.size() == 2) {
      llvm::Optional<BuildValue> v;
      if (!makeValue(atoi(f[1].c_str()), 1, 0, false, v)) out = "unknown-kind";
      else out = (f[0] == "pnode" ? ProducedNodeTask::isResultValid(engine, *plain, *v)
                                  : ProducedDirectoryNodeTask::isResultValid(engine, *dnode, *v)) ? "1" : "0";
    } else if (f[0] == "proc" && f.size() == 3) {
      // a real child that ends by exit(n) / is killed by signal n (no core file: RLIMIT_CORE 0); raw = the wait status
      int n = atoi(f[2].c_str());
      std::string script = f[1] == "exit" ? "exit " + std::to_string(n)
                                          : "ulimit -c 0; kill -" + std::to_string(n) + " $$; sleep 10; exit 97";
      ProcessResult r;
      if (f[1] != "exit" && f[1] != "sig") out = "bad-op";
      else if (!runChild(*procQueue, script, r)) out = "no-completion";
      else out = "raw=" + std::to_string(r.exitCode) + " status=" + procStatusName(r.status);
    } else if (f[0] == "life" && f.size() == 4) {
      // the per-execution protocol on ONE command object: s = start, p<k> = providePriorValue(kind k),
      // v<k> = provideValue(kind k), x = execute (one outcome per x); the output file exists iff f[2] == "1"
      std::string outPath = dir + "/u.out";
      Loaded Lm(lpath, lifeManifest(outPath));
      Command* c = Lm.ok ? Lm.d.commands[f[1] == "1" ? "U.amo" : "U"] : nullptr;
      if (f[2] == "1") writeFile(outPath, "x"); else unlink(outPath.c_str());
      if (!c) out = "load-failed";
      else {
        auto ti = nullTaskInterface();
        out = "";
        bool bad = false;
        for (auto& s : vh::split(f[3], ',')) {
          if (s == "s") c->start(*Lm.system, ti);
          else if (s[0] == 'p' || s[0] == 'v') {
            llvm::Optional<BuildValue> v;
            if (!makeValue(atoi(s.c_str() + 1), 1, 0, false, v)) { bad = true; break; }
            if (s[0] == 'p') c->providePriorValue(*Lm.system, ti, *v);
            else c->provideValue(*Lm.system, ti, 0, BuildKey::makeNode(StringRef("<in>")).toData(), *v);
          } else if (s == "x") {
            unsigned before = Lm.d.started;
            llvm::Optional<BuildValue> result;
            c->execute(*Lm.system, ti, nullptr, [&](BuildValue&& r) { result.emplace(std::move(r)); });
            if (!out.empty()) out += ";";
            if (!result.hasValue()) out += "no-result";
            else if (Lm.d.started != before) out += result->isSuccessfulCommand() ? "run" : "run-unsuccessful";
            else if (result->isSuccessfulCommand()) out += "update";
            else out += "skip=" + std::to_string((unsigned)result->getKind());
          } else { bad = true; break; }
        }
        if (bad) out = "bad-op";
      }
    } else if (f[0] == "pred" && f.size() == 3) {
      llvm::Optional<BuildValue> v;
      bool r = false;
      if (!makeValue(atoi(f[2].c_str()), 1, 0, false, v)) out = "unknown-kind";
      else out = evalPredicate(f[1], *v, r) ? (r ? "1" : "0") : "unknown";
    }
    std::cout << out << "\n";
  }
  std::string cmd = "rm -rf '" + dir + "'";
  (void)system(cmd.c_str());
}

// Keep-going client: one op per line `build <dir> <lanes>`; loads <dir>/build.llbuild, attaches <dir>/build.db, builds the
// default target with a delegate that only counts failures (it does not cancel the build as the command line tool does).
class KeepGoingDelegate : public VDelegate {
public:
  unsigned lanes = 1;
  // client policies of a long-lived client (optional 4th field of a `build` / `session` op; `-` = keep going, never cancel):
  //   k<N>     cancel the build at the N-th hadCommandFailure() ("keep going, give up at the N-th failed command", cf. `ninja -k N`)
  //   s<name>  cancel when command <name> is started        f<name>  cancel when command <name> has finished
  BuildSystem* sys = nullptr;
  unsigned cancelAtFailure = 0;
  std::string cancelOnStart, cancelOnFinish;
  unsigned cancels = 0;
  std::mutex pm;
  KeepGoingDelegate() : VDelegate("basic") {}
  void setPolicy(const std::string& p) {
    cancelAtFailure = 0; cancelOnStart.clear(); cancelOnFinish.clear(); cancels = 0;
    if (p.size() < 2) return;
    if (p[0] == 'k') cancelAtFailure = atoi(p.c_str() + 1);
    else if (p[0] == 's') cancelOnStart = p.substr(1);
    else if (p[0] == 'f') cancelOnFinish = p.substr(1);
  }
  void doCancel() { cancels++; if (sys) sys->cancel(); }
  void hadCommandFailure() override {
    bool c;
    { std::lock_guard<std::mutex> l(pm); failures++; c = cancelAtFailure && failures >= cancelAtFailure; }
    if (c) doCancel();
  }
  void commandStarted(Command* c) override {
    { std::lock_guard<std::mutex> l(pm); started++; }
    if (!cancelOnStart.empty() && c->getName() == cancelOnStart) doCancel();
  }
  void commandFinished(Command* c, ProcessStatus) override {
    if (!cancelOnFinish.empty() && c->getName() == cancelOnFinish) doCancel();
  }
  std::unique_ptr<Tool> lookupTool(StringRef) override { return nullptr; }
  std::unique_ptr<ExecutionQueue> createExecutionQueue() override {
    return std::unique_ptr<ExecutionQueue>(createLaneBasedExecutionQueue(
        qd, lanes, SchedulerAlgorithm::NamePriority, getDefaultQualityOfService(), nullptr));
  }
};

// ops:  build <dir> <lanes>     a NEW BuildSystem for this one build (what a process per build does)
//       session <dir> <lanes>   the BuildSystem of <dir> is created by the first such op and REUSED by the later ones
//                               (resetForBuild() before each further build: what BuildSystemFrontend::initialize does
//                               when its `system` already exists); the description is loaded once
//       drop <dir>              destroys the session of <dir>
struct Session {
  KeepGoingDelegate d;
  std::unique_ptr<BuildSystem> system;
  bool loaded = false;
};

static void mode_build() {
  std::map<std::string, std::unique_ptr<Session>> sessions;
  std::string line;
  while (std::getline(std::cin, line)) {
    auto f = vh::split(line);
    if (f.size() == 2 && f[0] == "drop") { sessions.erase(f[1]); std::cout << "dropped\n"; std::cout.flush(); continue; }
    if ((f.size() != 3 && f.size() != 4) || (f[0] != "build" && f[0] != "session")) { std::cout << "bad-op\n"; std::cout.flush(); continue; }
    std::string policy = f.size() == 4 ? f[3] : "-";
    if (chdir(f[1].c_str()) != 0) { std::cout << "chdir-failed\n"; std::cout.flush(); continue; }
    bool ok;
    unsigned failures, errors, cancelled = 0;
    if (f[0] == "build") {
      KeepGoingDelegate d;
      d.lanes = atoi(f[2].c_str());
      d.setPolicy(policy);
      {
        BuildSystem system(d, createLocalFileSystem());
        d.sys = &system;
        std::string err;
        system.attachDB("build.db", &err);
        ok = system.loadDescription("build.llbuild") && system.build(StringRef(""));
      }
      failures = d.failures; errors = d.errors.size(); cancelled = d.cancels;
    } else {
      auto& sp = sessions[f[1]];
      if (!sp) {
        sp.reset(new Session);
        sp->d.lanes = atoi(f[2].c_str());
        sp->system.reset(new BuildSystem(sp->d, createLocalFileSystem()));
        sp->d.sys = sp->system.get();
        std::string err;
        sp->system->attachDB("build.db", &err);
        sp->loaded = sp->system->loadDescription("build.llbuild");
      } else {
        sp->d.failures = 0;
        sp->d.errors.clear();
        sp->system->resetForBuild();
      }
      sp->d.setPolicy(policy);
      ok = sp->loaded && sp->system->build(StringRef(""));
      failures = sp->d.failures; errors = sp->d.errors.size();
      cancelled = sp->d.cancels;
    }
    // (a build the client cancelled is a failed build for the client: BuildSystemFrontend::build returns `!cancelled && no failed command`)
    std::cout << "ok=" << (ok ? 1 : 0) << " failures=" << failures << " errors=" << errors;
    if (f.size() == 4) std::cout << " cancelled=" << cancelled;
    std::cout << "\n";
    std::cout.flush();
  }
}

}  // namespace vc10

int main(int argc, char** argv) {
  std::ios::sync_with_stdio(false);
  if (argc < 2) { fprintf(stderr, "usage: vc10 c10table <scratch> | vc10 c10build\n"); return 2; }
  std::string mode = argv[1];
  if (mode == "c10build") vc10::mode_build();
  else if (argc < 3) return 2;
  else if (mode == "c10table") vc10::mode_table(argv[2]);
  else { fprintf(stderr, "unknown mode %s\n", argv[1]); return 2; }
  return 0;
}
