// Correspondence harness for the lexical half of C17 and the Ninja-lexer part of C19.
// usage: vc17lex <mode>    -- one op per stdin line, one canonical line per op on stdout.
//
//   lex    "<modes> <hex>"   modes = string over n (None) i (IdentifierSpecific) p (PathString) v (VariableString);
//                            token k is lexed in mode modes[k % len].  The input bytes are copied into an
//                            exact-size malloc'd buffer WITHOUT terminator (ASan sees every over-read).
//                            -> "ok Kind,start,len,line,col ..." up to and including the first EndOfFile,
//                               or "hang ..." when more than size+2 tokens were produced without EndOfFile.
//   shesc  "<hex>"           -> hex of basic::shellEscaped(bytes)  (+ " append-differs" if appendShellEscapedString disagrees)
//   cls    anything          -> "ident=<256 bits> simple=<256 bits> space=<256 bits> spaceEOF=<bit>"
//
// Robustness: ops are executed in a forked child that streams one result line per op; when the child dies
// (sanitizer report, signal) the op it was executing gets "crash <how> <sanitizer summary>" and a new child
// resumes after it, so one crashing input never takes down the batch.
#include "vcommon.h"

#include "llbuild/Basic/ShellUtility.h"
#include "llbuild/Ninja/Lexer.h"

#include "llvm/ADT/SmallString.h"
#include "llvm/Support/raw_ostream.h"

#include <cctype>
#include <sys/wait.h>
#include <unistd.h>

using namespace llbuild;

static ninja::Lexer::LexingMode modeOf(char c) {
  switch (c) {
  case 'i': return ninja::Lexer::LexingMode::IdentifierSpecific;
  case 'p': return ninja::Lexer::LexingMode::PathString;
  case 'v': return ninja::Lexer::LexingMode::VariableString;
  default: return ninja::Lexer::LexingMode::None;
  }
}

static std::string opLex(const std::string& line) {
  auto f = vh::split(line);
  if (f.size() != 2 || f[0].empty()) return "bad-op";
  std::string bytes = vh::hexDecode(f[1]);
  size_t n = bytes.size();
  char* buf = (char*)malloc(n);
  if (n) memcpy(buf, bytes.data(), n);
  std::string out;
  {
    ninja::Lexer lexer(llvm::StringRef(buf, n));
    ninja::Token tok;
    bool eof = false;
    size_t k = 0;
    for (; k < n + 2; k++) {
      lexer.setMode(modeOf(f[0][k % f[0].size()]));
      lexer.lex(tok);
      char tmp[160];
      snprintf(tmp, sizeof tmp, " %s,%ld,%u,%u,%u", tok.getKindName(), (long)(tok.start - buf), tok.length, tok.line, tok.column);
      out += tmp;
      if (tok.tokenKind == ninja::Token::Kind::EndOfFile) { eof = true; break; }
    }
    out = (eof ? "ok" : "hang") + out;
  }
  free(buf);
  return out;
}

static std::string opShesc(const std::string& line) {
  auto f = vh::split(line);
  if (f.size() != 1) return "bad-op";
  std::string bytes = vh::hexDecode(f[0]);
  size_t n = bytes.size();
  char* buf = (char*)malloc(n);
  if (n) memcpy(buf, bytes.data(), n);
  std::string a = basic::shellEscaped(llvm::StringRef(buf, n));
  std::string b;
  {
    llvm::raw_string_ostream os(b);
    basic::appendShellEscapedString(os, llvm::StringRef(buf, n));
    os.flush();
  }
  free(buf);
  return vh::hexEncode(a) + (a == b ? "" : " append-differs");
}

static std::string opCls(const std::string&) {
  std::string a, b, c;
  for (int i = 0; i < 256; i++) {
    a.push_back(ninja::Lexer::isIdentifierChar((char)i) ? '1' : '0');
    b.push_back(ninja::Lexer::isSimpleIdentifierChar((char)i) ? '1' : '0');
    c.push_back(isspace(i) ? '1' : '0');
  }
  return "ident=" + a + " simple=" + b + " space=" + c + " spaceEOF=" + (isspace(-1) ? "1" : "0");
}

typedef std::string (*OpFn)(const std::string&);

static std::string sanitizerSummary(FILE* errf) {
  std::string all;
  char tmp[4096];
  rewind(errf);
  size_t r;
  while ((r = fread(tmp, 1, sizeof tmp, errf)) > 0 && all.size() < (1u << 20)) all.append(tmp, r);
  const char* keys[] = {"ERROR: AddressSanitizer: ", "runtime error: ", "ERROR: UndefinedBehaviorSanitizer: "};
  for (const char* k : keys) {
    size_t p = all.find(k);
    if (p == std::string::npos) continue;
    p += strlen(k);
    size_t e = p;
    while (e < all.size() && all[e] != ' ' && all[e] != '\n') e++;
    std::string kind = all.substr(p, e - p);
    size_t q = all.find(" of size ", e);
    std::string acc;
    if (q != std::string::npos && q >= 5) {
      size_t s = all.rfind('\n', q);
      acc = all.substr(s == std::string::npos ? 0 : s + 1, q - (s == std::string::npos ? 0 : s + 1));
      size_t e2 = all.find(' ', q + 9);
      acc += all.substr(q, (e2 == std::string::npos ? all.size() : e2) - q);
      for (auto& ch : acc) if (ch == ' ') ch = '_';
    }
    return std::string(k[0] == 'r' ? "ubsan:" : "asan:") + kind + (acc.empty() ? "" : ":" + acc);
  }
  return "no-sanitizer-report";
}

static int runIsolated(OpFn fn) {
  std::vector<std::string> lines;
  std::string line;
  while (std::getline(std::cin, line)) lines.push_back(line);
  size_t i = 0, n = lines.size();
  while (i < n) {
    int pfd[2];
    if (pipe(pfd) != 0) return 3;
    FILE* errf = tmpfile();
    if (!errf) return 3;
    fflush(stdout);
    pid_t pid = fork();
    if (pid < 0) return 3;
    if (pid == 0) {
      close(pfd[0]);
      dup2(fileno(errf), 2);
      FILE* o = fdopen(pfd[1], "w");
      for (size_t k = i; k < n; k++) {
        std::string r = fn(lines[k]);
        fputs(r.c_str(), o);
        fputc('\n', o);
        fflush(o);
      }
      fclose(o);
      _exit(0);
    }
    close(pfd[1]);
    std::string got;
    char tmp[65536];
    ssize_t r;
    while ((r = read(pfd[0], tmp, sizeof tmp)) > 0) got.append(tmp, (size_t)r);
    close(pfd[0]);
    int status = 0;
    waitpid(pid, &status, 0);
    size_t done = 0, start = 0;
    for (size_t p = 0; p < got.size(); p++) {
      if (got[p] == '\n') {
        if (i + done < n) { fwrite(got.data() + start, 1, p - start + 1, stdout); done++; }
        start = p + 1;
      }
    }
    i += done;
    if (i < n) {
      // the child died while executing lines[i]
      std::string how = WIFSIGNALED(status) ? "signal=" + std::to_string(WTERMSIG(status))
                                            : "exit=" + std::to_string(WEXITSTATUS(status));
      printf("crash %s %s\n", how.c_str(), sanitizerSummary(errf).c_str());
      i++;
    }
    fclose(errf);
  }
  fflush(stdout);
  return 0;
}

int main(int argc, char** argv) {
  if (argc < 2) return 2;
  std::string mode = argv[1];
  if (mode == "lex") return runIsolated(opLex);
  if (mode == "shesc") return runIsolated(opShesc);
  if (mode == "cls") return runIsolated(opCls);
  fprintf(stderr, "unknown mode %s\n", argv[1]);
  return 2;
}
