/* C04 kill-point shim (LD_PRELOAD).  Counts the system calls that touch the database file or its journal
 * (open/openat/write/pwrite/fsync/fdatasync/ftruncate/unlink/rename; paths starting with $VSHIM_PATH, and
 * descriptors opened on such paths) and _exit(99)s immediately BEFORE performing the $VSHIM_KILL_AT-th one.
 * With VSHIM_KILL_AT=0 nothing is killed and the total is written to $VSHIM_COUNT_FILE at exit.
 * Built by vlib/props/c04.py:  cc -shared -fPIC -O1 -o vshim.so vshim.c -ldl */
#define _GNU_SOURCE
#include <dlfcn.h>
#include <fcntl.h>
#include <stdarg.h>
#include <stdio.h>
#include <stdlib.h>
#include <string.h>
#include <sys/types.h>
#include <unistd.h>

static const char* g_path;
static size_t g_plen;
static long g_kill_at = -1;
static long g_count;
static char g_fd[4096];

static void init(void) {
  if (g_kill_at >= 0) return;
  g_path = getenv("VSHIM_PATH");
  g_plen = g_path ? strlen(g_path) : 0;
  const char* k = getenv("VSHIM_KILL_AT");
  g_kill_at = k ? atol(k) : 0;
}

static int match(const char* p) { init(); return g_plen && p && strncmp(p, g_path, g_plen) == 0; }
static int tracked(int fd) { init(); return fd >= 0 && fd < (int)sizeof g_fd && g_fd[fd]; }

static void tick(void) {
  g_count++;
  if (g_kill_at > 0 && g_count == g_kill_at) _exit(99);
}

__attribute__((destructor)) static void fini(void) {
  const char* f = getenv("VSHIM_COUNT_FILE");
  if (!f) return;
  FILE* fp = fopen(f, "w");
  if (fp) { fprintf(fp, "%ld\n", g_count); fclose(fp); }
}

#define REAL(name, ret, ...) typedef ret (*fn_t)(__VA_ARGS__); static fn_t real; if (!real) real = (fn_t)dlsym(RTLD_NEXT, name)

static int do_open(const char* name, const char* path, int flags, mode_t mode) {
  typedef int (*fn)(const char*, int, ...);
  fn real = (fn)dlsym(RTLD_NEXT, name);
  int m = match(path);
  if (m) tick();
  int fd = real(path, flags, mode);
  if (m && fd >= 0 && fd < (int)sizeof g_fd) g_fd[fd] = 1;
  return fd;
}
int open(const char* path, int flags, ...) { va_list ap; va_start(ap, flags); mode_t m = va_arg(ap, int); va_end(ap); return do_open("open", path, flags, m); }
int open64(const char* path, int flags, ...) { va_list ap; va_start(ap, flags); mode_t m = va_arg(ap, int); va_end(ap); return do_open("open64", path, flags, m); }

static int do_openat(const char* name, int dirfd, const char* path, int flags, mode_t mode) {
  typedef int (*fn)(int, const char*, int, ...);
  fn real = (fn)dlsym(RTLD_NEXT, name);
  int m = match(path);
  if (m) tick();
  int fd = real(dirfd, path, flags, mode);
  if (m && fd >= 0 && fd < (int)sizeof g_fd) g_fd[fd] = 1;
  return fd;
}
int openat(int d, const char* path, int flags, ...) { va_list ap; va_start(ap, flags); mode_t m = va_arg(ap, int); va_end(ap); return do_openat("openat", d, path, flags, m); }
int openat64(int d, const char* path, int flags, ...) { va_list ap; va_start(ap, flags); mode_t m = va_arg(ap, int); va_end(ap); return do_openat("openat64", d, path, flags, m); }

int close(int fd) {
  REAL("close", int, int);
  if (fd >= 0 && fd < (int)sizeof g_fd) g_fd[fd] = 0;
  return real(fd);
}
ssize_t write(int fd, const void* b, size_t n) { REAL("write", ssize_t, int, const void*, size_t); if (tracked(fd)) tick(); return real(fd, b, n); }
ssize_t pwrite(int fd, const void* b, size_t n, off_t o) { REAL("pwrite", ssize_t, int, const void*, size_t, off_t); if (tracked(fd)) tick(); return real(fd, b, n, o); }
ssize_t pwrite64(int fd, const void* b, size_t n, off_t o) { REAL("pwrite64", ssize_t, int, const void*, size_t, off_t); if (tracked(fd)) tick(); return real(fd, b, n, o); }
int fsync(int fd) { REAL("fsync", int, int); if (tracked(fd)) tick(); return real(fd); }
int fdatasync(int fd) { REAL("fdatasync", int, int); if (tracked(fd)) tick(); return real(fd); }
int ftruncate(int fd, off_t l) { REAL("ftruncate", int, int, off_t); if (tracked(fd)) tick(); return real(fd, l); }
int ftruncate64(int fd, off_t l) { REAL("ftruncate64", int, int, off_t); if (tracked(fd)) tick(); return real(fd, l); }
int unlink(const char* p) { REAL("unlink", int, const char*); if (match(p)) tick(); return real(p); }
int rename(const char* a, const char* b) { REAL("rename", int, const char*, const char*); if (match(a) || match(b)) tick(); return real(a, b); }
