// C20 event-by-event harness: the DSL/program/env/schedule/ops of vengine.cpp, interpreted by ONE client logic
// that reaches the engine through one of two bindings:
//
//   vengine_capi capi <scratch>   ONLY the public C API of <llbuild/llbuild.h> (core.h + db.h): llb_buildengine_create with an
//                                 llb_buildengine_delegate_t, lookup_rule filling an llb_rule_t, llb_task_create, requests via
//                                 llb_buildengine_task_needs_input / _must_follow / _discovered_dependency, completion via
//                                 llb_buildengine_task_is_complete, llb_buildengine_attach_db, llb_buildengine_build; the database
//                                 is read back with llb_database_open / get_keys / lookup_rule_result.
//   vengine_capi cxx  <scratch>   the C++ interface: core::BuildEngine with core::Rule / core::Task subclasses,
//                                 createSQLiteBuildDB + BuildEngine::attachDB, BuildDB::getKeysWithResult.
//
// Both modes print, per op, exactly the same line when the binding is faithful; the event alphabet is restricted to what
// core.h lets a client observe:
//   B k | L k | S k n | V k v b | T k | ST k <reqs> | PV k id <key|-1> v <reqs> | IA k <discs> | C k v f | CY n keys |
//   ER code | R v | Z live late
// (no QC / N / PP / database events: createExecutionQueue, determinedRuleNeedsToRun, providePriorValue and the BuildDB
// interface have no counterpart in core.h; no cancellation: core.h has no cancel call).  In PV the key is the one the task
// itself associates with the input id (provide_value of the C API has no key argument).
//
// Ops (decimal tokens unless noted), one output line per op (P consumes its R lines):
//   W                      delete the database file, clear the external state, schema version back to 9, new engine
//   KB <hexprefix>         every key is named <prefix bytes> 'k' <n>   ("-" = empty prefix); takes effect with the next P
//   SV <n>                 client schema version used by the following engines
//   P <nrules> + R lines   define the program (new engine)
//   E                      new engine on the same database file
//   M <slot> <val>         mutate the external state
//   B <key> <ignored> <ignored> <nitems> (<ignored> <n> k1..kn)*    build with a hook-driven completion schedule
//   D                      canonical dump of the database file
// Rule line as in vengine.cpp (sigBase is ignored: llb_rule_t has no signature; request kind 1 is treated as kind 0).
#include "vcommon.h"

#include <llbuild/llbuild.h>

#include "llbuild/Core/BuildDB.h"
#include "llbuild/Core/BuildEngine.h"
#include "llbuild/Basic/ExecutionQueue.h"

#include <algorithm>
#include <map>
#include <memory>
#include <set>
#include <unordered_map>
#include <signal.h>
#include <unistd.h>

using namespace llbuild;
using namespace llbuild::core;

#ifdef LLBUILD_VERIF
namespace llbuild { namespace core { extern void (*verifEngineHook)(int point, BuildEngine* engine); } }
#endif

namespace {

typedef uint64_t U64;
const U64 FLAG_OFFSET = 2000;
const uint32_t DEFAULT_SCHEMA = 9;

struct Req { U64 key, id, kind; };           // kind 0 normal, 2 must-follow (1 = single-use: not expressible in core.h, treated as 0)
struct Cond { U64 ck, id, m, r; };
struct When { Cond c; std::vector<Req> reqs; };
struct Disc { Cond c; U64 key; };
struct RuleSpec {
  U64 key = 0, kind = 0, sigBase = 0, validMode = 0, validArg = 0, force = 0, deferred = 0, vmod = 0;
  std::vector<Req> statics;
  std::vector<When> whens;
  std::vector<Disc> discs;
};

bool capiMode = true;
std::map<U64, RuleSpec> program;
std::map<std::string, RuleSpec> alienSpecs;   // keys that are not <prefix>k<n> (only reachable when a binding mangles keys)
std::map<U64, U64> env;
U64 envAt(U64 k) { auto it = env.find(k); return it == env.end() ? 0 : it->second; }

// ---------------------------------------------------------------------------------------------
// values: 0 <-> empty bytes, otherwise 8 bytes little endian; keys: <prefix> 'k' <decimal>
std::string toValue(U64 v) {
  std::string out;
  if (v == 0) return out;
  for (int i = 0; i < 8; i++) out.push_back((char)(uint8_t)(v >> (8 * i)));
  return out;
}
std::string valStr(const std::string& v) {
  if (v.empty()) return "0";
  if (v.size() != 8) return "bad" + std::to_string(v.size()) + ":" + vh::hexEncode(v);
  U64 x = 0;
  for (int i = 0; i < 8; i++) x |= (U64)(uint8_t)v[i] << (8 * i);
  return std::to_string(x);
}
U64 valNum(const std::string& v) {
  U64 x = 0;
  for (size_t i = 0; i < v.size() && i < 8; i++) x |= (U64)(uint8_t)v[i] << (8 * i);
  return x;
}
std::string keyPrefix;
std::string keyName(U64 k) { return keyPrefix + "k" + std::to_string(k); }
bool parseKey(const std::string& s, U64* out) {
  size_t p = keyPrefix.size();
  if (s.size() < p + 2 || s.compare(0, p, keyPrefix) != 0 || s[p] != 'k') return false;
  for (size_t i = p + 1; i < s.size(); i++) if (s[i] < '0' || s[i] > '9') return false;
  U64 k = strtoull(s.c_str() + p + 1, nullptr, 10);
  if (keyName(k) != s) return false;
  *out = k;
  return true;
}
std::string keyTok(const std::string& s) { U64 k; return parseKey(s, &k) ? std::to_string(k) : "?" + vh::hexEncode(s); }

llb_data_t blob(const std::string& s) { return llb_data_t{s.size(), (const uint8_t*)s.data()}; }
std::string bytes(const llb_data_t* d) { return d->length ? std::string((const char*)d->data, d->length) : std::string(); }
std::string bytes(const ValueType& v) { return std::string((const char*)v.data(), v.size()); }

// ---------------------------------------------------------------------------------------------
// event trace
std::vector<std::string> events;
bool buildActive = false;
int callbacksAfterReturn = 0;
void ev(const std::string& s) { events.push_back(s); }
void guard() { if (!buildActive) callbacksAfterReturn++; }

// ---------------------------------------------------------------------------------------------
// DSL interpretation (identical to vengine.cpp, minus signatures)
U64 mixInit() { return 1469598103934665603ULL; }
U64 mix(U64 h, U64 x) { return (h ^ x) * 1099511628211ULL; }

struct Recv { std::map<U64, U64> got; };

bool condHolds(const Cond& c, const Recv& r) {
  auto it = r.got.find(c.id);
  if (it == r.got.end()) return false;
  if (c.ck == 0) return true;
  return c.m != 0 && (it->second % c.m) == c.r;
}
std::vector<Req> nextReqs(const RuleSpec& s, const Recv& r) {
  std::vector<Req> out = s.statics;
  for (auto& w : s.whens) if (condHolds(w.c, r)) out.insert(out.end(), w.reqs.begin(), w.reqs.end());
  return out;
}
std::vector<U64> discKeys(const RuleSpec& s, const Recv& r) {
  std::vector<U64> out;
  for (auto& d : s.discs) if (condHolds(d.c, r)) out.push_back(d.key);
  return out;
}
U64 outValue(const RuleSpec& s, const Recv& r) {
  if (s.kind == 0) return envAt(s.key);
  U64 h = mix(mixInit(), s.key);
  for (auto& kv : r.got) { h = mix(h, kv.first); h = mix(h, kv.second); }
  h = mix(h, 0xabcdef);
  for (auto d : discKeys(s, r)) { h = mix(h, d); h = mix(h, envAt(d)); }
  if (s.vmod) h = (h % s.vmod) + 1;
  if (h == 0) h = 1;
  return h;
}
bool validOf(const RuleSpec& s, U64 v) {
  if (s.kind == 0) return v == envAt(s.key);
  if (s.validMode == 0) return true;
  if (s.validMode == 1) return false;
  return envAt(FLAG_OFFSET + s.validArg) == 0;
}
std::string reqsStr(const std::vector<Req>& v) {
  std::string s = std::to_string(v.size());
  for (auto& q : v) s += " " + std::to_string(q.key) + " " + std::to_string(q.id) + " " + std::to_string(q.kind);
  return s;
}

// ---------------------------------------------------------------------------------------------
// the client logic, written once; the four engine calls it makes go through `Binding`
struct RuleState {            // one per lookup
  const RuleSpec* s;
  std::string keyBytes, tok;
};
struct TaskState;
std::map<U64, TaskState*> pendingDeferred;
std::set<TaskState*> liveTasks;

struct TaskState {
  const RuleSpec& s;
  std::string tok;
  Recv recv;
  std::vector<Req> issuedReqs;
  bool done = false;
  // handle of the binding in use (refreshed on every callback)
  llb_task_interface_t cti{nullptr, nullptr};
  TaskInterface xti{nullptr, nullptr};

  TaskState(const RuleState& r) : s(*r.s), tok(r.tok) { liveTasks.insert(this); }
  ~TaskState() {
    liveTasks.erase(this);
    auto it = pendingDeferred.find(s.key);
    if (it != pendingDeferred.end() && it->second == this) pendingDeferred.erase(it);
  }

  // ---- binding ------------------------------------------------------------------------------
  void bRequest(const Req& q) {
    std::string k = keyName(q.key);
    if (capiMode) {
      llb_data_t d = blob(k);
      if (q.kind == 2) llb_buildengine_task_must_follow(cti, &d);
      else llb_buildengine_task_needs_input(cti, &d, (uintptr_t)q.id);
    } else {
      if (q.kind == 2) xti.mustFollow(KeyType(k));
      else xti.request(KeyType(k), (uintptr_t)q.id);
    }
  }
  void bDiscovered(U64 key) {
    std::string k = keyName(key);
    if (capiMode) { llb_data_t d = blob(k); llb_buildengine_task_discovered_dependency(cti, &d); }
    else xti.discoveredDependency(KeyType(k));
  }
  void bComplete(const std::string& v, bool force) {
    if (capiMode) { llb_data_t d = blob(v); llb_buildengine_task_is_complete(cti, &d, force); }
    else xti.complete(ValueType(v.begin(), v.end()), force);
  }

  // ---- logic --------------------------------------------------------------------------------
  bool wasIssued(const Req& q) const {
    for (auto& p : issuedReqs) if (p.key == q.key && p.id == q.id && p.kind == q.kind) return true;
    return false;
  }
  std::vector<Req> newReqs() const {
    std::vector<Req> out;
    for (auto& q : nextReqs(s, recv)) {
      bool dup = wasIssued(q);
      for (auto& p : out) if (p.key == q.key && p.id == q.id && p.kind == q.kind) dup = true;
      if (!dup) out.push_back(q);
    }
    return out;
  }
  void issue(const std::vector<Req>& fresh) {
    for (auto& q : fresh) { issuedReqs.push_back(q); bRequest(q); }
  }
  void onStart() {
    guard();
    auto fresh = newReqs();
    ev("ST " + tok + " " + reqsStr(fresh));
    issue(fresh);
  }
  void onProvide(U64 id, const std::string& v) {
    guard();
    std::string key = "-1";
    for (auto& q : issuedReqs) if (q.id == id && q.kind != 2) { key = std::to_string(q.key); break; }
    recv.got[id] = valNum(v);
    auto fresh = newReqs();
    ev("PV " + tok + " " + std::to_string(id) + " " + key + " " + valStr(v) + " " + reqsStr(fresh));
    issue(fresh);
  }
  void onInputsAvailable() {
    guard();
    auto ds = discKeys(s, recv);
    std::string e = "IA " + tok + " " + std::to_string(ds.size());
    for (auto d : ds) e += " " + std::to_string(d);
    ev(e);
    for (auto d : ds) bDiscovered(d);
    if (!s.deferred) { complete(); return; }
    pendingDeferred[s.key] = this;
  }
  void complete() {
    U64 v = outValue(s, recv);
    ev("C " + tok + " " + std::to_string(v) + " " + std::to_string(s.force));
    done = true;
    bComplete(toValue(v), s.force != 0);
  }
};

// shared by both bindings
const RuleSpec* specFor(const std::string& keyBytes) {
  U64 k;
  if (parseKey(keyBytes, &k)) {
    auto it = program.find(k);
    if (it == program.end()) { RuleSpec s; s.key = k; s.kind = 0; it = program.insert({k, s}).first; }   // undefined key = input rule
    return &it->second;
  }
  auto it = alienSpecs.find(keyBytes);
  if (it == alienSpecs.end()) { RuleSpec s; s.key = 0; s.kind = 0; it = alienSpecs.insert({keyBytes, s}).first; }
  return &it->second;
}
bool ruleValid(const RuleSpec& s, const std::string& tok, const std::string& v) {
  bool b = v.size() == 0 || v.size() == 8 ? validOf(s, valNum(v)) : false;
  ev("V " + tok + " " + valStr(v) + " " + (b ? "1" : "0"));
  return b;
}
int errorCode(const std::string& m) {
  if (m.find("duplicate rule") != std::string::npos) return 1;
  if (m.find("reserved input ID") != std::string::npos) return 2;
  if (m.find("discovered dependency") != std::string::npos) return 3;
  if (m.find("marking task complete") != std::string::npos) return 4;
  if (m.find("busy") != std::string::npos) return 5;
  return 0;
}

// ---------------------------------------------------------------------------------------------
// binding 1: the public C API
struct EngineCtx { std::vector<std::unique_ptr<RuleState>> rules; };   // llb_rule_t has no destroy callback: owned here
void* expectedEngineCtx = nullptr;
void checkCtx(void* engine_context) { if (engine_context != expectedEngineCtx) ev("BADCTX"); }

void c_task_destroy(void* ctx) { delete (TaskState*)ctx; }
void c_task_start(void* ctx, void* ectx, llb_task_interface_t ti) {
  checkCtx(ectx);
  auto* t = (TaskState*)ctx; t->cti = ti; t->onStart();
}
void c_task_provide_value(void* ctx, void* ectx, llb_task_interface_t ti, uintptr_t input_id, const llb_data_t* value) {
  checkCtx(ectx);
  auto* t = (TaskState*)ctx; t->cti = ti; t->onProvide((U64)input_id, bytes(value));
}
void c_task_inputs_available(void* ctx, void* ectx, llb_task_interface_t ti) {
  checkCtx(ectx);
  auto* t = (TaskState*)ctx; t->cti = ti; t->onInputsAvailable();
}
llb_task_t* c_rule_create_task(void* ctx, void* ectx) {
  checkCtx(ectx);
  auto* r = (RuleState*)ctx;
  ev("T " + r->tok);
  llb_task_delegate_t d{};
  d.context = new TaskState(*r);
  d.destroy_context = c_task_destroy;
  d.start = c_task_start;
  d.provide_value = c_task_provide_value;
  d.inputs_available = c_task_inputs_available;
  return llb_task_create(d);
}
bool c_rule_is_result_valid(void* ctx, void* ectx, const llb_rule_t* rule, const llb_data_t* result) {
  checkCtx(ectx);
  auto* r = (RuleState*)ctx;
  // the rule handed back must be the one lookup_rule filled in
  if (rule->context != ctx || bytes(&rule->key) != r->keyBytes) ev("BADRULE");
  return ruleValid(*r->s, keyTok(bytes(&rule->key)), bytes(result));
}
void c_rule_update_status(void* ctx, void* ectx, llb_rule_status_kind_t kind) {
  checkCtx(ectx);
  ev("S " + ((RuleState*)ctx)->tok + " " + std::to_string((int)kind));
}
void c_engine_destroy_context(void* ctx) { delete (EngineCtx*)ctx; }
void c_engine_lookup_rule(void* ctx, const llb_data_t* key, llb_rule_t* rule_out) {
  auto* e = (EngineCtx*)ctx;
  std::string k = bytes(key);
  ev("L " + keyTok(k));
  e->rules.emplace_back(new RuleState{specFor(k), k, keyTok(k)});
  RuleState* r = e->rules.back().get();
  rule_out->context = r;
  rule_out->key = blob(r->keyBytes);
  rule_out->create_task = c_rule_create_task;
  rule_out->is_result_valid = c_rule_is_result_valid;
  rule_out->update_status = c_rule_update_status;
}
void c_engine_error(void*, const char* message) { ev("ER " + std::to_string(errorCode(message ? message : ""))); }
void c_engine_cycle(void*, const llb_data_t* keys, uint64_t n) {
  std::string e = "CY " + std::to_string(n);
  for (uint64_t i = 0; i < n; i++) e += " " + keyTok(bytes(&keys[i]));
  ev(e);
}

// ---------------------------------------------------------------------------------------------
// binding 2: the C++ interface
struct XTask : public Task {
  TaskState st;
  XTask(const RuleState& r) : st(r) {}
  void start(TaskInterface ti) override { st.xti = ti; st.onStart(); }
  void providePriorValue(TaskInterface, const ValueType&) override {}      // not observable through core.h
  void provideValue(TaskInterface ti, uintptr_t id, const KeyType&, const ValueType& v) override { st.xti = ti; st.onProvide((U64)id, bytes(v)); }
  void inputsAvailable(TaskInterface ti) override { st.xti = ti; st.onInputsAvailable(); }
};
struct XRule : public Rule {
  RuleState r;
  XRule(const RuleState& r) : Rule(KeyType(r.keyBytes)), r(r) {}
  Task* createTask(BuildEngine&) override { ev("T " + r.tok); return new XTask(r); }
  bool isResultValid(BuildEngine&, const ValueType& v) override { return ruleValid(*r.s, keyTok(key.str()), bytes(v)); }
  void updateStatus(BuildEngine&, StatusKind k) override { ev("S " + r.tok + " " + std::to_string((int)k)); }
};
class QD : public basic::ExecutionQueueDelegate {
  void queueJobStarted(basic::JobDescriptor*) override {}
  void queueJobFinished(basic::JobDescriptor*) override {}
  void processStarted(basic::ProcessContext*, basic::ProcessHandle, llbuild_pid_t) override {}
  void processHadError(basic::ProcessContext*, basic::ProcessHandle, const Twine&) override {}
  void processHadOutput(basic::ProcessContext*, basic::ProcessHandle, StringRef) override {}
  void processFinished(basic::ProcessContext*, basic::ProcessHandle, const basic::ProcessResult&) override {}
} qd;
struct XDelegate : public BuildEngineDelegate {
  std::unique_ptr<basic::ExecutionQueue> createExecutionQueue() override { return basic::createSerialQueue(qd, nullptr); }
  std::unique_ptr<Rule> lookupRule(const KeyType& key) override {
    std::string k = key.str();
    ev("L " + keyTok(k));
    return std::unique_ptr<Rule>(new XRule(RuleState{specFor(k), k, keyTok(k)}));
  }
  void cycleDetected(const std::vector<Rule*>& items) override {
    std::string e = "CY " + std::to_string(items.size());
    for (auto r : items) e += " " + keyTok(r->key.str());
    ev(e);
  }
  void error(const Twine& message) override { ev("ER " + std::to_string(errorCode(message.str()))); }
};

// ---------------------------------------------------------------------------------------------
// hook-driven schedule (as vengine.cpp; no cancellation)
struct SchedItem { std::vector<U64> keys; };
std::vector<SchedItem> sched;
size_t schedPos = 0;

bool completeKey(U64 k) {
  auto it = pendingDeferred.find(k);
  if (it == pendingDeferred.end()) return false;
  TaskState* t = it->second;
  pendingDeferred.erase(it);
  t->complete();
  return true;
}
bool completeSmallest() {
  if (pendingDeferred.empty()) return false;
  return completeKey(pendingDeferred.begin()->first);
}
void hook(int point, BuildEngine*) {
  if (point == 2) { completeSmallest(); return; }
  bool any = false;
  if (schedPos < sched.size()) {
    SchedItem it = sched[schedPos++];
    for (auto k : it.keys) any |= completeKey(k);
  }
  if (point == 1 && !any) completeSmallest();
}

// ---------------------------------------------------------------------------------------------
// engines
std::string dbPath;
uint32_t schemaVersion = DEFAULT_SCHEMA;
llb_buildengine_t* cEngine = nullptr;
std::unique_ptr<XDelegate> xDelegate;
std::unique_ptr<BuildEngine> xEngine;

void dropEngine() {
  if (cEngine) { llb_buildengine_destroy(cEngine); cEngine = nullptr; expectedEngineCtx = nullptr; }
  xEngine.reset();
  xDelegate.reset();
}
std::string oneLine(std::string s) {
  for (auto& c : s) if (c == '\n' || c == '\r') c = ' ';
  return s;
}
// returns "ok" or "attach-failed <message>"
std::string newEngine() {
  dropEngine();
  if (capiMode) {
    llb_buildengine_delegate_t d{};
    d.context = expectedEngineCtx = new EngineCtx();
    d.destroy_context = c_engine_destroy_context;
    d.lookup_rule = c_engine_lookup_rule;
    d.error = c_engine_error;
    d.cycle_detected = c_engine_cycle;
    cEngine = llb_buildengine_create(d);
    llb_data_t p = blob(dbPath);
    char* err = nullptr;
    bool ok = llb_buildengine_attach_db(cEngine, &p, schemaVersion, &err);
    std::string msg = err ? err : "";
    free(err);
    return ok ? "ok" : "attach-failed " + oneLine(msg);
  }
  xDelegate.reset(new XDelegate());
  xEngine.reset(new BuildEngine(*xDelegate));
  std::string error;
  std::unique_ptr<BuildDB> db(createSQLiteBuildDB(dbPath, schemaVersion, /* recreateUnmatchedVersion = */ true, &error));
  if (!db) return "attach-failed " + oneLine(error);
  bool ok = xEngine->attachDB(std::move(db), &error);
  return ok ? "ok" : "attach-failed " + oneLine(error);
}

void onAlarm(int) {
  std::string out = "STALL";
  for (auto& e : events) out += " ; " + e;
  out += "\n";
  (void)!write(1, out.data(), out.size());
  _exit(3);
}

std::string runBuild(U64 key) {
  signal(SIGALRM, onAlarm);
  alarm(20);
  events.clear();
  buildActive = true;
  ev("B " + std::to_string(key));
  std::string k = keyName(key), result;
  if (capiMode) {
    llb_data_t kd = blob(k), out{0, nullptr};
    llb_buildengine_build(cEngine, &kd, &out);
    result = bytes(&out);
  } else {
    result = bytes(xEngine->build(KeyType(k)));
  }
  alarm(0);
  buildActive = false;
  ev("R " + valStr(result));
  ev("Z " + std::to_string(liveTasks.size()) + " " + std::to_string(callbacksAfterReturn));
  std::string out;
  for (size_t i = 0; i < events.size(); i++) { if (i) out += " ; "; out += events[i]; }
  return out;
}

// ---------------------------------------------------------------------------------------------
// canonical database dump: "iter N | <keyhex> <valuehex> <builtAt> <computedAt> <depkeyhex>:<flags>* | ..." sorted by key.
// Dependency flags (bit0 order-only, bit1 single-use) are not exposed by db.h: in both modes they come from the C++ reader of
// the same file; everything else comes from the reader of the mode.
struct Row { std::string value; U64 builtAt = 0, computedAt = 0; std::vector<std::string> deps; std::vector<int> flags; };

struct DumpDelegate : public BuildDBDelegate {
  std::vector<std::string> keys;
  std::unordered_map<std::string, uint64_t> ids;
  const KeyID getKeyID(const KeyType& key) override {
    auto it = ids.find(key.str());
    if (it != ids.end()) return KeyID((const void*)(uintptr_t)it->second);
    keys.push_back(key.str());
    uint64_t id = keys.size();
    ids[key.str()] = id;
    return KeyID((const void*)(uintptr_t)id);
  }
  KeyType getKeyForID(const KeyID id) override {
    uint64_t v = id.value();
    if (v == 0 || v > keys.size()) return KeyType("<bad-id>");
    return KeyType(keys[v - 1]);
  }
};

bool readCxx(std::map<std::string, Row>& rows, U64* iter, std::string* error) {
  DumpDelegate del;
  std::unique_ptr<BuildDB> db(createSQLiteBuildDB(dbPath, schemaVersion, /* recreateUnmatchedVersion = */ false, error));
  if (!db) return false;
  db->attachDelegate(&del);
  bool ok = true;
  *iter = db->getCurrentEpoch(&ok, error);
  if (!ok) return false;
  std::vector<KeyType> keys;
  std::vector<Result> results;
  ok = db->getKeysWithResult(keys, results, error);
  if (ok) {
    for (size_t i = 0; i < keys.size(); i++) {
      Row r;
      r.value = bytes(results[i].value);
      r.builtAt = results[i].builtAt; r.computedAt = results[i].computedAt;
      for (auto dep : results[i].dependencies) {
        r.deps.push_back(del.getKeyForID(dep.keyID).str());
        r.flags.push_back((dep.orderOnly ? 1 : 0) | (dep.singleUse ? 2 : 0));
      }
      rows[keys[i].str()] = r;
    }
  }
  return ok;
}

void grabKey(void* ctx, uint8_t* data, size_t count) { *(std::string*)ctx = std::string((const char*)data, count); }
std::string errText(llb_data_t* e) {
  std::string s = e->data ? std::string((const char*)e->data, e->length) : std::string();
  if (e->data) llb_data_destroy(e);
  e->data = nullptr; e->length = 0;
  return s;
}
bool readCapi(std::map<std::string, Row>& rows, U64* iter, std::string* error) {
  llb_data_t err{0, nullptr};
  std::vector<char> path(dbPath.begin(), dbPath.end());
  path.push_back(0);
  llb_database_t* db = (llb_database_t*)llb_database_open(path.data(), schemaVersion, &err);
  if (!db) { *error = errText(&err); return false; }
  bool ok = true;
  *iter = llb_database_get_epoch(db, &err);
  if (err.data) { *error = errText(&err); ok = false; }
  llb_database_fetch_result_t* fr = nullptr;
  if (ok && (!llb_database_get_keys(db, &fr, &err) || !fr)) { *error = errText(&err); ok = false; }
  if (ok) {
    uint64_t n = llb_database_fetch_result_get_count(fr);
    for (uint64_t i = 0; i < n && ok; i++) {
      llb_build_key_t* key = llb_database_fetch_result_get_key_at_index(fr, (int32_t)i);
      std::string kb;
      llb_build_key_get_key_data(key, &kb, grabKey);
      llb_database_result_t res{};
      bool found = llb_database_lookup_rule_result(db, key, &res, &err);
      if (err.data) { *error = errText(&err); ok = false; }
      if (found && ok) {
        Row r;
        r.value = bytes(&res.value);
        r.builtAt = res.built_at; r.computedAt = res.computed_at;
        for (uint32_t j = 0; j < res.dependencies_count; j++) {
          std::string dk;
          llb_build_key_get_key_data(res.dependencies[j], &dk, grabKey);
          r.deps.push_back(dk);
        }
        rows[kb] = r;
      }
      llb_data_destroy(&res.value);
      free(res.dependencies);     // allocated with malloc by the library (llb_database_destroy_result uses delete)
    }
    llb_database_destroy_fetch_result(fr);
  }
  llb_database_destroy(db);
  return ok;
}

std::string dumpDB() {
  std::map<std::string, Row> rows, cxxRows;
  U64 iter = 0, cxxIter = 0;
  std::string error;
  if (!readCxx(cxxRows, &cxxIter, &error)) return "dump-error " + oneLine(error);
  if (capiMode) {
    if (!readCapi(rows, &iter, &error)) return "dump-error " + oneLine(error);
    for (auto& kv : rows) {
      auto it = cxxRows.find(kv.first);
      for (size_t j = 0; j < kv.second.deps.size(); j++)
        kv.second.flags.push_back(it != cxxRows.end() && j < it->second.flags.size() ? it->second.flags[j] : -1);
    }
  } else {
    rows = cxxRows; iter = cxxIter;
  }
  std::string out = "iter " + std::to_string(iter);
  for (auto& kv : rows) {
    const Row& r = kv.second;
    out += " | " + vh::hexEncode(kv.first) + " " + vh::hexEncode(r.value) + " " + std::to_string(r.builtAt) + " " + std::to_string(r.computedAt);
    for (size_t j = 0; j < r.deps.size(); j++) out += " " + vh::hexEncode(r.deps[j]) + ":" + std::to_string(r.flags[j]);
  }
  return out;
}

// ---------------------------------------------------------------------------------------------
std::vector<U64> nums(const std::string& line, size_t from) {
  std::vector<U64> out;
  auto f = vh::split(line);
  for (size_t i = from; i < f.size(); i++) if (!f[i].empty()) out.push_back(strtoull(f[i].c_str(), nullptr, 10));
  return out;
}
bool parseRule(const std::vector<U64>& n, RuleSpec* out) {
  RuleSpec s; size_t i = 0;
  bool bad = false;
  auto next = [&]() -> U64 { if (i >= n.size()) { bad = true; return 0; } return n[i++]; };
  auto req = [&]() { Req q; q.key = next(); q.id = next(); q.kind = next(); if (q.kind == 1) q.kind = 0; return q; };
  s.key = next(); s.kind = next(); s.sigBase = next(); s.validMode = next(); s.validArg = next();
  s.force = next(); s.deferred = next(); s.vmod = next();
  U64 ns = next();
  for (U64 j = 0; j < ns && !bad; j++) s.statics.push_back(req());
  U64 nw = next();
  for (U64 j = 0; j < nw && !bad; j++) {
    When w; w.c.ck = next(); w.c.id = next(); w.c.m = next(); w.c.r = next();
    U64 nr = next();
    for (U64 l = 0; l < nr && !bad; l++) w.reqs.push_back(req());
    s.whens.push_back(w);
  }
  U64 nd = next();
  for (U64 j = 0; j < nd && !bad; j++) { Disc d; d.c.ck = next(); d.c.id = next(); d.c.m = next(); d.c.r = next(); d.key = next(); s.discs.push_back(d); }
  *out = s;
  return !bad;
}

}  // namespace

int main(int argc, char** argv) {
  std::ios::sync_with_stdio(false);
  if (argc < 3 || (std::string(argv[1]) != "capi" && std::string(argv[1]) != "cxx")) {
    fprintf(stderr, "usage: vengine_capi capi|cxx <scratch-dir>\n");
    return 2;
  }
  capiMode = std::string(argv[1]) == "capi";
  dbPath = std::string(argv[2]) + "/vengine-" + argv[1] + "-" + std::to_string((long)getpid()) + ".db";
  unlink(dbPath.c_str());
#ifdef LLBUILD_VERIF
  llbuild::core::verifEngineHook = hook;
#endif
  bool haveEngine = false;
  std::string line;
  while (std::getline(std::cin, line)) {
    if (line.empty()) { std::cout << "\n"; continue; }
    auto f = vh::split(line);
    const std::string& op = f[0];
    if (op == "P") {
      auto hdr = nums(line, 1);
      U64 n = hdr.empty() ? 0 : hdr[0];
      dropEngine();            // rules reference the program
      program.clear(); alienSpecs.clear();
      bool ok = true;
      for (U64 i = 0; i < n; i++) {
        std::string rl;
        if (!std::getline(std::cin, rl)) { ok = false; break; }
        RuleSpec s;
        if (!parseRule(nums(rl, 1), &s)) { ok = false; continue; }
        program[s.key] = s;
      }
      std::string r = newEngine(); haveEngine = true;
      std::cout << (ok ? r : "bad-op") << "\n";
    } else if (op == "E") {
      std::cout << newEngine() << "\n"; haveEngine = true;
    } else if (op == "W") {
      dropEngine();
      unlink(dbPath.c_str());
      unlink((dbPath + "-journal").c_str());
      env.clear();
      callbacksAfterReturn = 0;
      schemaVersion = DEFAULT_SCHEMA;
      std::cout << newEngine() << "\n"; haveEngine = true;
    } else if (op == "KB" && f.size() == 2) {
      keyPrefix = vh::hexDecode(f[1]);
      std::cout << "ok\n";
    } else if (op == "SV" && f.size() == 2) {
      schemaVersion = (uint32_t)strtoul(f[1].c_str(), nullptr, 10);
      std::cout << "ok\n";
    } else if (op == "M") {
      auto n = nums(line, 1);
      if (n.size() < 2) { std::cout << "bad-op\n"; continue; }
      env[n[0]] = n[1];
      std::cout << "ok\n";
    } else if (op == "B") {
      auto n = nums(line, 1);
      size_t i = 0;
      bool bad = n.size() < 4;
      U64 key = 0;
      sched.clear(); schedPos = 0;
      if (!bad) {
        key = n[i++]; i++; i++;
        U64 ni = n[i++];
        for (U64 j = 0; j < ni && !bad; j++) {
          if (i + 2 > n.size()) { bad = true; break; }
          SchedItem it; i++;
          U64 c = n[i++];
          if (i + c > n.size()) { bad = true; break; }
          for (U64 l = 0; l < c; l++) it.keys.push_back(n[i++]);
          sched.push_back(it);
        }
      }
      if (bad || !haveEngine) { std::cout << "bad-op\n"; continue; }
      std::cout << runBuild(key) << "\n";
    } else if (op == "D") {
      std::cout << dumpDB() << "\n";
    } else {
      std::cout << "bad-op\n";
    }
    std::cout.flush();
  }
  dropEngine();
  unlink(dbPath.c_str());
  unlink((dbPath + "-journal").c_str());
  return 0;
}
