// C15 correspondence harness: the REAL BuildValue / BuildKey / StringList / FileInfo / BinaryCoding classes.
// usage: vc15 <mode>   -- one op per stdin line, one canonical line per op (same protocol as lean/LLBuild/Drv/C15.lean)
//
//   c15value  <kindOrd> <sigHex> <infos> <strings>   BuildValue::make*(..).toData(); fromData(); accessors
//   c15vdec   <bytesHex>                             BuildValue::fromData(bytes); accessors   (caller sends in-bounds data only)
//   c15key    <kindOrd> <nameHex> <N|R:hex|S:list>   BuildKey::make*(..).toData(); fromData(); getKind(); accessors
//   c15kdec   <bytesHex>                             BuildKey::fromData(bytes); getKind(); accessors (in-bounds data only)
//   c15prim   <width> <valueHex>                     BinaryEncoder::write(uintN_t); BinaryDecoder::read(uintN_t&)
// Every answer is flushed, so if the real code crashes on an op the number of answers identifies that op.
#include "vcommon.h"

#include "llbuild/Basic/BinaryCoding.h"
#include "llbuild/Basic/FileInfo.h"
#include "llbuild/Basic/Hashing.h"
#include "llbuild/Basic/StringList.h"
#include "llbuild/BuildSystem/BuildKey.h"
#include "llbuild/BuildSystem/BuildValue.h"

using namespace llbuild;
using namespace llbuild::basic;
using namespace llbuild::buildsystem;

static bool parseHexU64(const std::string& s, uint64_t& out) {
  if (s.empty() || s.size() > 16) return false;
  uint64_t v = 0;
  for (char c : s) { int d = vh::hv(c); if (d < 0) return false; v = (v << 4) | (uint64_t)d; }
  out = v;
  return true;
}

static std::string hexU64(uint64_t v) {
  char buf[32];
  snprintf(buf, sizeof(buf), "%llx", (unsigned long long)v);
  return buf;
}

static bool parseInfo(const std::string& s, FileInfo& fi) {
  auto f = vh::split(s, ':');
  if (f.size() != 7) return false;
  std::string cs = vh::hexDecode(f[6]);
  if (cs.size() != 32) return false;
  if (!parseHexU64(f[0], fi.device) || !parseHexU64(f[1], fi.inode) || !parseHexU64(f[2], fi.mode) ||
      !parseHexU64(f[3], fi.size) || !parseHexU64(f[4], fi.modTime.seconds) || !parseHexU64(f[5], fi.modTime.nanoseconds))
    return false;
  memcpy(fi.checksum.bytes, cs.data(), 32);
  return true;
}

static std::string showInfo(const FileInfo& fi) {
  return hexU64(fi.device) + ":" + hexU64(fi.inode) + ":" + hexU64(fi.mode) + ":" + hexU64(fi.size) + ":" +
         hexU64(fi.modTime.seconds) + ":" + hexU64(fi.modTime.nanoseconds) + ":" +
         vh::hexEncode(std::string((const char*)fi.checksum.bytes, 32));
}

// every observable of a BuildValue through its public accessors, in the canonical line format
static std::string showValue(const BuildValue& v) {
  std::string out = "k=" + std::to_string((uint32_t)v.getKind());
  uint64_t sig = 0;
  if (v.isDirectoryTreeSignature()) sig = v.getDirectoryTreeSignature().value;
  else if (v.isDirectoryTreeStructureSignature()) sig = v.getDirectoryTreeStructureSignature().value;
  else if (v.getKind() == BuildValue::Kind::SuccessfulCommandWithOutputSignature) sig = v.getOutputSignature().value;
  out += " sig=" + hexU64(sig);
  out += " infos=";
  if (v.isExistingInput() || v.isSuccessfulCommand() || v.isDirectoryContents()) {
    unsigned n = v.getNumOutputs();
    if (n == 0) out += ".";
    for (unsigned i = 0; i != n; ++i) { if (i) out += ","; out += showInfo(v.getNthOutputInfo(i)); }
  } else out += ".";
  out += " strs=";
  std::vector<std::string> strs;
  if (v.isDirectoryContents() || v.isFilteredDirectoryContents()) { for (auto s : v.getDirectoryContents()) strs.push_back(s.str()); }
  else if (v.isStaleFileRemoval()) { for (auto s : v.getStaleFileList()) strs.push_back(s.str()); }
  out += vh::hexListEncode(strs);
  return out;
}

static void mode_value() {
  std::string line;
  while (std::getline(std::cin, line)) {
    auto f = vh::split(line);
    if (f.size() != 4) { std::cout << "bad-op" << std::endl; continue; }
    unsigned k = (unsigned)atoi(f[0].c_str());
    uint64_t sigv = 0;
    std::vector<FileInfo> infos;
    bool ok = parseHexU64(f[1], sigv);
    if (f[2] != ".") for (auto& s : vh::split(f[2], ',')) { FileInfo fi; if (!parseInfo(s, fi)) ok = false; infos.push_back(fi); }
    std::vector<std::string> strs = vh::hexList(f[3]);
    if (!ok) { std::cout << "bad-op" << std::endl; continue; }
    CommandSignature sig(sigv);
    typedef BuildValue::Kind K;
    bool bad = false;
    auto make = [&]() -> BuildValue {
      switch ((K)k) {
      case K::Invalid: return BuildValue::makeInvalid();
      case K::VirtualInput: return BuildValue::makeVirtualInput();
      case K::ExistingInput: if (infos.size() != 1) break; return BuildValue::makeExistingInput(infos[0]);
      case K::MissingInput: return BuildValue::makeMissingInput();
      case K::DirectoryContents: if (infos.size() != 1) break; return BuildValue::makeDirectoryContents(infos[0], strs);
      case K::DirectoryTreeSignature: return BuildValue::makeDirectoryTreeSignature(sig);
      case K::DirectoryTreeStructureSignature: return BuildValue::makeDirectoryTreeStructureSignature(sig);
      case K::StaleFileRemoval: return BuildValue::makeStaleFileRemoval(strs);
      case K::MissingOutput: return BuildValue::makeMissingOutput();
      case K::FailedInput: return BuildValue::makeFailedInput();
      case K::SuccessfulCommand: return BuildValue::makeSuccessfulCommand(infos);
      case K::FailedCommand: return BuildValue::makeFailedCommand();
      case K::PropagatedFailureCommand: return BuildValue::makePropagatedFailureCommand();
      case K::CancelledCommand: return BuildValue::makeCancelledCommand();
      case K::SkippedCommand: return BuildValue::makeSkippedCommand();
      case K::Target: return BuildValue::makeTarget();
      case K::FilteredDirectoryContents: return BuildValue::makeFilteredDirectoryContents(strs);
      case K::SuccessfulCommandWithOutputSignature: return BuildValue::makeSuccessfulCommandWithOutputSignature(infos, sig);
      }
      bad = true;
      return BuildValue::makeInvalid();
    };
    BuildValue v = make();
    if (bad) { std::cout << "bad-op" << std::endl; continue; }
    core::ValueType data = v.toData();
    // encode a second, independently constructed copy: equal values must give identical bytes
    core::ValueType data2 = BuildValue(v).toData();
    if (data != data2) { std::cout << "copy-encodes-differently" << std::endl; continue; }
    BuildValue back = BuildValue::fromData(data);
    // canonical: re-encoding the decoded value reproduces the bytes
    if (back.toData() != data) { std::cout << "reencode-differs" << std::endl; continue; }
    std::cout << vh::hexEncode(std::string((const char*)data.data(), data.size())) << " " << showValue(back) << std::endl;
  }
}

static void mode_vdec() {
  std::string line;
  while (std::getline(std::cin, line)) {
    auto f = vh::split(line);
    if (f.size() != 1) { std::cout << "bad-op" << std::endl; continue; }
    std::string b = vh::hexDecode(f[0]);
    core::ValueType data(b.begin(), b.end());
    BuildValue v = BuildValue::fromData(data);
    std::cout << showValue(v) << std::endl;
  }
}

static std::string showKey(const BuildKey& key) {
  typedef BuildKey::Kind K;
  K k = key.getKind();
  std::string out = "k=" + std::to_string((int)k);
  auto S = [](StringRef s) { return vh::hexEncode(s.str()); };
  auto filters = [&]() {
    std::vector<std::string> l;
    StringList sl = key.getContentExclusionPatternsAsStringList();
    for (auto s : sl.getValues()) l.push_back(s.str());
    return "S:" + vh::hexListEncode(l);
  };
  switch (k) {
  case K::Command: return out + " name=" + S(key.getCommandName()) + " payload=N";
  case K::CustomTask: return out + " name=" + S(key.getCustomTaskName()) + " payload=R:" + S(key.getCustomTaskData());
  case K::DirectoryContents: return out + " name=" + S(key.getDirectoryPath()) + " payload=N";
  case K::FilteredDirectoryContents: return out + " name=" + S(key.getFilteredDirectoryPath()) + " payload=" + filters();
  case K::DirectoryTreeSignature: return out + " name=" + S(key.getDirectoryTreeSignaturePath()) + " payload=" + filters();
  case K::DirectoryTreeStructureSignature: return out + " name=" + S(key.getFilteredDirectoryPath()) + " payload=" + filters();
  case K::Node: return out + " name=" + S(key.getNodeName()) + " payload=N";
  case K::Stat: return out + " name=" + S(key.getStatName()) + " payload=N";
  case K::Target: return out + " name=" + S(key.getTargetName()) + " payload=N";
  case K::Unknown: return out;
  }
  return out;
}

static void mode_key() {
  std::string line;
  while (std::getline(std::cin, line)) {
    auto f = vh::split(line);
    if (f.size() != 3) { std::cout << "bad-op" << std::endl; continue; }
    typedef BuildKey::Kind K;
    int k = atoi(f[0].c_str());
    std::string name = vh::hexDecode(f[1]);
    char pt = f[2].empty() ? '?' : f[2][0];
    std::string raw;
    std::vector<std::string> strs;
    if (pt == 'R' && f[2].size() >= 2) raw = vh::hexDecode(f[2].substr(2));
    if (pt == 'S' && f[2].size() >= 2) strs = vh::hexList(f[2].substr(2));
    bool bad = false;
    auto make = [&]() -> BuildKey {
      StringList sl{ArrayRef<std::string>(strs)};
      switch ((K)k) {
      case K::Command: if (pt != 'N') break; return BuildKey::makeCommand(name);
      case K::CustomTask: if (pt != 'R') break; return BuildKey::makeCustomTask(name, raw);
      case K::DirectoryContents: if (pt != 'N') break; return BuildKey::makeDirectoryContents(name);
      case K::FilteredDirectoryContents: if (pt != 'S') break; return BuildKey::makeFilteredDirectoryContents(name, sl);
      case K::DirectoryTreeSignature: if (pt != 'S') break; return BuildKey::makeDirectoryTreeSignature(name, sl);
      case K::DirectoryTreeStructureSignature: if (pt != 'S') break; return BuildKey::makeDirectoryTreeStructureSignature(name, sl);
      case K::Node: if (pt != 'N') break; return BuildKey::makeNode(StringRef(name));
      case K::Stat: if (pt != 'N') break; return BuildKey::makeStat(name);
      case K::Target: if (pt != 'N') break; return BuildKey::makeTarget(name);
      case K::Unknown: break;
      }
      bad = true;
      return BuildKey::makeCommand("");
    };
    BuildKey key = make();
    if (bad) { std::cout << "bad-op" << std::endl; continue; }
    core::KeyType data = key.toData();
    BuildKey back = BuildKey::fromData(data);
    std::cout << vh::hexEncode(data.str()) << " " << showKey(back) << std::endl;
  }
}

static void mode_kdec() {
  std::string line;
  while (std::getline(std::cin, line)) {
    auto f = vh::split(line);
    if (f.size() != 1) { std::cout << "bad-op" << std::endl; continue; }
    std::string b = vh::hexDecode(f[0]);
    BuildKey key = BuildKey::fromData(core::KeyType(b));
    std::cout << showKey(key) << std::endl;
  }
}

static void mode_prim() {
  std::string line;
  while (std::getline(std::cin, line)) {
    auto f = vh::split(line);
    uint64_t v = 0;
    if (f.size() != 2 || f[1].empty()) { std::cout << "bad-op" << std::endl; continue; }
    // the model takes an unbounded natural; keep the low 64 bits like the narrowing conversion at a call site would
    std::string hv = f[1].size() > 16 ? f[1].substr(f[1].size() - 16) : f[1];
    if (!parseHexU64(hv, v)) { std::cout << "bad-op" << std::endl; continue; }
    int w = atoi(f[0].c_str());
    BinaryEncoder enc;
    uint64_t r = 0;
    if (w == 1) enc.write(uint8_t(v)); else if (w == 2) enc.write(uint16_t(v)); else if (w == 4) enc.write(uint32_t(v));
    else if (w == 8) enc.write(uint64_t(v)); else { std::cout << "bad-op" << std::endl; continue; }
    std::vector<uint8_t> data = enc.contents();
    BinaryDecoder dec(data);
    if (w == 1) { uint8_t x; dec.read(x); r = x; } else if (w == 2) { uint16_t x; dec.read(x); r = x; }
    else if (w == 4) { uint32_t x; dec.read(x); r = x; } else { uint64_t x; dec.read(x); r = x; }
    if (!dec.isEmpty()) { std::cout << "not-consumed" << std::endl; continue; }
    std::cout << vh::hexEncode(std::string((const char*)data.data(), data.size())) << " " << hexU64(r) << std::endl;
  }
}

int main(int argc, char** argv) {
  std::ios::sync_with_stdio(false);
  if (argc < 2) return 2;
  std::string mode = argv[1];
  if (mode == "c15value") mode_value();
  else if (mode == "c15vdec") mode_vdec();
  else if (mode == "c15key") mode_key();
  else if (mode == "c15kdec") mode_kdec();
  else if (mode == "c15prim") mode_prim();
  else { fprintf(stderr, "unknown mode %s\n", argv[1]); return 2; }
  return 0;
}
