// Correspondence harness for pure functions of the repository (one mode per function family).
// usage: vpure <mode>   -- reads one op per line on stdin, prints one canonical line per op.
#include "vcommon.h"

#include "llbuild/BuildSystem/BuildSystem.h"

using namespace llbuild;

static void mode_c14prefix() {
  std::string line;
  while (std::getline(std::cin, line)) {
    auto f = vh::split(line);
    if (f.size() != 2) { std::cout << "bad-op\n"; continue; }
    bool r = buildsystem::pathIsPrefixedByPath(vh::hexDecode(f[0]), vh::hexDecode(f[1]));
    std::cout << (r ? "1" : "0") << "\n";
  }
}

int main(int argc, char** argv) {
  std::ios::sync_with_stdio(false);
  if (argc < 2) return 2;
  std::string mode = argv[1];
  if (mode == "c14prefix") mode_c14prefix();
  else { fprintf(stderr, "unknown mode %s\n", argv[1]); return 2; }
  return 0;
}
