// C20 harness: a small rule interpreter written ONLY against the public C API (llbuild/llbuild.h, core.h).
// usage: vc20 c20run      -- one op per stdin line, one line of output per op.
//
// Ops (all byte strings hex encoded, "-" = empty, lists comma separated, "." = empty list):
//   rule <key> in=<list> follow=<list> disc=<list> value=<hex|*> invalid=<0|1> force=<0|1>
//        defines/replaces a rule.  value=* : the value is key ++ "(" ++ input values joined by "," ++ ")".
//        invalid=1 : is_result_valid answers false (the task re-runs in every build).
//        force=1   : llb_buildengine_task_is_complete(..., force_change = true).
//        an optional 9th field novalid=1 leaves llb_rule_t.is_result_valid NULL for this rule (optional callback).
//        in: requested with llb_buildengine_task_needs_input (input_id = 7 + 3 * position);
//        follow: llb_buildengine_task_must_follow; disc: llb_buildengine_task_discovered_dependency.
//   ext <key> <value>          an external input: value taken from this table; valid iff the stored value equals it
//   engine new                 llb_buildengine_create
//   engine db <path> <schema>  llb_buildengine_attach_db on the current engine
//   engine destroy             llb_buildengine_destroy
//   build <key>                llb_buildengine_build; prints result=<hex> events=<e;e;...> with events
//                              start:<key> | val:<key>:<input_id>:<value> | run:<key>  in callback order
// The plumbing (World / RuleSpec / the three delegate structs) is kept separate from the op loop so that the
// event-by-event comparison with a C++ client can reuse it.
#include "vcommon.h"

#include <llbuild/llbuild.h>

#include <map>
#include <memory>

namespace vc20 {

struct RuleSpec {
  std::string key;
  std::vector<std::string> inputs, follows, discovered;
  bool computedValue = true;   // value=*
  std::string fixedValue;
  bool alwaysInvalid = false;
  bool forceChange = false;
  bool noValidCallback = false; // is_result_valid left NULL
  bool external = false;       // value from World::ext
};

struct World {
  std::map<std::string, RuleSpec> rules;
  std::map<std::string, std::string> ext;
  std::vector<std::string> events;
  std::vector<std::string> errors;
  void event(const std::string& e) { events.push_back(e); }
};

static llb_data_t blob(const std::string& s) { return llb_data_t{s.size(), (const uint8_t*)s.data()}; }
static std::string bytes(const llb_data_t* d) { return std::string((const char*)d->data, d->length); }

// ---- task delegate -------------------------------------------------------------------------------
struct TaskCtx {
  World* world;
  const RuleSpec* spec;
  std::map<uintptr_t, std::string> values;
};

static uintptr_t inputIdFor(size_t position) { return 7 + 3 * position; }

static void task_destroy(void* ctx) { delete (TaskCtx*)ctx; }

static void task_start(void* ctx, void*, llb_task_interface_t ti) {
  auto* t = (TaskCtx*)ctx;
  t->world->event("start:" + vh::hexEncode(t->spec->key));
  for (size_t i = 0; i < t->spec->inputs.size(); i++) {
    llb_data_t k = blob(t->spec->inputs[i]);
    llb_buildengine_task_needs_input(ti, &k, inputIdFor(i));
  }
  for (auto& f : t->spec->follows) {
    llb_data_t k = blob(f);
    llb_buildengine_task_must_follow(ti, &k);
  }
}

static void task_provide_value(void* ctx, void*, llb_task_interface_t, uintptr_t input_id, const llb_data_t* value) {
  auto* t = (TaskCtx*)ctx;
  t->values[input_id] = bytes(value);
  t->world->event("val:" + vh::hexEncode(t->spec->key) + ":" + std::to_string(input_id) + ":" + vh::hexEncode(bytes(value)));
}

static void task_inputs_available(void* ctx, void*, llb_task_interface_t ti) {
  auto* t = (TaskCtx*)ctx;
  t->world->event("run:" + vh::hexEncode(t->spec->key));
  for (auto& d : t->spec->discovered) {
    llb_data_t k = blob(d);
    llb_buildengine_task_discovered_dependency(ti, &k);
  }
  std::string v;
  if (t->spec->external) v = t->world->ext[t->spec->key];
  else if (!t->spec->computedValue) v = t->spec->fixedValue;
  else {
    v = t->spec->key + "(";
    for (size_t i = 0; i < t->spec->inputs.size(); i++) { if (i) v += ","; v += t->values[inputIdFor(i)]; }
    v += ")";
  }
  llb_data_t out = blob(v);
  llb_buildengine_task_is_complete(ti, &out, t->spec->forceChange);
}

// ---- rule ------------------------------------------------------------------------------------------
struct RuleCtx { World* world; const RuleSpec* spec; };

static llb_task_t* rule_create_task(void* ctx, void*) {
  auto* r = (RuleCtx*)ctx;
  llb_task_delegate_t d{};
  d.context = new TaskCtx{r->world, r->spec, {}};
  d.destroy_context = task_destroy;
  d.start = task_start;
  d.provide_value = task_provide_value;
  d.inputs_available = task_inputs_available;
  return llb_task_create(d);
}

static bool rule_is_result_valid(void* ctx, void*, const llb_rule_t*, const llb_data_t* result) {
  auto* r = (RuleCtx*)ctx;
  if (r->spec->external) return bytes(result) == r->world->ext[r->spec->key];
  return !r->spec->alwaysInvalid;
}

// ---- engine delegate -------------------------------------------------------------------------------
struct EngineCtx {
  World* world;
  std::vector<std::unique_ptr<RuleCtx>> ruleCtxs;   // owned here: llb_rule_t has no destroy callback
};

static void engine_destroy_context(void* ctx) { delete (EngineCtx*)ctx; }

static void engine_lookup_rule(void* ctx, const llb_data_t* key, llb_rule_t* rule_out) {
  auto* e = (EngineCtx*)ctx;
  std::string k = bytes(key);
  auto it = e->world->rules.find(k);
  if (it == e->world->rules.end()) {
    // unknown keys become external inputs with an empty value, so that a build never aborts
    RuleSpec s;
    s.key = k;
    s.external = true;
    it = e->world->rules.emplace(k, s).first;
  }
  e->ruleCtxs.emplace_back(new RuleCtx{e->world, &it->second});
  rule_out->context = e->ruleCtxs.back().get();
  rule_out->key = blob(it->second.key);
  rule_out->create_task = rule_create_task;
  rule_out->is_result_valid = it->second.noValidCallback ? nullptr : rule_is_result_valid;
  rule_out->update_status = nullptr;
}

static void engine_error(void* ctx, const char* message) { ((EngineCtx*)ctx)->world->errors.push_back(message); }

static void engine_cycle(void* ctx, const llb_data_t*, uint64_t n) {
  ((EngineCtx*)ctx)->world->event("cycle:" + std::to_string(n));
}

static llb_buildengine_t* createEngine(World* w) {
  llb_buildengine_delegate_t d{};
  d.context = new EngineCtx{w, {}};
  d.destroy_context = engine_destroy_context;
  d.lookup_rule = engine_lookup_rule;
  d.error = engine_error;
  d.cycle_detected = engine_cycle;
  return llb_buildengine_create(d);
}

// ---- op loop -----------------------------------------------------------------------------------------
static std::string field(const std::string& f, const char* name) {
  std::string p = std::string(name) + "=";
  return f.compare(0, p.size(), p) == 0 ? f.substr(p.size()) : std::string("\x01");
}

static void mode_run() {
  World world;
  llb_buildengine_t* engine = nullptr;
  std::string line;
  while (std::getline(std::cin, line)) {
    auto f = vh::split(line);
    std::string out = "bad-op";
    if (f[0] == "rule" && (f.size() == 8 || (f.size() == 9 && field(f[8], "novalid") != "\x01"))) {
      RuleSpec s;
      s.key = vh::hexDecode(f[1]);
      s.inputs = vh::hexList(field(f[2], "in"));
      s.follows = vh::hexList(field(f[3], "follow"));
      s.discovered = vh::hexList(field(f[4], "disc"));
      std::string v = field(f[5], "value");
      s.computedValue = v == "*";
      if (!s.computedValue) s.fixedValue = vh::hexDecode(v);
      s.alwaysInvalid = field(f[6], "invalid") == "1";
      s.forceChange = field(f[7], "force") == "1";
      s.noValidCallback = f.size() == 9 && field(f[8], "novalid") == "1";
      world.rules[s.key] = s;     // std::map nodes are stable: RuleCtx pointers of live engines stay valid
      out = "ok";
    } else if (f[0] == "ext" && f.size() == 3) {
      std::string k = vh::hexDecode(f[1]);
      RuleSpec s;
      s.key = k;
      s.external = true;
      world.rules[k] = s;
      world.ext[k] = vh::hexDecode(f[2]);
      out = "ok";
    } else if (f[0] == "engine" && f.size() >= 2) {
      if (f[1] == "new" && !engine) { engine = createEngine(&world); out = "ok"; }
      else if (f[1] == "destroy" && engine) { llb_buildengine_destroy(engine); engine = nullptr; out = "ok"; }
      else if (f[1] == "db" && f.size() == 4 && engine) {
        std::string path = vh::hexDecode(f[2]);
        llb_data_t p = blob(path);
        char* err = nullptr;
        bool ok = llb_buildengine_attach_db(engine, &p, (uint32_t)strtoul(f[3].c_str(), nullptr, 10), &err);
        out = ok ? "ok" : std::string("attach-failed:") + (err ? err : "");
        free(err);
      }
    } else if (f[0] == "build" && f.size() == 2 && engine) {
      world.events.clear();
      std::string k = vh::hexDecode(f[1]);
      llb_data_t key = blob(k), result{0, nullptr};
      llb_buildengine_build(engine, &key, &result);
      out = "result=" + vh::hexEncode(bytes(&result)) + " events=";
      for (size_t i = 0; i < world.events.size(); i++) { if (i) out += ";"; out += world.events[i]; }
      if (world.events.empty()) out += ".";
      if (!world.errors.empty()) out += " errors=" + std::to_string(world.errors.size());
    }
    std::cout << out << "\n";
    std::cout.flush();
  }
  if (engine) llb_buildengine_destroy(engine);
}

}  // namespace vc20

int main(int argc, char** argv) {
  std::ios::sync_with_stdio(false);
  if (argc < 2) { fprintf(stderr, "usage: vc20 c20run\n"); return 2; }
  std::string mode = argv[1];
  if (mode == "c20run") vc20::mode_run();
  else { fprintf(stderr, "unknown mode %s\n", argv[1]); return 2; }
  return 0;
}
