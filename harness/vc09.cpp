// C09 (signature half) harness: command definitions -> the REAL Command::getSignature() values.
// usage: vc09 sig        one definition per stdin line, prints the 64-bit signature (16 hex digits)
//        vc09 configure  one definition (ordered keys) per line, prints the members the real loader leaves in the command
//
// line:  <tool> <name> <inputs> <outputs> <ami> <amo> <aood> <args> <envkeys> <envvals> <deps> <style> <inh> <csi> <sig>
//   tool      shell | phony        (the other tools and node rules: see renderOther below)
//   name,sig  hex string ("-" = empty);   inputs/outputs/args/envkeys/envvals/deps: "," separated hex lists ("." = empty)
//   ami/amo/aood/inh/csi: 0|1 (the attribute is written only when it differs from the loader default)
//   style     0 (attribute absent) | 1 makefile | 2 dependency-info | 3 makefile-ignoring-subsequent-outputs
//
// Every definition is rendered as a build file (YAML), loaded by the real BuildFile loader inside a real
// BuildSystem (real ShellTool / PhonyTool, real configure* calls); the command object is observed through
// BuildSystemDelegate::commandPreparing, where getSignature() is called.  No command is ever started.
#include "vcommon.h"

#include "llbuild/BuildSystem/BuildDescription.h"
#include "llbuild/BuildSystem/BuildSystem.h"
#include "llbuild/BuildSystem/BuildKey.h"
#include "llbuild/BuildSystem/BuildValue.h"
#include "llbuild/BuildSystem/BuildNode.h"
#include "llbuild/BuildSystem/Command.h"
#include "llbuild/BuildSystem/Tool.h"
#include "llbuild/Basic/ExecutionQueue.h"
#include "llbuild/Basic/FileSystem.h"
#include "llbuild/Basic/Hashing.h"
#include "llvm/Support/raw_ostream.h"
#include "llvm/Support/MemoryBuffer.h"
#include "llvm/ADT/Optional.h"
#include "llvm/ADT/SmallPtrSet.h"
#include "llvm/ADT/SmallString.h"
#include "llvm/ADT/SmallVector.h"
#include "llvm/ADT/StringRef.h"
#include "llbuild/BuildSystem/BuildSystemHandlers.h"
#include "llbuild/Basic/ShellUtility.h"

#include <atomic>
#include <memory>
#include <mutex>
#include <unistd.h>

// Mode `configure` compares the data members of the loaded command one by one with the Lean model.  The members of
// ExternalCommand / ShellCommand are private (most of them by the default access of `class`), so these two headers - and
// only these: everything they include has been included above - are read with every member accessible.  Access control
// does not take part in the object layout or in name mangling (Itanium ABI), the library is the unmodified one.
#define class struct
#define private public
#define protected public
#include "llbuild/BuildSystem/ExternalCommand.h"
#include "llbuild/BuildSystem/ShellCommand.h"
#undef class
#undef private
#undef protected

using namespace llvm;
using namespace llbuild;
using namespace llbuild::basic;
using namespace llbuild::buildsystem;

namespace {

class QDelegate : public ExecutionQueueDelegate {
  void queueJobStarted(JobDescriptor*) override {}
  void queueJobFinished(JobDescriptor*) override {}
  void processStarted(ProcessContext*, ProcessHandle, llbuild_pid_t) override {}
  void processHadError(ProcessContext*, ProcessHandle, const Twine&) override {}
  void processHadOutput(ProcessContext*, ProcessHandle, StringRef) override {}
  void processFinished(ProcessContext*, ProcessHandle, const ProcessResult&) override {}
};

class SigDelegate : public BuildSystemDelegate {
public:
  std::mutex mu;
  QDelegate qd;
  std::string wanted;          // command name to observe
  std::string wantedNode;      // node tool: the output node of that command whose getSignature() is observed
  bool observeNode = false;
  bool seen = false;
  uint64_t first = 0, second = 0;
  std::string errors;
  SigDelegate() : BuildSystemDelegate("mock", 0) {}

  void setFileContentsBeingParsed(StringRef) override {}
  void error(StringRef, const Token&, const Twine& message) override {
    std::unique_lock<std::mutex> l(mu);
    errors += message.str() + ";";
  }
  std::unique_ptr<Tool> lookupTool(StringRef) override { return nullptr; }
  std::unique_ptr<ExecutionQueue> createExecutionQueue() override {
    return std::unique_ptr<ExecutionQueue>(createLaneBasedExecutionQueue(
        qd, 1, SchedulerAlgorithm::NamePriority, getDefaultQualityOfService(), nullptr));
  }
  void hadCommandFailure() override {}
  void commandStatusChanged(Command*, CommandStatusKind) override {}
  void commandPreparing(Command* c) override {
    std::unique_lock<std::mutex> l(mu);
    if (c->getName() == wanted && !seen) {
      if (observeNode) {
        for (auto* n : c->getOutputs()) {
          if (n->getName() == wantedNode) {
            seen = true;
            first = n->getSignature().value;
            second = n->getSignature().value;
            break;
          }
        }
        return;
      }
      seen = true;
      first = c->getSignature().value;    // computed
      second = c->getSignature().value;   // ShellCommand: served from its cache
    }
  }
  bool shouldCommandStart(Command*) override { return false; }
  void commandStarted(Command*) override {}
  void commandHadError(Command*, StringRef) override {}
  void commandHadNote(Command*, StringRef) override {}
  void commandHadWarning(Command*, StringRef) override {}
  void commandFinished(Command*, ProcessStatus) override {}
  void commandFoundDiscoveredDependency(Command*, StringRef, DiscoveredDependencyKind) override {}
  void commandCannotBuildOutputDueToMissingInputs(Command*, Node*, ArrayRef<BuildKey>) override {}
  Command* chooseCommandFromMultipleProducers(Node*, std::vector<Command*>) override { return nullptr; }
  void cannotBuildNodeDueToMultipleProducers(Node*, std::vector<Command*>) override {}
  void determinedRuleNeedsToRun(core::Rule*, core::Rule::RunReason, core::Rule*) override {}
};

// One in-memory file (the build description); everything else is missing.
class OneFileFS : public FileSystem {
public:
  std::string path, contents;
  bool createDirectory(const std::string&) override { return false; }
  bool createDirectories(const std::string&) override { return false; }
  std::unique_ptr<llvm::MemoryBuffer> getFileContents(const std::string& p) override {
    if (p != path) return nullptr;
    return llvm::MemoryBuffer::getMemBufferCopy(contents, p);
  }
  bool remove(const std::string&) override { return false; }
  FileChecksum getFileChecksum(const std::string&) override { return FileChecksum{}; }
  FileInfo getFileInfo(const std::string&) override { return FileInfo{}; }
  FileInfo getLinkInfo(const std::string&) override { return FileInfo{}; }
  bool createSymlink(const std::string&, const std::string&) override { return false; }
};

class RefFS : public FileSystem {
public:
  FileSystem& r;
  RefFS(FileSystem& r) : r(r) {}
  bool createDirectory(const std::string& p) override { return r.createDirectory(p); }
  std::unique_ptr<llvm::MemoryBuffer> getFileContents(const std::string& p) override { return r.getFileContents(p); }
  bool remove(const std::string& p) override { return r.remove(p); }
  FileChecksum getFileChecksum(const std::string& p) override { return r.getFileChecksum(p); }
  bool createDirectories(const std::string& p) override { return r.createDirectories(p); }
  FileInfo getFileInfo(const std::string& p) override { return r.getFileInfo(p); }
  FileInfo getLinkInfo(const std::string& p) override { return r.getLinkInfo(p); }
  bool createSymlink(const std::string& s, const std::string& t) override { return r.createSymlink(s, t); }
};

// double-quoted YAML scalar; the generators only use bytes 0x20..0x7e
std::string yq(const std::string& s) {
  std::string out = "\"";
  char buf[8];
  for (unsigned char c : s) {
    if (c == '"' || c == '\\') { out.push_back('\\'); out.push_back(c); }
    else if (c < 0x20 || c >= 0x7f) { snprintf(buf, sizeof buf, "\\x%02X", c); out += buf; }
    else out.push_back(c);
  }
  return out + "\"";
}

std::string ylist(const std::vector<std::string>& l) {
  std::string out = "[";
  for (size_t i = 0; i < l.size(); i++) { if (i) out += ", "; out += yq(l[i]); }
  return out + "]";
}

std::string hex64(uint64_t v) {
  char buf[20];
  snprintf(buf, sizeof buf, "%016llx", (unsigned long long)v);
  return buf;
}

// ---- the other tools -------------------------------------------------------------------------------------
// line:  <tool> <name> <inputs> <outputs> <ami> <amo> <aood> <key>=<value> ...
//   tool   clang | mkdir | archive | shared-library | swift-compiler | symlink | stale-file-removal | node
//   value  hex string, "," separated hex list ("." = empty) or 0|1, depending on the key (attribute name)
//   node:  <name> is the NODE name; keys: type=<final NodeType ordinal, for the model> typeattr=<0 absent | 1 plain |
//          2 directory | 3 directory-structure | 4 virtual> producers=<command names> and the unhashed node
//          attributes is-mutated=0|1 is-command-timestamp=0|1; each producer is a phony command with the node as output
struct KV { std::string k, v; };

const char* kScalarKeys[] = {"deps", "executable", "compiler-style", "module-name", "module-output-path", "temps-path",
                             "num-threads", "contents", "link-output-path", "working-directory"};
const char* kListKeys[] = {"args", "other-args", "module-aliases", "sources", "objects", "import-paths",
                           "expectedOutputs", "roots"};
const char* kBoolKeys[] = {"is-library", "enable-whole-module-optimization", "repair-via-ownership-analysis", "control-enabled"};

template <size_t N> bool among(const char* (&a)[N], const std::string& k) {
  for (auto x : a) if (k == x) return true;
  return false;
}

std::string renderOther(const std::vector<std::string>& f, std::string& name, std::string& observe, std::string& err) {
  if (f.size() < 7) { err = "bad-op"; return ""; }
  const std::string& tool = f[0];
  name = vh::hexDecode(f[1]);
  auto inputs = vh::hexList(f[2]), outputs = vh::hexList(f[3]);
  std::vector<KV> kvs;
  for (size_t i = 7; i < f.size(); i++) {
    auto p = f[i].find('=');
    if (p == std::string::npos) { err = "bad-op"; return ""; }
    kvs.push_back({f[i].substr(0, p), f[i].substr(p + 1)});
  }
  std::string y = "client:\n  name: mock\n\n";
  if (tool == "node") {
    std::vector<std::string> producers;
    std::string attrs;
    for (auto& kv : kvs) {
      if (kv.k == "type") continue;                       // for the model only
      else if (kv.k == "typeattr") {
        static const char* names[] = {"", "plain", "directory", "directory-structure", "virtual"};
        int t = atoi(kv.v.c_str());
        if (t < 0 || t > 4) { err = "bad-op"; return ""; }
        if (t) attrs += std::string("    type: ") + names[t] + "\n";
      } else if (kv.k == "producers") producers = vh::hexList(kv.v);
      else if (kv.k == "is-mutated" || kv.k == "is-command-timestamp") { if (kv.v == "1") attrs += "    " + kv.k + ": true\n"; }
      else { err = "bad-op"; return ""; }
    }
    if (producers.empty()) { err = "bad-op"; return ""; }   // a node is observed through a producing command
    if (!attrs.empty()) y += "nodes:\n  " + yq(name) + ":\n" + attrs + "\n";
    y += "commands:\n";
    for (auto& p : producers)
      y += "  " + yq(p) + ":\n    tool: phony\n    outputs: [" + yq(name) + "]\n";
    observe = producers[0];
    return y;
  }
  observe = name;
  y += "commands:\n  " + yq(name) + ":\n    tool: " + tool + "\n";
  if (!inputs.empty()) y += "    inputs: " + ylist(inputs) + "\n";
  if (!outputs.empty()) y += "    outputs: " + ylist(outputs) + "\n";
  if (f[4] == "1") y += "    allow-missing-inputs: true\n";
  if (f[5] == "1") y += "    allow-modified-outputs: true\n";
  if (f[6] == "1") y += "    always-out-of-date: true\n";
  for (auto& kv : kvs) {
    if (among(kScalarKeys, kv.k)) y += "    " + kv.k + ": " + yq(vh::hexDecode(kv.v)) + "\n";     // also when empty
    else if (among(kListKeys, kv.k)) { auto l = vh::hexList(kv.v); if (!l.empty()) y += "    " + kv.k + ": " + ylist(l) + "\n"; }
    else if (among(kBoolKeys, kv.k)) y += "    " + kv.k + ": " + (kv.v == "1" ? "true" : "false") + "\n";
    else { err = "bad-op"; return ""; }
  }
  return y;
}

std::string render(const std::vector<std::string>& f, std::string& name, std::string& err) {
  if (f.size() < 15) { err = "bad-op"; return ""; }
  const std::string& tool = f[0];
  name = vh::hexDecode(f[1]);
  auto inputs = vh::hexList(f[2]), outputs = vh::hexList(f[3]);
  auto args = vh::hexList(f[7]), ek = vh::hexList(f[8]), ev = vh::hexList(f[9]), deps = vh::hexList(f[10]);
  if (ek.size() != ev.size()) { err = "bad-op"; return ""; }
  std::string y = "client:\n  name: mock\n\ncommands:\n  " + yq(name) + ":\n    tool: " + tool + "\n";
  if (!inputs.empty()) y += "    inputs: " + ylist(inputs) + "\n";
  if (!outputs.empty()) y += "    outputs: " + ylist(outputs) + "\n";
  if (f[4] == "1") y += "    allow-missing-inputs: true\n";
  if (f[5] == "1") y += "    allow-modified-outputs: true\n";
  if (f[6] == "1") y += "    always-out-of-date: true\n";
  if (tool == "shell") {
    if (!args.empty()) y += "    args: " + ylist(args) + "\n";
    if (!ek.empty()) {
      y += "    env: {";
      for (size_t i = 0; i < ek.size(); i++) { if (i) y += ", "; y += yq(ek[i]) + ": " + yq(ev[i]); }
      y += "}\n";
    }
    if (!deps.empty()) y += "    deps: " + ylist(deps) + "\n";
    if (f[11] == "1") y += "    deps-style: makefile\n";
    else if (f[11] == "2") y += "    deps-style: dependency-info\n";
    else if (f[11] == "3") y += "    deps-style: makefile-ignoring-subsequent-outputs\n";
    if (f[12] == "0") y += "    inherit-env: false\n";
    if (f[13] == "0") y += "    can-safely-interrupt: false\n";
    std::string sig = vh::hexDecode(f[14]);
    if (!sig.empty()) y += "    signature: " + yq(sig) + "\n";
  }
  // optional tail: attributes that are NOT hashed (working-directory=<hex> control-enabled=0|1 repair-via-ownership-analysis=0|1)
  for (size_t i = 15; i < f.size(); i++) {
    auto p = f[i].find('=');
    if (p == std::string::npos) { err = "bad-op"; return ""; }
    std::string k = f[i].substr(0, p), v = f[i].substr(p + 1);
    if (k == "working-directory" && tool == "shell") y += "    working-directory: " + yq(vh::hexDecode(v)) + "\n";
    else if ((k == "control-enabled" && tool == "shell") || k == "repair-via-ownership-analysis")
      y += "    " + k + ": " + (v == "1" ? "true" : "false") + "\n";
    else { err = "bad-op"; return ""; }
  }
  return y;
}

void mode_sig(bool showYaml) {
  std::string line;
  while (std::getline(std::cin, line)) {
    auto f = vh::split(line);
    std::string name, err, observe, nodeName;
    std::string yaml;
    bool legacy = !f.empty() && (f[0] == "shell" || f[0] == "phony");
    if (legacy) { yaml = render(f, name, err); observe = name; }
    else {
      yaml = renderOther(f, name, observe, err);
      if (!f.empty() && f[0] == "node") nodeName = name;
    }
    if (!err.empty()) { std::cout << err << "\n"; continue; }
    if (showYaml) { std::cout << yaml << "---\n"; continue; }
    OneFileFS fs;
    fs.path = "/vc09/build.llbuild";
    fs.contents = yaml;
    std::string out;
    {
      SigDelegate d;
      d.wanted = observe;
      d.wantedNode = nodeName;
      d.observeNode = !f.empty() && f[0] == "node";
      BuildSystem system(d, std::unique_ptr<FileSystem>(new RefFS(fs)));
      if (!system.loadDescription(fs.path)) out = "load-failed:" + vh::hexEncode(d.errors);
      else {
        system.build(BuildKey::makeCommand(observe));
        if (!d.seen) out = "not-prepared:" + vh::hexEncode(d.errors);
        else if (d.first != d.second) out = "unstable:" + hex64(d.first) + "/" + hex64(d.second);
        else out = hex64(d.first);
      }
    }
    std::cout << out << "\n";
  }
}

// ---- mode `configure`: definition (ordered keys) -> the members the REAL loader leaves in the command object -----------
// line:   <cwd> <tool> <name> <entry> ...          (cwd: hex; the process chdir()s there, `-` = stay)
//   entry  i=<hexlist>  inputs      o=<hexlist>  outputs     d=<hex>  description
//          s:<key>=<hex>  scalar attribute    l:<key>=<hexlist>  list attribute    m:<key>=<k:v,k:v|.>  map attribute
// The keys are written in this order after `tool:` (repeated keys are repeated), the file is loaded by the real BuildFile
// loader, the command is observed in commandPreparing.  Output: see printObservation; the Lean driver mode `c09configure`
// prints the same line from `BSAttrs.run`.
struct ObsDelegate : public SigDelegate {
  std::string tool;
  std::string obs;
  std::vector<std::string> errs;
  void error(StringRef, const Token&, const Twine& message) override {
    std::unique_lock<std::mutex> l(mu);
    errs.push_back(message.str());
  }
  static std::string names(const std::vector<BuildNode*>& v) {
    std::vector<std::string> l;
    for (auto* n : v) l.push_back(n->getName().str());
    return vh::hexListEncode(l);
  }
  template <class V> static std::string strs(const V& v) {
    std::vector<std::string> l;
    for (auto& x : v) l.push_back(std::string(x.data(), x.size()));
    return vh::hexListEncode(l);
  }
  void commandPreparing(Command* c) override {
    std::unique_lock<std::mutex> l(mu);
    if (c->getName() != wanted || seen) return;
    seen = true;
    std::string o;
    // SymlinkCommand::getSignature / getVerboseDescription and MkdirCommand::getVerboseDescription read outputs[0]
    bool needsOutput = tool == "symlink" || tool == "mkdir";
    bool haveOutput = !c->outputs.empty();
    if (tool == "symlink" && !haveOutput) o += "sig=none";
    else {
      uint64_t a = c->getSignature().value, b = c->getSignature().value;
      o += "sig=" + (a == b ? hex64(a) : std::string("unstable"));
    }
    o += " in=" + names(c->inputs) + " out=" + names(c->outputs);
    o += std::string(" repair=") + (c->repairViaOwnershipAnalysis ? "1" : "0");
    SmallString<256> sd, vd;
    c->getShortDescription(sd);
    o += " short=" + vh::hexEncode(sd.str().str());
    if (tool == "swift-compiler" || (needsOutput && !haveOutput)) o += " verbose=?";
    else { c->getVerboseDescription(vd); o += " verbose=" + vh::hexEncode(vd.str().str()); }
    bool external = tool != "symlink" && tool != "stale-file-removal";
    if (external) {
      auto* e = static_cast<ExternalCommand*>(c);
      o += " desc=" + vh::hexEncode(e->description);
      o += std::string(" ami=") + (e->allowMissingInputs ? "1" : "0") + " amo=" + (e->allowModifiedOutputs ? "1" : "0") +
           " aood=" + (e->alwaysOutOfDate ? "1" : "0");
    }
    if (tool == "shell") {
      auto* sc = static_cast<ShellCommand*>(c);
      o += " args=" + strs(sc->getArgs());
      std::vector<std::string> kv;
      for (auto& p : sc->getEnv()) kv.push_back(vh::hexEncode(p.first.str()) + ":" + vh::hexEncode(p.second.str()));
      std::string e = ".";
      if (!kv.empty()) { e.clear(); for (size_t i = 0; i < kv.size(); i++) { if (i) e += ","; e += kv[i]; } }
      o += " env=" + e;
      o += " deps=" + strs(sc->depsPaths) + " style=" + std::to_string(int(sc->depsStyle));
      o += std::string(" inh=") + (sc->getInheritEnv() ? "1" : "0") + " csi=" + (sc->canSafelyInterrupt ? "1" : "0");
      o += " sigdata=" + vh::hexEncode(sc->signatureData) + " wd=" + vh::hexEncode(sc->workingDirectory);
      o += std::string(" ce=") + (sc->controlEnabled ? "1" : "0");
    }
    obs = o;
  }
};

std::string renderConfigure(const std::vector<std::string>& f, std::string& name, std::string& err) {
  if (f.size() < 3) { err = "bad-op"; return ""; }
  name = vh::hexDecode(f[2]);
  std::string y = "client:\n  name: mock\n\ncommands:\n  " + yq(name) + ":\n    tool: " + f[1] + "\n";
  for (size_t i = 3; i < f.size(); i++) {
    const std::string& e = f[i];
    auto eq = e.find('=');
    if (eq == std::string::npos || e.size() < 2) { err = "bad-op"; return ""; }
    std::string head = e.substr(0, eq), val = e.substr(eq + 1);
    if (head == "i") y += "    inputs: " + ylist(vh::hexList(val)) + "\n";
    else if (head == "o") y += "    outputs: " + ylist(vh::hexList(val)) + "\n";
    else if (head == "d") y += "    description: " + yq(vh::hexDecode(val)) + "\n";
    else if (head.size() > 2 && head[1] == ':') {
      std::string key = vh::hexDecode(head.substr(2));
      if (head[0] == 's') y += "    " + yq(key) + ": " + yq(vh::hexDecode(val)) + "\n";
      else if (head[0] == 'l') y += "    " + yq(key) + ": " + ylist(vh::hexList(val)) + "\n";
      else if (head[0] == 'm') {
        y += "    " + yq(key) + ": {";
        bool first = true;
        if (val != ".") for (auto& kv : vh::split(val, ',')) {
          auto c = kv.find(':');
          if (c == std::string::npos) { err = "bad-op"; return ""; }
          if (!first) y += ", ";
          first = false;
          y += yq(vh::hexDecode(kv.substr(0, c))) + ": " + yq(vh::hexDecode(kv.substr(c + 1)));
        }
        y += "}\n";
      } else { err = "bad-op"; return ""; }
    } else { err = "bad-op"; return ""; }
  }
  return y;
}

void mode_configure(bool showYaml) {
  std::string line;
  unsetenv("AR");                 // ArchiveShellCommand::getArgs() consults it
  while (std::getline(std::cin, line)) {
    auto f = vh::split(line);
    std::string name, err;
    std::string yaml = renderConfigure(f, name, err);
    if (!err.empty()) { std::cout << err << "\n"; continue; }
    if (showYaml) { std::cout << yaml << "---\n"; continue; }
    std::string cwd = vh::hexDecode(f[0]);
    if (!cwd.empty() && chdir(cwd.c_str()) != 0) { std::cout << "bad-cwd\n"; continue; }
    OneFileFS fs;
    fs.path = "/vc09/build.llbuild";
    fs.contents = yaml;
    std::string out;
    {
      ObsDelegate d;
      d.wanted = name;
      d.tool = f[1];
      BuildSystem system(d, std::unique_ptr<FileSystem>(new RefFS(fs)));
      bool ok = system.loadDescription(fs.path);
      // a symlink command without a declared output cannot be asked for its signature (outputs[0] is read out of bounds,
      // also by the engine when it creates the command's rule): protocol rule, decided on the INPUT LINE by both sides -
      // a symlink definition is observed only if one of its `o=` entries has exactly one name
      bool observable = f[1] != "symlink";
      for (size_t i = 3; i < f.size(); i++)
        if (f[i].rfind("o=", 0) == 0 && vh::hexList(f[i].substr(2)).size() == 1) observable = true;
      if (ok && !observable) out = "loaded unobservable";
      else if (ok) {
        system.build(BuildKey::makeCommand(name));
        out = d.seen ? "loaded " + d.obs : "not-prepared";
      } else {
        out = "aborted";
        // BuildSystem::loadDescription adds its own final message
        if (!d.errs.empty() && d.errs.back() == "unable to load build file") d.errs.pop_back();
      }
      out += " diags=" + vh::hexListEncode(d.errs);
    }
    std::cout << out << "\n";
  }
}

// raw hashing primitives, for the bit-exact correspondence of the Lean re-implementation
//   hashstr <hex>            llvm::hash_value(StringRef) and CommandSignature().combine(std::string) value
void mode_hashstr() {
  std::string line;
  while (std::getline(std::cin, line)) {
    auto f = vh::split(line);
    if (f.size() != 1) { std::cout << "bad-op\n"; continue; }
    std::string s = vh::hexDecode(f[0]);
    uint64_t a = CommandSignature(StringRef(s)).value;
    uint64_t b = CommandSignature().combine(s).value;
    uint64_t c = CommandSignature().combine(StringRef(s)).value;
    uint64_t t = CommandSignature(StringRef(s)).combine(true).value;
    uint64_t u = CommandSignature(StringRef(s)).combine(false).value;
    std::cout << hex64(a) << " " << hex64(b) << " " << hex64(c) << " " << hex64(t) << " " << hex64(u) << "\n";
  }
}

}  // namespace

int main(int argc, char** argv) {
  std::ios::sync_with_stdio(false);
  if (argc < 2) { fprintf(stderr, "usage: vc09 <mode>\n"); return 2; }
  std::string mode = argv[1];
  if (mode == "sig") mode_sig(false);
  else if (mode == "yaml") mode_sig(true);
  else if (mode == "hashstr") mode_hashstr();
  else if (mode == "configure") mode_configure(false);
  else if (mode == "configure-yaml") mode_configure(true);
  else { fprintf(stderr, "unknown mode %s\n", argv[1]); return 2; }
  return 0;
}
