// C03 / C04 harness: drives the REAL core::BuildDB (createSQLiteBuildDB) with a fake BuildDBDelegate key table.
// usage: vc03 db <scratch-dir>        stateful op protocol (one op per line, one canonical line per op, flushed)
//        vc03 affinity                <decltype-hex> <text-hex>  -> what the real sqlite3 stores / returns for a
//                                     text bound into a column of that declared type
//        vc03 merged <scratch-dir>    <client>  -> client_version a real BuildSystem writes into a fresh database
//
// db ops (c = connection slot 0..7; keys/values hex, "-" = empty):
//   reset                         remove the database file, drop every slot
//   new c <client> <recreate>     createSQLiteBuildDB(path, client, recreate) + a FRESH delegate key table (lazy open)
//   drop c                        destroy the BuildDB object (= process exit without crash)
//   epoch c | setiter c n | start c | complete c
//   set c key value sig builtAt computedAt deps      deps = "." or key:flags,... (flags bit0 orderOnly, bit1 singleUse)
//   lookup c key | keys c
//   crash                         destroy every BuildDB object without buildComplete
//   raw                           dump the file through sqlite3 directly (ids, storage classes, blobs)
// The busy timeout requested by the code is recorded and (unless VC03_REAL_BUSY=1) shortened to 40 ms so that the
// "second writer is refused" cases do not take 5 s each; `busyms` prints the value the code asked for.
#include "vcommon.h"

#include "llbuild/Core/BuildDB.h"
#include "llbuild/Core/BuildEngine.h"
#include "llbuild/BuildSystem/BuildSystem.h"
#include "llbuild/BuildSystem/BuildFile.h"
#include "llbuild/BuildSystem/BuildKey.h"
#include "llbuild/BuildSystem/Command.h"
#include "llbuild/BuildSystem/Tool.h"
#include "llbuild/Basic/ExecutionQueue.h"
#include "llbuild/Basic/FileSystem.h"
#include "llvm/Support/SourceMgr.h"

#include <algorithm>
#include <dlfcn.h>
#include <map>
#include <memory>
#include <sqlite3.h>
#include <unistd.h>
#include <unordered_map>

using namespace llbuild;
using namespace llbuild::core;

// ---- interposed: record the busy timeout the code asks for ------------------------------------
static int g_requestedBusyMs = -1;
extern "C" int sqlite3_busy_timeout(sqlite3* db, int ms) {
  typedef int (*fn_t)(sqlite3*, int);
  static fn_t real = (fn_t)dlsym(RTLD_NEXT, "sqlite3_busy_timeout");
  if (ms > 0) g_requestedBusyMs = ms;
  if (ms > 40 && !getenv("VC03_REAL_BUSY")) ms = 40;
  return real(db, ms);
}

namespace {

class DummyRule : public Rule {
public:
  DummyRule() : Rule(KeyType("")) {}
  Task* createTask(BuildEngine&) override { return nullptr; }
  bool isResultValid(BuildEngine&, const ValueType&) override { return true; }
};

/// The engine's key table: a bijection key <-> id, stable for the life of the BuildDB it is attached to.
class FakeDelegate : public BuildDBDelegate {
public:
  std::vector<std::string> keys;
  std::unordered_map<std::string, uint64_t> ids;
  const KeyID getKeyID(const KeyType& key) override {
    auto it = ids.find(key.str());
    if (it != ids.end()) return KeyID((const void*)(uintptr_t)it->second);
    keys.push_back(key.str());
    uint64_t id = keys.size();  // 1-based: 0 is KeyID::novalue()
    ids[key.str()] = id;
    return KeyID((const void*)(uintptr_t)id);
  }
  KeyType getKeyForID(const KeyID id) override {
    uint64_t v = id.value();
    if (v == 0 || v > keys.size()) return KeyType("<bad-id>");
    return KeyType(keys[v - 1]);
  }
};

struct Conn {
  std::unique_ptr<FakeDelegate> delegate;
  std::unique_ptr<BuildDB> db;
};

std::string errClass(const std::string& e) {
  if (e.find("database is locked") != std::string::npos) return "busy";
  if (e.find("Version mismatch") != std::string::npos) return "version";
  if (e.find("unexpected contents") != std::string::npos) return "corrupt";
  if (e.find("not an error") != std::string::npos || e.find("no more rows") != std::string::npos) return "dangling";
  return "other";
}

std::string depsString(FakeDelegate& d, const DependencyKeyIDs& deps) {
  if (deps.size() == 0) return ".";
  std::string out;
  for (size_t i = 0; i < deps.size(); i++) {
    auto e = deps[i];
    if (i) out += ",";
    out += vh::hexEncode(d.getKeyForID(e.keyID).str());
    out += ":";
    out += std::to_string((e.orderOnly ? 1 : 0) | (e.singleUse ? 2 : 0));
  }
  return out;
}

std::string resultString(FakeDelegate& d, const Result& r) {
  std::string v((const char*)r.value.data(), r.value.size());
  return "value=" + vh::hexEncode(v) + " sig=" + std::to_string((uint64_t)r.signature.value) + " built=" +
         std::to_string((uint64_t)r.builtAt) + " computed=" + std::to_string((uint64_t)r.computedAt) + " t=" +
         std::to_string((long long)(r.start * 2)) + "," + std::to_string((long long)(r.end * 2)) + " deps=" +
         depsString(d, r.dependencies);
}

std::string rawDump(const std::string& path) {
  if (access(path.c_str(), F_OK) != 0) return "noschema";
  sqlite3* db = nullptr;
  if (sqlite3_open_v2(path.c_str(), &db, SQLITE_OPEN_READWRITE, nullptr) != SQLITE_OK) {
    sqlite3_close(db);
    return "error=open";
  }
  std::string out;
  sqlite3_stmt* st = nullptr;
  int rc = sqlite3_prepare_v2(db, "SELECT version, client_version, iteration FROM info", -1, &st, nullptr);
  if (rc == SQLITE_BUSY) { sqlite3_close(db); return "error=busy"; }
  if (rc != SQLITE_OK) { sqlite3_close(db); return "noschema"; }
  rc = sqlite3_step(st);
  if (rc == SQLITE_BUSY) { sqlite3_finalize(st); sqlite3_close(db); return "error=busy"; }
  out += "info=";
  bool first = true;
  while (rc == SQLITE_ROW) {
    if (!first) out += ";";
    first = false;
    out += std::to_string(sqlite3_column_int64(st, 0)) + "," + std::to_string((uint32_t)sqlite3_column_int64(st, 1)) + "," +
           std::to_string((uint64_t)sqlite3_column_int64(st, 2));
    rc = sqlite3_step(st);
  }
  sqlite3_finalize(st);
  out += " keys=";
  sqlite3_prepare_v2(db, "SELECT id, typeof(key), key FROM key_names ORDER BY id", -1, &st, nullptr);
  first = true;
  while (sqlite3_step(st) == SQLITE_ROW) {
    if (!first) out += ",";
    first = false;
    std::string ty = (const char*)sqlite3_column_text(st, 1);
    int n = sqlite3_column_bytes(st, 2);
    std::string k((const char*)sqlite3_column_text(st, 2), n);
    out += std::to_string(sqlite3_column_int64(st, 0)) + ":" + ty + ":" + vh::hexEncode(k);
  }
  if (first) out += ".";
  sqlite3_finalize(st);
  out += " rows=";
  sqlite3_prepare_v2(db, "SELECT key_id, value, signature, built_at, computed_at, start, end, dependencies, typeof(value) FROM rule_results ORDER BY key_id", -1, &st, nullptr);
  first = true;
  while (sqlite3_step(st) == SQLITE_ROW) {
    if (!first) out += ",";
    first = false;
    std::string v((const char*)sqlite3_column_blob(st, 1), sqlite3_column_bytes(st, 1));
    std::string d((const char*)sqlite3_column_blob(st, 7), sqlite3_column_bytes(st, 7));
    std::string ty = (const char*)sqlite3_column_text(st, 8);
    out += std::to_string(sqlite3_column_int64(st, 0)) + ":" + ty + ":" + vh::hexEncode(v) + ":" +
           std::to_string((uint64_t)sqlite3_column_int64(st, 2)) + ":" + std::to_string((uint64_t)sqlite3_column_int64(st, 3)) + ":" +
           std::to_string((uint64_t)sqlite3_column_int64(st, 4)) + ":" + std::to_string((long long)(sqlite3_column_double(st, 5) * 2)) + ":" +
           std::to_string((long long)(sqlite3_column_double(st, 6) * 2)) + ":" + vh::hexEncode(d);
  }
  if (first) out += ".";
  sqlite3_finalize(st);
  sqlite3_close(db);
  return out;
}

bool parseU64(const std::string& s, uint64_t& out) {
  if (s.empty()) return false;
  char* end = nullptr;
  out = strtoull(s.c_str(), &end, 10);
  return *end == 0;
}

void mode_db(const std::string& dir) {
  std::string path = dir + "/c03.db";
  std::map<int, Conn> conns;
  DummyRule rule;
  std::string line;
  auto say = [](const std::string& s) { fputs(s.c_str(), stdout); fputc('\n', stdout); fflush(stdout); };
  while (std::getline(std::cin, line)) {
    auto f = vh::split(line);
    const std::string& op = f[0];
    if (op == "reset") {
      conns.clear();
      unlink(path.c_str());
      unlink((path + "-journal").c_str());
      say("ok");
      continue;
    }
    if (op == "crash") { conns.clear(); say("ok"); continue; }   // every object dies without buildComplete (soft crash)
    if (op == "raw") { say(rawDump(path)); continue; }
    if (op == "busyms") { say("busyms=" + std::to_string(g_requestedBusyMs)); continue; }
    if (f.size() < 2) { say("bad-op"); continue; }
    int c = atoi(f[1].c_str());
    if (op == "new") {
      uint64_t client = 0;
      if (f.size() != 4 || !parseU64(f[2], client)) { say("bad-op"); continue; }
      conns.erase(c);
      Conn& k = conns[c];
      std::string error;
      k.delegate.reset(new FakeDelegate());
      k.db = createSQLiteBuildDB(path, (uint32_t)client, f[3] == "1", &error);
      if (!k.db) { conns.erase(c); say("error=" + errClass(error)); continue; }
      k.db->attachDelegate(k.delegate.get());
      say("ok");
      continue;
    }
    auto it = conns.find(c);
    if (it == conns.end()) { say("no-conn"); continue; }
    Conn& k = it->second;
    std::string error;
    if (op == "drop") { conns.erase(it); say("ok"); }
    else if (op == "epoch") {
      bool ok = false;
      uint64_t e = k.db->getCurrentEpoch(&ok, &error);
      say(ok ? "epoch=" + std::to_string(e) : "error=" + errClass(error));
    } else if (op == "setiter") {
      uint64_t n = 0;
      if (f.size() != 3 || !parseU64(f[2], n)) { say("bad-op"); continue; }
      say(k.db->setCurrentIteration(n, &error) ? "ok" : "error=" + errClass(error));
    } else if (op == "start") {
      say(k.db->buildStarted(&error) ? "ok" : "error=" + errClass(error));
    } else if (op == "complete") {
      k.db->buildComplete();
      say("ok");
    } else if (op == "set") {
      uint64_t sig, built, computed;
      if (f.size() != 8 || !parseU64(f[4], sig) || !parseU64(f[5], built) || !parseU64(f[6], computed)) { say("bad-op"); continue; }
      std::string key = vh::hexDecode(f[2]), value = vh::hexDecode(f[3]);
      Result r;
      r.value.assign(value.begin(), value.end());
      r.signature = basic::CommandSignature(sig);
      r.builtAt = built;
      r.computedAt = computed;
      r.start = 1.5;
      r.end = 2.5;
      bool bad = false;
      if (f[7] != ".") {
        for (auto& d : vh::split(f[7], ',')) {
          auto p = vh::split(d, ':');
          if (p.size() != 2) { bad = true; break; }
          int fl = atoi(p[1].c_str());
          r.dependencies.push_back(k.delegate->getKeyID(KeyType(vh::hexDecode(p[0]))), fl & 1, (fl >> 1) & 1);
        }
      }
      if (bad) { say("bad-op"); continue; }
      KeyID id = k.delegate->getKeyID(KeyType(key));
      say(k.db->setRuleResult(id, rule, r, &error) ? "ok" : "error=" + errClass(error));
    } else if (op == "lookup") {
      if (f.size() != 3) { say("bad-op"); continue; }
      std::string key = vh::hexDecode(f[2]);
      KeyID id = k.delegate->getKeyID(KeyType(key));
      Result r;
      bool found = k.db->lookupRuleResult(id, KeyType(key), &r, &error);
      if (found) say(resultString(*k.delegate, r));
      else say(error.empty() ? "none" : "error=" + errClass(error));
    } else if (op == "keys") {
      std::vector<KeyType> keys;
      std::vector<Result> results;
      bool ok = k.db->getKeysWithResult(keys, results, &error);
      if (!ok) { say("error=" + errClass(error)); continue; }
      std::vector<std::string> rows;
      for (size_t i = 0; i < keys.size() && i < results.size(); i++)
        rows.push_back("key=" + vh::hexEncode(keys[i].str()) + "|" + resultString(*k.delegate, results[i]));
      std::sort(rows.begin(), rows.end());
      std::string out = "n=" + std::to_string(keys.size()) + "/" + std::to_string(results.size());
      for (auto& r : rows) { out += " ; "; out += r; }
      say(out);
    } else say("bad-op");
  }
}

// ---- affinity: what does the real sqlite3 do with a text bound into a column of this declared type -----
void mode_affinity() {
  std::string line;
  while (std::getline(std::cin, line)) {
    auto f = vh::split(line);
    if (f.size() != 3) { std::cout << "bad-op\n"; continue; }
    std::string decl = vh::hexDecode(f[0]), a = vh::hexDecode(f[1]), b = vh::hexDecode(f[2]);
    sqlite3* db = nullptr;
    sqlite3_open(":memory:", &db);
    std::string ddl = "CREATE TABLE t (id INTEGER PRIMARY KEY, key " + decl + " UNIQUE);";
    if (sqlite3_exec(db, ddl.c_str(), nullptr, nullptr, nullptr) != SQLITE_OK) { std::cout << "error=ddl\n"; sqlite3_close(db); continue; }
    sqlite3_stmt* st = nullptr;
    sqlite3_prepare_v2(db, "INSERT OR IGNORE INTO t(key) VALUES (?);", -1, &st, nullptr);
    sqlite3_bind_text(st, 1, a.data(), (int)a.size(), SQLITE_STATIC);
    sqlite3_step(st);
    sqlite3_finalize(st);
    std::string out;
    sqlite3_prepare_v2(db, "SELECT typeof(key), key FROM t WHERE id == 1", -1, &st, nullptr);
    if (sqlite3_step(st) == SQLITE_ROW) {
      std::string ty = (const char*)sqlite3_column_text(st, 0);
      int n = sqlite3_column_bytes(st, 1);
      out = ty + ":" + vh::hexEncode(std::string((const char*)sqlite3_column_text(st, 1), n));
    } else out = "norow";
    sqlite3_finalize(st);
    // does `key == ?` with the second text find the row stored for the first?
    sqlite3_prepare_v2(db, "SELECT id FROM t WHERE key == ? LIMIT 1;", -1, &st, nullptr);
    sqlite3_bind_text(st, 1, b.data(), (int)b.size(), SQLITE_STATIC);
    out += sqlite3_step(st) == SQLITE_ROW ? " eq=1" : " eq=0";
    sqlite3_finalize(st);
    sqlite3_close(db);
    std::cout << out << "\n";
  }
}

// ---- merged: the client_version a real BuildSystem writes -------------------------------------------
using namespace llbuild::buildsystem;
class QD : public basic::ExecutionQueueDelegate {
  void queueJobStarted(basic::JobDescriptor*) override {}
  void queueJobFinished(basic::JobDescriptor*) override {}
  void processStarted(basic::ProcessContext*, basic::ProcessHandle, llbuild_pid_t) override {}
  void processHadError(basic::ProcessContext*, basic::ProcessHandle, const llvm::Twine&) override {}
  void processHadOutput(basic::ProcessContext*, basic::ProcessHandle, llvm::StringRef) override {}
  void processFinished(basic::ProcessContext*, basic::ProcessHandle, const basic::ProcessResult&) override {}
};
class BSD : public BuildSystemDelegate {
public:
  QD qd;
  BSD(uint32_t v) : BuildSystemDelegate("mock", v) {}
  void setFileContentsBeingParsed(llvm::StringRef) override {}
  void error(llvm::StringRef, const Token&, const llvm::Twine&) override {}
  std::unique_ptr<Tool> lookupTool(llvm::StringRef) override { return nullptr; }
  std::unique_ptr<basic::ExecutionQueue> createExecutionQueue() override {
    return std::unique_ptr<basic::ExecutionQueue>(basic::createLaneBasedExecutionQueue(
        qd, 1, basic::SchedulerAlgorithm::NamePriority, basic::getDefaultQualityOfService(), nullptr));
  }
  void hadCommandFailure() override {}
  void commandStatusChanged(Command*, CommandStatusKind) override {}
  void commandPreparing(Command*) override {}
  bool shouldCommandStart(Command*) override { return true; }
  void commandStarted(Command*) override {}
  void commandHadError(Command*, llvm::StringRef) override {}
  void commandHadNote(Command*, llvm::StringRef) override {}
  void commandHadWarning(Command*, llvm::StringRef) override {}
  void commandFinished(Command*, basic::ProcessStatus) override {}
  void commandFoundDiscoveredDependency(Command*, llvm::StringRef, DiscoveredDependencyKind) override {}
  void commandCannotBuildOutputDueToMissingInputs(Command*, Node*, llvm::ArrayRef<BuildKey>) override {}
  Command* chooseCommandFromMultipleProducers(Node*, std::vector<Command*>) override { return nullptr; }
  void cannotBuildNodeDueToMultipleProducers(Node*, std::vector<Command*>) override {}
  void determinedRuleNeedsToRun(core::Rule*, core::Rule::RunReason, core::Rule*) override {}
};

void mode_merged(const std::string& dir) {
  std::string path = dir + "/c03-merged.db";
  std::string line;
  while (std::getline(std::cin, line)) {
    auto f = vh::split(line);
    uint64_t client = 0;
    // "<client> keep" attaches to whatever an earlier line left behind (is it recreated or accepted?)
    if (f.empty() || !parseU64(f[0], client)) { std::cout << "bad-op\n"; continue; }
    bool keep = f.size() > 1 && f[1] == "keep";
    if (!keep) { unlink(path.c_str()); unlink((path + "-journal").c_str()); }
    std::string marker = "absent";
    if (keep) {
      sqlite3* db = nullptr;
      sqlite3_open(path.c_str(), &db);
      sqlite3_exec(db, "UPDATE info SET iteration = 77;", nullptr, nullptr, nullptr);
      sqlite3_close(db);
    }
    {
      BSD d((uint32_t)client);
      BuildSystem bs(d, basic::createLocalFileSystem());
      std::string error;
      bool ok = bs.attachDB(path, &error);
      if (!ok) { std::cout << "error=" << errClass(error) << "\n"; continue; }
    }
    sqlite3* db = nullptr;
    sqlite3_open(path.c_str(), &db);
    sqlite3_stmt* st = nullptr;
    sqlite3_prepare_v2(db, "SELECT version, client_version, iteration FROM info", -1, &st, nullptr);
    if (sqlite3_step(st) == SQLITE_ROW)
      std::cout << "schema=" << sqlite3_column_int64(st, 0) << " client=" << (uint32_t)sqlite3_column_int64(st, 1)
                << (sqlite3_column_int64(st, 2) == 77 ? " kept" : " fresh") << "\n";
    else std::cout << "norow\n";
    sqlite3_finalize(st);
    sqlite3_close(db);
  }
}

}  // namespace

int main(int argc, char** argv) {
  if (argc < 2) return 2;
  std::string mode = argv[1];
  if (mode == "db" && argc >= 3) mode_db(argv[2]);
  else if (mode == "affinity") mode_affinity();
  else if (mode == "merged" && argc >= 3) mode_merged(argv[2]);
  else { fprintf(stderr, "usage: vc03 db <dir> | affinity | merged <dir>\n"); return 2; }
  return 0;
}
