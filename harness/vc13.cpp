// C13 harness: file-state pairs observed through the REAL FileSystem objects
// (createLocalFileSystem, DeviceAgnosticFileSystem, ChecksumOnlyFileSystem).
//
// usage: vc13 pairs <scratch-dir>
//
// One op per stdin line:   <A> <B> <how>
//   state  M                              path missing
//          F:<hex>:<sec>:<nsec>           regular file, content, mtime
//          D:-:<sec>:<nsec>               (empty) directory, mtime
//          L:<hex>:<sec>:<nsec>[:<t1hex>:<t1sec>:<t1nsec>]
//                                         symlink with that target string and own mtime; the optional
//                                         tail is the state of the sibling regular file "t1"
//                                         (absent tail: "t1" does not exist).  Sibling directory "t2"
//                                         always exists.
//   how    K   go from A to B keeping the inode where possible (file rewritten in place)
//          R   replace the object (new object renamed over the old one: a fresh inode)
//          =   B is not materialised; the path is observed a second time without being touched
// mtimes come from the op (a logical clock on the generator's side) and are stamped with utimensat;
// wall-clock mtimes are never relied on.
//
// One output line per op (all numbers hex):
//   A.ls=<e,dev,ino,mode,size,sec,nsec> A.st=<...> A.fc=<hex|!> A.rl=<hex|!>   raw lstat / stat / content
//                                                                             read with open+read / readlink
//   B.ls=... B.st=... B.fc=... B.rl=... ||
//   A.def.f=<dev,ino,mode,size,sec,nsec,cks,missing> A.def.l=<...> A.def.c=<cks>  (default FS: getFileInfo,
//   A.da.f A.da.l A.da.c A.co.f A.co.l A.co.c  B....                              getLinkInfo, getFileChecksum)
//   eq.def.f=<0|1> eq.def.l eq.da.f eq.da.l eq.co.f eq.co.l                     FileInfo::operator==(A, B)
// Everything after "||" is what the Lean model must reproduce from what is before it.
#include "vcommon.h"

#include "llbuild/Basic/FileInfo.h"
#include "llbuild/Basic/FileSystem.h"

#include <atomic>
#include <cerrno>
#include <thread>
#include <vector>
#include <dirent.h>
#include <fcntl.h>
#include <memory>
#include <sys/stat.h>
#include <sys/types.h>
#include <unistd.h>

using namespace llbuild;
using namespace llbuild::basic;

namespace {

struct State {
  char kind = 'M';
  std::string content;      // file content / link target
  uint64_t sec = 0, nsec = 0;
  bool sparse = false;
  bool hasT1 = false;
  std::string t1;
  uint64_t t1sec = 0, t1nsec = 0;
};

bool parseState(const std::string& s, State& st) {
  auto f = vh::split(s, ':');
  if (f.size() == 1 && f[0] == "M") { st.kind = 'M'; return true; }
  if (f.size() != 4 && f.size() != 7) return false;
  if (f[0] != "F" && f[0] != "D" && f[0] != "L" && f[0] != "S") return false;
  st.kind = f[0][0];
  // "S": a regular file like "F", written SPARSELY (4 KiB blocks of zeros become holes)
  if (st.kind == 'S') { st.kind = 'F'; st.sparse = true; }
  st.content = vh::hexDecode(f[1]);
  st.sec = strtoull(f[2].c_str(), nullptr, 16);
  st.nsec = strtoull(f[3].c_str(), nullptr, 16);
  if (f.size() == 7) {
    if (st.kind != 'L') return false;
    st.hasT1 = true;
    st.t1 = vh::hexDecode(f[4]);
    st.t1sec = strtoull(f[5].c_str(), nullptr, 16);
    st.t1nsec = strtoull(f[6].c_str(), nullptr, 16);
  }
  return true;
}

std::string dir;   // working directory of this process

void removeAny(const std::string& p) {
  struct stat sb;
  if (::lstat(p.c_str(), &sb) != 0) return;
  if (S_ISDIR(sb.st_mode)) ::rmdir(p.c_str()); else ::unlink(p.c_str());
}

bool writeAll(int fd, const std::string& c) {
  size_t off = 0;
  while (off < c.size()) {
    ssize_t n = ::write(fd, c.data() + off, c.size() - off);
    if (n <= 0) return false;
    off += (size_t)n;
  }
  return true;
}

bool gSparse = false;   // set by materialise() for the file being written

// like writeAll on a fresh / truncated file, but block-aligned runs of zero bytes are left as holes
bool writeSparse(int fd, const std::string& c) {
  const size_t B = 4096;
  for (size_t off = 0; off < c.size(); off += B) {
    size_t n = std::min(B, c.size() - off);
    bool zero = true;
    for (size_t i = 0; i < n; i++) if (c[off + i] != 0) { zero = false; break; }
    if (zero) continue;
    if (::pwrite(fd, c.data() + off, n, (off_t)off) != (ssize_t)n) return false;
  }
  return ::ftruncate(fd, (off_t)c.size()) == 0;
}

bool stamp(const std::string& p, uint64_t sec, uint64_t nsec) {
  struct timespec ts[2];
  ts[0].tv_sec = (time_t)sec; ts[0].tv_nsec = (long)nsec;
  ts[1] = ts[0];
  return ::utimensat(AT_FDCWD, p.c_str(), ts, AT_SYMLINK_NOFOLLOW) == 0;
}

bool putFile(const std::string& p, const std::string& c, uint64_t sec, uint64_t nsec, bool keep) {
  struct stat sb;
  bool exists = ::lstat(p.c_str(), &sb) == 0;
  if (keep && exists && S_ISREG(sb.st_mode)) {
    int fd = ::open(p.c_str(), O_WRONLY | O_TRUNC);
    if (fd < 0) return false;
    bool ok = gSparse ? writeSparse(fd, c) : writeAll(fd, c);
    ::close(fd);
    return ok && stamp(p, sec, nsec);
  }
  std::string tmp = p + ".tmp";
  int fd = ::open(tmp.c_str(), O_WRONLY | O_CREAT | O_TRUNC, 0644);
  if (fd < 0) return false;
  bool ok = gSparse ? writeSparse(fd, c) : writeAll(fd, c);
  ::close(fd);
  if (exists && S_ISDIR(sb.st_mode)) ::rmdir(p.c_str());
  if (::rename(tmp.c_str(), p.c_str()) != 0) return false;
  return ok && stamp(p, sec, nsec);
}

bool materialise(const State& st, bool keep) {
  std::string p = dir + "/p", t1 = dir + "/t1";
  struct stat sb;
  bool exists = ::lstat(p.c_str(), &sb) == 0;
  // sibling target file
  if (st.hasT1) { if (!putFile(t1, st.t1, st.t1sec, st.t1nsec, false)) return false; }
  else removeAny(t1);
  switch (st.kind) {
  case 'M': removeAny(p); return true;
  case 'F': { gSparse = st.sparse; bool ok = putFile(p, st.content, st.sec, st.nsec, keep); gSparse = false; return ok; }
  case 'D':
    if (exists && !S_ISDIR(sb.st_mode)) { ::unlink(p.c_str()); exists = false; }
    if (!exists && ::mkdir(p.c_str(), 0755) != 0) return false;
    return stamp(p, st.sec, st.nsec);
  case 'L': {
    std::string tmp = p + ".tmp";
    ::unlink(tmp.c_str());
    if (::symlink(st.content.c_str(), tmp.c_str()) != 0) return false;
    if (exists && S_ISDIR(sb.st_mode)) ::rmdir(p.c_str());
    if (::rename(tmp.c_str(), p.c_str()) != 0) return false;
    return stamp(p, st.sec, st.nsec);
  }
  }
  return false;
}

std::string hx(uint64_t v) { char b[32]; snprintf(b, sizeof b, "%llx", (unsigned long long)v); return b; }

std::string rawStat(bool link) {
  struct stat sb;
  std::string p = dir + "/p";
  int r = link ? ::lstat(p.c_str(), &sb) : ::stat(p.c_str(), &sb);
  if (r != 0) return "0,0,0,0,0,0,0";
  return "1," + hx(sb.st_dev) + "," + hx(sb.st_ino) + "," + hx(sb.st_mode) + "," + hx((uint64_t)sb.st_size) + "," +
         hx((uint64_t)sb.st_mtim.tv_sec) + "," + hx((uint64_t)sb.st_mtim.tv_nsec);
}

// content as an independent reader sees it (open + read); "!" when it cannot be opened or read
std::string rawContent() {
  std::string p = dir + "/p";
  int fd = ::open(p.c_str(), O_RDONLY);
  if (fd < 0) return "!";
  std::string c;
  char buf[65536];
  for (;;) {
    ssize_t n = ::read(fd, buf, sizeof buf);
    if (n < 0) { ::close(fd); return "!"; }
    if (n == 0) break;
    c.append(buf, (size_t)n);
  }
  ::close(fd);
  return vh::hexEncode(c);
}

std::string rawLink() {
  std::string p = dir + "/p";
  char buf[4096];
  ssize_t n = ::readlink(p.c_str(), buf, sizeof buf);
  if (n < 0) return "!";
  return vh::hexEncode(std::string(buf, (size_t)n));
}

std::string cks(const FileChecksum& c) {
  return vh::hexEncode(std::string((const char*)c.bytes, sizeof c.bytes));
}

std::string info(const FileInfo& i) {
  return hx(i.device) + "," + hx(i.inode) + "," + hx(i.mode) + "," + hx(i.size) + "," + hx(i.modTime.seconds) + "," +
         hx(i.modTime.nanoseconds) + "," + cks(i.checksum) + "," + (i.isMissing() ? "1" : "0");
}

struct Obs { FileInfo f[3], l[3]; FileChecksum c[3]; std::string raw; };

const char* modeName[3] = {"def", "da", "co"};

void observe(std::unique_ptr<FileSystem> fs[3], Obs& o, const char* tag) {
  std::string p = dir + "/p";
  std::string t(tag);
  o.raw = t + ".ls=" + rawStat(true) + " " + t + ".st=" + rawStat(false) + " " + t + ".fc=" + rawContent() + " " + t + ".rl=" + rawLink();
  for (int m = 0; m < 3; m++) {
    o.f[m] = fs[m]->getFileInfo(p);
    o.l[m] = fs[m]->getLinkInfo(p);
    o.c[m] = fs[m]->getFileChecksum(p);
  }
}

std::string model(const Obs& o, const char* tag) {
  std::string out, t(tag);
  for (int m = 0; m < 3; m++) {
    std::string k = t + "." + modeName[m];
    out += k + ".f=" + info(o.f[m]) + " " + k + ".l=" + info(o.l[m]) + " " + k + ".c=" + cks(o.c[m]) + " ";
  }
  return out;
}

void mode_pairs() {
  std::unique_ptr<FileSystem> fs[3];
  fs[0] = createLocalFileSystem();
  fs[1] = DeviceAgnosticFileSystem::from(createLocalFileSystem());
  fs[2] = ChecksumOnlyFileSystem::from(createLocalFileSystem());
  ::mkdir((dir + "/t2").c_str(), 0755);
  stamp(dir + "/t2", 5, 5);
  std::string line;
  while (std::getline(std::cin, line)) {
    auto f = vh::split(line);
    State a, b;
    if (f.size() != 3 || !parseState(f[0], a) || !parseState(f[1], b) || f[2].size() != 1 ||
        (f[2][0] != 'K' && f[2][0] != 'R' && f[2][0] != '=')) { std::cout << "bad-op\n"; continue; }
    removeAny(dir + "/p");
    if (!materialise(a, false)) { std::cout << "setup-failed A errno=" << errno << "\n"; continue; }
    Obs oa, ob;
    observe(fs, oa, "A");
    if (f[2][0] != '=') {
      if (!materialise(b, f[2][0] == 'K')) { std::cout << "setup-failed B errno=" << errno << "\n"; continue; }
    }
    observe(fs, ob, "B");
    std::string out = oa.raw + " " + ob.raw + " || " + model(oa, "A") + model(ob, "B");
    for (int m = 0; m < 3; m++) {
      out += std::string("eq.") + modeName[m] + ".f=" + (oa.f[m] == ob.f[m] ? "1" : "0") + " ";
      out += std::string("eq.") + modeName[m] + ".l=" + (oa.l[m] == ob.l[m] ? "1" : "0");
      if (m != 2) out += " ";
    }
    std::cout << out << "\n";
  }
  removeAny(dir + "/p");
  removeAny(dir + "/t1");
  removeAny(dir + "/t2");
}

// "Untouched paths compare equal", with several observers at once: N threads, each with its own file of `kib` KiB and
// pseudo-random content, observe it `reps` times through ONE checksum-only file system; every observation must equal the
// single-threaded baseline of that file.  Prints `par files=N reps=R unequal=U distinct_baselines=D`.
void mode_par() {
  std::string line;
  while (std::getline(std::cin, line)) {
    auto f = vh::split(line);
    if (f.size() != 3) { std::cout << "bad-op\n"; continue; }
    int n = atoi(f[0].c_str()), kib = atoi(f[1].c_str()), reps = atoi(f[2].c_str());
    if (n < 1 || n > 16 || kib < 1 || kib > 65536 || reps < 1) { std::cout << "bad-op\n"; continue; }
    auto fs = ChecksumOnlyFileSystem::from(createLocalFileSystem());
    std::vector<std::string> paths;
    std::vector<FileInfo> base;
    for (int i = 0; i < n; i++) {
      std::string p = dir + "/par" + std::to_string(i);
      std::string c((size_t)kib * 1024, '\0');
      uint64_t x = 0x9e3779b97f4a7c15ull * (uint64_t)(i + 1);
      for (size_t j = 0; j < c.size(); j++) { x ^= x << 13; x ^= x >> 7; x ^= x << 17; c[j] = (char)(x & 0xff); }
      int fd = ::open(p.c_str(), O_WRONLY | O_CREAT | O_TRUNC, 0644);
      bool ok = fd >= 0 && writeAll(fd, c);
      if (fd >= 0) ::close(fd);
      if (!ok) { std::cout << "setup-failed errno=" << errno << "\n"; goto next; }
      paths.push_back(p);
    }
    for (auto& p : paths) base.push_back(fs->getFileInfo(p));
    {
      int distinct = 0;
      for (int i = 0; i < n; i++) { bool dup = false; for (int j = 0; j < i; j++) if (base[i].checksum == base[j].checksum) dup = true; if (!dup) distinct++; }
      std::atomic<int> unequal{0};
      std::vector<std::thread> ts;
      for (int i = 0; i < n; i++)
        ts.emplace_back([&, i] { for (int r = 0; r < reps; r++) { FileInfo o = fs->getFileInfo(paths[i]); if (!(o == base[i])) unequal++; } });
      for (auto& t : ts) t.join();
      std::cout << "par files=" << n << " reps=" << reps << " unequal=" << unequal.load() << " distinct_baselines=" << distinct << "\n";
    }
  next:
    for (auto& p : paths) ::unlink(p.c_str());
  }
}

}  // namespace

int main(int argc, char** argv) {
  std::ios::sync_with_stdio(false);
  if (argc < 3) { fprintf(stderr, "usage: vc13 pairs <scratch-dir>\n"); return 2; }
  std::string mode = argv[1];
  ::mkdir(argv[2], 0755);
  dir = std::string(argv[2]) + "/c13w" + std::to_string((long)getpid());
  if (::mkdir(dir.c_str(), 0755) != 0 && errno != EEXIST) { perror("mkdir"); return 2; }
  int rc = 0;
  if (mode == "pairs") mode_pairs();
  else if (mode == "par") mode_par();
  else { fprintf(stderr, "unknown mode %s\n", argv[1]); rc = 2; }
  ::rmdir(dir.c_str());
  return rc;
}
