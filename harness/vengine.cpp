// Engine harness: drives the real core::BuildEngine with rules/tasks interpreted from a small DSL,
// an observing in-memory BuildDB, and a hook-driven schedule; prints the event trace of every build.
// usage: vengine trace      -- ops on stdin, one output line per op
//
// Ops (all tokens are decimal integers unless noted):
//   P <nrules> then one "R ..." line per rule        define the program (engine must be restarted after)
//   E                                                 new engine attached to the (persisting) observing DB
//   W                                                 wipe the DB and start a new engine
//   M <slot> <val>                                    mutate external state
//   B <key> <cancelAtEvent> <mode> <nitems> (<cancel> <n> k1..kn)*   build; mode 0 = hook-driven, 1 = free threads
//   O <key>                                           oracle: value computed by a brand-new engine with no database
//   D                                                 dump the database
//   Q <0|1>                                           database backend of the engines created from now on: 0 = the observing
//                                                     in-memory database, 1 = the real SQLite database in a scratch file
//                                                     (no G/DS/DI/DB/DE events then; `W` removes the file)
// Rule line:
//   R key kind sigBase validMode validArg force deferred vmod
//     nstatic (key id kind)*  nwhen (ck cid cm cr nreq (key id kind)*)*  ndisc (ck cid cm cr key)*
#include "vcommon.h"

#include "llbuild/Core/BuildDB.h"
#include "llbuild/Core/BuildEngine.h"
#include "llbuild/Basic/ExecutionQueue.h"

#include <algorithm>
#include <atomic>
#include <condition_variable>
#include <map>
#include <memory>
#include <mutex>
#include <set>
#include <thread>
#include <signal.h>
#include <sys/wait.h>
#include <unistd.h>

using namespace llbuild;
using namespace llbuild::core;

#ifdef LLBUILD_VERIF
namespace llbuild { namespace core { extern void (*verifEngineHook)(int point, BuildEngine* engine); } }
#endif

namespace {

typedef uint64_t U64;
const U64 SIG_OFFSET = 1000, FLAG_OFFSET = 2000;

struct Req { U64 key, id, kind; };           // kind 0 normal, 1 single-use, 2 must-follow
struct Cond { U64 ck, id, m, r; };           // ck 0: got id ; ck 1: got id and value(id) % m == r
struct When { Cond c; std::vector<Req> reqs; };
struct Disc { Cond c; U64 key; };
struct RuleSpec {
  U64 key = 0, kind = 0, sigBase = 0, validMode = 0, validArg = 0, force = 0, deferred = 0, vmod = 0;
  std::vector<Req> statics;
  std::vector<When> whens;
  std::vector<Disc> discs;
};

std::map<U64, RuleSpec> program;
std::map<U64, U64> env;
U64 envAt(U64 k) { auto it = env.find(k); return it == env.end() ? 0 : it->second; }

// ---------------------------------------------------------------------------------------------
// values: 0 <-> empty bytes, otherwise 8 bytes little endian
ValueType toValue(U64 v) {
  ValueType out;
  if (v == 0) return out;
  for (int i = 0; i < 8; i++) out.push_back((uint8_t)(v >> (8 * i)));
  return out;
}
std::string valStr(const ValueType& v) {
  if (v.empty()) return "0";
  if (v.size() != 8) return "bad" + std::to_string(v.size());
  U64 x = 0;
  for (int i = 0; i < 8; i++) x |= (U64)v[i] << (8 * i);
  return std::to_string(x);
}
U64 valNum(const ValueType& v) {
  U64 x = 0;
  for (size_t i = 0; i < v.size() && i < 8; i++) x |= (U64)v[i] << (8 * i);
  return x;
}
std::string keyName(U64 k) { return "k" + std::to_string(k); }
std::string keyNum(const KeyType& k) { return k.str().size() > 1 && k.str()[0] == 'k' ? k.str().substr(1) : "?" + vh::hexEncode(k.str()); }
U64 keyU(const KeyType& k) { return strtoull(k.str().c_str() + 1, nullptr, 10); }

// ---------------------------------------------------------------------------------------------
// event trace
std::mutex evMu;
std::vector<std::string> events;
bool tracing = true;
U64 cancelAtEvent = 0;
BuildEngine* currentEngine = nullptr;
std::atomic<bool> cancelIssued{false};
std::atomic<bool> buildActive{false};

int buildMode = 0;          // 0 hook-driven, 1 free completion threads, 2 = 1 + cancellation from a foreign thread
void doCancel();
std::mutex cancellerMu;
std::vector<std::thread> cancellers;
int crashFd = -1;          // >= 0 in the forked child of a `K` op: die before the crashAt-th event (or before the commit)
U64 crashAt = 0;
void ev(const std::string& s) {
  bool fire = false;
  {
    std::lock_guard<std::mutex> g(evMu);
    if (!tracing) return;
    if (crashFd >= 0 && (events.size() + 1 >= crashAt || s == "DE")) {
      // the process dies here: nothing after this point happens, the transaction is never committed
      std::string out;
      for (size_t i = 0; i < events.size(); i++) { if (i) out += " ; "; out += events[i]; }
      out += " ; KILL\n";
      (void)!write(crashFd, out.data(), out.size());
      _exit(0);
    }
    events.push_back(s);
    // (not from inside createExecutionQueue: the engine holds its queue mutex there, and cancelBuild()
    // takes the same non-recursive mutex; a foreign thread would simply block until it is released)
    if (cancelAtEvent && events.size() >= cancelAtEvent && buildActive && !cancelIssued && s != "QC") fire = true;
  }
  if (fire) {
    if (buildMode == 2) {
      // cancellation from a FOREIGN thread that is neither the engine thread nor the completing one
      std::lock_guard<std::mutex> g(cancellerMu);
      cancellers.emplace_back([] { doCancel(); });
    } else {
      doCancel();
    }
  }
}
void doCancel() {
  if (cancelIssued.exchange(true)) return;
  {
    std::lock_guard<std::mutex> g(evMu);
    if (tracing) events.push_back("X");
  }
  if (currentEngine) currentEngine->cancelBuild();
}

// ---------------------------------------------------------------------------------------------
// observing in-memory database (persists across engines)
struct Row {
  ValueType value; U64 sig = 0, builtAt = 0, computedAt = 0;
  std::vector<std::pair<std::string, int>> deps;   // key, flags (bit0 orderOnly, bit1 singleUse)
};
struct Store {
  std::map<std::string, Row> rows;
  U64 iteration = 0;
  bool failNextSet = false;
} store;

class MemDB : public BuildDB {
  BuildDBDelegate* d = nullptr;
public:
  void attachDelegate(BuildDBDelegate* del) override { d = del; }
  Epoch getCurrentEpoch(bool* ok, std::string*) override { *ok = true; return store.iteration; }
  bool setCurrentIteration(uint64_t v, std::string*) override { ev("DI " + std::to_string(v)); store.iteration = v; return true; }
  bool lookupRuleResult(KeyID, const KeyType& key, Result* out, std::string*) override {
    auto it = store.rows.find(key.str());
    ev("G " + keyNum(key) + " " + (it == store.rows.end() ? "0" : "1"));
    if (it == store.rows.end()) return false;
    const Row& r = it->second;
    out->value = r.value; out->signature = basic::CommandSignature(r.sig);
    out->builtAt = r.builtAt; out->computedAt = r.computedAt;
    out->dependencies.clear();
    for (auto& dp : r.deps) out->dependencies.push_back(d->getKeyID(KeyType(dp.first)), dp.second & 1, (dp.second >> 1) & 1);
    return true;
  }
  bool setRuleResult(KeyID, const Rule& rule, const Result& res, std::string* err) override {
    Row r;
    r.value = res.value; r.sig = res.signature.value; r.builtAt = res.builtAt; r.computedAt = res.computedAt;
    std::string s = "DS " + keyNum(rule.key) + " " + valStr(res.value) + " " + std::to_string(r.sig) + " " +
                    std::to_string(r.builtAt) + " " + std::to_string(r.computedAt) + " " + std::to_string(res.dependencies.size());
    for (auto dep : res.dependencies) {
      KeyType k = d->getKeyForID(dep.keyID);
      r.deps.push_back({k.str(), (dep.orderOnly ? 1 : 0) | (dep.singleUse ? 2 : 0)});
      s += " " + keyNum(k) + " " + (dep.orderOnly ? "1" : "0") + " " + (dep.singleUse ? "1" : "0");
    }
    ev(s);
    if (store.failNextSet) { store.failNextSet = false; *err = "injected database failure"; return false; }
    store.rows[rule.key.str()] = r;
    return true;
  }
  bool buildStarted(std::string*) override { ev("DB"); return true; }
  void buildComplete() override { ev("DE"); }
  bool getKeys(std::vector<KeyType>&, std::string*) override { return true; }
  bool getKeysWithResult(std::vector<KeyType>&, std::vector<Result>&, std::string*) override { return true; }
};

// ---------------------------------------------------------------------------------------------
// DSL interpretation
U64 mixInit() { return 1469598103934665603ULL; }
U64 mix(U64 h, U64 x) { return (h ^ x) * 1099511628211ULL; }

struct Recv { std::map<U64, U64> got; };   // id -> masked value

bool condHolds(const Cond& c, const Recv& r) {
  auto it = r.got.find(c.id);
  if (it == r.got.end()) return false;
  if (c.ck == 0) return true;
  return c.m != 0 && (it->second % c.m) == c.r;
}
// cumulative request list after receiving r: statics, then the requests of each `when` whose condition holds
std::vector<Req> nextReqs(const RuleSpec& s, const Recv& r) {
  std::vector<Req> out = s.statics;
  for (auto& w : s.whens) if (condHolds(w.c, r)) out.insert(out.end(), w.reqs.begin(), w.reqs.end());
  return out;
}
std::vector<U64> discKeys(const RuleSpec& s, const Recv& r) {
  std::vector<U64> out;
  for (auto& d : s.discs) if (condHolds(d.c, r)) out.push_back(d.key);
  return out;
}
U64 outValue(const RuleSpec& s, const Recv& r) {
  if (s.kind == 0) return envAt(s.key);
  U64 h = mix(mixInit(), s.key);
  for (auto& kv : r.got) { h = mix(h, kv.first); h = mix(h, kv.second); }
  h = mix(h, 0xabcdef);
  for (auto d : discKeys(s, r)) { h = mix(h, d); h = mix(h, envAt(d)); }
  if (s.vmod) h = (h % s.vmod) + 1;
  if (h == 0) h = 1;
  return h;
}
U64 sigOf(const RuleSpec& s) { return s.sigBase + envAt(SIG_OFFSET + s.key); }
bool validOf(const RuleSpec& s, U64 v) {
  if (s.kind == 0) return v == envAt(s.key);
  if (s.validMode == 0) return true;
  if (s.validMode == 1) return false;
  return envAt(FLAG_OFFSET + s.validArg) == 0;
}

std::string reqsStr(const std::vector<Req>& v, size_t from) {
  std::string s = std::to_string(v.size() - from);
  for (size_t i = from; i < v.size(); i++) s += " " + std::to_string(v[i].key) + " " + std::to_string(v[i].id) + " " + std::to_string(v[i].kind);
  return s;
}

struct DslTask;
std::mutex pendMu;
std::map<U64, DslTask*> pendingDeferred;     // computing deferred tasks not yet completed, by key
std::set<DslTask*> liveTasks;
std::atomic<int> callbacksAfterReturn{0};
std::vector<std::thread> workers;

struct DslTask : public Task {
  const RuleSpec& s;
  Recv recv;
  bool done = false;
  TaskInterface tiSaved{nullptr, nullptr};
  DslTask(const RuleSpec& s) : s(s) { std::lock_guard<std::mutex> g(pendMu); liveTasks.insert(this); }
  ~DslTask() override { std::lock_guard<std::mutex> g(pendMu); liveTasks.erase(this); pendingDeferred.erase(s.key); }

  void guard() { if (!buildActive) callbacksAfterReturn++; }

  std::vector<Req> issuedReqs;
  bool wasIssued(const Req& q) const {
    for (auto& p : issuedReqs) if (p.key == q.key && p.id == q.id && p.kind == q.kind) return true;
    return false;
  }
  // requests of the cumulative list that have not been issued yet, in list order
  std::vector<Req> newReqs() const {
    std::vector<Req> out;
    for (auto& q : nextReqs(s, recv)) {
      bool dup = wasIssued(q);
      for (auto& p : out) if (p.key == q.key && p.id == q.id && p.kind == q.kind) dup = true;
      if (!dup) out.push_back(q);
    }
    return out;
  }
  void issue(TaskInterface ti, const std::vector<Req>& fresh) {
    for (auto& q : fresh) {
      issuedReqs.push_back(q);
      if (q.kind == 0) ti.request(KeyType(keyName(q.key)), q.id);
      else if (q.kind == 1) ti.requestSingleUse(KeyType(keyName(q.key)), q.id);
      else ti.mustFollow(KeyType(keyName(q.key)));
    }
  }
  void start(TaskInterface ti) override {
    guard();
    auto fresh = newReqs();
    ev("ST " + std::to_string(s.key) + " " + reqsStr(fresh, 0));
    issue(ti, fresh);
  }
  void providePriorValue(TaskInterface, const ValueType& v) override { guard(); ev("PP " + std::to_string(s.key) + " " + valStr(v)); }
  void provideValue(TaskInterface ti, uintptr_t id, const KeyType& key, const ValueType& v) override {
    guard();
    // which request is this?  single-use values are masked to 0
    bool single = false;
    for (auto& q : issuedReqs) if (q.id == id && q.key == keyU(key) && q.kind != 2) single = q.kind == 1;
    recv.got[id] = single ? 0 : valNum(v);
    auto fresh = newReqs();
    ev("PV " + std::to_string(s.key) + " " + std::to_string(id) + " " + keyNum(key) + " " + valStr(v) + " " + reqsStr(fresh, 0));
    issue(ti, fresh);
  }
  void inputsAvailable(TaskInterface ti) override {
    guard();
    auto ds = discKeys(s, recv);
    std::string e = "IA " + std::to_string(s.key) + " " + std::to_string(ds.size());
    for (auto d : ds) e += " " + std::to_string(d);
    ev(e);
    for (auto d : ds) ti.discoveredDependency(KeyType(keyName(d)));
    tiSaved = ti;
    if (!s.deferred) { complete(); return; }
    if (buildMode >= 1) {
      // free-running completion on a worker thread
      U64 delay = (s.key * 7919) % 300;
      workers.emplace_back([this, delay] { usleep(delay); complete(); });
      return;
    }
    std::lock_guard<std::mutex> g(pendMu);
    pendingDeferred[s.key] = this;
  }
  void complete() {
    U64 v = outValue(s, recv);
    ev("C " + std::to_string(s.key) + " " + std::to_string(v) + " " + std::to_string(s.force));
    done = true;
    tiSaved.complete(toValue(v), s.force != 0);
  }
};

struct DslRule : public Rule {
  const RuleSpec& s;
  DslRule(const RuleSpec& s) : Rule(KeyType(keyName(s.key)), basic::CommandSignature(sigOf(s))), s(s) {}
  Task* createTask(BuildEngine&) override { ev("T " + std::to_string(s.key)); return new DslTask(s); }
  bool isResultValid(BuildEngine&, const ValueType& v) override {
    bool b = v.size() == 0 || v.size() == 8 ? validOf(s, valNum(v)) : false;
    ev("V " + std::to_string(s.key) + " " + valStr(v) + " " + (b ? "1" : "0"));
    return b;
  }
  void updateStatus(BuildEngine&, StatusKind k) override { ev("S " + std::to_string(s.key) + " " + std::to_string((int)k)); }
};

class QD : public basic::ExecutionQueueDelegate {
  void queueJobStarted(basic::JobDescriptor*) override {}
  void queueJobFinished(basic::JobDescriptor*) override {}
  void processStarted(basic::ProcessContext*, basic::ProcessHandle, llbuild_pid_t) override {}
  void processHadError(basic::ProcessContext*, basic::ProcessHandle, const Twine&) override {}
  void processHadOutput(basic::ProcessContext*, basic::ProcessHandle, StringRef) override {}
  void processFinished(basic::ProcessContext*, basic::ProcessHandle, const basic::ProcessResult&) override {}
} qd;

RuleSpec missingSpec;

// The execution queue handed to the engine: forwards to a serial queue and watches its own lifetime.  `cancelAllJobs()`
// takes a little while (as it does on a real lane queue that signals processes); if the queue is DESTROYED while a
// `cancelAllJobs()` call is still inside it - the engine released the queue under a concurrent `cancelBuild()` - the
// use-after-destruction is recorded and reported with the trace of the build (token `QV`).
std::atomic<int> queueViolations{0};
struct WatchQueue : public basic::ExecutionQueue {
  std::unique_ptr<basic::ExecutionQueue> inner;
  std::atomic<int> inCancel{0};
  WatchQueue(basic::ExecutionQueueDelegate& d) : basic::ExecutionQueue(d), inner(basic::createSerialQueue(d, nullptr)) {}
  ~WatchQueue() override { if (inCancel.load() != 0) queueViolations++; }
  void addJob(basic::QueueJob job, basic::QueueJobPriority priority) override { inner->addJob(job, priority); }
  void cancelAllJobs() override {
    inCancel++;
    if (buildMode == 2) usleep(400);
    inner->cancelAllJobs();
    inCancel--;
  }
  void executeProcess(basic::QueueJobContext* context, ArrayRef<StringRef> commandLine,
                      ArrayRef<std::pair<StringRef, StringRef>> environment, basic::ProcessAttributes attributes,
                      llvm::Optional<basic::ProcessCompletionFn> completionFn, basic::ProcessDelegate* delegate) override {
    inner->executeProcess(context, commandLine, environment, attributes, completionFn, delegate);
  }
};

struct Delegate : public BuildEngineDelegate {
  std::unique_ptr<basic::ExecutionQueue> createExecutionQueue() override {
    ev("QC");   // the engine increments its epoch right after creating the queue
    return std::unique_ptr<basic::ExecutionQueue>(new WatchQueue(qd));
  }
  std::unique_ptr<Rule> lookupRule(const KeyType& key) override {
    ev("L " + keyNum(key));
    U64 k = keyU(key);
    auto it = program.find(k);
    if (it == program.end()) {
      // an undefined key behaves as an input rule
      RuleSpec s; s.key = k; s.kind = 0;
      it = program.insert({k, s}).first;
    }
    return std::unique_ptr<Rule>(new DslRule(it->second));
  }
  void determinedRuleNeedsToRun(Rule* r, Rule::RunReason reason, Rule* in) override {
    ev("N " + keyNum(r->key) + " " + std::to_string((int)reason) + " " + (in ? keyNum(in->key) : std::string("-1")));
  }
  void cycleDetected(const std::vector<Rule*>& items) override {
    std::string e = "CY " + std::to_string(items.size());
    for (auto r : items) e += " " + keyNum(r->key);
    ev(e);
  }
  void error(const Twine& message) override {
    std::string m = message.str();
    int code = 0;
    if (m.find("duplicate rule") != std::string::npos) code = 1;
    else if (m.find("reserved input ID") != std::string::npos) code = 2;
    else if (m.find("discovered dependency") != std::string::npos) code = 3;
    else if (m.find("marking task complete") != std::string::npos) code = 4;
    else if (m.find("busy") != std::string::npos) code = 5;
    else if (m.find("injected database failure") != std::string::npos) code = 6;
    ev("ER " + std::to_string(code));
  }
};

// ---------------------------------------------------------------------------------------------
// hook-driven schedule
struct SchedItem { bool cancel = false; std::vector<U64> keys; };
std::vector<SchedItem> sched;
size_t schedPos = 0;

bool completeKey(U64 k) {
  DslTask* t = nullptr;
  {
    std::lock_guard<std::mutex> g(pendMu);
    auto it = pendingDeferred.find(k);
    if (it == pendingDeferred.end()) return false;
    t = it->second;
    pendingDeferred.erase(it);
  }
  t->complete();
  return true;
}
bool completeSmallest() {
  U64 k;
  {
    std::lock_guard<std::mutex> g(pendMu);
    if (pendingDeferred.empty()) return false;
    k = pendingDeferred.begin()->first;
  }
  return completeKey(k);
}
void hook(int point, BuildEngine*) {
  if (buildMode >= 1) return;
  if (point == 2) { completeSmallest(); return; }
  bool any = false;
  if (schedPos < sched.size()) {
    SchedItem it = sched[schedPos++];
    for (auto k : it.keys) any |= completeKey(k);
    if (it.cancel) doCancel();
  }
  if (point == 1 && !any) completeSmallest();
}

// ---------------------------------------------------------------------------------------------
std::unique_ptr<Delegate> delegate;
std::unique_ptr<BuildEngine> engine;

bool sqliteBackend = false;
bool sqliteKeep = false;      // op `q <path>`: a database file given by the driver, which outlives this process
std::string sqlitePath;

void newEngine(bool withDB) {
  engine.reset();
  delegate.reset(new Delegate());
  engine.reset(new BuildEngine(*delegate));
  if (withDB) {
    std::string err;
    if (sqliteBackend) {
      if (sqlitePath.empty()) {
        char tmpl[] = "/tmp/vengine-db-XXXXXX";
        int fd = mkstemp(tmpl);
        if (fd >= 0) close(fd);
        sqlitePath = tmpl;
        unlink(sqlitePath.c_str());
      }
      auto db = createSQLiteBuildDB(sqlitePath, /*clientVersion=*/1, /*recreateUnmatchedVersion=*/true, &err);
      if (db) engine->attachDB(std::move(db), &err);
    } else {
      engine->attachDB(std::unique_ptr<BuildDB>(new MemDB()), &err);
    }
  }
}
void removeSqliteFile(bool atExit = false) {
  if (atExit && sqliteKeep) return;
  if (!sqlitePath.empty()) {
    unlink(sqlitePath.c_str());
    unlink((sqlitePath + "-journal").c_str());
  }
}

std::vector<U64> nums(const std::string& line, size_t from) {
  std::vector<U64> out;
  auto f = vh::split(line);
  for (size_t i = from; i < f.size(); i++) if (!f[i].empty()) out.push_back(strtoull(f[i].c_str(), nullptr, 10));
  return out;
}

RuleSpec parseRule(const std::vector<U64>& n) {
  RuleSpec s; size_t i = 0;
  s.key = n[i++]; s.kind = n[i++]; s.sigBase = n[i++]; s.validMode = n[i++]; s.validArg = n[i++];
  s.force = n[i++]; s.deferred = n[i++]; s.vmod = n[i++];
  U64 ns = n[i++];
  for (U64 j = 0; j < ns; j++) { Req q; q.key = n[i++]; q.id = n[i++]; q.kind = n[i++]; s.statics.push_back(q); }
  U64 nw = n[i++];
  for (U64 j = 0; j < nw; j++) {
    When w; w.c.ck = n[i++]; w.c.id = n[i++]; w.c.m = n[i++]; w.c.r = n[i++];
    U64 nr = n[i++];
    for (U64 l = 0; l < nr; l++) { Req q; q.key = n[i++]; q.id = n[i++]; q.kind = n[i++]; w.reqs.push_back(q); }
    s.whens.push_back(w);
  }
  U64 nd = n[i++];
  for (U64 j = 0; j < nd; j++) { Disc d; d.c.ck = n[i++]; d.c.id = n[i++]; d.c.m = n[i++]; d.c.r = n[i++]; d.key = n[i++]; s.discs.push_back(d); }
  return s;
}

void onAlarm(int) {
  // the build neither returned nor made progress: report what was seen and give up
  std::string out = "STALL";
  for (auto& e : events) out += " ; " + e;   // best effort (debugging aid)
  out += "\n";
  (void)!write(1, out.data(), out.size());
  _exit(3);
}

std::string runBuild(U64 key) {
  signal(SIGALRM, onAlarm);
  alarm(20);
  {
    std::lock_guard<std::mutex> g(evMu);
    events.clear();
  }
  cancelIssued = false;
  engine->resetForBuild();
  currentEngine = engine.get();
  buildActive = true;
  ev("B " + std::to_string(key));
  const ValueType& v = engine->build(KeyType(keyName(key)));
  std::string r = "R " + valStr(v);
  alarm(0);
  for (auto& w : workers) w.join();
  workers.clear();
  {
    std::vector<std::thread> cs;
    { std::lock_guard<std::mutex> g(cancellerMu); cs.swap(cancellers); }
    for (auto& c : cs) c.join();
  }
  buildActive = false;
  currentEngine = nullptr;
  ev(r);
  size_t live;
  { std::lock_guard<std::mutex> g(pendMu); live = liveTasks.size(); }
  ev("Z " + std::to_string(live) + " " + std::to_string((int)callbacksAfterReturn));
  if (queueViolations.exchange(0) != 0) ev("QV");
  std::string out;
  std::lock_guard<std::mutex> g(evMu);
  for (size_t i = 0; i < events.size(); i++) { if (i) out += " ; "; out += events[i]; }
  return out;
}

}  // namespace

int main(int argc, char** argv) {
  std::ios::sync_with_stdio(false);
#ifdef LLBUILD_VERIF
  llbuild::core::verifEngineHook = hook;
#endif
  newEngine(true);
  std::string line;
  while (std::getline(std::cin, line)) {
    if (line.empty()) { std::cout << "\n"; continue; }
    char op = line[0];
    if (op == 'P') {
      U64 n = nums(line, 1).at(0);
      program.clear();
      for (U64 i = 0; i < n; i++) {
        std::string rl;
        std::getline(std::cin, rl);
        RuleSpec s = parseRule(nums(rl, 1));
        program[s.key] = s;
      }
      engine.reset();   // rules reference the program
      newEngine(true);
      std::cout << "ok\n";
    } else if (op == 'E') {
      newEngine(true);
      std::cout << "ok\n";
    } else if (op == 'W') {
      store = Store();
      env.clear();
      engine.reset();
      removeSqliteFile();
      newEngine(true);
      std::cout << "ok\n";
    } else if (op == 'M') {
      auto n = nums(line, 1);
      env[n.at(0)] = n.at(1);
      std::cout << "ok\n";
    } else if (op == 'B') {
      auto n = nums(line, 1);
      size_t i = 0;
      U64 key = n.at(i++);
      cancelAtEvent = n.at(i++);
      buildMode = (int)n.at(i++);
      U64 ni = n.at(i++);
      sched.clear(); schedPos = 0;
      for (U64 j = 0; j < ni; j++) {
        SchedItem it; it.cancel = n.at(i++) != 0;
        U64 c = n.at(i++);
        for (U64 l = 0; l < c; l++) it.keys.push_back(n.at(i++));
        sched.push_back(it);
      }
      std::cout << runBuild(key) << "\n";
    } else if (op == 'K') {
      // a build whose process is killed before its crashAt-th event (at the latest before the commit):
      // run it in a forked child; the parent keeps the database as of the last commit and starts a new engine
      auto n = nums(line, 1);
      size_t i = 0;
      U64 key = n.at(i++);
      U64 at = n.at(i++);
      i++;   // mode (always hook-driven)
      U64 ni = n.at(i++);
      sched.clear(); schedPos = 0;
      for (U64 j = 0; j < ni; j++) {
        SchedItem it; it.cancel = false; i++;
        U64 c = n.at(i++);
        for (U64 l = 0; l < c; l++) it.keys.push_back(n.at(i++));
        sched.push_back(it);
      }
      int fds[2];
      if (pipe(fds) != 0) { std::cout << "bad-op\n"; continue; }
      std::cout.flush();
      pid_t pid = fork();
      if (pid == 0) {
        close(fds[0]);
        crashFd = fds[1]; crashAt = at < 2 ? 2 : at; cancelAtEvent = 0; buildMode = 0;
        runBuild(key);
        _exit(7);   // not reached: the child dies at the commit at the latest
      }
      close(fds[1]);
      std::string got; char buf[4096]; ssize_t r;
      while ((r = read(fds[0], buf, sizeof buf)) > 0) got.append(buf, (size_t)r);
      close(fds[0]);
      int status = 0; waitpid(pid, &status, 0);
      while (!got.empty() && got.back() == '\n') got.pop_back();
      if (got.empty()) got = "CHILD-DIED " + std::to_string(status);
      std::cout << got << "\n";
      newEngine(true);
    } else if (op == 'O') {
      // brand-new engine, no database, synchronous completion, no tracing
      U64 key = nums(line, 1).at(0);
      tracing = false;
      std::map<U64, RuleSpec> saved = program;
      for (auto& kv : program) kv.second.deferred = 0;
      {
        Delegate d;
        BuildEngine e(d);
        buildActive = true;
        const ValueType& v = e.build(KeyType(keyName(key)));
        std::cout << valStr(v) << "\n";
        buildActive = false;
      }
      for (auto& kv : saved) program[kv.first].deferred = kv.second.deferred;
      tracing = true;
    } else if (op == 'D') {
      std::string out = "iter " + std::to_string(store.iteration);
      for (auto& kv : store.rows) {
        out += " | " + keyNum(KeyType(kv.first)) + " " + valStr(kv.second.value) + " " + std::to_string(kv.second.sig) + " " +
               std::to_string(kv.second.builtAt) + " " + std::to_string(kv.second.computedAt);
        for (auto& d : kv.second.deps) out += " " + keyNum(KeyType(d.first)) + ":" + std::to_string(d.second);
      }
      std::cout << out << "\n";
    } else if (op == 'q') {
      // `q <path>`: the real SQLite database in the given file (kept when this process ends or is killed)
      sqliteBackend = true; sqliteKeep = true;
      sqlitePath = line.size() > 2 ? line.substr(2) : std::string();
      while (!sqlitePath.empty() && (sqlitePath.back() == '\n' || sqlitePath.back() == ' ')) sqlitePath.pop_back();
      engine.reset();
      newEngine(true);
      std::cout << "ok\n";
    } else if (op == 'Q') {
      sqliteBackend = nums(line, 1).at(0) != 0;
      engine.reset();
      removeSqliteFile();
      newEngine(true);
      std::cout << "ok\n";
    } else if (op == 'F') {
      store.failNextSet = true;
      std::cout << "ok\n";
    } else {
      std::cout << "bad-op\n";
    }
    std::cout.flush();
  }
  engine.reset();
  removeSqliteFile(true);
  return 0;
}
