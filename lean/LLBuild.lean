import LLBuild.Props.C14
