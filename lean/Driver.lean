/-
Line-protocol driver for the executable models (`lean_exe llbuild-model`).
usage: llbuild-model <mode>   -- one op per stdin line, one canonical line per op on stdout.
Imports Model + Generated only (no Mathlib), so that it links.
-/
import LLBuild.Model.Bytes
import LLBuild.Model.StalePath

open LLBuild

def fields (line : String) : List String :=
  line.trimAscii.toString.splitOn " "

def hexListDecode (s : String) : Option (List Bytes) :=
  if s == "." || s == "" then some [] else (s.splitOn ",").mapM Hex.decode

def hexListEncode (l : List Bytes) : String :=
  if l.isEmpty then "." else ",".intercalate (l.map Hex.encode)

def stepC14Prefix (line : String) : String :=
  match fields line with
  | [p, r] =>
    match Hex.decode p, Hex.decode r with
    | some p, some r => if StalePath.pathIsPrefixedByPath p r then "1" else "0"
    | _, _ => "bad-op"
  | _ => "bad-op"

def stepC14Run (line : String) : String :=
  match fields line with
  | [a, b, c] =>
    match hexListDecode a, hexListDecode b, hexListDecode c with
    | some prior, some expected, some roots =>
      let acts := (StalePath.actions prior expected roots).map fun
        | .remove p => "R:" ++ Hex.encode p
        | .warnRelative p => "WR:" ++ Hex.encode p
        | .warnOutside p => "WO:" ++ Hex.encode p
      "value=" ++ hexListEncode expected ++ " acts=" ++ (if acts.isEmpty then "." else ",".intercalate acts)
    | _, _, _ => "bad-op"
  | _ => "bad-op"

partial def loop (h : IO.FS.Stream) (out : IO.FS.Stream) (f : String → String) : IO Unit := do
  let line ← h.getLine
  if line.isEmpty then return ()
  out.putStrLn (f line)
  loop h out f

def main (args : List String) : IO UInt32 := do
  let stdin ← IO.getStdin
  let stdout ← IO.getStdout
  match args with
  | ["c14prefix"] => loop stdin stdout stepC14Prefix; return 0
  | ["c14run"] => loop stdin stdout stepC14Run; return 0
  | _ => IO.eprintln "unknown mode"; return 2
