/-
Line-protocol driver for the executable models (`lean_exe llbuild-model`).
usage: llbuild-model <mode>   -- one op per stdin line, one canonical line per op on stdout.
Imports Model + Generated + Drv only (no Mathlib), so that it links.
Each property contributes `LLBuild.Drv.<Id>.modes`.
-/
import LLBuild.Drv.Common
import LLBuild.Drv.C14
import LLBuild.Drv.Engine
import LLBuild.Drv.C18
import LLBuild.Drv.C12
import LLBuild.Drv.C08
import LLBuild.Drv.EngineImpl
import LLBuild.Drv.EngineInv
import LLBuild.Drv.C09
import LLBuild.Drv.C11
import LLBuild.Drv.C20
import LLBuild.Drv.C10
import LLBuild.Drv.C16
import LLBuild.Drv.C15
import LLBuild.Drv.C13
import LLBuild.Drv.C03
import LLBuild.Drv.C04
import LLBuild.Drv.C17Lex
import LLBuild.Drv.C17Load
import LLBuild.Drv.C17Parse
import LLBuild.Drv.C19Yaml

open LLBuild.Drv

def allModes : List (String × Mode) :=
  LLBuild.Drv.C14.modes ++ LLBuild.Drv.Engine.modes ++ LLBuild.Drv.C18.modes ++ LLBuild.Drv.C12.modes ++ LLBuild.Drv.C08.modes ++ LLBuild.Drv.EngineImpl.modes ++ LLBuild.Drv.EngineInv.modes ++ LLBuild.Drv.C09.modes ++ LLBuild.Drv.C11.modes ++ LLBuild.Drv.C20.modes ++ LLBuild.Drv.C10.modes ++ LLBuild.Drv.C16.modes ++ LLBuild.Drv.C15.modes ++ LLBuild.Drv.C13.modes ++ LLBuild.Drv.C03.modes ++ LLBuild.Drv.C04.modes ++ LLBuild.Drv.C17Lex.modes ++ LLBuild.Drv.C17Load.modes ++ LLBuild.Drv.C17Parse.modes ++ LLBuild.Drv.C19Yaml.modes

def main (args : List String) : IO UInt32 := do
  let stdin ← IO.getStdin
  let stdout ← IO.getStdout
  match args with
  | [m] =>
    match allModes.lookup m with
    | some f => f stdin stdout; return 0
    | none => IO.eprintln s!"unknown mode {m}"; return 2
  | _ => IO.eprintln "usage: llbuild-model <mode>"; return 2
