/-
Helper lemmas for the shell-quoting round trip (model: LLBuild/Model/ShellEscape.lean).
-/
import LLBuild.Model.ShellEscape

namespace LLBuild.ShellEscape

/-! ### `findIdx?` -/

theorem findIdx?_take_false {p : UInt8 → Bool} : ∀ (l : Bytes) (i : Nat), l.findIdx? p = some i → ∀ x ∈ l.take i, p x = false := by
  intro l
  induction l with
  | nil => intro i h; simp at h
  | cons a l ih =>
    intro i h x hx
    rw [List.findIdx?_cons] at h
    split at h
    · cases h; simp at hx
    · rename_i hpa
      cases hf : l.findIdx? p with
      | none => rw [hf] at h; simp at h
      | some j =>
        rw [hf] at h
        simp only [Option.map_some, Option.some.injEq] at h
        subst h
        rw [List.take_succ_cons] at hx
        rcases List.mem_cons.1 hx with rfl | hx'
        · simpa using hpa
        · exact ih j hf x hx'

/-! ### `escapeFrom` -/

theorem escapeFrom_append (q : UInt8) (repl a b : Bytes) :
    escapeFrom q repl (a ++ b) = escapeFrom q repl a ++ escapeFrom q repl b := by
  simp [escapeFrom, List.flatMap_append]

theorem escapeFrom_no_quote (q : UInt8) (repl : Bytes) : ∀ l : Bytes, (∀ x ∈ l, x ≠ q) → escapeFrom q repl l = l := by
  intro l
  induction l with
  | nil => intro _; rfl
  | cons a l ih =>
    intro h
    have ha : a ≠ q := h a List.mem_cons_self
    have := ih (fun x hx => h x (List.mem_cons_of_mem _ hx))
    simp only [escapeFrom, List.flatMap_cons] at this ⊢
    rw [this]
    simp [ha]

/-- Whenever some character is outside the whitelist (and the quote character itself is not whitelisted),
the result is the quote, every character with embedded quotes replaced, and the quote. -/
theorem shellEscapedWith_quoted (wl : Bytes) (q : UInt8) (repl : Bytes) (hq : wl.contains q = false) (s : Bytes) (pos : Nat)
    (hpos : findFirstNotOf wl s = some pos) :
    shellEscapedWith wl q repl s = [q] ++ escapeFrom q repl s ++ [q] := by
  have hpre : ∀ x ∈ s.take pos, x ≠ q := by
    intro x hx he
    have := findIdx?_take_false s pos hpos x hx
    rw [he] at this
    simp at this
    have hq' : ¬ q ∈ wl := by simpa using hq
    exact hq' this
  unfold shellEscapedWith
  rw [hpos]
  simp only
  cases hsq : findFirstOfFrom q s pos with
  | none =>
    simp only
    unfold findFirstOfFrom at hsq
    have hnone : (s.drop pos).findIdx? (fun c => c == q) = none := by
      cases h : (s.drop pos).findIdx? (fun c => c == q) with
      | none => rfl
      | some j => rw [h] at hsq; simp at hsq
    have hpost : ∀ x ∈ s.drop pos, x ≠ q := by
      intro x hx he
      have := List.findIdx?_eq_none_iff.1 hnone x hx
      simp [he] at this
    have hall : ∀ x ∈ s, x ≠ q := by
      intro x hx
      rw [← List.take_append_drop pos s] at hx
      rcases List.mem_append.1 hx with h | h
      · exact hpre x h
      · exact hpost x h
    rw [escapeFrom_no_quote q repl s hall]
  | some sq =>
    simp only
    unfold findFirstOfFrom at hsq
    cases h : (s.drop pos).findIdx? (fun c => c == q) with
    | none => rw [h] at hsq; simp at hsq
    | some j =>
      rw [h] at hsq
      simp only [Option.map_some, Option.some.injEq] at hsq
      subst hsq
      have hmid : ∀ x ∈ (s.drop pos).take j, x ≠ q := by
        intro x hx he
        have := findIdx?_take_false (s.drop pos) j h x hx
        simp [he] at this
      have htake : ∀ x ∈ s.take (j + pos), x ≠ q := by
        intro x hx
        rw [Nat.add_comm, List.take_add] at hx
        rcases List.mem_append.1 hx with h' | h'
        · exact hpre x h'
        · exact hmid x h'
      conv => rhs; rw [← List.take_append_drop (j + pos) s, escapeFrom_append, escapeFrom_no_quote q repl _ htake]
      simp [List.append_assoc]

/-! ### `Sh.go` -/
namespace Sh

theorem plain_ne {c : UInt8} (h : plain c = true) : c ≠ 39 ∧ c ≠ 92 ∧ c ≠ 32 ∧ c ≠ 9 ∧ c ≠ 35 := by
  refine ⟨?_, ?_, ?_, ?_, ?_⟩ <;> (intro he; subst he; revert h; decide)

/-- a run of plain characters is (the rest of) one word -/
theorem go_plain : ∀ (p : Bytes) (cur : Option Bytes), (∀ c ∈ p, plain c = true) → (cur ≠ none ∨ p ≠ []) →
    go .unq cur p = some [cur.getD [] ++ p] := by
  intro p
  induction p with
  | nil =>
    intro cur _ h
    cases cur with
    | none => simp at h
    | some w => simp [go]
  | cons c rest ih =>
    intro cur hp _
    have hc := hp c List.mem_cons_self
    obtain ⟨h1, h2, h3, h4, h5⟩ := plain_ne hc
    have hrest : ∀ c ∈ rest, plain c = true := fun x hx => hp x (List.mem_cons_of_mem _ hx)
    have := ih (push cur c) hrest (Or.inl (by simp [push]))
    simp only [go, h1, h2, h3, h4, h5, hc, if_false, false_and, or_false, if_true]
    rw [this]
    simp [push]

/-- inside single quotes: the escaped form of `p` followed by the closing quote yields exactly `p` -/
theorem go_sq_escape : ∀ (p acc rest : Bytes), (∀ c ∈ p, c ≠ 0) →
    go .sq (some acc) (escapeFrom 39 [39, 92, 39, 39] p ++ 39 :: rest) = go .unq (some (acc ++ p)) rest := by
  intro p
  induction p with
  | nil => intro acc rest _; simp [escapeFrom, go]
  | cons c p' ih =>
    intro acc rest hnul
    have hc0 : c ≠ 0 := hnul c List.mem_cons_self
    have hrest : ∀ c ∈ p', c ≠ 0 := fun x hx => hnul x (List.mem_cons_of_mem _ hx)
    by_cases hq : c = 39
    · subst hq
      have e : escapeFrom 39 [39, 92, 39, 39] (39 :: p') = 39 :: 92 :: 39 :: 39 :: escapeFrom 39 [39, 92, 39, 39] p' := by
        simp [escapeFrom]
      have h92 : ¬ ((92 : UInt8) = 39) := by decide
      rw [e]
      simp only [List.cons_append, go, if_true, h92, if_false, push, Option.getD_some]
      rw [ih (acc ++ [39]) rest hrest]
      simp [List.append_assoc]
    · have e : escapeFrom 39 [39, 92, 39, 39] (c :: p') = c :: escapeFrom 39 [39, 92, 39, 39] p' := by
        simp [escapeFrom, hq]
      rw [e]
      simp only [List.cons_append, go, hq, hc0, if_false, push, Option.getD_some]
      rw [ih (acc ++ [c]) rest hrest]
      simp [List.append_assoc]

end Sh

end LLBuild.ShellEscape
