/-
Helper lemmas for the database-layer model (C03 / C04): association lists, key ids, caches, blob codec.
-/
import LLBuild.Model.BuildDB

namespace LLBuild.BuildDB
open LLBuild.Generated

abbrev KN := List (Nat × SqlValue)

/-- The column affinity leaves every key's bytes unchanged (hence distinct keys stay distinct), for the
stored value and for both `key == ?` operands. -/
def StoredKeyFaithful : Prop :=
  ∀ k : Bytes, storeKey k = .text k ∧ probeKey k = .text k ∧ probeKeyJoin k = .text k

/-- well-formed `key_names`: text keys, `id` is a key (PRIMARY KEY), `key` is a key (UNIQUE) -/
structure KNOK (kn : KN) : Prop where
  textual : ∀ id v, (id, v) ∈ kn → ∃ k, v = .text k
  uniqId : ∀ id v v', (id, v) ∈ kn → (id, v') ∈ kn → v = v'
  uniqKey : ∀ id id' v, (id, v) ∈ kn → (id', v) ∈ kn → id = id'

/-- the two id caches only mention rows of `key_names` -/
structure CacheOK (cn : Conn) (kn : KN) : Prop where
  dbc : ∀ k id, cn.dbKeyIDs.lookup k = some id → (id, SqlValue.text k) ∈ kn
  ekc : ∀ id k, cn.engineKeyIDs.lookup id = some k → (id, SqlValue.text k) ∈ kn

/-! ### association lists -/

theorem mem_of_lookup {α β} [BEq α] [LawfulBEq α] {l : List (α × β)} {a : α} {b : β} :
    l.lookup a = some b → (a, b) ∈ l := by
  induction l with
  | nil => simp [List.lookup]
  | cons h t ih =>
    obtain ⟨k, v⟩ := h
    rw [List.lookup_cons]
    by_cases hk : (a == k) = true
    · simp only [hk]
      intro h
      have : a = k := eq_of_beq hk
      simp at h
      subst this h
      exact List.mem_cons_self
    · have hk' : (a == k) = false := by simpa using hk
      simp only [hk']
      intro h
      exact List.mem_cons_of_mem _ (ih h)

theorem lookup_of_uniq {α β} [BEq α] [LawfulBEq α] {l : List (α × β)} {a : α} {b : β}
    (hu : ∀ b', (a, b') ∈ l → b' = b) (h : (a, b) ∈ l) : l.lookup a = some b := by
  induction l with
  | nil => cases h
  | cons hd t ih =>
    obtain ⟨k, v⟩ := hd
    rw [List.lookup_cons]
    by_cases hk : (a == k) = true
    · have : a = k := eq_of_beq hk
      subst this
      simp only [hk]
      have := hu v List.mem_cons_self
      rw [this]
    · have hk' : (a == k) = false := by simpa using hk
      simp only [hk']
      apply ih
      · intro b' hb'
        exact hu b' (List.mem_cons_of_mem _ hb')
      · rcases List.mem_cons.1 h with h | h
        · cases h
          simp at hk
        · exact h

theorem lookup_none_of_not_mem {α β} [BEq α] [LawfulBEq α] {l : List (α × β)} {a : α}
    (h : ∀ b, (a, b) ∉ l) : l.lookup a = none := by
  cases hl : l.lookup a with
  | none => rfl
  | some b => exact absurd (mem_of_lookup hl) (h b)

/-! ### key_names -/

theorem le_maxId {kn : KN} {e : Nat × SqlValue} (h : e ∈ kn) : e.1 ≤ maxId kn := by
  induction kn with
  | nil => cases h
  | cons hd t ih =>
    unfold maxId
    rcases List.mem_cons.1 h with h | h
    · subst h; omega
    · have := ih h; omega

theorem maxId_append_single (kn : KN) (e : Nat × SqlValue) : maxId (kn ++ [e]) = max (maxId kn) e.1 := by
  induction kn with
  | nil => simp [maxId]
  | cons hd t ih => simp only [List.cons_append, maxId, ih]; omega

theorem eqv_text_text (a b : Bytes) : (SqlValue.text a).eqv (.text b) = (a == b) := rfl

theorem findKeyIdWith_text_some {kn : KN} (ok : KNOK kn) {k : Bytes} {id : Nat}
    (h : findKeyIdWith (.text k) kn = some id) : (id, SqlValue.text k) ∈ kn := by
  unfold findKeyIdWith at h
  cases hf : kn.find? (fun e => e.2.eqv (.text k)) with
  | none => simp [hf] at h
  | some e =>
    obtain ⟨eid, ev⟩ := e
    simp [hf] at h
    subst h
    have hp := List.find?_some hf
    have hm := List.mem_of_find?_eq_some hf
    obtain ⟨k', hk'⟩ := ok.textual _ _ hm
    subst hk'
    simp only [eqv_text_text] at hp
    have : k' = k := eq_of_beq hp
    subst this
    exact hm

theorem findKeyIdWith_text_of_mem {kn : KN} (ok : KNOK kn) {k : Bytes} {id : Nat}
    (h : (id, SqlValue.text k) ∈ kn) : findKeyIdWith (.text k) kn = some id := by
  cases hf : findKeyIdWith (.text k) kn with
  | none =>
    unfold findKeyIdWith at hf
    cases hf' : kn.find? (fun e => e.2.eqv (.text k)) with
    | none =>
      have := List.find?_eq_none.1 hf' _ h
      simp [eqv_text_text] at this
    | some e => simp [hf'] at hf
  | some id' =>
    have := findKeyIdWith_text_some ok hf
    rw [ok.uniqKey _ _ _ this h]

theorem KNOK_nil : KNOK [] := ⟨by simp, by simp, by simp⟩

theorem KNOK_append_fresh {kn : KN} (ok : KNOK kn) {k : Bytes} (hnone : findKeyIdWith (.text k) kn = none) :
    KNOK (kn ++ [(maxId kn + 1, SqlValue.text k)]) := by
  have fresh : ∀ v, (maxId kn + 1, v) ∉ kn := by
    intro v hv
    have := le_maxId hv
    simp only at this
    omega
  have newkey : ∀ id, (id, SqlValue.text k) ∉ kn := by
    intro id hid
    rw [findKeyIdWith_text_of_mem ok hid] at hnone
    cases hnone
  constructor
  · intro id v h
    rcases List.mem_append.1 h with h | h
    · exact ok.textual id v h
    · simp at h; exact ⟨k, h.2⟩
  · intro id v v' h h'
    rcases List.mem_append.1 h with h | h <;> rcases List.mem_append.1 h' with h' | h'
    · exact ok.uniqId id v v' h h'
    · simp at h'; obtain ⟨rfl, rfl⟩ := h'; exact absurd h (fresh v)
    · simp at h; obtain ⟨rfl, rfl⟩ := h; exact absurd h' (fresh v')
    · simp at h h'; rw [h.2, h'.2]
  · intro id id' v h h'
    rcases List.mem_append.1 h with h | h <;> rcases List.mem_append.1 h' with h' | h'
    · exact ok.uniqKey id id' v h h'
    · simp at h'; obtain ⟨rfl, rfl⟩ := h'; exact absurd h (newkey id)
    · simp at h; obtain ⟨rfl, rfl⟩ := h; exact absurd h' (newkey id')
    · simp at h h'; rw [h.1, h'.1]

theorem CacheOK_mono {cn : Conn} {kn kn' : KN} (c : CacheOK cn kn) (hsub : ∀ e ∈ kn, e ∈ kn') : CacheOK cn kn' :=
  ⟨fun k id h => hsub _ (c.dbc k id h), fun id k h => hsub _ (c.ekc id k h)⟩

theorem CacheOK_cache {cn : Conn} {kn : KN} (c : CacheOK cn kn) {id : Nat} {k : Bytes} (h : (id, SqlValue.text k) ∈ kn) :
    CacheOK (cn.cache id k) kn := by
  constructor
  · intro k' id' hl
    simp only [Conn.cache, List.lookup_cons] at hl
    by_cases hk : (k' == k) = true
    · simp only [hk] at hl
      have : k' = k := eq_of_beq hk
      simp at hl
      subst this hl
      exact h
    · have hk' : (k' == k) = false := by simpa using hk
      simp only [hk'] at hl
      exact c.dbc k' id' hl
  · intro id' k' hl
    simp only [Conn.cache, List.lookup_cons] at hl
    by_cases hk : (id' == id) = true
    · simp only [hk] at hl
      have : id' = id := eq_of_beq hk
      simp at hl
      subst this hl
      exact h
    · have hk' : (id' == id) = false := by simpa using hk
      simp only [hk'] at hl
      exact c.ekc id' k' hl

/-- `getKeyID`: the returned id names the key in the (possibly extended) table; everything stays well-formed -/
theorem getKeyID_spec (hf : StoredKeyFaithful) {cn : Conn} {kn : KN} (k : Bytes) (ok : KNOK kn) (c : CacheOK cn kn) :
    ∃ cn1 kn1 id, getKeyID cn kn k = (cn1, kn1, id) ∧ KNOK kn1 ∧ CacheOK cn1 kn1 ∧ (∀ e ∈ kn, e ∈ kn1) ∧
      (id, SqlValue.text k) ∈ kn1 ∧ maxId kn1 ≤ maxId kn + 1 := by
  unfold getKeyID
  cases hl : cn.dbKeyIDs.lookup k with
  | some id => exact ⟨cn, kn, id, rfl, ok, c, fun _ h => h, c.dbc k id hl, by omega⟩
  | none =>
    simp only [ensureKey, findKeyId, (hf k).2.1, (hf k).1]
    cases hfind : findKeyIdWith (.text k) kn with
    | some id =>
      have hm := findKeyIdWith_text_some ok hfind
      refine ⟨_, kn, id, rfl, ok, ?_, fun _ h => h, hm, by omega⟩
      by_cases h0 : (id != 0) = true
      · simp only [h0, ↓reduceIte]; exact CacheOK_cache c hm
      · have : (id != 0) = false := by simpa using h0
        simp only [this]; exact c
    | none =>
      have ok' := KNOK_append_fresh ok hfind
      have hm : (maxId kn + 1, SqlValue.text k) ∈ kn ++ [(maxId kn + 1, SqlValue.text k)] := by simp
      have hsub : ∀ e ∈ kn, e ∈ kn ++ [(maxId kn + 1, SqlValue.text k)] := fun e h => List.mem_append_left _ h
      refine ⟨_, _, _, rfl, ok', ?_, hsub, hm, ?_⟩
      · have : (maxId kn + 1 != 0) = true := by simp
        simp only [this, ↓reduceIte]
        exact CacheOK_cache (CacheOK_mono c hsub) hm
      · rw [maxId_append_single]; simp

/-- `raw` encodes dependency `d` through an id that names `d.key` in `kn` -/
def DepEncoded (kn : KN) (d : Dep) (raw : Nat) : Prop :=
  ∃ id, raw = encodeDep SQLiteDB.depEnc id d.singleUse d.orderOnly ∧ (id, SqlValue.text d.key) ∈ kn

theorem DepEncoded_mono {kn kn' : KN} (hsub : ∀ e ∈ kn, e ∈ kn') {d : Dep} {raw : Nat} (h : DepEncoded kn d raw) :
    DepEncoded kn' d raw := by
  obtain ⟨id, h1, h2⟩ := h
  exact ⟨id, h1, hsub _ h2⟩

inductive DepsEncoded (kn : KN) : List Dep → List Nat → Prop
  | nil : DepsEncoded kn [] []
  | cons {d : Dep} {raw : Nat} {ds : List Dep} {raws : List Nat} :
      DepEncoded kn d raw → DepsEncoded kn ds raws → DepsEncoded kn (d :: ds) (raw :: raws)

theorem DepsEncoded_raw_lt {kn : KN} {deps : List Dep} {raws : List Nat} (h : DepsEncoded kn deps raws) :
    ∀ x ∈ raws, x < two64 := by
  induction h with
  | nil => simp
  | cons hd _ ih =>
    obtain ⟨id, rfl, _⟩ := hd
    intro x hx
    rcases List.mem_cons.1 hx with rfl | hx
    · unfold encodeDep; exact Nat.mod_lt _ (by unfold two64; omega)
    · exact ih x hx

theorem encodeDeps_spec (hf : StoredKeyFaithful) : ∀ (deps : List Dep) (cn : Conn) (kn : KN), KNOK kn → CacheOK cn kn →
    ∃ cn2 kn2 raws, encodeDeps cn kn deps = (cn2, kn2, raws) ∧ KNOK kn2 ∧ CacheOK cn2 kn2 ∧ (∀ e ∈ kn, e ∈ kn2) ∧
      DepsEncoded kn2 deps raws ∧ maxId kn2 ≤ maxId kn + deps.length := by
  intro deps
  induction deps with
  | nil => intro cn kn ok c; exact ⟨cn, kn, [], rfl, ok, c, fun _ h => h, DepsEncoded.nil, by simp⟩
  | cons d ds ih =>
    intro cn kn ok c
    obtain ⟨cn1, kn1, id, h1, ok1, c1, sub1, hm1, mx1⟩ := getKeyID_spec hf d.key ok c
    obtain ⟨cn2, kn2, raws, h2, ok2, c2, sub2, hall, mx2⟩ := ih cn1 kn1 ok1 c1
    refine ⟨cn2, kn2, encodeDep SQLiteDB.depEnc id d.singleUse d.orderOnly :: raws, ?_, ok2, c2, fun e h => sub2 e (sub1 e h), ?_, ?_⟩
    · simp only [encodeDeps, h1, h2]
    · exact DepsEncoded.cons ⟨id, rfl, sub2 _ hm1⟩ hall
    · simp only [List.length_cons]; omega

/-- `getKeyIDForID` on an id that names `k` returns `k` -/
theorem keyForId_spec {cn : Conn} {kn : KN} (ok : KNOK kn) (c : CacheOK cn kn) {id : Nat} {k : Bytes}
    (h : (id, SqlValue.text k) ∈ kn) : ∃ cn', keyForId cn kn id = (cn', some k) ∧ CacheOK cn' kn := by
  unfold keyForId
  cases hl : cn.engineKeyIDs.lookup id with
  | some k' =>
    have hm := c.ekc id k' hl
    have := ok.uniqId _ _ _ hm h
    simp at this
    subst this
    exact ⟨cn, rfl, c⟩
  | none =>
    have hk : kn.lookup id = some (SqlValue.text k) := lookup_of_uniq (fun b' hb' => ok.uniqId _ _ _ hb' h) h
    simp only [hk, SqlValue.toText]
    exact ⟨_, rfl, CacheOK_cache c h⟩

theorem resolveDeps_spec (dec : SQLiteDB.DepDec)
    (hdec : ∀ id su oo, id < 2 ^ 62 → decodeDep dec (encodeDep SQLiteDB.depEnc id su oo) = (id, su, oo))
    {kn : KN} (ok : KNOK kn) (hsmall : maxId kn < 2 ^ 62) :
    ∀ (deps : List Dep) (raws : List Nat) (cn : Conn), CacheOK cn kn → DepsEncoded kn deps raws →
      ∃ cn', resolveDeps dec cn kn raws = (cn', .ok deps) ∧ CacheOK cn' kn := by
  intro deps raws cn c hall
  induction hall generalizing cn with
  | nil => exact ⟨cn, rfl, c⟩
  | @cons d raw ds raws hd _ ih =>
    obtain ⟨id, hraw, hm⟩ := hd
    have hid : id < 2 ^ 62 := by have := le_maxId hm; simp only at this; omega
    obtain ⟨cn1, hk, c1⟩ := keyForId_spec ok c hm
    obtain ⟨cn2, hr, c2⟩ := ih cn1 c1
    refine ⟨cn2, ?_, c2⟩
    simp only [resolveDeps, hraw, hdec id d.singleUse d.orderOnly hid, hk, hr]

/-! ### blobs and rows -/

theorem le8_roundtrip (x : Nat) (h : x < two64) :
    ofLe8 (UInt8.ofNat (x % 256)) (UInt8.ofNat (x / 256 % 256)) (UInt8.ofNat (x / 65536 % 256)) (UInt8.ofNat (x / 16777216 % 256))
      (UInt8.ofNat (x / 4294967296 % 256)) (UInt8.ofNat (x / 1099511627776 % 256)) (UInt8.ofNat (x / 281474976710656 % 256))
      (UInt8.ofNat (x / 72057594037927936 % 256)) = x := by
  unfold ofLe8 two64 at *
  simp only [UInt8.toNat_ofNat']
  omega

theorem decodeBlob_encodeBlob (raws : List Nat) (h : ∀ x ∈ raws, x < two64) : decodeBlob (encodeBlob raws) = some raws := by
  induction raws with
  | nil => rfl
  | cons x xs ih =>
    have hx := h x List.mem_cons_self
    have ih' := ih (fun y hy => h y (List.mem_cons_of_mem _ hy))
    unfold encodeBlob at ih' ⊢
    simp only [List.flatMap_cons, le8, List.cons_append, List.nil_append, decodeBlob, ih', Option.map_some, le8_roundtrip x hx]

theorem encodeDep_lt (c : SQLiteDB.DepEnc) (id : Nat) (su oo : Bool) : encodeDep c id su oo < two64 := by
  unfold encodeDep
  exact Nat.mod_lt _ (by unfold two64; omega)

theorem lookup_putRow_self (rows : List (Nat × Row)) (id : Nat) (row : Row) : (putRow rows id row).lookup id = some row := by
  unfold putRow
  induction rows with
  | nil => simp [List.lookup]
  | cons hd t ih =>
    obtain ⟨k, v⟩ := hd
    by_cases hk : k = id
    · subst hk; simpa [List.filter_cons] using ih
    · have h1 : (k != id) = true := by simpa using hk
      have h2 : (id == k) = false := by simpa using fun h : id = k => hk h.symm
      simp only [List.filter_cons, h1, ↓reduceIte, List.cons_append, List.lookup_cons, h2]
      exact ih

theorem lookup_putRow_other (rows : List (Nat × Row)) (id id' : Nat) (row : Row) (hne : id' ≠ id) :
    (putRow rows id row).lookup id' = rows.lookup id' := by
  unfold putRow
  induction rows with
  | nil =>
    have : (id' == id) = false := by simpa using hne
    simp [List.lookup, this]
  | cons hd t ih =>
    obtain ⟨k, v⟩ := hd
    by_cases hk : k = id
    · subst hk
      have h2 : (id' == k) = false := by simpa using hne
      simpa [List.filter_cons, List.lookup_cons, h2] using ih
    · have h1 : (k != id) = true := by simpa using hk
      simp only [List.filter_cons, h1, ↓reduceIte, List.cons_append, List.lookup_cons]
      rw [ih]

/-! ### C04: snapshot consistency -/

theorem DepsEncoded_mono {kn kn' : KN} (hsub : ∀ e ∈ kn, e ∈ kn') {deps : List Dep} {raws : List Nat}
    (h : DepsEncoded kn deps raws) : DepsEncoded kn' deps raws := by
  induction h with
  | nil => exact .nil
  | cons hd _ ih => exact .cons (DepEncoded_mono hsub hd) ih

/-- row `row` under `id` is exactly what ONE `setRuleResult k r` writes against table `kn`: the id names a stored
key, the blob is the encoding of that call's own dependency list, every dependency id names a stored key -/
def RowWritten (kn : KN) (id : Nat) (row : Row) : Prop :=
  ∃ (k : Bytes) (r : Result) (raws : List Nat), (id, SqlValue.text k) ∈ kn ∧ DepsEncoded kn r.deps raws ∧
    row = ⟨r.value, r.signature, r.builtAt, r.computedAt, encodeBlob raws⟩

structure SnapInv (s : Snapshot) : Prop where
  kn : KNOK s.keyNames
  rows : ∀ id row, (id, row) ∈ s.rows → RowWritten s.keyNames id row

/-- stored epoch ≥ every stored result's epochs -/
def EpochOK (s : Snapshot) : Prop :=
  ∀ id row, (id, row) ∈ s.rows → row.builtAt ≤ s.iteration ∧ row.computedAt ≤ s.iteration

theorem RowWritten_mono {kn kn' : KN} (hsub : ∀ e ∈ kn, e ∈ kn') {id : Nat} {row : Row} (h : RowWritten kn id row) :
    RowWritten kn' id row := by
  obtain ⟨k, r, raws, h1, h2, h3⟩ := h
  exact ⟨k, r, raws, hsub _ h1, DepsEncoded_mono hsub h2, h3⟩

theorem mem_putRow {rows : List (Nat × Row)} {id id' : Nat} {row row' : Row} (h : (id', row') ∈ putRow rows id row) :
    ((id', row') ∈ rows ∧ id' ≠ id) ∨ (id' = id ∧ row' = row) := by
  unfold putRow at h
  rcases List.mem_append.1 h with h | h
  · left
    have := List.mem_filter.1 h
    exact ⟨this.1, by simpa using this.2⟩
  · right; simpa using h

theorem SnapInv_fresh (client : Nat) : SnapInv (Snapshot.fresh client) :=
  ⟨KNOK_nil, by intro id row h; cases h⟩

theorem SnapInv_none : SnapInv Snapshot.none := ⟨KNOK_nil, by intro id row h; cases h⟩

theorem applySet_spec (hf : StoredKeyFaithful) (cn : Conn) (s : Snapshot) (k : Bytes) (r : Result)
    (hs : SnapInv s) (c : CacheOK cn s.keyNames) :
    SnapInv (applySet cn s k r).2 ∧ CacheOK (applySet cn s k r).1 (applySet cn s k r).2.keyNames ∧
    (applySet cn s k r).2.iteration = s.iteration ∧
    (∀ id row, (id, row) ∈ (applySet cn s k r).2.rows → (id, row) ∈ s.rows ∨ (row.builtAt = r.builtAt ∧ row.computedAt = r.computedAt)) := by
  obtain ⟨cn1, kn1, id, h1, ok1, c1, sub1, hm1, _⟩ := getKeyID_spec hf k hs.kn c
  obtain ⟨cn2, kn2, raws, h2, ok2, c2, sub2, hall, _⟩ := encodeDeps_spec hf r.deps cn1 kn1 ok1 c1
  have he : applySet cn s k r = (cn2, { s with keyNames := kn2, rows := putRow s.rows id ⟨r.value, r.signature, r.builtAt, r.computedAt, encodeBlob raws⟩ }) := by
    simp only [applySet, h1, h2]
  rw [he]
  refine ⟨⟨ok2, ?_⟩, c2, rfl, ?_⟩
  · intro id' row' hm
    rcases mem_putRow hm with ⟨hold, _⟩ | ⟨rfl, rfl⟩
    · exact RowWritten_mono (fun e h => sub2 e (sub1 e h)) (hs.rows id' row' hold)
    · exact ⟨k, r, raws, sub2 _ hm1, hall, rfl⟩
  · intro id' row' hm
    rcases mem_putRow hm with ⟨hold, _⟩ | ⟨rfl, rfl⟩
    · exact Or.inl hold
    · exact Or.inr ⟨rfl, rfl⟩

theorem CacheOK_empty (cn : Conn) (kn : KN) (h1 : cn.dbKeyIDs = []) (h2 : cn.engineKeyIDs = []) : CacheOK cn kn := by
  constructor
  · intro k id h; rw [h1] at h; simp [List.lookup] at h
  · intro id k h; rw [h2] at h; simp [List.lookup] at h

end LLBuild.BuildDB
