/-
Helper lemmas and specification-level definitions for C13 (no property theorems here).
-/
import LLBuild.Model.FileInfo

namespace LLBuild.FileInfo
open LLBuild.Generated.FileInfo

/-! ### Specification vocabulary (written from the property text) -/

/-- "the digest is injective" — always a hypothesis of a theorem, never assumed globally -/
def DigestInjective (dg : Bytes → Bytes) : Prop := ∀ a b, dg a = dg b → a = b

/-- the digest of a file never collides with the two reserved checksum values
(all-zero = missing/unreadable, 01 00 … 00 = directory) -/
def DigestAvoidsMarkers (dg : Bytes → Bytes) : Prop :=
  ∀ c, digestChecksum (dg c) ≠ zeroChecksum ∧ digestChecksum (dg c) ≠ dirChecksum

/-- every existing object has non-zero file-type bits in `st_mode` (kernel invariant: `S_IFMT` ≠ 0) -/
def Obs.ModesNonZero (o : Obs) : Prop :=
  (∀ s, o.st = some s → s.mode ≠ 0) ∧ (∀ s, o.lst = some s → s.mode ≠ 0)

/-- what the default mode is allowed to depend on: existence, device, inode, size, mtime -/
def Stat.defaultKey (s : Stat) : UInt64 × UInt64 × UInt64 × UInt64 × UInt64 :=
  (s.dev, s.ino, s.size, s.mtimeSec, s.mtimeNsec)

/-- what the device-agnostic mode is allowed to depend on: existence, size, mtime -/
def Stat.agnosticKey (s : Stat) : UInt64 × UInt64 × UInt64 := (s.size, s.mtimeSec, s.mtimeNsec)

/-- type and content as the checksum-only mode is meant to see them through `getFileInfo` -/
inductive Seen
  | nothing                      -- missing (or unreadable)
  | directory
  | file (content : Bytes)
  deriving DecidableEq, Repr

def Stat.isDir (s : Stat) : Bool := (s.mode &&& S_IFDIR) != 0

def Obs.seen (o : Obs) : Seen :=
  match o.st with
  | none => .nothing
  | some s => if s.isDir then .directory else match o.content with
    | some c => .file c
    | none => .nothing

/-! ### Unfolding the table-driven definitions -/

theorem isMissing_iff (i : FileInfo) : i.isMissing = true ↔
    i.device = 0 ∧ i.inode = 0 ∧ i.mode = 0 ∧ i.size = 0 ∧ i.modTime.seconds = 0 ∧ i.modTime.nanoseconds = 0 := by
  simp [FileInfo.isMissing, isMissingZero, FileInfo.leaf]

theorem isMissing_mk (d i m z s n : UInt64) (c : Bytes) :
    (FileInfo.mk d i m z ⟨s, n⟩ c).isMissing = (d == 0 && i == 0 && m == 0 && z == 0 && s == 0 && n == 0) := by
  simp [FileInfo.isMissing, isMissingZero, FileInfo.leaf, Bool.and_assoc]

theorem isMissing_false_of_mode (i : FileInfo) (h : i.mode ≠ 0) : i.isMissing = false := by
  cases hm : i.isMissing
  · rfl
  · exact absurd ((isMissing_iff i).1 hm).2.2.1 h

theorem eqMembers_iff (a b : FileInfo) : a.eqMembers b = true ↔
    a.device = b.device ∧ a.inode = b.inode ∧ a.size = b.size ∧ a.modTime.seconds = b.modTime.seconds ∧
    a.modTime.nanoseconds = b.modTime.nanoseconds ∧ a.checksum = b.checksum := by
  simp [FileInfo.eqMembers, fileInfoEq, memberEq, FileTimestamp.eq, timestampEq, tsMemberEq, and_assoc]

theorem eq_iff (a b : FileInfo) : a.eq b = true ↔
    a.isMissing = b.isMissing ∧ a.device = b.device ∧ a.inode = b.inode ∧ a.size = b.size ∧
    a.modTime.seconds = b.modTime.seconds ∧ a.modTime.nanoseconds = b.modTime.nanoseconds ∧
    a.checksum = b.checksum := by
  simp [FileInfo.eq, fileInfoEqSameMissing, eqMembers_iff]

theorem eq_refl (a : FileInfo) : a.eq a = true := by
  rw [eq_iff]; simp

theorem eq_false_of_not (a b : FileInfo) (h : ¬ (a.eq b = true)) : a.eq b = false := by
  simpa using h

theorem zero_isMissing : FileInfo.zero.isMissing = true := by decide

theorem getInfo_none : getInfoForPath none = FileInfo.zero := rfl

theorem getInfo_some_not_missing (st : Stat) : (getInfoForPath (some st)).isMissing = false := by
  simp only [getInfoForPath, sentinelGuard]
  split
  · simp [FileInfo.isMissing, isMissingZero, FileInfo.leaf, FileInfo.setLeaf]
  · rename_i h; simpa using h

theorem getInfo_of_mode (st : Stat) (h : st.mode ≠ 0) : getInfoForPath (some st) = ofStat st := by
  have : (ofStat st).isMissing = false := isMissing_false_of_mode _ (by simpa [ofStat] using h)
  simp [getInfoForPath, sentinelGuard, this]

/-- the guard only ever touches the nanoseconds -/
theorem getInfo_some_fields (st : Stat) :
    (getInfoForPath (some st)).device = st.dev ∧ (getInfoForPath (some st)).inode = st.ino ∧
    (getInfoForPath (some st)).mode = st.mode ∧ (getInfoForPath (some st)).size = st.size ∧
    (getInfoForPath (some st)).modTime.seconds = st.mtimeSec ∧
    (getInfoForPath (some st)).checksum = zeroChecksum := by
  simp only [getInfoForPath, sentinelGuard]
  split <;> simp [ofStat, FileInfo.setLeaf]

theorem deviceAgnostic_file (dg : Bytes → Bytes) (o : Obs) :
    fileInfo dg .deviceAgnostic o = { getInfoForPath o.st with device := 0, inode := 0 } := by
  simp [fileInfo, applyWrapper, deviceAgnosticFile, zeroLeaves, FileInfo.setLeaf]

theorem deviceAgnostic_link (dg : Bytes → Bytes) (o : Obs) :
    linkInfo dg .deviceAgnostic o = { getInfoForPath o.lst with device := 0, inode := 0 } := by
  simp [linkInfo, applyWrapper, deviceAgnosticLink, zeroLeaves, FileInfo.setLeaf]

theorem checksumOnly_file (dg : Bytes → Bytes) (o : Obs) :
    fileInfo dg .checksumOnly o =
      { getInfoForPath o.st with device := 0, inode := 0, modTime := ⟨0, 0⟩,
                                 checksum := getChecksumForPath dg o } := by
  simp [fileInfo, applyWrapper, checksumOnlyFile, zeroLeaves, FileInfo.setLeaf]

theorem checksumOnly_link (dg : Bytes → Bytes) (o : Obs) :
    linkInfo dg .checksumOnly o =
      { getInfoForPath o.lst with device := 0, inode := 0, modTime := ⟨0, 0⟩,
                                  checksum := linkChecksum dg o } := by
  simp [linkInfo, applyWrapper, checksumOnlyLink, zeroLeaves, FileInfo.setLeaf]

/-- every mode keeps `mode` and `size` of the underlying record -/
theorem fileInfo_mode_size (dg : Bytes → Bytes) (m : FSMode) (o : Obs) :
    (fileInfo dg m o).mode = (getInfoForPath o.st).mode ∧ (fileInfo dg m o).size = (getInfoForPath o.st).size := by
  cases m
  · simp [fileInfo]
  · simp [deviceAgnostic_file]
  · simp [checksumOnly_file]

theorem linkInfo_mode_size (dg : Bytes → Bytes) (m : FSMode) (o : Obs) :
    (linkInfo dg m o).mode = (getInfoForPath o.lst).mode ∧ (linkInfo dg m o).size = (getInfoForPath o.lst).size := by
  cases m
  · simp [linkInfo]
  · simp [deviceAgnostic_link]
  · simp [checksumOnly_link]

theorem digestChecksum_inj (x y : Bytes) : digestChecksum x = digestChecksum y ↔ x = y := by
  simp [digestChecksum]

/-- `getChecksumForPath` in terms of what it is meant to see -/
theorem getChecksum_seen (dg : Bytes → Bytes) (o : Obs) :
    getChecksumForPath dg o = match o.seen with
      | .nothing => zeroChecksum
      | .directory => dirChecksum
      | .file c => digestChecksum (dg c) := by
  unfold getChecksumForPath Obs.seen
  cases hs : o.st with
  | none => simp [getInfo_none, zero_isMissing]
  | some s =>
    have hd : (getInfoForPath (some s)).isDirectory = s.isDir := by
      simp [FileInfo.isDirectory, Stat.isDir, (getInfo_some_fields s).2.2.1]
    simp only [getInfo_some_not_missing, hd]
    cases s.isDir <;> cases o.content <;> simp

theorem zero_ne_dir : zeroChecksum ≠ dirChecksum := by decide

theorem seen_checksum_inj (dg : Bytes → Bytes) (hinj : DigestInjective dg) (hav : DigestAvoidsMarkers dg)
    (a b : Obs) : getChecksumForPath dg a = getChecksumForPath dg b ↔ a.seen = b.seen := by
  rw [getChecksum_seen, getChecksum_seen]
  constructor
  · intro h
    cases ha : a.seen <;> cases hb : b.seen <;> simp only [ha, hb] at h
    · rfl
    · exact absurd h zero_ne_dir
    · exact absurd h.symm (hav _).1
    · exact absurd h.symm zero_ne_dir
    · rfl
    · exact absurd h.symm (hav _).2
    · exact absurd h (hav _).1
    · exact absurd h (hav _).2
    · rw [digestChecksum_inj] at h
      rw [hinj _ _ h]
  · intro h; rw [h]

end LLBuild.FileInfo
