/-
Helper lemmas for C16 (b): the `setIfMissing` fold and the ProcessGroup invariant.
-/
import LLBuild.Model.ProcStatus

namespace LLBuild.ProcStatus
open List

/-! ### setIfMissing: the first definition of a key wins -/

theorem any_key_iff_lookup (env : List (Bytes × Bytes)) (k : Bytes) :
    env.any (fun e => e.1 == k) = (env.lookup k).isSome := by
  induction env with
  | nil => simp
  | cons e es ih =>
    obtain ⟨a, b⟩ := e
    simp only [any_cons, lookup_cons]
    by_cases h : a = k
    · subst h; simp
    · have h1 : (a == k) = false := by simpa using h
      have h2 : (k == a) = false := by simpa using (fun h' => h h'.symm)
      simp [h1, h2, ih]

theorem lookup_append' (a b : List (Bytes × Bytes)) (k : Bytes) :
    (a ++ b).lookup k = (a.lookup k).or (b.lookup k) := by
  induction a with
  | nil => simp
  | cons e es ih =>
    obtain ⟨x, y⟩ := e
    simp only [cons_append, lookup_cons]
    split <;> simp [ih]

theorem lookup_setIfMissing (env : List (Bytes × Bytes)) (k' v' k : Bytes) :
    (setIfMissing env k' v').lookup k = (env.lookup k).or (if k == k' then some v' else none) := by
  unfold setIfMissing
  split
  · rename_i h
    rw [any_key_iff_lookup] at h
    by_cases hk : k = k'
    · subst hk
      cases hl : env.lookup k with
      | none => simp [hl] at h
      | some v => simp
    · have : (k == k') = false := by simpa using hk
      simp [this]
  · rw [lookup_append']
    simp only [lookup_cons, lookup_nil]
    by_cases hk : k = k'
    · subst hk; simp
    · have : (k == k') = false := by simpa using hk
      simp [this]

theorem lookup_foldl (l acc : List (Bytes × Bytes)) (k : Bytes) :
    (l.foldl (fun e kv => setIfMissing e kv.1 kv.2) acc).lookup k = (acc.lookup k).or (l.lookup k) := by
  induction l generalizing acc with
  | nil => simp
  | cons e es ih =>
    obtain ⟨a, b⟩ := e
    simp only [foldl_cons, ih, lookup_setIfMissing, lookup_cons]
    cases acc.lookup k with
    | some v => simp
    | none =>
      by_cases hk : k = a
      · subst hk; simp
      · have : (k == a) = false := by simpa using hk
        simp [this]

theorem keys_setIfMissing_nodup (env : List (Bytes × Bytes)) (k v : Bytes) (h : (env.map (·.1)).Nodup) :
    ((setIfMissing env k v).map (·.1)).Nodup := by
  unfold setIfMissing
  split
  · exact h
  · rename_i hn
    simp only [map_append, map_cons, map_nil]
    rw [nodup_append]
    refine ⟨h, by simp, ?_⟩
    intro a ha b hb
    simp at hb; subst hb
    intro hab; subst hab
    apply hn
    simp only [mem_map] at ha
    obtain ⟨e, he, rfl⟩ := ha
    exact any_eq_true.2 ⟨e, he, by simp⟩

theorem keys_foldl_nodup (l acc : List (Bytes × Bytes)) (h : (acc.map (·.1)).Nodup) :
    ((l.foldl (fun e kv => setIfMissing e kv.1 kv.2) acc).map (·.1)).Nodup := by
  induction l generalizing acc with
  | nil => exact h
  | cons e es ih => exact ih _ (keys_setIfMissing_nodup acc e.1 e.2 h)

/-! ### ProcessGroup -/
namespace Group

structure Inv (s : State) : Prop where
  /-- `cancelled` and `closed` are set together, under both mutexes -/
  closedIff : s.closed = s.cancelled
  /-- no posix_spawn ever happened while the group was closed -/
  neverSpawnClosed : ∀ e ∈ s.spawnLog, e.2 = false
  /-- once the interrupt round has run, every registered interruptible process was signalled -/
  intAll : s.intDone = true → s.closed = true ∧ ∀ p ∈ s.procs, p.2 = true → p.1 ∈ s.intSent
  /-- once the kill round has run, every registered process was signalled -/
  killAll : s.killDone = true → s.closed = true ∧ ∀ p ∈ s.procs, p.1 ∈ s.killSent

theorem inv_init (n : Nat) : Inv (init n) := by
  refine ⟨rfl, by simp [init], by simp [init], by simp [init]⟩

theorem inv_step {s s' : State} {a : Act} (h : Inv s) (hs : step s a = some s') : Inv s' := by
  obtain ⟨h1, h2, h3, h4⟩ := h
  cases a with
  | newLaunch => simp [step] at hs; subst hs; exact ⟨h1, h2, h3, h4⟩
  | check t =>
    simp only [step] at hs
    split at hs
    · split at hs <;> (simp at hs; subst hs; exact ⟨h1, h2, h3, h4⟩)
    · simp at hs
  | spawnCS t safe ok =>
    simp only [step] at hs
    split at hs
    · split at hs
      · simp at hs; subst hs; exact ⟨h1, h2, h3, h4⟩
      · rename_i hc
        have hc' : s.closed = false := by simpa using hc
        split at hs
        · simp at hs; subst hs
          refine ⟨h1, ?_, ?_, ?_⟩
          · intro e he
            simp at he
            rcases he with rfl | he
            · exact hc'
            · exact h2 e he
          · intro hi; have := (h3 hi).1; simp [hc'] at this
          · intro hi; have := (h4 hi).1; simp [hc'] at this
        · simp at hs; subst hs; exact ⟨h1, h2, h3, h4⟩
    · simp at hs
  | reap t st =>
    simp only [step] at hs
    split at hs
    · simp at hs; subst hs
      refine ⟨h1, h2, ?_, ?_⟩
      · intro hi
        refine ⟨(h3 hi).1, fun p hp => ?_⟩
        exact (h3 hi).2 p (mem_filter.1 hp).1
      · intro hi
        refine ⟨(h4 hi).1, fun p hp => ?_⟩
        exact (h4 hi).2 p (mem_filter.1 hp).1
    · simp at hs
  | cancelCS =>
    simp only [step] at hs
    split at hs
    · simp at hs; subst hs; exact ⟨h1, h2, h3, h4⟩
    · simp at hs; subst hs
      exact ⟨rfl, h2, fun hi => ⟨rfl, (h3 hi).2⟩, fun hi => ⟨rfl, (h4 hi).2⟩⟩
  | signalInt =>
    simp only [step] at hs
    split at hs
    · rename_i hc
      simp at hc
      simp at hs; subst hs
      refine ⟨h1, h2, ?_, ?_⟩
      · intro _
        refine ⟨by rw [h1]; exact hc.1, fun p hp hsafe => ?_⟩
        simp only [mem_append, mem_map, mem_filter]
        exact Or.inl ⟨p, ⟨hp, hsafe⟩, rfl⟩
      · exact h4
    · simp at hs
  | signalKill =>
    simp only [step] at hs
    split at hs
    · rename_i hc
      simp at hc
      simp at hs; subst hs
      refine ⟨h1, h2, h3, ?_⟩
      intro _
      refine ⟨(h3 hc.1).1, fun p hp => ?_⟩
      simp only [mem_append, mem_map]
      exact Or.inl ⟨p, hp, rfl⟩
    · simp at hs

theorem inv_reachable {n : Nat} {s : State} (h : Reachable n s) : Inv s := by
  induction h with
  | init => exact inv_init n
  | step a _ hs ih => exact inv_step ih hs

end Group

/-! ### escalation thread / destructor hand-over -/
namespace Esc

structure Inv (fix : Bool) (s : State) : Prop where
  /-- the thread exists only after cancelAllJobs closed the group -/
  threadClosed : s.thread ≠ .none → s.closed = true
  /-- `waited` is set exactly by entering the wait -/
  notWaited : (s.thread = .none ∨ s.thread = .created) → s.waited = false
  /-- once the kill round has run every process that is still registered was signalled (nothing registers once closed) -/
  killedAll : s.thread = .finished true → ∀ p ∈ s.procs, p.1 ∈ s.killSent
  /-- the thread returns without the kill round only in the unfixed code and only if it never waited -/
  skipped : s.thread = .finished false → fix = false ∧ s.waited = false
  /-- the destructor's join returns only after the thread finished -/
  joined : s.escJoined = true → ∃ b, s.thread = .finished b

theorem inv_init (fix : Bool) : Inv fix init := by
  refine ⟨by simp [init], by simp [init], by simp [init], by simp [init], by simp [init]⟩

theorem inv_step {fix : Bool} {s s' : State} {a : Act} (h : Inv fix s) (hs : stepWith fix s a = some s') : Inv fix s' := by
  obtain ⟨h1, h2, h3, h4, h5⟩ := h
  cases a with
  | spawn =>
    simp only [stepWith] at hs
    split at hs
    · rename_i hc
      simp at hc
      simp at hs; subst hs
      have hn : s.thread = .none := by
        by_cases ht : s.thread = .none
        · exact ht
        · have := h1 ht; simp [hc.1] at this
      refine ⟨h1, h2, ?_, h4, h5⟩
      intro ht; simp [hn] at ht
    · simp at hs
  | release pid =>
    simp only [stepWith] at hs
    split at hs
    · simp at hs; subst hs
      refine ⟨h1, h2, ?_, h4, h5⟩
      intro ht p hp
      simp only [mem_map] at hp
      obtain ⟨q, hq, rfl⟩ := hp
      have := h3 ht q hq
      split <;> simpa using this
    · simp at hs
  | reap pid =>
    simp only [stepWith] at hs
    simp at hs; subst hs
    exact ⟨h1, h2, fun ht p hp => h3 ht p (mem_filter.1 hp).1, h4, h5⟩
  | cancel =>
    simp only [stepWith] at hs
    split at hs
    · rename_i hc
      simp at hc
      simp at hs; subst hs
      have hn : s.thread = .none := by
        by_cases ht : s.thread = .none
        · exact ht
        · have := h1 ht; simp [hc.1] at this
      refine ⟨fun _ => rfl, fun _ => h2 (Or.inl hn), by simp, by simp, ?_⟩
      intro hj
      obtain ⟨b, hb⟩ := h5 hj
      simp [hn] at hb
    · simp at hs
  | escEnter =>
    simp only [stepWith] at hs
    split at hs
    · rename_i hc
      split at hs
      · simp at hs; subst hs
        refine ⟨fun _ => h1 (by simp [hc]), by simp, ?_, ?_, fun _ => ⟨fix, rfl⟩⟩
        · intro ht p hp
          have hf : fix = true := by simpa using ht
          subst hf
          simp only [if_true, mem_append, mem_map]
          exact Or.inl ⟨p, hp, rfl⟩
        · intro ht
          have hf : fix = false := by simpa using ht
          exact ⟨hf, h2 (Or.inr hc)⟩
      · simp at hs; subst hs
        refine ⟨fun _ => h1 (by simp [hc]), by simp, by simp, by simp, ?_⟩
        intro hj
        obtain ⟨b, hb⟩ := h5 hj
        simp [hc] at hb
    · simp at hs
  | escWake =>
    simp only [stepWith] at hs
    split at hs
    · rename_i hc
      simp at hs; subst hs
      refine ⟨fun _ => h1 (by simp [hc]), by simp, ?_, by simp, fun _ => ⟨true, rfl⟩⟩
      intro _ p hp
      simp only [mem_append, mem_map]
      exact Or.inl ⟨p, hp, rfl⟩
    · simp at hs
  | joinLanes =>
    simp only [stepWith] at hs
    split at hs
    · simp at hs; subst hs; exact ⟨h1, h2, h3, h4, h5⟩
    · simp at hs
  | complete =>
    simp only [stepWith] at hs
    split at hs
    · simp at hs; subst hs; exact ⟨h1, h2, h3, h4, h5⟩
    · simp at hs
  | joinEsc =>
    simp only [stepWith] at hs
    split at hs
    · rename_i b hb
      split at hs
      · simp at hs; subst hs
        exact ⟨h1, h2, h3, h4, fun _ => ⟨b, hb⟩⟩
      · simp at hs
    · simp at hs

theorem inv_reachable {fix : Bool} {s : State} (h : Reachable fix s) : Inv fix s := by
  induction h with
  | init => exact inv_init fix
  | step a _ hs ih => exact inv_step ih hs

/-- when the destructor has joined the escalation thread, every process that is still registered (so: every process
`~ProcessGroup` is about to wait for) has been sent the kill signal — provided the thread ran its kill round, which the
fixed code always does and the unfixed code does iff the thread entered its wait before `queueComplete` was stored -/
theorem escalated {fix : Bool} {s : State} (h : Reachable fix s) (hj : s.escJoined = true)
    (hw : fix = true ∨ s.waited = true) : ∀ p ∈ s.procs, p.1 ∈ s.killSent := by
  have i := inv_reachable h
  obtain ⟨b, hb⟩ := i.joined hj
  cases b with
  | true => exact i.killedAll hb
  | false =>
    have := i.skipped hb
    rcases hw with hw | hw
    · simp [this.1] at hw
    · simp [this.2] at hw

theorem reachable_run {fix : Bool} {s s' : State} (h : Reachable fix s) (l : List Act) (hr : run fix s l = some s') :
    Reachable fix s' := by
  induction l generalizing s with
  | nil => simp [run] at hr; subst hr; exact h
  | cons a as ih =>
    simp only [run] at hr
    cases hs : stepWith fix s a with
    | none => simp [hs] at hr
    | some s1 => simp [hs] at hr; exact ih (Reachable.step a h hs) hr

end Esc

end LLBuild.ProcStatus
