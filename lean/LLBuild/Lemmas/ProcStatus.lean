/-
Helper lemmas for C16 (b): the `setIfMissing` fold and the ProcessGroup invariant.
-/
import LLBuild.Model.ProcStatus

namespace LLBuild.ProcStatus
open List

/-! ### setIfMissing: the first definition of a key wins -/

theorem any_key_iff_lookup (env : List (Bytes × Bytes)) (k : Bytes) :
    env.any (fun e => e.1 == k) = (env.lookup k).isSome := by
  induction env with
  | nil => simp
  | cons e es ih =>
    obtain ⟨a, b⟩ := e
    simp only [any_cons, lookup_cons]
    by_cases h : a = k
    · subst h; simp
    · have h1 : (a == k) = false := by simpa using h
      have h2 : (k == a) = false := by simpa using (fun h' => h h'.symm)
      simp [h1, h2, ih]

theorem lookup_append' (a b : List (Bytes × Bytes)) (k : Bytes) :
    (a ++ b).lookup k = (a.lookup k).or (b.lookup k) := by
  induction a with
  | nil => simp
  | cons e es ih =>
    obtain ⟨x, y⟩ := e
    simp only [cons_append, lookup_cons]
    split <;> simp [ih]

theorem lookup_setIfMissing (env : List (Bytes × Bytes)) (k' v' k : Bytes) :
    (setIfMissing env k' v').lookup k = (env.lookup k).or (if k == k' then some v' else none) := by
  unfold setIfMissing
  split
  · rename_i h
    rw [any_key_iff_lookup] at h
    by_cases hk : k = k'
    · subst hk
      cases hl : env.lookup k with
      | none => simp [hl] at h
      | some v => simp
    · have : (k == k') = false := by simpa using hk
      simp [this]
  · rw [lookup_append']
    simp only [lookup_cons, lookup_nil]
    by_cases hk : k = k'
    · subst hk; simp
    · have : (k == k') = false := by simpa using hk
      simp [this]

theorem lookup_foldl (l acc : List (Bytes × Bytes)) (k : Bytes) :
    (l.foldl (fun e kv => setIfMissing e kv.1 kv.2) acc).lookup k = (acc.lookup k).or (l.lookup k) := by
  induction l generalizing acc with
  | nil => simp
  | cons e es ih =>
    obtain ⟨a, b⟩ := e
    simp only [foldl_cons, ih, lookup_setIfMissing, lookup_cons]
    cases acc.lookup k with
    | some v => simp
    | none =>
      by_cases hk : k = a
      · subst hk; simp
      · have : (k == a) = false := by simpa using hk
        simp [this]

theorem keys_setIfMissing_nodup (env : List (Bytes × Bytes)) (k v : Bytes) (h : (env.map (·.1)).Nodup) :
    ((setIfMissing env k v).map (·.1)).Nodup := by
  unfold setIfMissing
  split
  · exact h
  · rename_i hn
    simp only [map_append, map_cons, map_nil]
    rw [nodup_append]
    refine ⟨h, by simp, ?_⟩
    intro a ha b hb
    simp at hb; subst hb
    intro hab; subst hab
    apply hn
    simp only [mem_map] at ha
    obtain ⟨e, he, rfl⟩ := ha
    exact any_eq_true.2 ⟨e, he, by simp⟩

theorem keys_foldl_nodup (l acc : List (Bytes × Bytes)) (h : (acc.map (·.1)).Nodup) :
    ((l.foldl (fun e kv => setIfMissing e kv.1 kv.2) acc).map (·.1)).Nodup := by
  induction l generalizing acc with
  | nil => exact h
  | cons e es ih => exact ih _ (keys_setIfMissing_nodup acc e.1 e.2 h)

/-! ### ProcessGroup -/
namespace Group

structure Inv (s : State) : Prop where
  /-- `cancelled` and `closed` are set together, under both mutexes -/
  closedIff : s.closed = s.cancelled
  /-- no posix_spawn ever happened while the group was closed -/
  neverSpawnClosed : ∀ e ∈ s.spawnLog, e.2 = false
  /-- once the interrupt round has run, every registered interruptible process was signalled -/
  intAll : s.intDone = true → s.closed = true ∧ ∀ p ∈ s.procs, p.2 = true → p.1 ∈ s.intSent
  /-- once the kill round has run, every registered process was signalled -/
  killAll : s.killDone = true → s.closed = true ∧ ∀ p ∈ s.procs, p.1 ∈ s.killSent

theorem inv_init (n : Nat) : Inv (init n) := by
  refine ⟨rfl, by simp [init], by simp [init], by simp [init]⟩

theorem inv_step {s s' : State} {a : Act} (h : Inv s) (hs : step s a = some s') : Inv s' := by
  obtain ⟨h1, h2, h3, h4⟩ := h
  cases a with
  | newLaunch => simp [step] at hs; subst hs; exact ⟨h1, h2, h3, h4⟩
  | check t =>
    simp only [step] at hs
    split at hs
    · split at hs <;> (simp at hs; subst hs; exact ⟨h1, h2, h3, h4⟩)
    · simp at hs
  | spawnCS t safe ok =>
    simp only [step] at hs
    split at hs
    · split at hs
      · simp at hs; subst hs; exact ⟨h1, h2, h3, h4⟩
      · rename_i hc
        have hc' : s.closed = false := by simpa using hc
        split at hs
        · simp at hs; subst hs
          refine ⟨h1, ?_, ?_, ?_⟩
          · intro e he
            simp at he
            rcases he with rfl | he
            · exact hc'
            · exact h2 e he
          · intro hi; have := (h3 hi).1; simp [hc'] at this
          · intro hi; have := (h4 hi).1; simp [hc'] at this
        · simp at hs; subst hs; exact ⟨h1, h2, h3, h4⟩
    · simp at hs
  | reap t st =>
    simp only [step] at hs
    split at hs
    · simp at hs; subst hs
      refine ⟨h1, h2, ?_, ?_⟩
      · intro hi
        refine ⟨(h3 hi).1, fun p hp => ?_⟩
        exact (h3 hi).2 p (mem_filter.1 hp).1
      · intro hi
        refine ⟨(h4 hi).1, fun p hp => ?_⟩
        exact (h4 hi).2 p (mem_filter.1 hp).1
    · simp at hs
  | cancelCS =>
    simp only [step] at hs
    split at hs
    · simp at hs; subst hs; exact ⟨h1, h2, h3, h4⟩
    · simp at hs; subst hs
      exact ⟨rfl, h2, fun hi => ⟨rfl, (h3 hi).2⟩, fun hi => ⟨rfl, (h4 hi).2⟩⟩
  | signalInt =>
    simp only [step] at hs
    split at hs
    · rename_i hc
      simp at hc
      simp at hs; subst hs
      refine ⟨h1, h2, ?_, ?_⟩
      · intro _
        refine ⟨by rw [h1]; exact hc.1, fun p hp hsafe => ?_⟩
        simp only [mem_append, mem_map, mem_filter]
        exact Or.inl ⟨p, ⟨hp, hsafe⟩, rfl⟩
      · exact h4
    · simp at hs
  | signalKill =>
    simp only [step] at hs
    split at hs
    · rename_i hc
      simp at hc
      simp at hs; subst hs
      refine ⟨h1, h2, h3, ?_⟩
      intro _
      refine ⟨(h3 hc.1).1, fun p hp => ?_⟩
      simp only [mem_append, mem_map]
      exact Or.inl ⟨p, hp, rfl⟩
    · simp at hs

theorem inv_reachable {n : Nat} {s : State} (h : Reachable n s) : Inv s := by
  induction h with
  | init => exact inv_init n
  | step a _ hs ih => exact inv_step ih hs

end Group

end LLBuild.ProcStatus
