/-
C09 — helper lemmas about the configure interpreter (`LLBuild/Model/BSAttrs.lean`), generic in the tables:

* frame:        a list of assignments changes no member besides its targets;
* simulation:   if no assignment with a target in `S` reads a member outside `S`, then two runs of the same
                assignments from member states that agree on `S` end in states that agree on `S`
                (with `S` = the footprint this is "the result depends on the footprint only");
* commutation:  two entries whose targets are outside each other's footprint can be swapped;
* lifting of the above through `stepEntry` / `runEntries`.
-/
import LLBuild.Model.BSAttrs

namespace LLBuild.BSAttrs

/-- the member states agree on every member of `S` -/
def Agree (S : List String) (m n : Mem) : Prop := ∀ k ∈ S, m k = n k

theorem Agree.refl (S : List String) (m : Mem) : Agree S m m := fun _ _ => rfl

theorem Agree.symm {S : List String} {m n : Mem} (h : Agree S m n) : Agree S n m := fun k hk => (h k hk).symm

theorem Agree.trans {S : List String} {m n o : Mem} (h₁ : Agree S m n) (h₂ : Agree S n o) : Agree S m o :=
  fun k hk => (h₁ k hk).trans (h₂ k hk)

/-- an assignment into `S` reads only members of `S` -/
def FlowSafe (S : List String) (a : Assign) : Prop := a.member ∈ S → ∀ r ∈ a.reads, r ∈ S

instance (S : List String) (a : Assign) : Decidable (FlowSafe S a) := by unfold FlowSafe; infer_instance

def targets (as : List Assign) : List String := as.map (·.member)

def footprint (as : List Assign) : List String := (as.map Assign.reads).flatten

theorem Mem.set_eq (m : Mem) (k : String) (v : MVal) : (m.set k v) k = v := by simp [Mem.set]

theorem Mem.set_ne (m : Mem) {k k' : String} (v : MVal) (h : k' ≠ k) : (m.set k v) k' = m k' := by simp [Mem.set, h]

/-! ## one assignment -/

theorem runAssign_frame {c : Ctx} {ev : EVal} {a : Assign} {m m' : Mem} {ds : List Bytes}
    (h : runAssign c ev a m = .next m' ds) {k : String} (hk : k ≠ a.member) : m' k = m k := by
  unfold runAssign at h
  split at h
  · injection h with h1 _; rw [← h1]; exact Mem.set_ne _ _ hk
  · injection h with h1 _; rw [← h1]
  · cases h
  · cases h

theorem runAssign_sim {S : List String} {c : Ctx} {ev : EVal} {a : Assign} (fs : FlowSafe S a)
    {m n m' n' : Mem} {ds es : List Bytes} (ag : Agree S m n)
    (hm : runAssign c ev a m = .next m' ds) (hn : runAssign c ev a n = .next n' es) : Agree S m' n' := by
  intro k hk
  by_cases hka : k = a.member
  · -- the target is in S: both runs compute it from equal operands
    subst hka
    have hmem : m a.member = n a.member := ag _ hk
    have hsrc : a.srcVal m = a.srcVal n := by
      unfold Assign.srcVal
      cases hs : a.conv.source with
      | none => rfl
      | some s =>
        have : s ∈ S := fs hk s (by simp [Assign.reads, hs])
        simp [ag s this]
    unfold runAssign at hm hn
    rw [hmem, hsrc] at hm
    generalize applyConv c a.conv (n a.member) (a.srcVal n) ev = r at hm hn
    cases r with
    | set v ds' =>
      simp only [Step.next.injEq] at hm hn
      rw [← hm.1, ← hn.1]; simp [Mem.set]
    | keep ds' =>
      simp only [Step.next.injEq] at hm hn
      rw [← hm.1, ← hn.1]; exact ag _ hk
    | abort d => simp at hm
    | stuck => simp at hm
  · rw [runAssign_frame hm hka, runAssign_frame hn hka]; exact ag k hk

/-! ## the statements of one branch -/

theorem runAssigns_frame {c : Ctx} {ev : EVal} : ∀ {as : List Assign} {m m' : Mem} {ds : List Bytes},
    runAssigns c ev as m = .next m' ds → ∀ {k : String}, k ∉ targets as → m' k = m k
  | [], m, m', ds, h, k, _ => by simp [runAssigns] at h; rw [← h.1]
  | a :: as, m, m', ds, h, k, hk => by
    simp only [targets, List.map_cons, List.mem_cons, not_or] at hk
    unfold runAssigns at h
    split at h
    · rename_i m₁ ds₁ h₁
      split at h
      · rename_i m₂ ds₂ h₂
        injection h with hm _
        rw [← hm, runAssigns_frame h₂ (by simpa [targets] using hk.2), runAssign_frame h₁ hk.1]
      · cases h
      · cases h
    · cases h
    · cases h

theorem runAssigns_sim {S : List String} {c : Ctx} {ev : EVal} : ∀ {as : List Assign},
    (∀ a ∈ as, FlowSafe S a) → ∀ {m n m' n' : Mem} {ds es : List Bytes}, Agree S m n →
    runAssigns c ev as m = .next m' ds → runAssigns c ev as n = .next n' es → Agree S m' n'
  | [], _, m, n, m', n', ds, es, ag, hm, hn => by
    simp [runAssigns] at hm hn; rw [← hm.1, ← hn.1]; exact ag
  | a :: as, fs, m, n, m', n', ds, es, ag, hm, hn => by
    unfold runAssigns at hm hn
    split at hm
    · rename_i m₁ ds₁ h₁
      split at hn
      · rename_i n₁ es₁ g₁
        have ag₁ := runAssign_sim (fs a (by simp)) ag h₁ g₁
        split at hm
        · rename_i m₂ ds₂ h₂
          split at hn
          · rename_i n₂ es₂ g₂
            injection hm with hm _; injection hn with hn _
            rw [← hm, ← hn]
            exact runAssigns_sim (fun a' ha' => fs a' (by simp [ha'])) ag₁ h₂ g₂
          · cases hn
          · cases hn
        · cases hm
        · cases hm
      · cases hn
      · cases hn
    · cases hm
    · cases hm

/-- the footprint is closed under reads, so the simulation lemma applies with `S := footprint as` -/
theorem flowSafe_footprint (as : List Assign) : ∀ a ∈ as, FlowSafe (footprint as) a := by
  intro a ha _ r hr
  simp only [footprint, List.mem_flatten, List.mem_map]
  exact ⟨a.reads, ⟨a, ha, rfl⟩, hr⟩

theorem targets_subset_footprint (as : List Assign) : ∀ k ∈ targets as, k ∈ footprint as := by
  intro k hk
  simp only [targets, List.mem_map] at hk
  obtain ⟨a, ha, rfl⟩ := hk
  simp only [footprint, List.mem_flatten, List.mem_map]
  exact ⟨a.reads, ⟨a, ha, rfl⟩, by simp [Assign.reads]⟩

/-! ## entries -/

/-- the assignments an entry runs (none for an ignored or an unexpected key) -/
def entryAssigns (t : ToolTable) (e : Entry) : List Assign :=
  match resolve t e with
  | .assigns _ _ as => as
  | _ => []

theorem stepEntry_frame {t : ToolTable} {cwd cmd : Bytes} {e : Entry} {m m' : Mem} {ds : List Bytes}
    (h : stepEntry t cwd cmd e m = .next m' ds) {k : String} (hk : k ∉ targets (entryAssigns t e)) : m' k = m k := by
  unfold stepEntry at h
  unfold entryAssigns at hk
  split at h
  · rename_i key ev as hr
    rw [hr] at hk
    exact runAssigns_frame h hk
  · cases h
  · injection h with h _; rw [← h]

theorem stepEntry_sim {S : List String} {t : ToolTable} {cwd cmd : Bytes} {e : Entry}
    (fs : ∀ a ∈ entryAssigns t e, FlowSafe S a) {m n m' n' : Mem} {ds es : List Bytes} (ag : Agree S m n)
    (hm : stepEntry t cwd cmd e m = .next m' ds) (hn : stepEntry t cwd cmd e n = .next n' es) : Agree S m' n' := by
  unfold stepEntry at hm hn
  unfold entryAssigns at fs
  split at hm
  · rename_i key ev as hr
    rw [hr] at fs hn
    exact runAssigns_sim fs ag hm hn
  · cases hm
  · rename_i hr
    rw [hr] at hn
    injection hm with hm _; injection hn with hn _
    rw [← hm, ← hn]; exact ag

/-- `runEntries … = loaded` unfolds into one successful step and a successful rest -/
theorem runEntries_cons_loaded {t : ToolTable} {cwd cmd : Bytes} {e : Entry} {es : List Entry} {m mf : Mem}
    {ds : List Bytes} (h : runEntries t cwd cmd (e :: es) m = .loaded mf ds) :
    ∃ m₁ d₁ d₂, stepEntry t cwd cmd e m = .next m₁ d₁ ∧ runEntries t cwd cmd es m₁ = .loaded mf d₂ := by
  unfold runEntries at h
  split at h
  · rename_i m₁ d₁ h₁
    split at h
    · rename_i m₂ d₂ h₂
      injection h with hm _
      exact ⟨m₁, d₁, d₂, h₁, by rw [h₂, hm]⟩
    · cases h
    · cases h
  · cases h
  · cases h

theorem runEntries_sim {S : List String} {t : ToolTable} {cwd cmd : Bytes} : ∀ {es : List Entry},
    (∀ e ∈ es, ∀ a ∈ entryAssigns t e, FlowSafe S a) → ∀ {m n mf nf : Mem} {ds ds' : List Bytes}, Agree S m n →
    runEntries t cwd cmd es m = .loaded mf ds → runEntries t cwd cmd es n = .loaded nf ds' → Agree S mf nf
  | [], _, m, n, mf, nf, ds, ds', ag, hm, hn => by
    simp [runEntries] at hm hn; rw [← hm.1, ← hn.1]; exact ag
  | e :: es, fs, m, n, mf, nf, ds, ds', ag, hm, hn => by
    obtain ⟨m₁, d₁, d₂, hs, hr⟩ := runEntries_cons_loaded hm
    obtain ⟨n₁, e₁, e₂, gs, gr⟩ := runEntries_cons_loaded hn
    exact runEntries_sim (fun e' he' => fs e' (by simp [he'])) (stepEntry_sim (fs e (by simp)) ag hs gs) hr gr

/-- the same entries from the same state: the same members (the interpreter is a function) -/
theorem runEntries_det {t : ToolTable} {cwd cmd : Bytes} {es : List Entry} {m mf nf : Mem} {ds ds' : List Bytes}
    (hm : runEntries t cwd cmd es m = .loaded mf ds) (hn : runEntries t cwd cmd es m = .loaded nf ds') : mf = nf := by
  rw [hm] at hn; injection hn

/-- a prefix of a loading definition loads -/
theorem runEntries_append_loaded {t : ToolTable} {cwd cmd : Bytes} : ∀ {pre post : List Entry} {m mf : Mem} {ds : List Bytes},
    runEntries t cwd cmd (pre ++ post) m = .loaded mf ds →
    ∃ m₁ d₁ d₂, runEntries t cwd cmd pre m = .loaded m₁ d₁ ∧ runEntries t cwd cmd post m₁ = .loaded mf d₂
  | [], post, m, mf, ds, h => ⟨m, [], ds, by simp [runEntries], by simpa using h⟩
  | e :: pre, post, m, mf, ds, h => by
    obtain ⟨m₁, d₁, d₂, hs, hr⟩ := runEntries_cons_loaded (by simpa using h)
    obtain ⟨m₂, d₃, d₄, hp, hq⟩ := runEntries_append_loaded hr
    refine ⟨m₂, d₁ ++ d₃, d₄, ?_, hq⟩
    unfold runEntries
    rw [hs]; simp only; rw [hp]

/-! ## commutation of independent entries -/

/-- neither entry assigns a member the other reads or assigns -/
def Independent (t : ToolTable) (e₁ e₂ : Entry) : Prop :=
  (∀ k ∈ targets (entryAssigns t e₁), k ∉ footprint (entryAssigns t e₂)) ∧
  (∀ k ∈ targets (entryAssigns t e₂), k ∉ footprint (entryAssigns t e₁))

instance (t : ToolTable) (e₁ e₂ : Entry) : Decidable (Independent t e₁ e₂) := by unfold Independent; infer_instance

/-- an entry run from two states that agree on its footprint leaves its targets equal -/
theorem stepEntry_footprint {t : ToolTable} {cwd cmd : Bytes} {e : Entry} {m n m' n' : Mem} {ds es : List Bytes}
    (ag : Agree (footprint (entryAssigns t e)) m n)
    (hm : stepEntry t cwd cmd e m = .next m' ds) (hn : stepEntry t cwd cmd e n = .next n' es) :
    ∀ k ∈ targets (entryAssigns t e), m' k = n' k := fun k hk =>
  stepEntry_sim (flowSafe_footprint _) ag hm hn k (targets_subset_footprint _ k hk)

theorem stepEntry_swap {t : ToolTable} {cwd cmd : Bytes} {e₁ e₂ : Entry} (ind : Independent t e₁ e₂)
    {m m₁ m₁₂ m₂ m₂₁ : Mem} {d₁ d₁₂ d₂ d₂₁ : List Bytes}
    (h₁ : stepEntry t cwd cmd e₁ m = .next m₁ d₁) (h₁₂ : stepEntry t cwd cmd e₂ m₁ = .next m₁₂ d₁₂)
    (h₂ : stepEntry t cwd cmd e₂ m = .next m₂ d₂) (h₂₁ : stepEntry t cwd cmd e₁ m₂ = .next m₂₁ d₂₁) :
    m₁₂ = m₂₁ := by
  funext k
  -- states before the second step agree with `m` on the second entry's footprint
  have ag₁ : Agree (footprint (entryAssigns t e₂)) m₁ m := fun k hk =>
    stepEntry_frame h₁ (fun hk' => ind.1 k hk' hk)
  have ag₂ : Agree (footprint (entryAssigns t e₁)) m₂ m := fun k hk =>
    stepEntry_frame h₂ (fun hk' => ind.2 k hk' hk)
  by_cases k2 : k ∈ targets (entryAssigns t e₂)
  · have k1 : k ∉ targets (entryAssigns t e₁) := fun hk' => ind.1 k hk' (targets_subset_footprint _ k k2)
    rw [stepEntry_footprint ag₁ h₁₂ h₂ k k2, stepEntry_frame h₂₁ k1]
  · by_cases k1 : k ∈ targets (entryAssigns t e₁)
    · rw [stepEntry_frame h₁₂ k2, (stepEntry_footprint ag₂ h₂₁ h₁ k k1)]
    · rw [stepEntry_frame h₁₂ k2, stepEntry_frame h₁ k1, stepEntry_frame h₂₁ k1, stepEntry_frame h₂ k2]

end LLBuild.BSAttrs
