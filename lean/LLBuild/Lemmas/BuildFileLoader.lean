/- Helper lemmas about the build-description loader model (Model/BuildFileLoader.lean); the property theorems are in
   Props/C19Yaml.lean.  Sections: lists / paths; R combinators; length bounds; token locations; the protocol monitor;
   answers come from the delegate; section order; depth. -/
import LLBuild.Model.BuildFileLoader
namespace LLBuild.BuildFileLoader

/-! ### lists -/
theorem drop_cons_get {α} {l : List α} {i : Nat} {x : α} {rest : List α} (h : l.drop i = x :: rest) :
    l[i]? = some x ∧ l.drop (i + 1) = rest := by
  constructor
  · have := List.getElem?_drop (xs := l) (i := i) (j := 0)
    rw [h] at this
    simpa using this.symm
  · have : l.drop (i + 1) = (l.drop i).drop 1 := by rw [List.drop_drop]
    rw [this, h]; rfl

theorem drop_lt_length {α} {l : List α} {i : Nat} {x : α} {rest : List α} (h : l.drop i = x :: rest) : i < l.length := by
  have := (drop_cons_get h).1
  exact (List.getElem?_eq_some_iff.mp this).1

/-! ### R combinators -/
section
variable {σ : Type}
@[simp] theorem R.pure_evs (s : σ) (ls : LS) : (R.pure s ls).evs = [] := rfl
@[simp] theorem R.pure_ok (s : σ) (ls : LS) : (R.pure s ls).ok = true := rfl
@[simp] theorem R.pure_ls (s : σ) (ls : LS) : (R.pure s ls).ls = ls := rfl
@[simp] theorem R.pure_st (s : σ) (ls : LS) : (R.pure s ls).st = s := rfl
@[simp] theorem R.pre_evs (es : List Event) (r : R σ) : (r.pre es).evs = es ++ r.evs := rfl
@[simp] theorem R.pre_ok (es : List Event) (r : R σ) : (r.pre es).ok = r.ok := rfl
@[simp] theorem R.pre_ls (es : List Event) (r : R σ) : (r.pre es).ls = r.ls := rfl
@[simp] theorem R.pre_st (es : List Event) (r : R σ) : (r.pre es).st = r.st := rfl
theorem R.andThen_evs (r : R σ) (f : σ → LS → R σ) :
    (r.andThen f).evs = r.evs ++ (if r.ok then (f r.st r.ls).evs else []) := by
  unfold R.andThen; split <;> simp
theorem R.andThen_ok (r : R σ) (f : σ → LS → R σ) :
    (r.andThen f).ok = (r.ok && (f r.st r.ls).ok) := by
  unfold R.andThen; cases h : r.ok <;> simp [h]
theorem R.andThen_of_ok {r : R σ} (h : r.ok = true) (f : σ → LS → R σ) :
    r.andThen f = (f r.st r.ls).pre r.evs := by
  unfold R.andThen R.pre; simp [h]
theorem R.andThen_of_not_ok {r : R σ} (h : r.ok = false) (f : σ → LS → R σ) : r.andThen f = r := by
  unfold R.andThen; simp [h]
end

/-! ### paths -/
theorem nodeAt_append (p q : Path) (root : YNode) :
    nodeAt (p ++ q) root = (nodeAt p root).bind (nodeAt q) := by
  induction p generalizing root with
  | nil => simp [nodeAt]
  | cons s p ih =>
    simp only [List.cons_append, nodeAt]
    cases h : root.child s with
    | none => simp
    | some c => simp [ih]

theorem pathValid_append {p : Path} {root t : YNode} (h : nodeAt p root = some t) (q : Path) :
    pathValid (p ++ q) root = pathValid q t := by
  induction p generalizing root with
  | nil => simp [nodeAt] at h; simp [h]
  | cons s p ih =>
    simp only [nodeAt] at h
    cases hc : root.child s with
    | none => simp [hc] at h
    | some c =>
      simp only [hc] at h
      have hs : ∀ i, s ≠ .entry i := by
        intro i hi; subst hi; cases root <;> simp [YNode.child] at hc
      have : pathValid ((s :: p) ++ q) root = pathValid (p ++ q) c := by
        cases s with
        | entry i => exact absurd rfl (hs i)
        | key i => simp [pathValid, hc]
        | val i => simp [pathValid, hc]
        | item i => simp [pathValid, hc]
      rw [this]; exact ih h



variable {σ : Type}

theorem size_pos (t : YNode) : 0 < t.size := by cases t <;> simp [YNode.size] <;> omega

/-! ### length bounds: every loop emits at most one event per node it walks over -/

theorem R.andThen_len_le {r : R σ} {f : σ → LS → R σ} {n m : Nat} (h1 : r.evs.length ≤ n)
    (h2 : r.ok = true → (f r.st r.ls).evs.length ≤ m) : (r.andThen f).evs.length ≤ n + m := by
  rw [R.andThen_evs]; cases h : r.ok
  · simp; omega
  · simp [h] at h2 ⊢; omega

theorem getOrCreateNode_len (d : Delegate σ) (name implicit s ls) : (getOrCreateNode d name implicit s ls).evs.length ≤ 1 := by
  unfold getOrCreateNode; split <;> simp

theorem nodeList_len (d : Delegate σ) (m p) : ∀ xs i s ls, (nodeList d m p i xs s ls).evs.length ≤ sizeItems xs := by
  intro xs
  induction xs with
  | nil => intro i s ls; simp [nodeList]
  | cons x rest ih =>
    intro i s ls
    have hx := size_pos x
    cases x with
    | scalar name =>
      simp only [nodeList, sizeItems, YNode.size]
      exact R.andThen_len_le (getOrCreateNode_len d name true s ls) (fun _ => ih _ _ _)
    | mapping es => simp only [nodeList, sizeItems, R.pre_evs, List.length_append]; have := ih (i+1) s ls; simp; omega
    | sequence es => simp only [nodeList, sizeItems, R.pre_evs, List.length_append]; have := ih (i+1) s ls; simp; omega
    | other k => simp only [nodeList, sizeItems, R.pre_evs, List.length_append]; have := ih (i+1) s ls; simp; omega

theorem mapErrs_len (sec attr p) : ∀ es i, (mapErrs sec attr p i es).length ≤ sizeEntries es := by
  intro es
  induction es with
  | nil => intro i; simp [mapErrs]
  | cons kv rest ih =>
    intro i
    obtain ⟨k, v⟩ := kv
    have := ih (i + 1)
    have hk := size_pos k
    have hv := size_pos v
    cases k <;> cases v <;> simp only [mapErrs, sizeEntries, List.length_cons] <;> omega

theorem seqErrs_len (sec p) : ∀ xs i, (seqErrs sec p i xs).length ≤ sizeItems xs := by
  intro xs
  induction xs with
  | nil => intro i; simp [seqErrs]
  | cons x rest ih =>
    intro i
    have := ih (i + 1)
    have hx := size_pos x
    cases x <;> simp only [seqErrs, sizeItems, List.length_cons] <;> omega

theorem attrValueErrs_len (sec attr vp) (v : YNode) :
    (attrValueErrs sec attr vp v).length + (if (attrValue v).isSome then 1 else 0) ≤ v.size := by
  cases v with
  | scalar b => simp [attrValue, attrValueErrs, YNode.size]
  | other k => simp [attrValue, attrValueErrs, YNode.size]
  | mapping es => simp only [attrValue, attrValueErrs, YNode.size]; have := mapErrs_len sec attr vp es 0; simp; omega
  | sequence xs => simp only [attrValue, attrValueErrs, YNode.size]; have := seqErrs_len sec vp xs 0; simp; omega

theorem attrStep_len (sec) (call : σ → Bytes → AttrVal → Ans × σ) (mk p i) (k v : YNode) (s ls) :
    (attrStep sec call mk p i k v s ls).evs.length ≤ k.size + v.size := by
  have hk := size_pos k
  have hv := size_pos v
  unfold attrStep
  split
  · rename_i attr
    have h := attrValueErrs_len sec attr (p ++ [.val i]) v
    split
    · rename_i heq; simp [heq] at h; simp; omega
    · rename_i av heq; simp [heq] at h; simp; omega
  · simp; omega

theorem attrLoop_len (sec) (call : σ → Bytes → AttrVal → Ans × σ) (mk p) : ∀ es i s ls,
    (attrLoop sec call mk p i es s ls).evs.length ≤ sizeEntries es := by
  intro es
  induction es with
  | nil => intro i s ls; simp [attrLoop]
  | cons kv rest ih =>
    intro i s ls
    obtain ⟨k, v⟩ := kv
    simp only [attrLoop, sizeEntries]
    exact R.andThen_len_le (attrStep_len sec call mk p i k v s ls) (fun _ => ih _ _ _)

theorem clientEntryErrs_len (p i key value) : (clientEntryErrs p i key value).length ≤ 1 := by
  unfold clientEntryErrs; split <;> simp

theorem clientLoop_len (p) : ∀ es i a, (clientLoop p i es a).evs.length ≤ sizeEntries es := by
  intro es
  induction es with
  | nil => intro i a; simp [clientLoop]
  | cons kv rest ih =>
    intro i a
    obtain ⟨k, v⟩ := kv
    have hk := size_pos k
    have hv := size_pos v
    cases k <;> cases v <;> simp only [clientLoop, sizeEntries, List.length_cons, List.length_nil, List.length_append] <;> try omega
    rename_i key value
    have h1 := clientEntryErrs_len p i key value
    have := ih (i + 1) (clientEntryAcc key value a)
    omega

theorem parseClient_len (d : Delegate σ) (p es s ls) : (parseClient d p es s ls).evs.length ≤ sizeEntries es + 2 := by
  unfold parseClient
  have h := clientLoop_len p es 0 {}
  split
  · simp only []; omega
  · simp only []; split <;> simp <;> omega

theorem getOrCreateTool_len (d : Delegate σ) (name loc s ls) :
    (getOrCreateTool d name loc s ls).evs.length ≤ (if (getOrCreateTool d name loc s ls).ok then 1 else 2) := by
  unfold getOrCreateTool
  split
  · simp
  · split <;> simp

theorem createCommand_len (d : Delegate σ) (tool name loc s ls) :
    (createCommand d tool name loc s ls).evs.length ≤ (if (createCommand d tool name loc s ls).ok then 1 else 2) := by
  unfold createCommand
  split <;> simp

theorem parseTools_len (d : Delegate σ) (p) : ∀ es i s ls, (parseTools d p i es s ls).evs.length ≤ sizeEntries es := by
  intro es
  induction es with
  | nil => intro i s ls; simp [parseTools]
  | cons kv rest ih =>
    intro i s ls
    obtain ⟨k, v⟩ := kv
    have hk := size_pos k
    have hv := size_pos v
    cases k <;> cases v <;> simp only [parseTools, sizeEntries, R.pre_evs, List.length_append, List.length_cons, List.length_nil] <;>
      try (have := ih (i + 1) s ls; omega)
    rename_i name attrs
    have h1 := getOrCreateTool_len d name (at0 (p ++ [.key i])) s ls
    have : (if (getOrCreateTool d name (at0 (p ++ [.key i])) s ls).ok then 1 else 2) ≤ 2 := by split <;> omega
    simp only [YNode.size]
    have key : ∀ (r : R σ), r.evs.length ≤ 2 →
        (r.andThen fun s1 ls1 => (attrLoop .tools (fun s => d.toolAttr s name) (.toolAttr name) (p ++ [.val i]) 0 attrs s1 ls1).andThen
          fun s2 ls2 => parseTools d p (i + 1) rest s2 ls2).evs.length ≤ 2 + (sizeEntries attrs + sizeEntries rest) := by
      intro r hr
      exact R.andThen_len_le hr (fun _ => R.andThen_len_le (attrLoop_len _ _ _ _ _ _ _ _) (fun _ => ih _ _ _))
    have := key _ (Nat.le_trans h1 this)
    omega

theorem parseTargets_len (d : Delegate σ) (p) : ∀ es i s ls, (parseTargets d p i es s ls).evs.length ≤ sizeEntries es := by
  intro es
  induction es with
  | nil => intro i s ls; simp [parseTargets]
  | cons kv rest ih =>
    intro i s ls
    obtain ⟨k, v⟩ := kv
    have hk := size_pos k
    have hv := size_pos v
    cases k <;> cases v <;> simp only [parseTargets, sizeEntries, R.pre_evs, List.length_append, List.length_cons, List.length_nil] <;>
      try (have := ih (i + 1) s ls; omega)
    rename_i name xs
    simp only [YNode.size]
    have := R.andThen_len_le (f := fun s1 ls1 =>
        (parseTargets d p (i + 1) rest (d.loadedTarget s1 name (scalarItems xs)) { ls1 with targets := name :: ls1.targets }).pre
          [.loadedTarget name (scalarItems xs)])
      (nodeList_len d .targetNodeType (p ++ [.val i]) xs 0 s ls) (m := 1 + sizeEntries rest)
      (fun _ => by simp only [R.pre_evs, List.length_append, List.length_cons, List.length_nil]; exact Nat.add_le_add_left (ih _ _ _) _)
    omega

theorem parseDefault_len (d : Delegate σ) (t vp s ls) : (parseDefault d t vp s ls).evs.length ≤ 1 := by
  unfold parseDefault; split <;> simp

theorem parseNodes_len (d : Delegate σ) (p) : ∀ es i s ls, (parseNodes d p i es s ls).evs.length ≤ sizeEntries es := by
  intro es
  induction es with
  | nil => intro i s ls; simp [parseNodes]
  | cons kv rest ih =>
    intro i s ls
    obtain ⟨k, v⟩ := kv
    have hk := size_pos k
    have hv := size_pos v
    cases k <;> cases v <;> simp only [parseNodes, sizeEntries, R.pre_evs, List.length_append, List.length_cons, List.length_nil] <;>
      try (have := ih (i + 1) s ls; omega)
    rename_i name attrs
    simp only [YNode.size]
    have := R.andThen_len_le (f := fun s1 ls1 =>
        (attrLoop .nodes (fun s => d.nodeAttr s name) (.nodeAttr name) (p ++ [.val i]) 0 attrs s1 ls1).andThen
          fun s2 ls2 => parseNodes d p (i + 1) rest s2 ls2)
      (getOrCreateNode_len d name false s ls)
      (fun _ => R.andThen_len_le (attrLoop_len _ _ _ _ _ _ _ _) (fun _ => ih _ _ _))
    omega

theorem cmdIO_len (d : Delegate σ) (io call mk p i) (v : YNode) (s ls) : (cmdIO d io call mk p i v s ls).evs.length ≤ v.size := by
  have hv := size_pos v
  unfold cmdIO
  split
  · rename_i xs
    simp only [YNode.size]
    have := R.andThen_len_le (f := fun s1 ls1 =>
        (⟨[mk (scalarItems xs) (at0 (p ++ [.key i])) (call s1 (scalarItems xs)).1], (call s1 (scalarItems xs)).2, ls1, true⟩ : R σ))
      (nodeList_len d (.ioNodeType io) (p ++ [.val i]) xs 0 s ls) (m := 1) (fun _ => by simp)
    omega
  · simp; omega

theorem cmdDesc_len (d : Delegate σ) (cmd p i) (v : YNode) (s ls) : (cmdDesc d cmd p i v s ls).evs.length ≤ 1 := by
  unfold cmdDesc; split <;> simp

theorem cmdAttrStep_len (d : Delegate σ) (cmd p i) (k v : YNode) (s ls) :
    (cmdAttrStep d cmd p i k v s ls).evs.length ≤ k.size + v.size := by
  have hk := size_pos k
  have hv := size_pos v
  unfold cmdAttrStep
  split
  · have := cmdIO_len d .inputs (fun s => d.cmdInputs s cmd) (.cmdInputs cmd) p i v s ls; omega
  · split
    · have := cmdIO_len d .outputs (fun s => d.cmdOutputs s cmd) (.cmdOutputs cmd) p i v s ls; omega
    · split
      · have := cmdDesc_len d cmd p i v s ls; omega
      · exact attrStep_len _ _ _ _ _ _ _ _ _

theorem cmdAttrs_len (d : Delegate σ) (cmd p) : ∀ es i s ls, (cmdAttrs d cmd p i es s ls).evs.length ≤ sizeEntries es := by
  intro es
  induction es with
  | nil => intro i s ls; simp [cmdAttrs]
  | cons kv rest ih =>
    intro i s ls
    obtain ⟨k, v⟩ := kv
    simp only [cmdAttrs, sizeEntries]
    exact R.andThen_len_le (cmdAttrStep_len d cmd p i k v s ls) (fun _ => ih _ _ _)

theorem R.andThen_len_le' {r : R σ} {f : σ → LS → R σ} {n m : Nat} (h1 : r.evs.length ≤ (if r.ok then n else n + 1)) (hm : 1 ≤ m)
    (h2 : r.ok = true → (f r.st r.ls).evs.length ≤ m) : (r.andThen f).evs.length ≤ n + m := by
  rw [R.andThen_evs]; cases h : r.ok
  · simp [h] at h1 ⊢; omega
  · simp [h] at h1 h2 ⊢; omega

theorem parseCommand_len (d : Delegate σ) (name kp ap attrs s ls) :
    (parseCommand d name kp ap attrs s ls).evs.length ≤ 2 + sizeEntries attrs := by
  unfold parseCommand
  split
  · simp; omega
  · rename_i tk tv more
    have hk := size_pos tk
    have hv := size_pos tv
    simp only [sizeEntries]
    split
    · simp; omega
    · split
      · rename_i tool
        -- lookupTool (1 event when it succeeds, else 2 and nothing follows), createCommand (likewise), attributes, loadedCommand
        have := R.andThen_len_le' (n := 1) (m := 1 + (sizeEntries more + 1))
          (f := fun s1 ls1 => (createCommand d tool name (at0 (ap ++ [.val 0])) s1 ls1).andThen fun s2 ls2 =>
            (cmdAttrs d name ap 1 more s2 ls2).andThen fun s3 ls3 => finishCommand d name s3 ls3)
          (getOrCreateTool_len d tool (at0 (ap ++ [.val 0])) s ls) (by omega)
          (fun _ => R.andThen_len_le' (createCommand_len d tool name _ _ _) (by omega)
            (fun _ => R.andThen_len_le (cmdAttrs_len d name ap more 1 _ _) (fun _ => by simp [finishCommand])))
        omega
      · simp; omega

theorem parseCommands_len (d : Delegate σ) (p) : ∀ es i s ls, (parseCommands d p i es s ls).evs.length ≤ sizeEntries es := by
  intro es
  induction es with
  | nil => intro i s ls; simp [parseCommands]
  | cons kv rest ih =>
    intro i s ls
    obtain ⟨k, v⟩ := kv
    have hk := size_pos k
    have hv := size_pos v
    cases k <;> cases v <;> simp only [parseCommands, sizeEntries, R.pre_evs, List.length_append, List.length_cons, List.length_nil] <;>
      try (have := ih (i + 1) s ls; omega)
    rename_i name attrs
    simp only [YNode.size]
    split
    · have := ih (i + 1) s ls; simp; omega
    · have := R.andThen_len_le (f := fun s1 ls1 => parseCommands d p (i + 1) rest s1 ls1)
        (parseCommand_len d name (p ++ [.key i]) (p ++ [.val i]) attrs s ls) (fun _ => ih _ _ _)
      omega

theorem parseSection_len (d : Delegate σ) (sec i) (v : YNode) (s ls) : (parseSection d sec i v s ls).evs.length ≤ v.size := by
  have hv := size_pos v
  unfold parseSection
  split <;> simp only [YNode.size, List.length_cons, List.length_nil]
  · have := parseTools_len d [.val i] ‹_› 0 s ls; omega
  · have := parseTargets_len d [.val i] ‹_› 0 s ls; omega
  · have := parseDefault_len d ‹_› [.val i] s ls; omega
  · have := parseNodes_len d [.val i] ‹_› 0 s ls; omega
  · have := parseCommands_len d [.val i] ‹_› 0 s ls; omega
  · omega

theorem sections_len (d : Delegate σ) : ∀ stages i es s ls, (sections d stages i es s ls).evs.length ≤ sizeEntries es := by
  intro stages
  induction stages with
  | nil =>
    intro i es s ls
    cases es with
    | nil => simp [sections]
    | cons kv rest => obtain ⟨k, v⟩ := kv; have := size_pos k; simp [sections, sizeEntries]; omega
  | cons sec more ih =>
    intro i es s ls
    cases es with
    | nil => simp [sections]
    | cons kv rest =>
      obtain ⟨k, v⟩ := kv
      have hk := size_pos k
      simp only [sections]
      split
      · simp only [sizeEntries]
        have := R.andThen_len_le (f := fun s1 ls1 => sections d more (i + 1) rest s1 ls1)
          (parseSection_len d sec i v s ls) (fun _ => ih _ _ _ _)
        omega
      · exact ih _ _ _ _

theorem parseRoot_len (d : Delegate σ) (root s ls) : (parseRoot d root s ls).evs.length ≤ root.size := by
  have hr := size_pos root
  unfold parseRoot
  split
  · simp; omega
  · rename_i k v rest
    have hk := size_pos k
    have hv := size_pos v
    simp only [YNode.size, sizeEntries]
    split
    · simp
    · split
      · rename_i ces
        simp only [YNode.size]
        have := R.andThen_len_le (f := fun s1 ls1 => sections d allSecs 1 rest s1 ls1)
          (parseClient_len d [.val 0] ces s ls) (fun _ => sections_len d _ _ _ _ _)
        omega
      · simp
  · simp; omega

theorem load_len (d : Delegate σ) (input : Option (List (Option YNode))) (s : σ) :
    (load d input s).trace.length ≤ streamSize (input.getD []) + 2 := by
  unfold load
  split
  · simp
  · simp
  · simp
  · rename_i root more
    have h := parseRoot_len d root s {}
    simp only [Option.getD_some, streamSize]
    split
    · simp; omega
    · split
      · simp; omega
      · simp; omega
      · split
        · split <;> simp <;> omega
        · simp; omega

/-! ### token locations: every event's token is nowhere or a node of the tree below the mapping being walked -/

/-- the event's token is a valid path of `root` (document 0) that extends `p`; only non-fatal events have no token -/
def Event.under (root : YNode) (p : Path) (e : Event) : Prop :=
  match e.loc with
  | .none => e.fatal = false
  | .node dd q => dd = 0 ∧ p <+: q ∧ pathValid q root = true

def AllUnder (root : YNode) (p : Path) (evs : List Event) : Prop := ∀ e ∈ evs, e.under root p

@[simp] theorem AllUnder_nil (root p) : AllUnder root p [] := by simp [AllUnder]
@[simp] theorem AllUnder_cons (root p e l) : AllUnder root p (e :: l) ↔ e.under root p ∧ AllUnder root p l := by
  simp [AllUnder]
@[simp] theorem AllUnder_append (root p l1 l2) : AllUnder root p (l1 ++ l2) ↔ AllUnder root p l1 ∧ AllUnder root p l2 := by
  simp [AllUnder, or_imp, forall_and]

theorem Event.under_weaken {root : YNode} {p q : Path} {e : Event} (h : e.under root (p ++ q)) : e.under root p := by
  unfold Event.under at *
  cases hl : e.loc with
  | none => rw [hl] at h; exact h
  | node dd q0 =>
    rw [hl] at h
    exact ⟨h.1, List.IsPrefix.trans (List.prefix_append p q) h.2.1, h.2.2⟩

theorem AllUnder.weaken {root : YNode} {p q : Path} {l : List Event} (h : AllUnder root (p ++ q) l) : AllUnder root p l :=
  fun e he => Event.under_weaken (h e he)

theorem AllUnder_andThen {root : YNode} {p : Path} {r : R σ} {f : σ → LS → R σ} (h1 : AllUnder root p r.evs)
    (h2 : r.ok = true → AllUnder root p (f r.st r.ls).evs) : AllUnder root p (r.andThen f).evs := by
  rw [R.andThen_evs]; cases h : r.ok
  · simpa using h1
  · simp [h] at h2 ⊢; exact ⟨h1, h2⟩

/-- a token `p ++ q` is fine when `p` leads to `t` and `q` is valid in `t` -/
theorem under_of_loc {root t : YNode} {p q : Path} {e : Event} (hl : e.loc = at0 (p ++ q)) (hp : nodeAt p root = some t)
    (hq : pathValid q t = true) : e.under root p := by
  unfold Event.under; rw [hl]
  exact ⟨rfl, List.prefix_append p q, by rw [pathValid_append hp]; exact hq⟩

theorem under_of_none {root : YNode} {p : Path} {e : Event} (hl : e.loc = .none) (hf : e.fatal = false) : e.under root p := by
  unfold Event.under; rw [hl]; exact hf

theorem valid_key {all : List (YNode × YNode)} {i : Nat} {kv : YNode × YNode} (hi : all[i]? = some kv) :
    pathValid [.key i] (.mapping all) = true := by
  simp [pathValid, YNode.child, hi]

theorem valid_val {all : List (YNode × YNode)} {i : Nat} {kv : YNode × YNode} (hi : all[i]? = some kv) :
    pathValid [.val i] (.mapping all) = true := by
  simp [pathValid, YNode.child, hi]

theorem valid_entry {all : List (YNode × YNode)} {i : Nat} {kv : YNode × YNode} (hi : all[i]? = some kv) :
    pathValid [.entry i] (.mapping all) = true := by
  have := (List.getElem?_eq_some_iff.mp hi).1
  simp [pathValid, this]

theorem valid_item {all : List YNode} {i : Nat} {x : YNode} (hi : all[i]? = some x) :
    pathValid [.item i] (.sequence all) = true := by
  simp [pathValid, YNode.child, hi]

theorem nodeAt_val {root : YNode} {p : Path} {all : List (YNode × YNode)} {i : Nat} {k v : YNode}
    (hp : nodeAt p root = some (.mapping all)) (hi : all[i]? = some (k, v)) : nodeAt (p ++ [.val i]) root = some v := by
  rw [nodeAt_append, hp]; simp [nodeAt, YNode.child, hi]

theorem nodeAt_key {root : YNode} {p : Path} {all : List (YNode × YNode)} {i : Nat} {k v : YNode}
    (hp : nodeAt p root = some (.mapping all)) (hi : all[i]? = some (k, v)) : nodeAt (p ++ [.key i]) root = some k := by
  rw [nodeAt_append, hp]; simp [nodeAt, YNode.child, hi]

theorem getOrCreateNode_under (d : Delegate σ) (root p name implicit s ls) :
    AllUnder root p (getOrCreateNode d name implicit s ls).evs := by
  unfold getOrCreateNode; split <;> simp [Event.under, Event.loc, Event.fatal]

theorem nodeList_under (d : Delegate σ) (m) {root : YNode} {p : Path} {all : List YNode}
    (hp : nodeAt p root = some (.sequence all)) : ∀ xs i s ls, all.drop i = xs → AllUnder root p (nodeList d m p i xs s ls).evs := by
  intro xs
  induction xs with
  | nil => intro i s ls _; simp [nodeList]
  | cons x rest ih =>
    intro i s ls hd
    obtain ⟨hi, hd'⟩ := drop_cons_get hd
    have herr : (Event.error m (at0 (p ++ [.item i]))).under root p := under_of_loc rfl hp (valid_item hi)
    cases x with
    | scalar name =>
      simp only [nodeList]
      exact AllUnder_andThen (getOrCreateNode_under d root p name true s ls) (fun _ => ih _ _ _ hd')
    | mapping es => simp only [nodeList, R.pre_evs, List.singleton_append, AllUnder_cons]; exact ⟨herr, ih _ _ _ hd'⟩
    | sequence es => simp only [nodeList, R.pre_evs, List.singleton_append, AllUnder_cons]; exact ⟨herr, ih _ _ _ hd'⟩
    | other k => simp only [nodeList, R.pre_evs, List.singleton_append, AllUnder_cons]; exact ⟨herr, ih _ _ _ hd'⟩

theorem mapErrs_under (sec attr) {root : YNode} {p : Path} {all : List (YNode × YNode)}
    (hp : nodeAt p root = some (.mapping all)) : ∀ es i, all.drop i = es → AllUnder root p (mapErrs sec attr p i es) := by
  intro es
  induction es with
  | nil => intro i _; simp [mapErrs]
  | cons kv rest ih =>
    intro i hd
    obtain ⟨hi, hd'⟩ := drop_cons_get hd
    obtain ⟨k, v⟩ := kv
    have h1 : ∀ m, (Event.error m (at0 (p ++ [.key i]))).under root p := fun m => under_of_loc rfl hp (valid_key hi)
    cases k <;> cases v <;> simp only [mapErrs, AllUnder_cons] <;> first | exact ih _ hd' | exact ⟨h1 _, ih _ hd'⟩

theorem seqErrs_under (sec) {root : YNode} {p : Path} {all : List YNode}
    (hp : nodeAt p root = some (.sequence all)) : ∀ xs i, all.drop i = xs → AllUnder root p (seqErrs sec p i xs) := by
  intro xs
  induction xs with
  | nil => intro i _; simp [seqErrs]
  | cons x rest ih =>
    intro i hd
    obtain ⟨hi, hd'⟩ := drop_cons_get hd
    have h1 : ∀ m, (Event.error m (at0 (p ++ [.item i]))).under root p := fun m => under_of_loc rfl hp (valid_item hi)
    cases x <;> simp only [seqErrs, AllUnder_cons] <;> first | exact ih _ hd' | exact ⟨h1 _, ih _ hd'⟩

theorem attrValueErrs_under (sec attr) {root v : YNode} {vp : Path} (hp : nodeAt vp root = some v) :
    AllUnder root vp (attrValueErrs sec attr vp v) := by
  cases v with
  | scalar b => simp [attrValueErrs]
  | other k =>
    simp only [attrValueErrs, AllUnder_cons, AllUnder_nil, and_true]
    exact under_of_loc (q := []) (by simp [Event.loc]) hp rfl
  | mapping es => exact mapErrs_under sec attr hp es 0 rfl
  | sequence xs => exact seqErrs_under sec hp xs 0 rfl

theorem attrStep_under (sec) (call : σ → Bytes → AttrVal → Ans × σ) (mk : Bytes → AttrVal → Loc → Ans → Event)
    (hmk : ∀ a v l ans, (mk a v l ans).loc = l)
    {root : YNode} {p : Path} {all : List (YNode × YNode)} (hp : nodeAt p root = some (.mapping all))
    {i : Nat} {k v : YNode} (hi : all[i]? = some (k, v)) (s ls) :
    AllUnder root p (attrStep sec call mk p i k v s ls).evs := by
  have hv := nodeAt_val hp hi
  unfold attrStep
  split
  · rename_i attr
    have h1 : AllUnder root p (attrValueErrs sec attr (p ++ [.val i]) v) := (attrValueErrs_under sec attr hv).weaken
    split
    · exact h1
    · simp only [AllUnder_append, AllUnder_cons, AllUnder_nil, and_true]
      exact ⟨h1, under_of_loc (hmk _ _ _ _) hp (valid_key hi)⟩
  · simp only [AllUnder_cons, AllUnder_nil, and_true]
    exact under_of_loc rfl hp (valid_key hi)

theorem attrLoop_under (sec) (call : σ → Bytes → AttrVal → Ans × σ) (mk : Bytes → AttrVal → Loc → Ans → Event)
    (hmk : ∀ a v l ans, (mk a v l ans).loc = l)
    {root : YNode} {p : Path} {all : List (YNode × YNode)} (hp : nodeAt p root = some (.mapping all)) :
    ∀ es i s ls, all.drop i = es → AllUnder root p (attrLoop sec call mk p i es s ls).evs := by
  intro es
  induction es with
  | nil => intro i s ls _; simp [attrLoop]
  | cons kv rest ih =>
    intro i s ls hd
    obtain ⟨hi, hd'⟩ := drop_cons_get hd
    obtain ⟨k, v⟩ := kv
    simp only [attrLoop]
    exact AllUnder_andThen (attrStep_under sec call mk hmk hp hi s ls) (fun _ => ih _ _ _ hd')

theorem clientLoop_under {root : YNode} {p : Path} {all : List (YNode × YNode)}
    (hp : nodeAt p root = some (.mapping all)) : ∀ es i a, all.drop i = es → AllUnder root p (clientLoop p i es a).evs := by
  intro es
  induction es with
  | nil => intro i a _; simp [clientLoop]
  | cons kv rest ih =>
    intro i a hd
    obtain ⟨hi, hd'⟩ := drop_cons_get hd
    obtain ⟨k, v⟩ := kv
    have hk : ∀ m, (Event.error m (at0 (p ++ [.key i]))).under root p := fun m => under_of_loc rfl hp (valid_key hi)
    have hv : ∀ m, (Event.error m (at0 (p ++ [.val i]))).under root p := fun m => under_of_loc rfl hp (valid_val hi)
    cases k <;> cases v <;> simp only [clientLoop, AllUnder_cons, AllUnder_nil, AllUnder_append, and_true] <;>
      first | exact hk _ | exact hv _ | skip
    rename_i key value
    refine ⟨?_, ih _ _ hd'⟩
    unfold clientEntryErrs; split
    · simpa using hv _
    · simp

theorem parseClient_under (d : Delegate σ) {root : YNode} {p : Path} {es : List (YNode × YNode)}
    (hp : nodeAt p root = some (.mapping es)) (s ls) : AllUnder root p (parseClient d p es s ls).evs := by
  have h := clientLoop_under hp es 0 {} rfl
  have hself : ∀ e : Event, e.loc = at0 p → e.under root p := fun e he =>
    under_of_loc (q := []) (by simpa using he) hp rfl
  unfold parseClient
  split
  · exact h
  · simp only []
    split
    · simp only [AllUnder_append, AllUnder_cons, AllUnder_nil, and_true]; exact ⟨h, hself _ rfl⟩
    · simp only [AllUnder_append, AllUnder_cons, AllUnder_nil, and_true]; exact ⟨h, hself _ rfl, hself _ rfl⟩

theorem getOrCreateTool_under (d : Delegate σ) {root : YNode} {p : Path} {loc : Loc}
    (hloc : ∀ m, (Event.error m loc).under root p) (name s ls) : AllUnder root p (getOrCreateTool d name loc s ls).evs := by
  unfold getOrCreateTool
  split
  · simp
  · split
    · simp [Event.under, Event.loc, Event.fatal]
    · simp only [AllUnder_cons, AllUnder_nil, and_true]; exact ⟨under_of_none rfl rfl, hloc _⟩

theorem parseTools_under (d : Delegate σ) {root : YNode} {p : Path} {all : List (YNode × YNode)}
    (hp : nodeAt p root = some (.mapping all)) : ∀ es i s ls, all.drop i = es → AllUnder root p (parseTools d p i es s ls).evs := by
  intro es
  induction es with
  | nil => intro i s ls _; simp [parseTools]
  | cons kv rest ih =>
    intro i s ls hd
    obtain ⟨hi, hd'⟩ := drop_cons_get hd
    obtain ⟨k, v⟩ := kv
    have hk : ∀ m, (Event.error m (at0 (p ++ [.key i]))).under root p := fun m => under_of_loc rfl hp (valid_key hi)
    have hv : ∀ m, (Event.error m (at0 (p ++ [.val i]))).under root p := fun m => under_of_loc rfl hp (valid_val hi)
    cases k <;> cases v <;> simp only [parseTools, R.pre_evs, List.singleton_append, AllUnder_cons] <;>
      first | exact ⟨hk _, ih _ _ _ hd'⟩ | exact ⟨hv _, ih _ _ _ hd'⟩ | skip
    rename_i name attrs
    refine AllUnder_andThen (getOrCreateTool_under d hk _ _ _) (fun _ => AllUnder_andThen ?_ (fun _ => ih _ _ _ hd'))
    exact (attrLoop_under .tools _ _ (fun _ _ _ _ => rfl) (nodeAt_val hp hi) attrs 0 _ _ rfl).weaken

theorem parseTargets_under (d : Delegate σ) {root : YNode} {p : Path} {all : List (YNode × YNode)}
    (hp : nodeAt p root = some (.mapping all)) : ∀ es i s ls, all.drop i = es → AllUnder root p (parseTargets d p i es s ls).evs := by
  intro es
  induction es with
  | nil => intro i s ls _; simp [parseTargets]
  | cons kv rest ih =>
    intro i s ls hd
    obtain ⟨hi, hd'⟩ := drop_cons_get hd
    obtain ⟨k, v⟩ := kv
    have hk : ∀ m, (Event.error m (at0 (p ++ [.key i]))).under root p := fun m => under_of_loc rfl hp (valid_key hi)
    have hv : ∀ m, (Event.error m (at0 (p ++ [.val i]))).under root p := fun m => under_of_loc rfl hp (valid_val hi)
    cases k <;> cases v <;> simp only [parseTargets, R.pre_evs, List.singleton_append, AllUnder_cons] <;>
      first | exact ⟨hk _, ih _ _ _ hd'⟩ | exact ⟨hv _, ih _ _ _ hd'⟩ | skip
    rename_i name xs
    refine AllUnder_andThen (nodeList_under d _ (nodeAt_val hp hi) xs 0 _ _ rfl).weaken (fun _ => ?_)
    simp only [R.pre_evs, List.singleton_append, AllUnder_cons]
    exact ⟨under_of_none rfl rfl, ih _ _ _ hd'⟩

theorem parseDefault_under (d : Delegate σ) {root : YNode} {p : Path} (hv : ∀ m, (Event.error m (at0 p)).under root p)
    (t s ls) : AllUnder root p (parseDefault d t p s ls).evs := by
  unfold parseDefault; split
  · simp [Event.under, Event.loc, Event.fatal]
  · simpa using hv _

theorem parseNodes_under (d : Delegate σ) {root : YNode} {p : Path} {all : List (YNode × YNode)}
    (hp : nodeAt p root = some (.mapping all)) : ∀ es i s ls, all.drop i = es → AllUnder root p (parseNodes d p i es s ls).evs := by
  intro es
  induction es with
  | nil => intro i s ls _; simp [parseNodes]
  | cons kv rest ih =>
    intro i s ls hd
    obtain ⟨hi, hd'⟩ := drop_cons_get hd
    obtain ⟨k, v⟩ := kv
    have hk : ∀ m, (Event.error m (at0 (p ++ [.key i]))).under root p := fun m => under_of_loc rfl hp (valid_key hi)
    have hv : ∀ m, (Event.error m (at0 (p ++ [.val i]))).under root p := fun m => under_of_loc rfl hp (valid_val hi)
    cases k <;> cases v <;> simp only [parseNodes, R.pre_evs, List.singleton_append, AllUnder_cons] <;>
      first | exact ⟨hk _, ih _ _ _ hd'⟩ | exact ⟨hv _, ih _ _ _ hd'⟩ | skip
    rename_i name attrs
    refine AllUnder_andThen (getOrCreateNode_under d _ _ _ _ _ _) (fun _ => AllUnder_andThen ?_ (fun _ => ih _ _ _ hd'))
    exact (attrLoop_under .nodes _ _ (fun _ _ _ _ => rfl) (nodeAt_val hp hi) attrs 0 _ _ rfl).weaken

theorem cmdIO_under (d : Delegate σ) (io) (call : σ → List Bytes → List Bytes × σ) (mk : List Bytes → Loc → List Bytes → Event)
    (hmk : ∀ n l e, (mk n l e).loc = l) {root : YNode} {p : Path} {all : List (YNode × YNode)}
    (hp : nodeAt p root = some (.mapping all)) {i : Nat} {k v : YNode} (hi : all[i]? = some (k, v)) (s ls) :
    AllUnder root p (cmdIO d io call mk p i v s ls).evs := by
  unfold cmdIO
  split
  · rename_i xs
    refine AllUnder_andThen (nodeList_under d _ (nodeAt_val hp hi) xs 0 _ _ rfl).weaken (fun _ => ?_)
    simp only [AllUnder_cons, AllUnder_nil, and_true]
    exact under_of_loc (hmk _ _ _) hp (valid_key hi)
  · simp only [AllUnder_cons, AllUnder_nil, and_true]; exact under_of_loc rfl hp (valid_val hi)

theorem cmdDesc_under (d : Delegate σ) (cmd) {root : YNode} {p : Path} {all : List (YNode × YNode)}
    (hp : nodeAt p root = some (.mapping all)) {i : Nat} {k v : YNode} (hi : all[i]? = some (k, v)) (s ls) :
    AllUnder root p (cmdDesc d cmd p i v s ls).evs := by
  unfold cmdDesc
  split
  · simp only [AllUnder_cons, AllUnder_nil, and_true]; exact under_of_loc rfl hp (valid_key hi)
  · simp only [AllUnder_cons, AllUnder_nil, and_true]; exact under_of_loc rfl hp (valid_val hi)

theorem cmdAttrStep_under (d : Delegate σ) (cmd) {root : YNode} {p : Path} {all : List (YNode × YNode)}
    (hp : nodeAt p root = some (.mapping all)) {i : Nat} {k v : YNode} (hi : all[i]? = some (k, v)) (s ls) :
    AllUnder root p (cmdAttrStep d cmd p i k v s ls).evs := by
  unfold cmdAttrStep
  split
  · exact cmdIO_under d _ _ _ (fun _ _ _ => rfl) hp hi s ls
  · split
    · exact cmdIO_under d _ _ _ (fun _ _ _ => rfl) hp hi s ls
    · split
      · exact cmdDesc_under d cmd hp hi s ls
      · exact attrStep_under _ _ _ (fun _ _ _ _ => rfl) hp hi s ls

theorem cmdAttrs_under (d : Delegate σ) (cmd) {root : YNode} {p : Path} {all : List (YNode × YNode)}
    (hp : nodeAt p root = some (.mapping all)) : ∀ es i s ls, all.drop i = es → AllUnder root p (cmdAttrs d cmd p i es s ls).evs := by
  intro es
  induction es with
  | nil => intro i s ls _; simp [cmdAttrs]
  | cons kv rest ih =>
    intro i s ls hd
    obtain ⟨hi, hd'⟩ := drop_cons_get hd
    obtain ⟨k, v⟩ := kv
    simp only [cmdAttrs]
    exact AllUnder_andThen (cmdAttrStep_under d cmd hp hi s ls) (fun _ => ih _ _ _ hd')

theorem parseCommand_under (d : Delegate σ) (name) {root : YNode} {p : Path} {all : List (YNode × YNode)}
    (hp : nodeAt p root = some (.mapping all)) {i : Nat} {k : YNode} {attrs : List (YNode × YNode)}
    (hi : all[i]? = some (k, .mapping attrs)) (s ls) :
    AllUnder root p (parseCommand d name (p ++ [.key i]) (p ++ [.val i]) attrs s ls).evs := by
  have hap := nodeAt_val hp hi
  unfold parseCommand
  split
  · simp only [AllUnder_cons, AllUnder_nil, and_true]; exact under_of_loc rfl hp (valid_key hi)
  · rename_i tk tv more
    have h0 : (((tk, tv) :: more) : List (YNode × YNode))[0]? = some (tk, tv) := rfl
    have hk0 : ∀ m, (Event.error m (at0 ((p ++ [.val i]) ++ [.key 0]))).under root p :=
      fun m => Event.under_weaken (under_of_loc rfl hap (valid_key h0))
    have hv0 : ∀ m, (Event.error m (at0 ((p ++ [.val i]) ++ [.val 0]))).under root p :=
      fun m => Event.under_weaken (under_of_loc rfl hap (valid_val h0))
    split
    · simp only [AllUnder_cons, AllUnder_nil, and_true]; exact hk0 _
    · split
      · rename_i tool
        refine AllUnder_andThen (getOrCreateTool_under d hv0 _ _ _) (fun _ => AllUnder_andThen ?_ (fun _ => AllUnder_andThen ?_ (fun _ => ?_)))
        · unfold createCommand; split
          · simp [Event.under, Event.loc, Event.fatal]
          · simp only [AllUnder_cons, AllUnder_nil, and_true]; exact ⟨under_of_none rfl rfl, hv0 _⟩
        · exact (cmdAttrs_under d name hap more 1 _ _ rfl).weaken
        · simp [finishCommand, Event.under, Event.loc, Event.fatal]
      · simp only [AllUnder_cons, AllUnder_nil, and_true]; exact hv0 _

theorem parseCommands_under (d : Delegate σ) {root : YNode} {p : Path} {all : List (YNode × YNode)}
    (hp : nodeAt p root = some (.mapping all)) : ∀ es i s ls, all.drop i = es → AllUnder root p (parseCommands d p i es s ls).evs := by
  intro es
  induction es with
  | nil => intro i s ls _; simp [parseCommands]
  | cons kv rest ih =>
    intro i s ls hd
    obtain ⟨hi, hd'⟩ := drop_cons_get hd
    obtain ⟨k, v⟩ := kv
    have hk : ∀ m, (Event.error m (at0 (p ++ [.key i]))).under root p := fun m => under_of_loc rfl hp (valid_key hi)
    have hv : ∀ m, (Event.error m (at0 (p ++ [.val i]))).under root p := fun m => under_of_loc rfl hp (valid_val hi)
    cases k <;> cases v <;> simp only [parseCommands, R.pre_evs, List.singleton_append, AllUnder_cons] <;>
      first | exact ⟨hk _, ih _ _ _ hd'⟩ | exact ⟨hv _, ih _ _ _ hd'⟩ | skip
    rename_i name attrs
    split
    · simp only [R.pre_evs, List.singleton_append, AllUnder_cons]; exact ⟨hk _, ih _ _ _ hd'⟩
    · exact AllUnder_andThen (parseCommand_under d name hp hi s ls) (fun _ => ih _ _ _ hd')

/-! ### the protocol monitor accepts every trace; it is dead at the end iff the parse function returned false -/

theorem MS.run_append (m : MS) (l1 l2 : List Event) : m.run (l1 ++ l2) = (m.run l1).bind fun m1 => m1.run l2 := by
  induction l1 generalizing m with
  | nil => simp [MS.run]
  | cons e l ih =>
    simp only [List.cons_append, MS.run]
    cases m.step e with
    | none => simp
    | some m' => simp [ih]

/-- `m'` has seen at least what `m` has seen -/
def MS.le (m m' : MS) : Prop :=
  m'.client = m.client ∧ m'.clientOk = m.clientOk ∧ (∀ t, t ∈ m.tools → t ∈ m'.tools) ∧ (∀ c, c ∈ m.made → c ∈ m'.made)

theorem MS.le_refl (m : MS) : m.le m := ⟨rfl, rfl, fun _ h => h, fun _ h => h⟩
theorem MS.le_trans {a b c : MS} (h1 : a.le b) (h2 : b.le c) : a.le c :=
  ⟨h2.1.trans h1.1, h2.2.1.trans h1.2.1, fun t h => h2.2.2.1 t (h1.2.2.1 t h), fun t h => h2.2.2.2 t (h1.2.2.2 t h)⟩

/-- the loader state is covered by what the monitor has seen: alive, client configured, every cached tool was looked up -/
def Good (ls : LS) (m : MS) : Prop := m.dead = false ∧ m.clientOk = true ∧ ∀ t, t ∈ ls.tools → t ∈ m.tools

/-- the monitor accepts the events of `r` from state `m`; it ends dead iff `r` failed; it covers `r`'s loader state -/
def Spec (m : MS) (r : R σ) : Prop :=
  ∃ m', m.run r.evs = some m' ∧ m'.dead = !r.ok ∧ m.le m' ∧ (r.ok = true → Good r.ls m')

theorem Spec.andThen {m : MS} {r : R σ} {f : σ → LS → R σ} (h1 : Spec m r)
    (h2 : r.ok = true → ∀ m1, m.le m1 → Good r.ls m1 → Spec m1 (f r.st r.ls)) : Spec m (r.andThen f) := by
  obtain ⟨m1, hrun, hdead, hle, hgood⟩ := h1
  cases hok : r.ok
  · rw [R.andThen_of_not_ok hok]; exact ⟨m1, hrun, by simpa [hok] using hdead, hle, by simp [hok]⟩
  · rw [R.andThen_of_ok hok]
    obtain ⟨m2, hrun2, hdead2, hle2, hgood2⟩ := h2 hok m1 hle (hgood hok)
    refine ⟨m2, ?_, by simpa using hdead2, MS.le_trans hle hle2, by simpa using hgood2⟩
    simp [MS.run_append, hrun, hrun2]

theorem Spec.pre_same {m : MS} {e : Event} {r : R σ} (h : m.step e = some m) (hs : Spec m r) : Spec m (r.pre [e]) := by
  obtain ⟨m', hrun, hdead, hle, hgood⟩ := hs
  exact ⟨m', by simp [MS.run, h, hrun], by simpa using hdead, hle, by simpa using hgood⟩

theorem Spec.pure {m : MS} {s : σ} {ls : LS} (h : Good ls m) : Spec m (R.pure s ls) :=
  ⟨m, rfl, by simp [h.1], MS.le_refl m, fun _ => h⟩

theorem Good.le {ls : LS} {m m1 : MS} (h : Good ls m) (hle : m.le m1) (hd : m1.dead = false) : Good ls m1 :=
  ⟨hd, by rw [hle.2.1]; exact h.2.1, fun t ht => hle.2.2.1 t (h.2.2 t ht)⟩

theorem MS.eq_of {m : MS} {a b : Bool} {c d : List Bytes} {e : Bool} :
    (⟨a, b, c, d, e⟩ : MS) = m ↔ a = m.client ∧ b = m.clientOk ∧ c = m.tools ∧ d = m.made ∧ e = m.dead := by
  cases m; simp

def Event.keeps (e : Event) : Bool :=
  !e.isConfigureClient && (match e with | .lookupTool _ true => false | .createCommand _ _ true => false | _ => true)

theorem MS.step_neutral {m : MS} {e : Event} (hd : m.dead = false) (ha : e.allowed m = true) (hf : e.fatal = false)
    (hk : e.keeps = true) : m.step e = some m := by
  obtain ⟨c, co, t, md, dd⟩ := m
  simp only at hd; subst hd
  simp only [MS.step, Bool.false_eq_true, if_false, ha, if_true, MS.apply, hf, Bool.or_false, Option.some.injEq, MS.mk.injEq, and_true]
  cases e with
  | lookupTool n f => cases f <;> simp_all [Event.keeps, Event.isConfigureClient]
  | createCommand t c f => cases f <;> simp_all [Event.keeps, Event.isConfigureClient]
  | _ => simp_all [Event.keeps, Event.isConfigureClient]

theorem MS.step_fatal {m : MS} {e : Event} (hd : m.dead = false) (ha : e.allowed m = true) (hf : e.fatal = true)
    (hk : e.keeps = true) : m.step e = some { m with dead := true } := by
  obtain ⟨c, co, t, md, dd⟩ := m
  simp only at hd; subst hd
  simp only [MS.step, Bool.false_eq_true, if_false, ha, if_true, MS.apply, hf, Bool.or_true, Option.some.injEq, MS.mk.injEq, and_true]
  cases e with
  | lookupTool n f => cases f <;> simp_all [Event.keeps, Event.isConfigureClient]
  | createCommand t c f => cases f <;> simp_all [Event.keeps, Event.isConfigureClient]
  | _ => simp_all [Event.keeps, Event.isConfigureClient]

theorem step_error_nonfatal {m : MS} (hd : m.dead = false) {msg : Msg} (hf : msg.fatal = false) (loc : Loc) :
    m.step (.error msg loc) = some m :=
  MS.step_neutral hd rfl (by simp [Event.fatal, hf]) rfl

/-- a one-event result that fails with a fatal error -/
theorem Spec.fatal_error {m : MS} (hd : m.dead = false) {msg : Msg} (hf : msg.fatal = true) (loc : Loc) (s : σ) (ls : LS) :
    Spec m (⟨[.error msg loc], s, ls, false⟩ : R σ) :=
  ⟨{ m with dead := true }, by simp [MS.run, MS.step_fatal hd (e := .error msg loc) rfl (by simp [Event.fatal, hf]) rfl], rfl,
    ⟨rfl, rfl, fun _ h => h, fun _ h => h⟩, by simp⟩

/-- a one-event result that reports a recoverable error and succeeds -/
theorem Spec.nonfatal_error {m : MS} {ls : LS} (hg : Good ls m) {msg : Msg} (hf : msg.fatal = false) (loc : Loc) (s : σ) :
    Spec m (⟨[.error msg loc], s, ls, true⟩ : R σ) :=
  ⟨m, by simp [MS.run, step_error_nonfatal hg.1 hf], by simp [hg.1], MS.le_refl m, fun _ => hg⟩

theorem getOrCreateNode_spec (d : Delegate σ) {m : MS} {ls : LS} (hg : Good ls m) (name implicit s) :
    Spec m (getOrCreateNode d name implicit s ls) := by
  unfold getOrCreateNode; split
  · exact ⟨m, rfl, by simp [hg.1], MS.le_refl m, fun _ => hg⟩
  · exact ⟨m, by simp [MS.run, MS.step_neutral hg.1 (e := .createNode name implicit) (by simp [Event.allowed, hg.2.1]) rfl rfl], by simp [hg.1],
      MS.le_refl m, fun _ => ⟨hg.1, hg.2.1, hg.2.2⟩⟩

theorem getOrCreateTool_spec (d : Delegate σ) {m : MS} {ls : LS} (hg : Good ls m) (name loc s) :
    Spec m (getOrCreateTool d name loc s ls) ∧
    ((getOrCreateTool d name loc s ls).ok = true → name ∈ (getOrCreateTool d name loc s ls).ls.tools) := by
  unfold getOrCreateTool; split
  · rename_i hc
    exact ⟨⟨m, rfl, by simp [hg.1], MS.le_refl m, fun _ => hg⟩, fun _ => by simpa using hc⟩
  · split
    · refine ⟨⟨{ m with tools := name :: m.tools }, by simp [MS.run, MS.step, MS.eq_of, Event.allowed, MS.apply, Event.isConfigureClient, hg.1, hg.2.1, Event.fatal], by simp [hg.1],
        ⟨rfl, rfl, fun t h => List.mem_cons_of_mem _ h, fun _ h => h⟩, fun _ => ⟨hg.1, hg.2.1, ?_⟩⟩, fun _ => by simp⟩
      intro t ht
      simp only [List.mem_cons] at ht ⊢
      exact ht.imp id (hg.2.2 t)
    · exact ⟨⟨{ m with dead := true }, by simp [MS.run, MS.step, MS.eq_of, Event.allowed, MS.apply, Event.isConfigureClient, hg.1, hg.2.1, Event.fatal, Msg.fatal], rfl,
        ⟨rfl, rfl, fun _ h => h, fun _ h => h⟩, by simp⟩, by simp⟩

theorem nodeList_spec (d : Delegate σ) (msg : Msg) (hf : msg.fatal = false) (p) : ∀ xs i s ls m, Good ls m →
    Spec m (nodeList d msg p i xs s ls) := by
  intro xs
  induction xs with
  | nil => intro i s ls m hg; exact Spec.pure hg
  | cons x rest ih =>
    intro i s ls m hg
    cases x with
    | scalar name =>
      simp only [nodeList]
      exact Spec.andThen (getOrCreateNode_spec d hg name true s) (fun _ m1 _ hg1 => ih _ _ _ _ hg1)
    | mapping es => simp only [nodeList]; exact Spec.pre_same (step_error_nonfatal hg.1 hf _) (ih _ _ _ _ hg)
    | sequence es => simp only [nodeList]; exact Spec.pre_same (step_error_nonfatal hg.1 hf _) (ih _ _ _ _ hg)
    | other k => simp only [nodeList]; exact Spec.pre_same (step_error_nonfatal hg.1 hf _) (ih _ _ _ _ hg)

/-- a list of recoverable errors leaves the monitor where it is -/
theorem run_nonfatal_errors {m : MS} (hd : m.dead = false) {l : List Event}
    (h : ∀ e ∈ l, ∃ msg loc, e = .error msg loc ∧ msg.fatal = false) : m.run l = some m := by
  induction l with
  | nil => rfl
  | cons e l ih =>
    obtain ⟨msg, loc, rfl, hf⟩ := h e (by simp)
    simp only [MS.run, step_error_nonfatal hd hf]
    exact ih (fun e he => h e (by simp [he]))

theorem mapErrs_nonfatal (sec attr p) : ∀ es i, ∀ e ∈ mapErrs sec attr p i es, ∃ msg loc, e = .error msg loc ∧ msg.fatal = false := by
  intro es
  induction es with
  | nil => intro i e he; simp [mapErrs] at he
  | cons kv rest ih =>
    intro i e he
    obtain ⟨k, v⟩ := kv
    cases k <;> cases v <;> simp only [mapErrs, List.mem_cons] at he <;>
      first | exact ih _ e he | (rcases he with rfl | he; exact ⟨_, _, rfl, rfl⟩; exact ih _ e he)

theorem seqErrs_nonfatal (sec p) : ∀ xs i, ∀ e ∈ seqErrs sec p i xs, ∃ msg loc, e = .error msg loc ∧ msg.fatal = false := by
  intro xs
  induction xs with
  | nil => intro i e he; simp [seqErrs] at he
  | cons x rest ih =>
    intro i e he
    cases x <;> simp only [seqErrs, List.mem_cons] at he <;>
      first | exact ih _ e he | (rcases he with rfl | he; exact ⟨_, _, rfl, rfl⟩; exact ih _ e he)

theorem attrValueErrs_nonfatal (sec attr vp v) : ∀ e ∈ attrValueErrs sec attr vp v, ∃ msg loc, e = .error msg loc ∧ msg.fatal = false := by
  cases v with
  | scalar b => simp [attrValueErrs]
  | other k => intro e he; simp only [attrValueErrs, List.mem_singleton] at he; exact ⟨_, _, he, rfl⟩
  | mapping es => exact mapErrs_nonfatal sec attr vp es 0
  | sequence xs => exact seqErrs_nonfatal sec vp xs 0

/-- what the monitor does with a `configureAttribute` event: alive iff the answer was true -/
def AttrEv (m : MS) (mk : Bytes → AttrVal → Loc → Ans → Event) : Prop :=
  ∀ m1, m.le m1 → m1.dead = false → m1.clientOk = true → ∀ a v l ans,
    m1.step (mk a v l ans) = some (if ans.ok then m1 else { m1 with dead := true })

theorem AttrEv.le {m m1 : MS} {mk} (h : AttrEv m mk) (hle : m.le m1) : AttrEv m1 mk :=
  fun m2 hle2 => h m2 (MS.le_trans hle hle2)

theorem attrStep_spec (sec) (call : σ → Bytes → AttrVal → Ans × σ) (mk) {m : MS} {ls : LS} (hg : Good ls m) (hmk : AttrEv m mk)
    (p i k v s) : Spec m (attrStep sec call mk p i k v s ls) := by
  unfold attrStep
  split
  · rename_i attr
    have herrs := run_nonfatal_errors hg.1 (attrValueErrs_nonfatal sec attr (p ++ [.val i]) v)
    split
    · exact ⟨m, herrs, by simp [hg.1], MS.le_refl m, fun _ => hg⟩
    · rename_i av _
      have hstep := hmk m (MS.le_refl m) hg.1 hg.2.1 attr av (at0 (p ++ [.key i])) (call s attr av).1
      cases hok : (call s attr av).1.ok
      · refine ⟨{ m with dead := true }, ?_, by simp, ⟨rfl, rfl, fun _ h => h, fun _ h => h⟩, by simp⟩
        simp [MS.run_append, herrs, MS.run, hstep, hok]
      · refine ⟨m, ?_, by simp [hg.1], MS.le_refl m, fun _ => hg⟩
        simp [MS.run_append, herrs, MS.run, hstep, hok]
  · exact Spec.nonfatal_error hg rfl _ _

theorem attrLoop_spec (sec) (call : σ → Bytes → AttrVal → Ans × σ) (mk) (p) : ∀ es i s ls m, Good ls m → AttrEv m mk →
    Spec m (attrLoop sec call mk p i es s ls) := by
  intro es
  induction es with
  | nil => intro i s ls m hg _; exact Spec.pure hg
  | cons kv rest ih =>
    intro i s ls m hg hmk
    obtain ⟨k, v⟩ := kv
    simp only [attrLoop]
    exact Spec.andThen (attrStep_spec sec call mk hg hmk p i k v s) (fun _ m1 hle hg1 => ih _ _ _ _ hg1 (hmk.le hle))

theorem clientEntryErrs_nonfatal (p i key value) : ∀ e ∈ clientEntryErrs p i key value, ∃ msg loc, e = .error msg loc ∧ msg.fatal = false := by
  unfold clientEntryErrs; split
  · intro e he; simp only [List.mem_singleton] at he; exact ⟨_, _, he, rfl⟩
  · simp

theorem clientLoop_run (p) {m : MS} (hd : m.dead = false) : ∀ es i a,
    m.run (clientLoop p i es a).evs = some (if (clientLoop p i es a).acc.isSome then m else { m with dead := true }) := by
  intro es
  induction es with
  | nil => intro i a; simp [clientLoop, MS.run]
  | cons kv rest ih =>
    intro i a
    obtain ⟨k, v⟩ := kv
    cases k <;> cases v <;> simp only [clientLoop] <;>
      try (simp [MS.run, MS.step, MS.eq_of, Event.allowed, MS.apply, Event.isConfigureClient, hd, Event.fatal, Msg.fatal])
    rename_i key value
    rw [MS.run_append, run_nonfatal_errors hd (clientEntryErrs_nonfatal p i key value)]
    exact ih _ _

theorem parseClient_spec (d : Delegate σ) {m : MS} (hd : m.dead = false) (hc : m.client = false) {ls : LS}
    (ht : ∀ t, t ∈ ls.tools → t ∈ m.tools) (p es s) :
    ∃ m', m.run (parseClient d p es s ls).evs = some m' ∧ m'.dead = !(parseClient d p es s ls).ok ∧
      m'.tools = m.tools ∧ m'.made = m.made ∧ ((parseClient d p es s ls).ok = true → Good (parseClient d p es s ls).ls m') := by
  have hrun := clientLoop_run p hd es 0 {}
  unfold parseClient
  split
  · rename_i hacc
    simp only [hacc, Option.isSome_none] at hrun
    exact ⟨_, hrun, rfl, rfl, rfl, by simp⟩
  · rename_i a hacc
    simp only [hacc, Option.isSome_some, if_true] at hrun
    simp only []
    split
    · rename_i hok
      refine ⟨{ m with client := true, clientOk := true }, ?_, by simp [hd], rfl, rfl, fun _ => ⟨hd, rfl, ht⟩⟩
      simp [MS.run_append, hrun, MS.run, MS.step, MS.eq_of, Event.allowed, MS.apply, Event.isConfigureClient, hd, hc, Event.fatal, hok]
    · rename_i hok
      refine ⟨{ m with client := true, clientOk := false, dead := true }, ?_, rfl, rfl, rfl, by simp⟩
      simp [MS.run_append, hrun, MS.run, MS.step, MS.eq_of, Event.allowed, MS.apply, Event.isConfigureClient, hd, hc, Event.fatal, hok, Msg.fatal]

theorem toolAttr_ev {m : MS} {name : Bytes} (h : name ∈ m.tools) : AttrEv m (.toolAttr name) := by
  intro m1 hle hd hc a v l ans
  have : name ∈ m1.tools := hle.2.2.1 _ h
  cases hok : ans.ok <;> simp [MS.step, MS.eq_of, Event.allowed, MS.apply, Event.isConfigureClient, hd, hc, Event.fatal, hok, this]

theorem nodeAttr_ev {m : MS} {name : Bytes} : AttrEv m (.nodeAttr name) := by
  intro m1 hle hd hc a v l ans
  cases hok : ans.ok <;> simp [MS.step, MS.eq_of, Event.allowed, MS.apply, Event.isConfigureClient, hd, hc, Event.fatal, hok]

theorem cmdAttr_ev {m : MS} {name : Bytes} (h : name ∈ m.made) : AttrEv m (.cmdAttr name) := by
  intro m1 hle hd hc a v l ans
  have : name ∈ m1.made := hle.2.2.2 _ h
  cases hok : ans.ok <;> simp [MS.step, MS.eq_of, Event.allowed, MS.apply, Event.isConfigureClient, hd, hc, Event.fatal, hok, this]

theorem parseTools_spec (d : Delegate σ) (p) : ∀ es i s ls m, Good ls m → Spec m (parseTools d p i es s ls) := by
  intro es
  induction es with
  | nil => intro i s ls m hg; exact Spec.pure hg
  | cons kv rest ih =>
    intro i s ls m hg
    obtain ⟨k, v⟩ := kv
    cases k <;> cases v <;> simp only [parseTools] <;>
      try exact Spec.pre_same (step_error_nonfatal hg.1 rfl _) (ih _ _ _ _ hg)
    rename_i name attrs
    obtain ⟨h1, h1t⟩ := getOrCreateTool_spec d hg name (at0 (p ++ [.key i])) s
    refine Spec.andThen h1 (fun hok m1 hle hg1 => ?_)
    exact Spec.andThen (attrLoop_spec .tools _ _ _ attrs 0 _ _ m1 hg1 (toolAttr_ev (hg1.2.2 _ (h1t hok))))
      (fun _ m2 _ hg2 => ih _ _ _ _ hg2)

theorem parseTargets_spec (d : Delegate σ) (p) : ∀ es i s ls m, Good ls m → Spec m (parseTargets d p i es s ls) := by
  intro es
  induction es with
  | nil => intro i s ls m hg; exact Spec.pure hg
  | cons kv rest ih =>
    intro i s ls m hg
    obtain ⟨k, v⟩ := kv
    cases k <;> cases v <;> simp only [parseTargets] <;>
      try exact Spec.pre_same (step_error_nonfatal hg.1 rfl _) (ih _ _ _ _ hg)
    rename_i name xs
    refine Spec.andThen (nodeList_spec d _ rfl _ xs 0 s ls m hg) (fun _ m1 _ hg1 => ?_)
    exact Spec.pre_same (by simp [MS.step, MS.eq_of, Event.allowed, MS.apply, Event.isConfigureClient, hg1.1, hg1.2.1, Event.fatal]) (ih _ _ _ _ ⟨hg1.1, hg1.2.1, hg1.2.2⟩)

theorem parseDefault_spec (d : Delegate σ) {m : MS} {ls : LS} (hg : Good ls m) (t vp s) : Spec m (parseDefault d t vp s ls) := by
  unfold parseDefault; split
  · exact ⟨m, by simp [MS.run, MS.step, MS.eq_of, Event.allowed, MS.apply, Event.isConfigureClient, hg.1, hg.2.1, Event.fatal], by simp [hg.1], MS.le_refl m, fun _ => ⟨hg.1, hg.2.1, hg.2.2⟩⟩
  · exact Spec.fatal_error hg.1 rfl _ _ _

theorem parseNodes_spec (d : Delegate σ) (p) : ∀ es i s ls m, Good ls m → Spec m (parseNodes d p i es s ls) := by
  intro es
  induction es with
  | nil => intro i s ls m hg; exact Spec.pure hg
  | cons kv rest ih =>
    intro i s ls m hg
    obtain ⟨k, v⟩ := kv
    cases k <;> cases v <;> simp only [parseNodes] <;>
      try exact Spec.pre_same (step_error_nonfatal hg.1 rfl _) (ih _ _ _ _ hg)
    rename_i name attrs
    refine Spec.andThen (getOrCreateNode_spec d hg name false s) (fun _ m1 _ hg1 => ?_)
    exact Spec.andThen (attrLoop_spec .nodes _ _ _ attrs 0 _ _ m1 hg1 nodeAttr_ev) (fun _ m2 _ hg2 => ih _ _ _ _ hg2)

/-- what the monitor does with a void command-configuration event -/
def VoidEv (m : MS) (mk : List Bytes → Loc → List Bytes → Event) : Prop :=
  ∀ m1, m.le m1 → m1.dead = false → m1.clientOk = true → ∀ n l e, m1.step (mk n l e) = some m1

theorem cmdIO_spec (d : Delegate σ) (io call mk) {m : MS} {ls : LS} (hg : Good ls m) (hmk : VoidEv m mk) (p i v s) :
    Spec m (cmdIO d io call mk p i v s ls) := by
  unfold cmdIO
  split
  · rename_i xs
    refine Spec.andThen (nodeList_spec d _ rfl _ xs 0 s ls m hg) (fun _ m1 hle hg1 => ?_)
    exact ⟨m1, by simp [MS.run, hmk m1 hle hg1.1 hg1.2.1], by simp [hg1.1], MS.le_refl m1, fun _ => hg1⟩
  · exact Spec.nonfatal_error hg rfl _ _

theorem cmdDesc_spec (d : Delegate σ) (cmd) {m : MS} {ls : LS} (hg : Good ls m) (hc : cmd ∈ m.made) (p i v s) :
    Spec m (cmdDesc d cmd p i v s ls) := by
  unfold cmdDesc
  split
  · exact ⟨m, by simp [MS.run, MS.step, MS.eq_of, Event.allowed, MS.apply, Event.isConfigureClient, hg.1, hg.2.1, Event.fatal, hc], by simp [hg.1], MS.le_refl m, fun _ => hg⟩
  · exact Spec.nonfatal_error hg rfl _ _

theorem cmdAttrStep_spec (d : Delegate σ) (cmd) {m : MS} {ls : LS} (hg : Good ls m) (hc : cmd ∈ m.made) (p i k v s) :
    Spec m (cmdAttrStep d cmd p i k v s ls) := by
  unfold cmdAttrStep
  split
  · refine cmdIO_spec d _ _ _ hg ?_ p i v s
    intro m1 hle hd hco n l e
    have : cmd ∈ m1.made := hle.2.2.2 _ hc
    simp [MS.step, MS.eq_of, Event.allowed, MS.apply, Event.isConfigureClient, hd, hco, Event.fatal, this]
  · split
    · refine cmdIO_spec d _ _ _ hg ?_ p i v s
      intro m1 hle hd hco n l e
      have : cmd ∈ m1.made := hle.2.2.2 _ hc
      simp [MS.step, MS.eq_of, Event.allowed, MS.apply, Event.isConfigureClient, hd, hco, Event.fatal, this]
    · split
      · exact cmdDesc_spec d cmd hg hc p i v s
      · exact attrStep_spec _ _ _ hg (cmdAttr_ev hc) p i k v s

theorem cmdAttrs_spec (d : Delegate σ) (cmd p) : ∀ es i s ls m, Good ls m → cmd ∈ m.made → Spec m (cmdAttrs d cmd p i es s ls) := by
  intro es
  induction es with
  | nil => intro i s ls m hg _; exact Spec.pure hg
  | cons kv rest ih =>
    intro i s ls m hg hc
    obtain ⟨k, v⟩ := kv
    simp only [cmdAttrs]
    exact Spec.andThen (cmdAttrStep_spec d cmd hg hc p i k v s) (fun _ m1 hle hg1 => ih _ _ _ _ hg1 (hle.2.2.2 _ hc))

/-- `Spec` with an extra fact about the monitor state after a success -/
def SpecQ (m : MS) (r : R σ) (Q : MS → Prop) : Prop :=
  ∃ m', m.run r.evs = some m' ∧ m'.dead = !r.ok ∧ m.le m' ∧ (r.ok = true → Good r.ls m' ∧ Q m')

theorem SpecQ.andThen {m : MS} {r : R σ} {f : σ → LS → R σ} {Q : MS → Prop} (h1 : SpecQ m r Q)
    (h2 : r.ok = true → ∀ m1, m.le m1 → Good r.ls m1 → Q m1 → Spec m1 (f r.st r.ls)) : Spec m (r.andThen f) := by
  obtain ⟨m1, hrun, hdead, hle, hgood⟩ := h1
  cases hok : r.ok
  · rw [R.andThen_of_not_ok hok]; exact ⟨m1, hrun, by simpa [hok] using hdead, hle, by simp [hok]⟩
  · rw [R.andThen_of_ok hok]
    obtain ⟨m2, hrun2, hdead2, hle2, hgood2⟩ := h2 hok m1 hle (hgood hok).1 (hgood hok).2
    refine ⟨m2, ?_, by simpa using hdead2, MS.le_trans hle hle2, by simpa using hgood2⟩
    simp [MS.run_append, hrun, hrun2]

theorem createCommand_spec (d : Delegate σ) (tool name loc s) {m : MS} {ls : LS} (hg : Good ls m) (htool : tool ∈ m.tools) :
    SpecQ m (createCommand d tool name loc s ls) (fun m' => name ∈ m'.made) := by
  unfold createCommand; split
  · exact ⟨{ m with made := name :: m.made }, by simp [MS.run, MS.step, MS.eq_of, Event.allowed, MS.apply, Event.isConfigureClient, hg.1, hg.2.1, Event.fatal, htool], by simp [hg.1],
      ⟨rfl, rfl, fun _ h => h, fun c h => List.mem_cons_of_mem _ h⟩, fun _ => ⟨⟨hg.1, hg.2.1, hg.2.2⟩, by simp⟩⟩
  · exact ⟨{ m with dead := true }, by simp [MS.run, MS.step, MS.eq_of, Event.allowed, MS.apply, Event.isConfigureClient, hg.1, hg.2.1, Event.fatal, htool, Msg.fatal], rfl,
      ⟨rfl, rfl, fun _ h => h, fun _ h => h⟩, by simp⟩

theorem finishCommand_spec (d : Delegate σ) (name s) {m : MS} {ls : LS} (hg : Good ls m) (hc : name ∈ m.made) :
    Spec m (finishCommand d name s ls) :=
  ⟨m, by simp [finishCommand, MS.run, MS.step, MS.eq_of, Event.allowed, MS.apply, Event.isConfigureClient, hg.1, hg.2.1, Event.fatal, hc], by simp [finishCommand, hg.1], MS.le_refl m,
    fun _ => ⟨hg.1, hg.2.1, hg.2.2⟩⟩

theorem parseCommand_spec (d : Delegate σ) (name kp ap attrs s) {m : MS} {ls : LS} (hg : Good ls m) :
    Spec m (parseCommand d name kp ap attrs s ls) := by
  unfold parseCommand
  split
  · exact Spec.nonfatal_error hg rfl _ _
  · rename_i tk tv more
    split
    · exact Spec.nonfatal_error hg rfl _ _
    · split
      · rename_i tool
        obtain ⟨h1, h1t⟩ := getOrCreateTool_spec d hg tool (at0 (ap ++ [.val 0])) s
        refine Spec.andThen h1 (fun hok m1 hle hg1 => ?_)
        refine SpecQ.andThen (createCommand_spec d tool name _ _ hg1 (hg1.2.2 _ (h1t hok))) (fun _ m2 _ hg2 hmade => ?_)
        refine Spec.andThen (cmdAttrs_spec d name ap more 1 _ _ m2 hg2 hmade) (fun _ m3 hle3 hg3 => ?_)
        exact finishCommand_spec d name _ hg3 (hle3.2.2.2 _ hmade)
      · exact Spec.nonfatal_error hg rfl _ _

theorem parseCommands_spec (d : Delegate σ) (p) : ∀ es i s ls m, Good ls m → Spec m (parseCommands d p i es s ls) := by
  intro es
  induction es with
  | nil => intro i s ls m hg; exact Spec.pure hg
  | cons kv rest ih =>
    intro i s ls m hg
    obtain ⟨k, v⟩ := kv
    cases k <;> cases v <;> simp only [parseCommands] <;>
      try exact Spec.pre_same (step_error_nonfatal hg.1 rfl _) (ih _ _ _ _ hg)
    rename_i name attrs
    split
    · exact Spec.pre_same (step_error_nonfatal hg.1 rfl _) (ih _ _ _ _ hg)
    · exact Spec.andThen (parseCommand_spec d name _ _ attrs s hg) (fun _ m1 _ hg1 => ih _ _ _ _ hg1)

theorem parseSection_spec (d : Delegate σ) (sec i v s) {m : MS} {ls : LS} (hg : Good ls m) : Spec m (parseSection d sec i v s ls) := by
  unfold parseSection
  split
  · exact parseTools_spec d _ _ _ _ _ _ hg
  · exact parseTargets_spec d _ _ _ _ _ _ hg
  · exact parseDefault_spec d hg _ _ _
  · exact parseNodes_spec d _ _ _ _ _ _ hg
  · exact parseCommands_spec d _ _ _ _ _ _ hg
  · exact Spec.fatal_error hg.1 rfl _ _ _

theorem sections_spec (d : Delegate σ) : ∀ stages i es s ls m, Good ls m → Spec m (sections d stages i es s ls) := by
  intro stages
  induction stages with
  | nil =>
    intro i es s ls m hg
    cases es with
    | nil => exact Spec.pure hg
    | cons kv rest => exact Spec.fatal_error hg.1 rfl _ _ _
  | cons sec more ih =>
    intro i es s ls m hg
    cases es with
    | nil => exact Spec.pure hg
    | cons kv rest =>
      obtain ⟨k, v⟩ := kv
      simp only [sections]
      split
      · exact Spec.andThen (parseSection_spec d sec i v s hg) (fun _ m1 _ hg1 => ih _ _ _ _ _ hg1)
      · exact ih _ _ _ _ _ hg

/-- the whole root: from a monitor that has seen nothing of the delegate yet -/
theorem parseRoot_spec (d : Delegate σ) (root s) {m : MS} (hd : m.dead = false) (hc : m.client = false) :
    ∃ m', m.run (parseRoot d root s {}).evs = some m' ∧ m'.dead = !(parseRoot d root s {}).ok ∧
      ((parseRoot d root s {}).ok = true → m'.clientOk = true) := by
  have hfatal : ∀ msg loc, msg.fatal = true → ∃ m', m.run [Event.error msg loc] = some m' ∧ m'.dead = !false ∧
      (false = true → m'.clientOk = true) :=
    fun msg loc hf => ⟨{ m with dead := true }, by simp [MS.run, MS.step, MS.eq_of, Event.allowed, MS.apply, Event.isConfigureClient, hd, Event.fatal, hf], rfl, by simp⟩
  unfold parseRoot
  split
  · exact hfatal _ _ rfl
  · rename_i k v rest
    split
    · exact hfatal _ _ rfl
    · split
      · rename_i ces
        obtain ⟨m1, hrun1, hdead1, _, _, hgood1⟩ := parseClient_spec d hd hc (ls := {}) (by simp) [.val 0] ces s
        cases hok : (parseClient d [.val 0] ces s {}).ok
        · rw [R.andThen_of_not_ok hok]; exact ⟨m1, hrun1, by simpa [hok] using hdead1, by simp [hok]⟩
        · rw [R.andThen_of_ok hok]
          obtain ⟨m2, hrun2, hdead2, _, hg2⟩ := sections_spec d allSecs 1 rest (parseClient d [.val 0] ces s {}).st _ m1 (hgood1 hok)
          exact ⟨m2, by simp [MS.run_append, hrun1, hrun2], by simpa using hdead2, fun h => (hg2 (by simpa using h)).2.1⟩
      · exact hfatal _ _ rfl
  · exact hfatal _ _ rfl

/-! ### what acceptance by the monitor means (generic facts about `MS.run`) -/

theorem MS.step_dead {m m1 : MS} {e : Event} (h : m.step e = some m1) : m.dead = false ∧ m1.dead = e.fatal := by
  unfold MS.step at h
  cases hd : m.dead
  · simp only [hd, Bool.false_eq_true, if_false] at h
    split at h
    · simp only [Option.some.injEq] at h; subst h; simp [MS.apply, hd]
    · cases h
  · simp [hd] at h

theorem MS.step_eq {m m1 : MS} {e : Event} (h : m.step e = some m1) : e.allowed m = true ∧ m1 = m.apply e := by
  unfold MS.step at h
  split at h
  · cases h
  · split at h
    · rename_i ha; simp only [Option.some.injEq] at h; exact ⟨ha, h.symm⟩
    · cases h

theorem MS.run_split {m m' : MS} {pre post : List Event} {e : Event} (h : m.run (pre ++ e :: post) = some m') :
    ∃ m1 m2, m.run pre = some m1 ∧ m1.step e = some m2 ∧ m2.run post = some m' := by
  rw [MS.run_append] at h
  cases h1 : m.run pre with
  | none => simp [h1] at h
  | some m1 =>
    simp only [h1, Option.bind_some, MS.run] at h
    cases h2 : m1.step e with
    | none => simp [h2] at h
    | some m2 => simp only [h2] at h; exact ⟨m1, m2, rfl, h2, h⟩

/-- nothing follows a fatal event -/
theorem MS.run_fatal_last {m m' : MS} {pre post : List Event} {e : Event} (h : m.run (pre ++ e :: post) = some m')
    (hf : e.fatal = true) : post = [] := by
  obtain ⟨m1, m2, _, h2, h3⟩ := MS.run_split h
  have hd : m2.dead = true := by rw [(MS.step_dead h2).2, hf]
  cases post with
  | nil => rfl
  | cons x rest => simp [MS.run, MS.step, hd] at h3

theorem MS.run_dead_iff {m m' : MS} {l : List Event} (h : m.run l = some m') (hd : m.dead = false) :
    m'.dead = l.any Event.fatal := by
  induction l generalizing m with
  | nil => simp [MS.run] at h; subst h; simp [hd]
  | cons e l ih =>
    simp only [MS.run] at h
    cases h1 : m.step e with
    | none => simp [h1] at h
    | some m1 =>
      simp only [h1] at h
      have hd1 := (MS.step_dead h1).2
      cases hf : e.fatal
      · rw [hf] at hd1; simp [hf, ih h hd1]
      · rw [hf] at hd1
        cases l with
        | nil => simp [MS.run] at h; subst h; simp [hf, hd1]
        | cons x rest => simp [MS.run, MS.step, hd1] at h

/-- the monitor ends dead iff the LAST event is fatal (and then no earlier one is) -/
theorem MS.run_dead_last {m m' : MS} {l : List Event} (h : m.run l = some m') (hd : m.dead = false) (hd' : m'.dead = true) :
    ∃ pre e, l = pre ++ [e] ∧ e.fatal = true ∧ ∀ x ∈ pre, x.fatal = false := by
  rw [MS.run_dead_iff h hd, List.any_eq_true] at hd'
  obtain ⟨e, he, hf⟩ := hd'
  obtain ⟨pre, post, rfl⟩ := List.append_of_mem he
  have := MS.run_fatal_last h hf
  subst this
  refine ⟨pre, e, rfl, hf, fun x hx => ?_⟩
  cases hfx : x.fatal
  · rfl
  · obtain ⟨p1, p2, rfl⟩ := List.append_of_mem hx
    have h' : m.run (p1 ++ x :: (p2 ++ [e])) = some m' := by simpa using h
    have := MS.run_fatal_last h' hfx
    simp at this

theorem MS.run_alive_nofatal {m m' : MS} {l : List Event} (h : m.run l = some m') (hd : m.dead = false) (hd' : m'.dead = false) :
    ∀ x ∈ l, x.fatal = false := by
  rw [MS.run_dead_iff h hd] at hd'
  intro x hx
  cases hfx : x.fatal
  · rfl
  · have : l.any Event.fatal = true := List.any_eq_true.mpr ⟨x, hx, hfx⟩
    rw [this] at hd'; cases hd'

/-- `configureClient` at most once -/
theorem MS.run_client_once {m m' : MS} {l : List Event} (h : m.run l = some m') :
    l.countP Event.isConfigureClient ≤ (if m.client then 0 else 1) := by
  induction l generalizing m with
  | nil => simp
  | cons e l ih =>
    simp only [MS.run] at h
    cases h1 : m.step e with
    | none => simp [h1] at h
    | some m1 =>
      simp only [h1] at h
      have := ih h
      obtain ⟨ha, rfl⟩ := MS.step_eq h1
      simp only [MS.apply] at this
      cases hcc : e.isConfigureClient
      · simp only [List.countP_cons, hcc, Bool.false_eq_true, if_false, Bool.or_false] at this ⊢; omega
      · have hmc : m.client = false := by cases e <;> simp_all [Event.isConfigureClient, Event.allowed]
        simp only [hcc, Bool.or_true, if_true] at this
        simp only [List.countP_cons, hcc, if_true, hmc, Bool.false_eq_true, if_false]; omega

/-- the tools the monitor knows were looked up (successfully) before -/
theorem MS.run_tools {m m' : MS} {l : List Event} (h : m.run l = some m') :
    ∀ t, t ∈ m'.tools → t ∈ m.tools ∨ Event.lookupTool t true ∈ l := by
  induction l generalizing m with
  | nil => simp [MS.run] at h; subst h; intro t ht; exact Or.inl ht
  | cons e l ih =>
    simp only [MS.run] at h
    cases h1 : m.step e with
    | none => simp [h1] at h
    | some m1 =>
      simp only [h1] at h
      obtain ⟨_, rfl⟩ := MS.step_eq h1
      intro t ht
      rcases ih h t ht with h2 | h2
      · simp only [MS.apply] at h2
        split at h2
        · simp only [List.mem_cons] at h2
          rcases h2 with rfl | h2
          · exact Or.inr (by simp)
          · exact Or.inl h2
        · exact Or.inl h2
      · exact Or.inr (List.mem_cons_of_mem _ h2)

/-- the commands the monitor knows were created before -/
theorem MS.run_made {m m' : MS} {l : List Event} (h : m.run l = some m') :
    ∀ c, c ∈ m'.made → c ∈ m.made ∨ ∃ t, Event.createCommand t c true ∈ l := by
  induction l generalizing m with
  | nil => simp [MS.run] at h; subst h; intro t ht; exact Or.inl ht
  | cons e l ih =>
    simp only [MS.run] at h
    cases h1 : m.step e with
    | none => simp [h1] at h
    | some m1 =>
      simp only [h1] at h
      obtain ⟨_, rfl⟩ := MS.step_eq h1
      intro c hc
      rcases ih h c hc with h2 | ⟨t, h2⟩
      · simp only [MS.apply] at h2
        split at h2
        · simp only [List.mem_cons] at h2
          rcases h2 with rfl | h2
          · exact Or.inr ⟨_, List.mem_cons_self⟩
          · exact Or.inl h2
        · exact Or.inl h2
      · exact Or.inr ⟨t, List.mem_cons_of_mem _ h2⟩

/-- if the monitor has `clientOk`, a `configureClient` that answered true happened before -/
theorem MS.run_clientOk {m m' : MS} {l : List Event} (h : m.run l = some m') (hok : m'.clientOk = true) :
    m.clientOk = true ∨ ∃ n v pr loc ans, Event.configureClient n v pr loc ans ∈ l ∧ ans.ok = true := by
  induction l generalizing m with
  | nil => simp [MS.run] at h; subst h; exact Or.inl hok
  | cons e l ih =>
    simp only [MS.run] at h
    cases h1 : m.step e with
    | none => simp [h1] at h
    | some m1 =>
      simp only [h1] at h
      obtain ⟨_, rfl⟩ := MS.step_eq h1
      rcases ih h with h2 | ⟨n, v, pr, loc, ans, h2, h3⟩
      · simp only [MS.apply] at h2
        split at h2
        · exact Or.inr ⟨_, _, _, _, _, List.mem_cons_self, h2⟩
        · exact Or.inl h2
      · exact Or.inr ⟨n, v, pr, loc, ans, List.mem_cons_of_mem _ h2, h3⟩

/-! ### the root and `load()` -/

theorem parseSection_under (d : Delegate σ) {all : List (YNode × YNode)} {i : Nat} {k v : YNode} (hi : all[i]? = some (k, v))
    (sec s ls) : AllUnder (.mapping all) [.val i] (parseSection d sec i v s ls).evs := by
  have hv : nodeAt [.val i] (.mapping all) = some v := nodeAt_val (p := []) rfl hi
  have herr : ∀ m, (Event.error m (at0 [.val i])).under (.mapping all) [.val i] :=
    fun m => under_of_loc (q := []) (by simp [Event.loc]) hv rfl
  unfold parseSection
  split
  · exact parseTools_under d hv _ 0 _ _ rfl
  · exact parseTargets_under d hv _ 0 _ _ rfl
  · exact parseDefault_under d herr _ _ _
  · exact parseNodes_under d hv _ 0 _ _ rfl
  · exact parseCommands_under d hv _ 0 _ _ rfl
  · simpa using herr _

theorem sections_under (d : Delegate σ) {all : List (YNode × YNode)} : ∀ stages i es s ls, all.drop i = es →
    AllUnder (.mapping all) [] (sections d stages i es s ls).evs := by
  intro stages
  induction stages with
  | nil =>
    intro i es s ls hd
    cases es with
    | nil => simp [sections]
    | cons kv rest =>
      obtain ⟨hi, _⟩ := drop_cons_get hd
      simp only [sections, AllUnder_cons, AllUnder_nil, and_true]
      exact under_of_loc (p := []) (t := .mapping all) (by simp [Event.loc]) rfl (valid_entry hi)
  | cons sec more ih =>
    intro i es s ls hd
    cases es with
    | nil => simp [sections]
    | cons kv rest =>
      obtain ⟨k, v⟩ := kv
      obtain ⟨hi, hd'⟩ := drop_cons_get hd
      simp only [sections]
      split
      · exact AllUnder_andThen (AllUnder.weaken (p := []) (parseSection_under d hi sec s ls)) (fun _ => ih _ _ _ _ hd')
      · exact ih _ _ _ _ hd

theorem parseRoot_under (d : Delegate σ) (root s ls) : AllUnder root [] (parseRoot d root s ls).evs := by
  have hself : ∀ m, (Event.error m (at0 [])).under root [] := fun m => under_of_loc (p := []) (q := []) rfl rfl rfl
  unfold parseRoot
  split
  · simpa using hself _
  · rename_i k v rest
    have h0 : (((k, v) :: rest) : List (YNode × YNode))[0]? = some (k, v) := rfl
    split
    · simp only [AllUnder_cons, AllUnder_nil, and_true]
      exact under_of_loc (p := []) (t := .mapping ((k, v) :: rest)) rfl rfl (valid_key h0)
    · split
      · rename_i ces
        refine AllUnder_andThen ?_ (fun _ => sections_under d allSecs 1 rest _ _ rfl)
        exact AllUnder.weaken (p := []) (parseClient_under d (nodeAt_val (p := []) rfl h0) s ls)
      · simp only [AllUnder_cons, AllUnder_nil, and_true]
        exact under_of_loc (p := []) (t := .mapping ((k, v) :: rest)) rfl rfl (valid_val h0)
  · simpa using hself _

theorem valid_of_under {root : YNode} {more : List (Option YNode)} {e : Event} (h : e.under root []) :
    e.loc.valid (some root :: more) = true := by
  unfold Event.under at h
  cases hl : e.loc with
  | none => rfl
  | node dd q => rw [hl] at h; obtain ⟨rfl, _, hv⟩ := h; simpa [Loc.valid] using hv

/-- every token of every event is nowhere or a node of a document of the stream -/
theorem load_locs (d : Delegate σ) (input : Option (List (Option YNode))) (s : σ) :
    ∀ e ∈ (load d input s).trace, e.loc.valid (input.getD []) = true := by
  unfold load
  split
  · simp [Event.loc, Loc.valid]
  · simp [Event.loc, Loc.valid]
  · simp [Event.loc, Loc.valid]
  · rename_i root more
    have h := parseRoot_under d root s {}
    have hall : ∀ e ∈ (parseRoot d root s {}).evs, e.loc.valid (some root :: more) = true := fun e he => valid_of_under (h e he)
    simp only [Option.getD_some]
    split
    · intro e he; simp only [List.mem_cons] at he; rcases he with rfl | he
      · rfl
      · exact hall e he
    · split
      · intro e he; simp only [List.mem_cons] at he; rcases he with rfl | he
        · rfl
        · exact hall e he
      · intro e he; simp only [List.mem_cons, List.mem_append, List.not_mem_nil, or_false] at he
        rcases he with rfl | he | rfl
        · rfl
        · exact hall e he
        · simp [Event.loc, Loc.valid, pathValid]
      · split
        · split
          · intro e he; simp only [List.mem_cons, List.mem_append, List.not_mem_nil, or_false] at he
            rcases he with rfl | he | rfl
            · rfl
            · exact hall e he
            · rfl
          · intro e he; simp only [List.mem_cons] at he; rcases he with rfl | he
            · rfl
            · exact hall e he
        · intro e he; simp only [List.mem_cons] at he; rcases he with rfl | he
          · rfl
          · exact hall e he

/-- the monitor accepts the whole trace of `load()`, and ends dead exactly when the result is null -/
theorem load_monitor (d : Delegate σ) (input : Option (List (Option YNode))) (s : σ) :
    ∃ m', MS.run {} (load d input s).trace = some m' ∧ (m'.dead = true ↔ (load d input s).result = .null) := by
  have hfat : ∀ (m : MS) (msg : Msg) (loc : Loc), m.dead = false → msg.fatal = true →
      m.step (.error msg loc) = some { m with dead := true } :=
    fun m msg loc hd hf => MS.step_fatal hd rfl (by simp [Event.fatal, hf]) rfl
  have hsb : (MS.step {} .setBuffer) = some {} := MS.step_neutral rfl rfl rfl rfl
  unfold load
  split
  · exact ⟨{ dead := true }, by simp [MS.run, hfat {} .unableToOpen _ rfl rfl], by simp⟩
  · exact ⟨{ dead := true }, by simp [MS.run, hsb, hfat {} .missingDocument _ rfl rfl], by simp⟩
  · exact ⟨{ dead := true }, by simp [MS.run, hsb, hfat {} .missingDocument _ rfl rfl], by simp⟩
  · rename_i root more
    obtain ⟨m1, hrun, hdead, hcok⟩ := parseRoot_spec d root s (m := {}) rfl rfl
    cases hok : (parseRoot d root s {}).ok
    · simp only [hok, Bool.not_false, if_true]
      exact ⟨m1, by simp [MS.run, hsb, hrun], by simp [hdead, hok]⟩
    · simp only [hok, Bool.not_true, Bool.false_eq_true, if_false]
      have hd1 : m1.dead = false := by simp [hdead, hok]
      have hmp : ∀ n cs, m1.step (.multipleProducers n cs) = some { m1 with dead := true } :=
        fun n cs => MS.step_fatal hd1 (by simp [Event.allowed, hcok hok]) rfl rfl
      cases more with
      | nil =>
        simp only []
        split
        · split
          · exact ⟨{ m1 with dead := true }, by simp [MS.run, hsb, MS.run_append, hrun, hmp], by simp⟩
          · exact ⟨m1, by simp [MS.run, hsb, hrun], by simp [hd1]⟩
        · exact ⟨m1, by simp [MS.run, hsb, hrun], by simp [hd1]⟩
      | cons r2 rest =>
        cases r2 with
        | none => exact ⟨m1, by simp [MS.run, hsb, hrun], by simp [hd1]⟩
        | some t2 =>
          exact ⟨{ m1 with dead := true }, by simp [MS.run, hsb, MS.run_append, hrun, hfat m1 .additionalDocument _ hd1 rfl], by simp⟩

/-! ### the answers recorded in the trace are the delegate's -/

def Event.honest (d : Delegate σ) : Event → Prop
  | .toolAttr t a v _ ans => ∃ s, ans = (d.toolAttr s t a v).1
  | .nodeAttr t a v _ ans => ∃ s, ans = (d.nodeAttr s t a v).1
  | .cmdAttr t a v _ ans => ∃ s, ans = (d.cmdAttr s t a v).1
  | _ => True

def AllHonest (d : Delegate σ) (evs : List Event) : Prop := ∀ e ∈ evs, e.honest d

@[simp] theorem AllHonest_nil (d : Delegate σ) : AllHonest d [] := by simp [AllHonest]
@[simp] theorem AllHonest_cons (d : Delegate σ) (e l) : AllHonest d (e :: l) ↔ e.honest d ∧ AllHonest d l := by
  simp [AllHonest]
@[simp] theorem AllHonest_append (d : Delegate σ) (l1 l2) : AllHonest d (l1 ++ l2) ↔ AllHonest d l1 ∧ AllHonest d l2 := by
  simp [AllHonest, or_imp, forall_and]

theorem AllHonest_andThen {d : Delegate σ} {r : R σ} {f : σ → LS → R σ} (h1 : AllHonest d r.evs)
    (h2 : AllHonest d (f r.st r.ls).evs) : AllHonest d (r.andThen f).evs := by
  rw [R.andThen_evs]; cases h : r.ok
  · simpa using h1
  · simp [h1, h2]

theorem AllHonest_errors (d : Delegate σ) {l : List Event} (h : ∀ e ∈ l, ∃ msg loc, e = .error msg loc ∧ msg.fatal = false) :
    AllHonest d l := by
  intro e he; obtain ⟨msg, loc, rfl, _⟩ := h e he; trivial

theorem getOrCreateNode_honest (d : Delegate σ) (name implicit s ls) : AllHonest d (getOrCreateNode d name implicit s ls).evs := by
  unfold getOrCreateNode; split <;> simp [Event.honest]

theorem getOrCreateTool_honest (d : Delegate σ) (name loc s ls) : AllHonest d (getOrCreateTool d name loc s ls).evs := by
  unfold getOrCreateTool; split
  · simp
  · split <;> simp [Event.honest]

theorem nodeList_honest (d : Delegate σ) (m p) : ∀ xs i s ls, AllHonest d (nodeList d m p i xs s ls).evs := by
  intro xs
  induction xs with
  | nil => intro i s ls; simp [nodeList]
  | cons x rest ih =>
    intro i s ls
    cases x with
    | scalar name => simp only [nodeList]; exact AllHonest_andThen (getOrCreateNode_honest d _ _ _ _) (ih _ _ _)
    | mapping es => simp only [nodeList, R.pre_evs, List.singleton_append, AllHonest_cons]; exact ⟨trivial, ih _ _ _⟩
    | sequence es => simp only [nodeList, R.pre_evs, List.singleton_append, AllHonest_cons]; exact ⟨trivial, ih _ _ _⟩
    | other k => simp only [nodeList, R.pre_evs, List.singleton_append, AllHonest_cons]; exact ⟨trivial, ih _ _ _⟩

theorem attrStep_honest (d : Delegate σ) (sec) (call : σ → Bytes → AttrVal → Ans × σ) (mk : Bytes → AttrVal → Loc → Ans → Event)
    (hmk : ∀ s a v l, (mk a v l (call s a v).1).honest d) (p i k v s ls) : AllHonest d (attrStep sec call mk p i k v s ls).evs := by
  unfold attrStep
  split
  · rename_i attr
    have h1 := AllHonest_errors d (attrValueErrs_nonfatal sec attr (p ++ [.val i]) v)
    split
    · exact h1
    · simp only [AllHonest_append, AllHonest_cons, AllHonest_nil, and_true]; exact ⟨h1, hmk _ _ _ _⟩
  · simp [Event.honest]

theorem attrLoop_honest (d : Delegate σ) (sec) (call : σ → Bytes → AttrVal → Ans × σ) (mk : Bytes → AttrVal → Loc → Ans → Event)
    (hmk : ∀ s a v l, (mk a v l (call s a v).1).honest d) (p) : ∀ es i s ls, AllHonest d (attrLoop sec call mk p i es s ls).evs := by
  intro es
  induction es with
  | nil => intro i s ls; simp [attrLoop]
  | cons kv rest ih =>
    intro i s ls
    obtain ⟨k, v⟩ := kv
    simp only [attrLoop]
    exact AllHonest_andThen (attrStep_honest d sec call mk hmk p i k v s ls) (ih _ _ _)

theorem parseTools_honest (d : Delegate σ) (p) : ∀ es i s ls, AllHonest d (parseTools d p i es s ls).evs := by
  intro es
  induction es with
  | nil => intro i s ls; simp [parseTools]
  | cons kv rest ih =>
    intro i s ls
    obtain ⟨k, v⟩ := kv
    cases k <;> cases v <;> simp only [parseTools, R.pre_evs, List.singleton_append, AllHonest_cons] <;>
      first | exact ⟨trivial, ih _ _ _⟩ | skip
    rename_i name attrs
    exact AllHonest_andThen (getOrCreateTool_honest d _ _ _ _)
      (AllHonest_andThen (attrLoop_honest d .tools (fun s => d.toolAttr s name) (.toolAttr name) (fun s a v l => ⟨s, rfl⟩) _ _ _ _ _) (ih _ _ _))

theorem parseTargets_honest (d : Delegate σ) (p) : ∀ es i s ls, AllHonest d (parseTargets d p i es s ls).evs := by
  intro es
  induction es with
  | nil => intro i s ls; simp [parseTargets]
  | cons kv rest ih =>
    intro i s ls
    obtain ⟨k, v⟩ := kv
    cases k <;> cases v <;> simp only [parseTargets, R.pre_evs, List.singleton_append, AllHonest_cons] <;>
      first | exact ⟨trivial, ih _ _ _⟩ | skip
    rename_i name xs
    refine AllHonest_andThen (nodeList_honest d _ _ _ _ _ _) ?_
    simp only [R.pre_evs, List.singleton_append, AllHonest_cons]; exact ⟨trivial, ih _ _ _⟩

theorem parseNodes_honest (d : Delegate σ) (p) : ∀ es i s ls, AllHonest d (parseNodes d p i es s ls).evs := by
  intro es
  induction es with
  | nil => intro i s ls; simp [parseNodes]
  | cons kv rest ih =>
    intro i s ls
    obtain ⟨k, v⟩ := kv
    cases k <;> cases v <;> simp only [parseNodes, R.pre_evs, List.singleton_append, AllHonest_cons] <;>
      first | exact ⟨trivial, ih _ _ _⟩ | skip
    rename_i name attrs
    exact AllHonest_andThen (getOrCreateNode_honest d _ _ _ _)
      (AllHonest_andThen (attrLoop_honest d .nodes (fun s => d.nodeAttr s name) (.nodeAttr name) (fun s a v l => ⟨s, rfl⟩) _ _ _ _ _) (ih _ _ _))

theorem cmdAttrStep_honest (d : Delegate σ) (cmd p i k v s ls) : AllHonest d (cmdAttrStep d cmd p i k v s ls).evs := by
  have hio : ∀ io call mk, (∀ n l e, (mk n l e : Event).honest d) → AllHonest d (cmdIO d io call mk p i v s ls).evs := by
    intro io call mk hmk
    unfold cmdIO; split
    · refine AllHonest_andThen (nodeList_honest d _ _ _ _ _ _) ?_
      simp only [AllHonest_cons, AllHonest_nil, and_true]; exact hmk _ _ _
    · simp [Event.honest]
  unfold cmdAttrStep
  split
  · exact hio _ _ _ (fun _ _ _ => trivial)
  · split
    · exact hio _ _ _ (fun _ _ _ => trivial)
    · split
      · unfold cmdDesc; split <;> simp [Event.honest]
      · exact attrStep_honest d .commands (fun s => d.cmdAttr s cmd) (.cmdAttr cmd) (fun s a v l => ⟨s, rfl⟩) _ _ _ _ _ _

theorem cmdAttrs_honest (d : Delegate σ) (cmd p) : ∀ es i s ls, AllHonest d (cmdAttrs d cmd p i es s ls).evs := by
  intro es
  induction es with
  | nil => intro i s ls; simp [cmdAttrs]
  | cons kv rest ih =>
    intro i s ls
    obtain ⟨k, v⟩ := kv
    simp only [cmdAttrs]
    exact AllHonest_andThen (cmdAttrStep_honest d cmd p i k v s ls) (ih _ _ _)

theorem parseCommand_honest (d : Delegate σ) (name kp ap attrs s ls) : AllHonest d (parseCommand d name kp ap attrs s ls).evs := by
  unfold parseCommand
  split
  · simp [Event.honest]
  · split
    · simp [Event.honest]
    · split
      · refine AllHonest_andThen (getOrCreateTool_honest d _ _ _ _) (AllHonest_andThen ?_ (AllHonest_andThen (cmdAttrs_honest d _ _ _ _ _ _) ?_))
        · unfold createCommand; split <;> simp [Event.honest]
        · simp [finishCommand, Event.honest]
      · simp [Event.honest]

theorem parseCommands_honest (d : Delegate σ) (p) : ∀ es i s ls, AllHonest d (parseCommands d p i es s ls).evs := by
  intro es
  induction es with
  | nil => intro i s ls; simp [parseCommands]
  | cons kv rest ih =>
    intro i s ls
    obtain ⟨k, v⟩ := kv
    cases k <;> cases v <;> simp only [parseCommands, R.pre_evs, List.singleton_append, AllHonest_cons] <;>
      first | exact ⟨trivial, ih _ _ _⟩ | skip
    rename_i name attrs
    split
    · simp only [R.pre_evs, List.singleton_append, AllHonest_cons]; exact ⟨trivial, ih _ _ _⟩
    · exact AllHonest_andThen (parseCommand_honest d _ _ _ _ _ _) (ih _ _ _)

theorem parseSection_honest (d : Delegate σ) (sec i v s ls) : AllHonest d (parseSection d sec i v s ls).evs := by
  unfold parseSection
  split
  · exact parseTools_honest d _ _ _ _ _
  · exact parseTargets_honest d _ _ _ _ _
  · unfold parseDefault; split <;> simp [Event.honest]
  · exact parseNodes_honest d _ _ _ _ _
  · exact parseCommands_honest d _ _ _ _ _
  · simp [Event.honest]

theorem sections_honest (d : Delegate σ) : ∀ stages i es s ls, AllHonest d (sections d stages i es s ls).evs := by
  intro stages
  induction stages with
  | nil => intro i es s ls; cases es <;> simp [sections, Event.honest]
  | cons sec more ih =>
    intro i es s ls
    cases es with
    | nil => simp [sections]
    | cons kv rest =>
      obtain ⟨k, v⟩ := kv
      simp only [sections]
      split
      · exact AllHonest_andThen (parseSection_honest d _ _ _ _ _) (ih _ _ _ _)
      · exact ih _ _ _ _

theorem clientLoop_honest (d : Delegate σ) (p) : ∀ es i a, AllHonest d (clientLoop p i es a).evs := by
  intro es
  induction es with
  | nil => intro i a; simp [clientLoop]
  | cons kv rest ih =>
    intro i a
    obtain ⟨k, v⟩ := kv
    cases k <;> cases v <;> simp only [clientLoop, AllHonest_cons, AllHonest_nil, AllHonest_append, and_true] <;>
      first | trivial | skip
    exact ⟨AllHonest_errors d (clientEntryErrs_nonfatal _ _ _ _), ih _ _⟩

theorem parseRoot_honest (d : Delegate σ) (root s ls) : AllHonest d (parseRoot d root s ls).evs := by
  unfold parseRoot
  split
  · simp [Event.honest]
  · split
    · simp [Event.honest]
    · split
      · refine AllHonest_andThen ?_ (sections_honest d _ _ _ _ _)
        have := clientLoop_honest d [.val 0] ‹_› 0 {}
        unfold parseClient; split
        · exact this
        · simp only []; split <;> simp [this, Event.honest]
      · simp [Event.honest]
  · simp [Event.honest]

theorem load_honest (d : Delegate σ) (input s) : AllHonest d (load d input s).trace := by
  unfold load
  split
  · simp [Event.honest]
  · simp [Event.honest]
  · simp [Event.honest]
  · rename_i root more
    have h := parseRoot_honest d root s {}
    cases hok : (parseRoot d root s {}).ok
    · simp only [hok, Bool.not_false, if_true, AllHonest_cons]; exact ⟨trivial, h⟩
    · simp only [hok, Bool.not_true, Bool.false_eq_true, if_false]
      cases more with
      | nil =>
        simp only []
        split
        · split <;> simp [h, Event.honest]
        · simp [h, Event.honest]
      | cons r2 rest => cases r2 <;> simp [h, Event.honest]

/-! ### section order -/

theorem nodeIsScalarString_eq {k : YNode} {s : Bytes} (h : nodeIsScalarString k s = true) : k = .scalar s := by
  cases k <;> simp_all [nodeIsScalarString]

theorem parseSection_ok_valueOk (d : Delegate σ) (sec i v s ls) (h : (parseSection d sec i v s ls).ok = true) :
    sec.valueOk v = true := by
  unfold parseSection at h
  split at h <;> simp_all [TopSec.valueOk]

theorem sections_ok_keysInOrder (d : Delegate σ) : ∀ stages i es s ls, (sections d stages i es s ls).ok = true →
    keysInOrder stages es = true := by
  intro stages
  induction stages with
  | nil => intro i es s ls h; cases es <;> simp_all [sections, keysInOrder]
  | cons sec more ih =>
    intro i es s ls h
    cases es with
    | nil => simp [keysInOrder]
    | cons kv rest =>
      obtain ⟨k, v⟩ := kv
      simp only [sections] at h
      simp only [keysInOrder]
      split at h
      · rename_i hk
        rw [R.andThen_ok, Bool.and_eq_true] at h
        simp only [hk, if_true, Bool.and_eq_true]
        exact ⟨parseSection_ok_valueOk d _ _ _ _ _ h.1, ih _ _ _ _ h.2⟩
      · rename_i hk
        simp only [hk, Bool.false_eq_true, if_false]
        exact ih _ _ _ _ h

/-- in other words: the keys after `client` are a sub-sequence, in order, of tools, targets, default, nodes, commands -/
theorem keysInOrder_sublist : ∀ stages es, keysInOrder stages es = true →
    List.Sublist (es.map (·.1)) (stages.map fun s => YNode.scalar s.key) := by
  intro stages
  induction stages with
  | nil => intro es h; cases es <;> simp_all [keysInOrder]
  | cons sec more ih =>
    intro es h
    cases es with
    | nil => simp
    | cons kv rest =>
      obtain ⟨k, v⟩ := kv
      simp only [keysInOrder] at h
      split at h
      · rename_i hk
        rw [Bool.and_eq_true] at h
        simp only [List.map_cons, nodeIsScalarString_eq hk]
        exact List.Sublist.cons_cons _ (ih _ h.2)
      · exact List.Sublist.cons _ (ih _ h)

theorem firstBad_ge : ∀ stages i es j, firstBad stages i es = some j → i ≤ j := by
  intro stages
  induction stages with
  | nil => intro i es j h; cases es <;> simp_all [firstBad]
  | cons sec more ih =>
    intro i es j h
    cases es with
    | nil => simp [firstBad] at h
    | cons kv rest =>
      obtain ⟨k, v⟩ := kv
      simp only [firstBad] at h
      split at h
      · have := ih _ _ _ h; omega
      · exact ih _ _ _ h

theorem keysInOrder_firstBad : ∀ stages i es, keysInOrder stages es = true → firstBad stages i es = none := by
  intro stages
  induction stages with
  | nil => intro i es h; cases es <;> simp_all [keysInOrder, firstBad]
  | cons sec more ih =>
    intro i es h
    cases es with
    | nil => simp [firstBad]
    | cons kv rest =>
      obtain ⟨k, v⟩ := kv
      simp only [keysInOrder] at h
      simp only [firstBad]
      split at h
      · rename_i hk; rw [Bool.and_eq_true] at h; simp only [hk, if_true]; exact ih _ _ h.2
      · rename_i hk; simp only [hk, Bool.false_eq_true, if_false]; exact ih _ _ h

/-- a failed parse function ends with a fatal event -/
theorem fail_last_of_spec {m : MS} {r : R σ} (hd : m.dead = false) (hs : Spec m r) (hok : r.ok = false) :
    ∃ pre e, r.evs = pre ++ [e] ∧ e.fatal = true ∧ ∀ x ∈ pre, x.fatal = false := by
  obtain ⟨m', hrun, hdead, _, _⟩ := hs
  exact MS.run_dead_last hrun hd (by simp [hdead, hok])

theorem fatal_under_loc {root : YNode} {p : Path} {e : Event} (h : e.under root p) (hf : e.fatal = true) :
    ∃ q, e.loc = at0 (p ++ q) := by
  unfold Event.under at h
  cases hl : e.loc with
  | none => rw [hl] at h; simp [hf] at h
  | node dd q0 =>
    rw [hl] at h
    obtain ⟨rfl, ⟨q, rfl⟩, _⟩ := h
    exact ⟨q, rfl⟩

def goodFor (ls : LS) : MS := { client := true, clientOk := true, tools := ls.tools, made := [], dead := false }

theorem goodFor_good (ls : LS) : Good ls (goodFor ls) := ⟨rfl, rfl, fun _ h => h⟩

theorem getLast?_append_singleton {α} (l : List α) (x : α) : (l ++ [x]).getLast? = some x := by simp

/-- what happens at the first key that `parseRootNode` cannot consume (an unknown key, a repeated or an out-of-order
section): the load fails; no entry behind it is looked at; the LAST event is the "unexpected trailing top-level
section" error pointing at that very entry, unless an earlier section failed (then the last event is that section's fatal event) -/
theorem sections_firstBad (d : Delegate σ) {all : List (YNode × YNode)} : ∀ stages i es s ls j, all.drop i = es →
    firstBad stages i es = some j →
    (sections d stages i es s ls).ok = false ∧
    ∃ e, (sections d stages i es s ls).evs.getLast? = some e ∧ e.fatal = true ∧
      (e = .error .trailingSection (at0 [.entry j]) ∨ ∃ k q, i ≤ k ∧ k < j ∧ e.loc = at0 (.val k :: q)) := by
  intro stages
  induction stages with
  | nil =>
    intro i es s ls j hd hb
    cases es with
    | nil => simp [firstBad] at hb
    | cons kv rest =>
      simp only [firstBad, Option.some.injEq] at hb; subst hb
      exact ⟨rfl, _, rfl, rfl, Or.inl rfl⟩
  | cons sec more ih =>
    intro i es s ls j hd hb
    cases es with
    | nil => simp [firstBad] at hb
    | cons kv rest =>
      obtain ⟨k, v⟩ := kv
      obtain ⟨hi, hd'⟩ := drop_cons_get hd
      simp only [firstBad] at hb
      simp only [sections]
      split
      · rename_i hk
        simp only [hk, if_true] at hb
        have hj := firstBad_ge _ _ _ _ hb
        cases hok : (parseSection d sec i v s ls).ok
        · rw [R.andThen_of_not_ok hok]
          obtain ⟨pre, e, hevs, hf, _⟩ := fail_last_of_spec (goodFor_good ls).1 (parseSection_spec d sec i v s (goodFor_good ls)) hok
          have hu := parseSection_under d hi sec s ls e (by rw [hevs]; simp)
          obtain ⟨q, hq⟩ := fatal_under_loc hu hf
          exact ⟨hok, e, by rw [hevs]; simp, hf, Or.inr ⟨i, q, Nat.le_refl i, by omega, by simpa using hq⟩⟩
        · rw [R.andThen_of_ok hok]
          obtain ⟨h1, e, h2, h3, h4⟩ := ih (i + 1) rest (parseSection d sec i v s ls).st (parseSection d sec i v s ls).ls j hd' hb
          refine ⟨by simpa using h1, e, ?_, h3, ?_⟩
          · simp only [R.pre_evs]
            rw [List.getLast?_append, h2]; rfl
          · rcases h4 with h4 | ⟨k', q, hk1, hk2, hk3⟩
            · exact Or.inl h4
            · exact Or.inr ⟨k', q, by omega, hk2, hk3⟩
      · rename_i hk
        simp only [hk, Bool.false_eq_true, if_false] at hb
        exact ih i _ s ls j hd hb

/-! ### duplicates -/

/-- a repeated command name: one recoverable error at the key, the entry is skipped (no delegate call, no state change) -/
theorem parseCommands_duplicate (d : Delegate σ) (p i name attrs rest s) (ls : LS) (h : ls.cmds.contains name = true) :
    parseCommands d p i ((.scalar name, .mapping attrs) :: rest) s ls =
      (parseCommands d p (i + 1) rest s ls).pre [.error .duplicateCommand (at0 (p ++ [.key i]))] := by
  rw [parseCommands, if_pos h]

/-! ### depth: the loader never looks below depth 4 -/

/-- `cut` on the entries of a mapping -/
def cutE (n : Nat) (kv : YNode × YNode) : YNode × YNode := (cut n kv.1, cut n kv.2)

@[simp] theorem cut_scalar (n v) : cut n (.scalar v) = .scalar v := by cases n <;> simp [cut]
@[simp] theorem cut_other (n k) : cut n (.other k) = .other k := by cases n <;> simp [cut]
@[simp] theorem cut_mapping (n es) : cut (n + 1) (.mapping es) = .mapping (es.map (cutE n)) := by simp [cut, cutE]
@[simp] theorem cut_sequence (n xs) : cut (n + 1) (.sequence xs) = .sequence (xs.map (cut n)) := by simp [cut]

theorem cut_cases (n : Nat) (t : YNode) :
    (∃ v, t = .scalar v ∧ cut n t = .scalar v) ∨ (∃ k, t = .other k ∧ cut n t = .other k) ∨
    (∃ es es', t = .mapping es ∧ cut n t = .mapping es') ∨ (∃ xs xs', t = .sequence xs ∧ cut n t = .sequence xs') := by
  cases t with
  | scalar v => exact Or.inl ⟨v, rfl, by simp⟩
  | other k => exact Or.inr (Or.inl ⟨k, rfl, by simp⟩)
  | mapping es =>
    cases n with
    | zero => exact Or.inr (Or.inr (Or.inl ⟨es, [], rfl, by simp [cut]⟩))
    | succ n => exact Or.inr (Or.inr (Or.inl ⟨es, es.map (cutE n), rfl, by simp⟩))
  | sequence xs =>
    cases n with
    | zero => exact Or.inr (Or.inr (Or.inr ⟨xs, [], rfl, by simp [cut]⟩))
    | succ n => exact Or.inr (Or.inr (Or.inr ⟨xs, xs.map (cut n), rfl, by simp⟩))

theorem nodeIsScalarString_cut (n k s) : nodeIsScalarString (cut n k) s = nodeIsScalarString k s := by
  rcases cut_cases n k with ⟨v, rfl, h⟩ | ⟨k', rfl, h⟩ | ⟨es, es', rfl, h⟩ | ⟨xs, xs', rfl, h⟩ <;> simp [h, nodeIsScalarString]

theorem scalarItems_cut (n) : ∀ xs, scalarItems (xs.map (cut n)) = scalarItems xs := by
  intro xs
  induction xs with
  | nil => rfl
  | cons x rest ih =>
    rcases cut_cases n x with ⟨v, rfl, h⟩ | ⟨k', rfl, h⟩ | ⟨es, es', rfl, h⟩ | ⟨xs', xs'', rfl, h⟩ <;>
      simp only [List.map_cons, h, scalarItems, ih]

theorem seqErrs_cut (sec p n) : ∀ xs i, seqErrs sec p i (xs.map (cut n)) = seqErrs sec p i xs := by
  intro xs
  induction xs with
  | nil => intro i; rfl
  | cons x rest ih =>
    intro i
    rcases cut_cases n x with ⟨v, rfl, h⟩ | ⟨k', rfl, h⟩ | ⟨es, es', rfl, h⟩ | ⟨xs', xs'', rfl, h⟩ <;>
      simp only [List.map_cons, h, seqErrs, ih]

theorem mapPairs_cut (n) : ∀ es, mapPairs (es.map (cutE n)) = mapPairs es := by
  intro es
  induction es with
  | nil => rfl
  | cons kv rest ih =>
    obtain ⟨k, v⟩ := kv
    rcases cut_cases n k with ⟨a, rfl, h⟩ | ⟨a, rfl, h⟩ | ⟨a, a', rfl, h⟩ | ⟨a, a', rfl, h⟩ <;>
    rcases cut_cases n v with ⟨b, rfl, h'⟩ | ⟨b, rfl, h'⟩ | ⟨b, b', rfl, h'⟩ | ⟨b, b', rfl, h'⟩ <;>
      simp only [List.map_cons, cutE, h, h', mapPairs] <;> simpa [cutE] using ih

theorem mapErrs_cut (sec attr p n) : ∀ es i, mapErrs sec attr p i (es.map (cutE n)) = mapErrs sec attr p i es := by
  intro es
  induction es with
  | nil => intro i; rfl
  | cons kv rest ih =>
    intro i
    obtain ⟨k, v⟩ := kv
    have ih' := ih (i + 1)
    rcases cut_cases n k with ⟨a, rfl, h⟩ | ⟨a, rfl, h⟩ | ⟨a, a', rfl, h⟩ | ⟨a, a', rfl, h⟩ <;>
    rcases cut_cases n v with ⟨b, rfl, h'⟩ | ⟨b, rfl, h'⟩ | ⟨b, b', rfl, h'⟩ | ⟨b, b', rfl, h'⟩ <;>
      simp only [List.map_cons, cutE, h, h', mapErrs] <;> simpa [cutE] using ih'

theorem attrValue_cut (n v) : attrValue (cut (n + 1) v) = attrValue v := by
  cases v <;> simp [attrValue, mapPairs_cut, scalarItems_cut]

theorem attrValueErrs_cut (sec attr vp n v) : attrValueErrs sec attr vp (cut (n + 1) v) = attrValueErrs sec attr vp v := by
  cases v <;> simp [attrValueErrs, mapErrs_cut, seqErrs_cut]

theorem attrStep_cut (sec) (call : σ → Bytes → AttrVal → Ans × σ) (mk p i k v s ls) (n m : Nat) :
    attrStep sec call mk p i (cut m k) (cut (n + 1) v) s ls = attrStep sec call mk p i k v s ls := by
  rcases cut_cases m k with ⟨a, rfl, h⟩ | ⟨a, rfl, h⟩ | ⟨a, a', rfl, h⟩ | ⟨a, a', rfl, h⟩ <;>
    simp only [attrStep, h, attrValue_cut, attrValueErrs_cut]

theorem attrLoop_cut (sec) (call : σ → Bytes → AttrVal → Ans × σ) (mk p) (n : Nat) : ∀ es i s ls,
    attrLoop sec call mk p i (es.map (cutE (n + 1))) s ls = attrLoop sec call mk p i es s ls := by
  intro es
  induction es with
  | nil => intro i s ls; rfl
  | cons kv rest ih =>
    intro i s ls
    obtain ⟨k, v⟩ := kv
    simp only [List.map_cons, cutE, attrLoop, attrStep_cut, ih]

theorem nodeList_cut (d : Delegate σ) (m p) (n : Nat) : ∀ xs i s ls,
    nodeList d m p i (xs.map (cut n)) s ls = nodeList d m p i xs s ls := by
  intro xs
  induction xs with
  | nil => intro i s ls; rfl
  | cons x rest ih =>
    intro i s ls
    rcases cut_cases n x with ⟨v, rfl, h⟩ | ⟨k', rfl, h⟩ | ⟨es, es', rfl, h⟩ | ⟨xs', xs'', rfl, h⟩ <;>
      simp only [List.map_cons, h, nodeList, ih]

theorem parseTools_cut (d : Delegate σ) (p) (n : Nat) : ∀ es i s ls,
    parseTools d p i (es.map (cutE (n + 2))) s ls = parseTools d p i es s ls := by
  intro es
  induction es with
  | nil => intro i s ls; rfl
  | cons kv rest ih =>
    intro i s ls
    obtain ⟨k, v⟩ := kv
    rcases cut_cases (n + 2) k with ⟨a, rfl, h⟩ | ⟨a, rfl, h⟩ | ⟨a, a', rfl, h⟩ | ⟨a, a', rfl, h⟩ <;>
    cases v <;> simp only [List.map_cons, cutE, h, cut_scalar, cut_other, cut_mapping, cut_sequence, parseTools, ih, attrLoop_cut]

theorem parseTargets_cut (d : Delegate σ) (p) (n : Nat) : ∀ es i s ls,
    parseTargets d p i (es.map (cutE (n + 1))) s ls = parseTargets d p i es s ls := by
  intro es
  induction es with
  | nil => intro i s ls; rfl
  | cons kv rest ih =>
    intro i s ls
    obtain ⟨k, v⟩ := kv
    rcases cut_cases (n + 1) k with ⟨a, rfl, h⟩ | ⟨a, rfl, h⟩ | ⟨a, a', rfl, h⟩ | ⟨a, a', rfl, h⟩ <;>
    cases v <;> simp only [List.map_cons, cutE, h, cut_scalar, cut_other, cut_mapping, cut_sequence, parseTargets, ih, nodeList_cut,
      scalarItems_cut]

theorem parseNodes_cut (d : Delegate σ) (p) (n : Nat) : ∀ es i s ls,
    parseNodes d p i (es.map (cutE (n + 2))) s ls = parseNodes d p i es s ls := by
  intro es
  induction es with
  | nil => intro i s ls; rfl
  | cons kv rest ih =>
    intro i s ls
    obtain ⟨k, v⟩ := kv
    rcases cut_cases (n + 2) k with ⟨a, rfl, h⟩ | ⟨a, rfl, h⟩ | ⟨a, a', rfl, h⟩ | ⟨a, a', rfl, h⟩ <;>
    cases v <;> simp only [List.map_cons, cutE, h, cut_scalar, cut_other, cut_mapping, cut_sequence, parseNodes, ih, attrLoop_cut]

theorem cmdAttrStep_cut (d : Delegate σ) (cmd p i k v s ls) (n : Nat) :
    cmdAttrStep d cmd p i (cut (n + 1) k) (cut (n + 1) v) s ls = cmdAttrStep d cmd p i k v s ls := by
  have hio : ∀ io call mk, cmdIO d io call mk p i (cut (n + 1) v) s ls = cmdIO d io call mk p i v s ls := by
    intro io call mk
    cases v <;> simp only [cut_scalar, cut_other, cut_mapping, cut_sequence, cmdIO, nodeList_cut, scalarItems_cut]
  have hdesc : cmdDesc d cmd p i (cut (n + 1) v) s ls = cmdDesc d cmd p i v s ls := by
    cases v <;> simp only [cut_scalar, cut_other, cut_mapping, cut_sequence, cmdDesc]
  simp only [cmdAttrStep, nodeIsScalarString_cut, hio, hdesc, attrStep_cut]

theorem cmdAttrs_cut (d : Delegate σ) (cmd p) (n : Nat) : ∀ es i s ls,
    cmdAttrs d cmd p i (es.map (cutE (n + 1))) s ls = cmdAttrs d cmd p i es s ls := by
  intro es
  induction es with
  | nil => intro i s ls; rfl
  | cons kv rest ih =>
    intro i s ls
    obtain ⟨k, v⟩ := kv
    simp only [List.map_cons, cutE, cmdAttrs, cmdAttrStep_cut, ih]

theorem parseCommand_cut (d : Delegate σ) (name kp ap attrs s ls) (n : Nat) :
    parseCommand d name kp ap (attrs.map (cutE (n + 1))) s ls = parseCommand d name kp ap attrs s ls := by
  cases attrs with
  | nil => rfl
  | cons kv more =>
    obtain ⟨tk, tv⟩ := kv
    rcases cut_cases (n + 1) tv with ⟨a, rfl, h⟩ | ⟨a, rfl, h⟩ | ⟨a, a', rfl, h⟩ | ⟨a, a', rfl, h⟩ <;>
      simp only [List.map_cons, cutE, parseCommand, nodeIsScalarString_cut, h, cmdAttrs_cut]

theorem parseCommands_cut (d : Delegate σ) (p) (n : Nat) : ∀ es i s ls,
    parseCommands d p i (es.map (cutE (n + 2))) s ls = parseCommands d p i es s ls := by
  intro es
  induction es with
  | nil => intro i s ls; rfl
  | cons kv rest ih =>
    intro i s ls
    obtain ⟨k, v⟩ := kv
    rcases cut_cases (n + 2) k with ⟨a, rfl, h⟩ | ⟨a, rfl, h⟩ | ⟨a, a', rfl, h⟩ | ⟨a, a', rfl, h⟩ <;>
    cases v <;> simp only [List.map_cons, cutE, h, cut_scalar, cut_other, cut_mapping, cut_sequence, parseCommands, ih, parseCommand_cut]

theorem parseSection_cut (d : Delegate σ) (sec i v s ls) (n : Nat) :
    parseSection d sec i (cut (n + 3) v) s ls = parseSection d sec i v s ls := by
  cases sec <;> cases v <;>
    simp only [cut_scalar, cut_other, cut_mapping, cut_sequence, parseSection, parseTools_cut, parseTargets_cut, parseNodes_cut,
      parseCommands_cut]

theorem sections_cut (d : Delegate σ) (n : Nat) : ∀ stages i es s ls,
    sections d stages i (es.map (cutE (n + 3))) s ls = sections d stages i es s ls := by
  intro stages
  induction stages with
  | nil => intro i es s ls; cases es <;> simp [sections]
  | cons sec more ih =>
    intro i es s ls
    cases es with
    | nil => simp [sections]
    | cons kv rest =>
      obtain ⟨k, v⟩ := kv
      have := ih i ((k, v) :: rest) s ls
      simp only [List.map_cons, cutE] at this
      simp only [List.map_cons, cutE, sections, nodeIsScalarString_cut, parseSection_cut, ih, this]

theorem clientLoop_cut (p) (n : Nat) : ∀ es i a, clientLoop p i (es.map (cutE n)) a = clientLoop p i es a := by
  intro es
  induction es with
  | nil => intro i a; rfl
  | cons kv rest ih =>
    intro i a
    obtain ⟨k, v⟩ := kv
    rcases cut_cases n k with ⟨a1, rfl, h⟩ | ⟨a1, rfl, h⟩ | ⟨a1, a', rfl, h⟩ | ⟨a1, a', rfl, h⟩ <;>
    rcases cut_cases n v with ⟨b, rfl, h'⟩ | ⟨b, rfl, h'⟩ | ⟨b, b', rfl, h'⟩ | ⟨b, b', rfl, h'⟩ <;>
      simp only [List.map_cons, cutE, h, h', clientLoop, ih]

theorem parseRoot_cut (d : Delegate σ) (root s ls) (n : Nat) : parseRoot d (cut (n + 4) root) s ls = parseRoot d root s ls := by
  cases root with
  | scalar v => simp [parseRoot]
  | other k => simp [parseRoot]
  | sequence xs => simp [parseRoot]
  | mapping es =>
    cases es with
    | nil => simp [parseRoot]
    | cons kv rest =>
      obtain ⟨k, v⟩ := kv
      cases v <;>
        simp only [cut_mapping, List.map_cons, cutE, cut_scalar, cut_other, cut_sequence, parseRoot, nodeIsScalarString_cut, parseClient,
          clientLoop_cut]
      simp only [sections_cut d n allSecs 1 rest]

/-- the loader's behaviour depends only on the top four levels of the first document (and on whether further documents
exist and have a root) -/
theorem load_cut (d : Delegate σ) (docs : List (Option YNode)) (s : σ) (n : Nat) :
    load d (some (docs.map (Option.map (cut (n + 4))))) s = load d (some docs) s := by
  cases docs with
  | nil => rfl
  | cons r more =>
    cases r with
    | none => rfl
    | some root =>
      simp only [List.map_cons, Option.map_some, load, parseRoot_cut]
      cases more with
      | nil => rfl
      | cons r2 rest => cases r2 <;> rfl

/-! ### load()-level corollaries used by the property theorems -/

theorem parseRoot_ok_shape (d : Delegate σ) (root s ls) (h : (parseRoot d root s ls).ok = true) :
    ∃ ces rest, root = .mapping ((.scalar kClient, .mapping ces) :: rest) ∧ keysInOrder allSecs rest = true := by
  unfold parseRoot at h
  split at h
  · simp at h
  · rename_i k v rest
    split at h
    · simp at h
    · rename_i hk
      split at h
      · rename_i ces
        rw [R.andThen_ok, Bool.and_eq_true] at h
        have hk' : nodeIsScalarString k kClient = true := by simpa using hk
        exact ⟨ces, rest, by rw [nodeIsScalarString_eq hk'], sections_ok_keysInOrder d _ _ _ _ _ h.2⟩
      · simp at h
  · simp at h

theorem load_description_ok (d : Delegate σ) (input s) {desc : Desc} (h : (load d input s).result = .description desc) :
    ∃ root, input = some [some root] ∧ (parseRoot d root s {}).ok = true := by
  unfold load at h
  split at h
  · simp at h
  · simp at h
  · simp at h
  · rename_i root more
    cases hok : (parseRoot d root s {}).ok
    · simp [hok] at h
    · simp only [hok, Bool.not_true, Bool.false_eq_true, if_false] at h
      cases more with
      | nil => exact ⟨root, rfl, hok⟩
      | cons r2 rest => cases r2 <;> simp at h

theorem load_of_root_fail (d : Delegate σ) (root : YNode) (more : List (Option YNode)) (s : σ)
    (h : (parseRoot d root s {}).ok = false) :
    load d (some (some root :: more)) s = ⟨.setBuffer :: (parseRoot d root s {}).evs, .null, (parseRoot d root s {}).st⟩ := by
  simp [load, h]

theorem parseRoot_firstBad (d : Delegate σ) (ces rest : List (YNode × YNode)) (s ls) {j : Nat}
    (hb : firstBad allSecs 1 rest = some j) :
    (parseRoot d (.mapping ((.scalar kClient, .mapping ces) :: rest)) s ls).ok = false ∧
    ∃ e, (parseRoot d (.mapping ((.scalar kClient, .mapping ces) :: rest)) s ls).evs.getLast? = some e ∧ e.fatal = true ∧
      (e = .error .trailingSection (at0 [.entry j]) ∨ ∃ k q, k < j ∧ e.loc = at0 (.val k :: q)) := by
  have hj := firstBad_ge _ _ _ _ hb
  have h0 : (((YNode.scalar kClient, YNode.mapping ces) :: rest) : List (YNode × YNode))[0]? = some (.scalar kClient, .mapping ces) := rfl
  have hkc : nodeIsScalarString (.scalar kClient) kClient = true := by simp [nodeIsScalarString]
  simp only [parseRoot, hkc, Bool.not_true, Bool.false_eq_true, if_false]
  cases hok : (parseClient d [.val 0] ces s ls).ok
  · rw [R.andThen_of_not_ok hok]
    obtain ⟨m', hrun, hdead, _, _, _⟩ := parseClient_spec d (m := { tools := ls.tools }) rfl rfl (fun _ h => h) [.val 0] ces s
    obtain ⟨pre, e, hevs, hf, _⟩ := MS.run_dead_last hrun rfl (by simp [hdead, hok])
    have hu := parseClient_under d (root := .mapping ((.scalar kClient, .mapping ces) :: rest)) (p := [.val 0])
      (nodeAt_val (p := []) rfl h0) s ls e (by rw [hevs]; simp)
    obtain ⟨q, hq⟩ := fatal_under_loc hu hf
    exact ⟨hok, e, by rw [hevs]; simp, hf, Or.inr ⟨0, q, by omega, by simpa using hq⟩⟩
  · rw [R.andThen_of_ok hok]
    obtain ⟨h1, e, h2, h3, h4⟩ := sections_firstBad d (all := (.scalar kClient, .mapping ces) :: rest) allSecs 1 rest
      (parseClient d [.val 0] ces s ls).st (parseClient d [.val 0] ces s ls).ls j rfl hb
    refine ⟨by simpa using h1, e, ?_, h3, ?_⟩
    · simp only [R.pre_evs]; rw [List.getLast?_append, h2]; rfl
    · rcases h4 with h4 | ⟨k, q, _, hk2, hk3⟩
      · exact Or.inl h4
      · exact Or.inr ⟨k, q, hk2, hk3⟩

theorem sectionKeys_nodup : (allSecs.map fun s => YNode.scalar s.key).Nodup := by
  simp only [allSecs, List.map_cons, List.map_nil, TopSec.key, List.nodup_cons, List.mem_cons, YNode.scalar.injEq, List.not_mem_nil,
    or_false, not_or, List.nodup_nil, and_true]
  decide

/-! ### the protocol facts in explicit form (what acceptance from the initial monitor state `{}` means) -/

theorem accepted_sectionLevel {t : List Event} {m' : MS} (h : MS.run {} t = some m') {pre post : List Event} {e : Event}
    (ht : t = pre ++ e :: post) (he : e.sectionLevel = true) :
    ∃ n v pr loc ans, Event.configureClient n v pr loc ans ∈ pre ∧ ans.ok = true := by
  subst ht
  obtain ⟨m1, m2, h1, h2, _⟩ := MS.run_split h
  have hok : m1.clientOk = true := by
    have := (MS.step_eq h2).1
    cases e <;> simp_all [Event.allowed, Event.sectionLevel]
  rcases MS.run_clientOk h1 hok with h3 | h3
  · simp at h3
  · exact h3

theorem accepted_tool {t : List Event} {m' : MS} (h : MS.run {} t = some m') {pre post : List Event} {e : Event} {tool : Bytes}
    (ht : t = pre ++ e :: post) (he : (∃ c made, e = .createCommand tool c made) ∨ (∃ a v loc ans, e = .toolAttr tool a v loc ans)) :
    Event.lookupTool tool true ∈ pre := by
  subst ht
  obtain ⟨m1, m2, h1, h2, _⟩ := MS.run_split h
  have hmem : tool ∈ m1.tools := by
    have := (MS.step_eq h2).1
    rcases he with ⟨c, made, rfl⟩ | ⟨a, v, loc, ans, rfl⟩ <;> simp_all [Event.allowed]
  rcases MS.run_tools h1 tool hmem with h3 | h3
  · simp at h3
  · exact h3

theorem accepted_command {t : List Event} {m' : MS} (h : MS.run {} t = some m') {pre post : List Event} {e : Event} {c : Bytes}
    (ht : t = pre ++ e :: post)
    (he : e = .loadedCommand c ∨ (∃ n loc errs, e = .cmdInputs c n loc errs) ∨ (∃ n loc errs, e = .cmdOutputs c n loc errs) ∨
      (∃ x loc errs, e = .cmdDescription c x loc errs) ∨ (∃ a v loc ans, e = .cmdAttr c a v loc ans)) :
    ∃ tool, Event.createCommand tool c true ∈ pre ∧ Event.lookupTool tool true ∈ pre := by
  subst ht
  obtain ⟨m1, m2, h1, h2, _⟩ := MS.run_split h
  have hmem : c ∈ m1.made := by
    have := (MS.step_eq h2).1
    rcases he with rfl | ⟨n, loc, errs, rfl⟩ | ⟨n, loc, errs, rfl⟩ | ⟨x, loc, errs, rfl⟩ | ⟨a, v, loc, ans, rfl⟩ <;>
      simp_all [Event.allowed]
  rcases MS.run_made h1 c hmem with h3 | ⟨tool, h3⟩
  · simp at h3
  · obtain ⟨p1, p2, rfl⟩ := List.append_of_mem h3
    have h' : MS.run {} (p1 ++ Event.createCommand tool c true :: (p2 ++ e :: post)) = some m' := by simpa using h
    have := accepted_tool h' rfl (Or.inl ⟨c, true, rfl⟩)
    exact ⟨tool, h3, by simp [this]⟩

end LLBuild.BuildFileLoader
