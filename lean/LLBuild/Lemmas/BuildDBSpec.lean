/-
C03 database layer: the durable-map SPECIFICATION and the proof that the model refines it.

The specification (`SWorld`, `sstep`) is the state machine of vlib/props/c03.py's `Spec`, in Lean: the file is a map
`Key → Option Result` plus (schema?, version, client version, iteration); a connection is (client version, recreate
flag, closed | open | in transaction, pending map); there is one lock.  No key_names, no ids, no blobs, no caches.
`setRuleResult k r` is `map[k] := some r`, `lookupRuleResult k` is `map[k]`, `getKeysWithResult` is the graph.

`step_refines`: for every world satisfying `InvG n` (all reachable ones do) and every op of any connection, the model's
step followed by abstraction = abstraction followed by the specification's step, and the answers agree.
-/
import LLBuild.Lemmas.BuildDBInv

namespace LLBuild.BuildDB
open LLBuild.Generated

/-! ### the specification -/

structure SSnap where
  schema : Bool
  version : Nat
  client : Nat
  iteration : Nat
  map : Bytes → Option Result

def SSnap.none : SSnap := ⟨false, 0, 0, 0, fun _ => .none⟩
def SSnap.fresh (client : Nat) : SSnap := ⟨true, SQLiteDB.currentSchemaVersion, client, 0, fun _ => .none⟩

structure SConn where
  client : Nat
  recreate : Bool
  state : CState
  pending : SSnap

def SConn.fresh (client : Nat) (recreate : Bool) : SConn := ⟨client, recreate, .closed, .none⟩
def SConn.closed (cn : SConn) : SConn := { cn with state := .closed, pending := .none }

structure SWorld where
  committed : SSnap
  lock : Option Nat
  conns : Nat → Option SConn

def SWorld.init : SWorld := ⟨.none, none, fun _ => none⟩

def ssetConn (w : SWorld) (c : Nat) (cn : SConn) : SWorld :=
  { w with conns := fun i => if i = c then some cn else w.conns i }

def sdelConn (w : SWorld) (c : Nat) : SWorld :=
  { w with conns := fun i => if i = c then none else w.conns i }

def sdropConn (w : SWorld) (c : Nat) : SWorld :=
  let w1 := sdelConn w c
  if w.lock = some c then { w1 with lock := none } else w1

def sgateOK (s : SSnap) (client : Nat) : Bool :=
  s.schema && s.version == SQLiteDB.currentSchemaVersion && s.client == client

def sblocked (w : SWorld) (c : Nat) : Bool :=
  match w.lock with
  | some o => o != c
  | none => false

def sforgetOpen (conns : Nat → Option SConn) : Nat → Option SConn := fun i =>
  match conns i with
  | some cn => if cn.state = .closed then some cn else none
  | none => none

/-- "never interpreted: recreated empty or rejected" -/
def sensureOpen (w : SWorld) (c : Nat) (cn : SConn) : Except Err (SWorld × SConn) :=
  if sblocked w c then .error .busy
  else match cn.state with
  | .closed =>
    if sgateOK w.committed cn.client then .ok (w, { cn with state := .opened })
    else if !cn.recreate then .error .version
    else .ok ({ w with committed := .fresh cn.client, conns := sforgetOpen w.conns }, { cn with state := .opened })
  | _ => .ok (w, cn)

def sview (w : SWorld) (cn : SConn) : SSnap := if cn.state = .inTxn then cn.pending else w.committed

def sputView (w : SWorld) (c : Nat) (cn : SConn) (s : SSnap) : SWorld :=
  if cn.state = .inTxn then ssetConn w c { cn with pending := s }
  else ssetConn { w with committed := s } c cn

/-- what the specification answers; `keys m`: "exactly the graph of `m`" -/
inductive SOut
  | ok
  | epoch (n : Nat)
  | absent
  | result (r : Result)
  | keys (m : Bytes → Option Result)
  | err (e : Err)
  | noConn

def swithOpen (w : SWorld) (c : Nat) (f : SWorld → SConn → SWorld × SOut) : SWorld × SOut :=
  match w.conns c with
  | none => (w, .noConn)
  | some cn =>
    match sensureOpen w c cn with
    | .error e => (w, .err e)
    | .ok (w1, cn1) => f w1 cn1

def sstep (w : SWorld) : Op → SWorld × SOut
  | .reset => (SWorld.init, .ok)
  | .new c client recreate => (ssetConn (sdropConn w c) c (SConn.fresh client recreate), .ok)
  | .drop c =>
    match w.conns c with
    | none => (w, .noConn)
    | some _ => (sdropConn w c, .ok)
  | .crash => ({ w with lock := none, conns := fun _ => none }, .ok)
  | .epoch c => swithOpen w c fun w1 cn => (ssetConn w1 c cn, .epoch (sview w1 cn).iteration)
  | .setiter c n => swithOpen w c fun w1 cn => (sputView w1 c cn { sview w1 cn with iteration := n }, .ok)
  | .start c => swithOpen w c fun w1 cn =>
      if cn.state = .inTxn then (ssetConn w1 c cn, .err .other)
      else (ssetConn { w1 with lock := some c } c { cn with state := .inTxn, pending := w1.committed }, .ok)
  | .complete c =>
    match w.conns c with
    | none => (w, .noConn)
    | some cn =>
      if cn.state = .inTxn then (ssetConn { w with committed := cn.pending, lock := none } c cn.closed, .ok)
      else (ssetConn w c cn.closed, .ok)
  | .set c k r => swithOpen w c fun w1 cn =>
      (sputView w1 c cn { sview w1 cn with map := fun k' => if k' = k then some r else (sview w1 cn).map k' }, .ok)
  | .lookup c k => swithOpen w c fun w1 cn =>
      (ssetConn w1 c cn, match (sview w1 cn).map k with | some r => .result r | none => .absent)
  | .keys c => swithOpen w c fun w1 cn => (ssetConn w1 c cn, .keys (sview w1 cn).map)

def srun (w : SWorld) : List Op → SWorld
  | [] => w
  | op :: ops => srun (sstep w op).1 ops

def strace (w : SWorld) : List Op → List SOut
  | [] => []
  | op :: ops => (sstep w op).2 :: strace (sstep w op).1 ops

/-- the answers of the model along an op sequence -/
def trace (w : World) : List Op → List Outcome
  | [] => []
  | op :: ops => (step w op).2 :: trace (step w op).1 ops

/-- a model answer agrees with a specification answer -/
def OutMatch : Outcome → SOut → Prop
  | .ok, .ok => True
  | .epoch n, .epoch m => n = m
  | .absent, .absent => True
  | .result r, .result r' => r = r'
  | .keys l, .keys m => KeysAgree l m
  | .err e, .err e' => e = e'
  | .noConn, .noConn => True
  | _, _ => False

def TraceMatch : List Outcome → List SOut → Prop
  | [], [] => True
  | a :: as, b :: bs => OutMatch a b ∧ TraceMatch as bs
  | _, _ => False

/-! ### abstraction -/

def absSnap (s : Snapshot) : SSnap := ⟨s.schema, s.version, s.client, s.iteration, absMap s⟩
def absConn (cn : Conn) : SConn := ⟨cn.client, cn.recreate, cn.state, absSnap cn.pending⟩
def absWorld (w : World) : SWorld := ⟨absSnap w.committed, w.lock, fun i => (w.conns i).map absConn⟩

theorem absSnap_none : absSnap Snapshot.none = SSnap.none := by
  unfold absSnap
  rw [absMap_none_snapshot]
  rfl

theorem absSnap_fresh (client : Nat) : absSnap (Snapshot.fresh client) = SSnap.fresh client := by
  unfold absSnap
  rw [absMap_fresh_snapshot]
  rfl

theorem absWorld_init : absWorld World.init = SWorld.init := by
  simp only [absWorld, World.init, SWorld.init, absSnap_none, Option.map_none]

theorem absConn_ctl {cn cn' : Conn} (h : SameCtl cn cn') : absConn cn' = absConn cn := by
  obtain ⟨h1, h2, h3, h4⟩ := h
  simp only [absConn, h1, h2, h3, h4]

theorem absConn_closed (cn : Conn) : absConn cn.closed = (absConn cn).closed := by
  unfold Conn.closed
  split <;> simp only [absConn, SConn.closed, absSnap_none]

theorem absConn_fresh (client : Nat) (rc : Bool) : absConn (Conn.fresh client rc) = SConn.fresh client rc := by
  simp only [absConn, Conn.fresh, SConn.fresh, absSnap_none]

theorem absWorld_setConn (w : World) (c : Nat) (cn : Conn) : absWorld (setConn w c cn) = ssetConn (absWorld w) c (absConn cn) := by
  simp only [absWorld, setConn, ssetConn]
  congr 1
  funext i
  by_cases h : i = c <;> simp [h]

theorem absWorld_dropConn (w : World) (c : Nat) : absWorld (dropConn w c) = sdropConn (absWorld w) c := by
  have hd : ∀ w : World, absWorld (delConn w c) = sdelConn (absWorld w) c := by
    intro w
    simp only [absWorld, delConn, sdelConn]
    congr 1
    funext i
    by_cases h : i = c <;> simp [h]
  unfold dropConn sdropConn
  by_cases hl : w.lock = some c
  · have hl' : (absWorld w).lock = some c := hl
    simp only [hl, hl', ↓reduceIte]
    have := hd w
    simp only [absWorld, delConn, sdelConn] at this ⊢
    injection this with h1 h2 h3
    rw [h3]
  · have hl' : ¬ (absWorld w).lock = some c := hl
    simp only [hl, hl', ↓reduceIte]
    exact hd w

theorem absWorld_conns (w : World) (c : Nat) : (absWorld w).conns c = (w.conns c).map absConn := rfl

theorem sview_abs (w : World) (cn : Conn) : sview (absWorld w) (absConn cn) = absSnap (view w cn) := by
  unfold sview view
  by_cases h : cn.state = .inTxn
  · have h' : (absConn cn).state = .inTxn := h
    simp only [h, h', ↓reduceIte]; rfl
  · have h' : ¬ (absConn cn).state = .inTxn := h
    simp only [h, h', ↓reduceIte]; rfl

theorem absWorld_putView (w : World) (c : Nat) (cn : Conn) (s : Snapshot) :
    absWorld (putView w c cn s) = sputView (absWorld w) c (absConn cn) (absSnap s) := by
  unfold putView sputView
  by_cases h : cn.state = .inTxn
  · have h' : (absConn cn).state = .inTxn := h
    simp only [h, h', ↓reduceIte, absWorld_setConn]
    rfl
  · have h' : ¬ (absConn cn).state = .inTxn := h
    simp only [h, h', ↓reduceIte, absWorld_setConn]
    rfl

theorem sforgetOpen_abs (conns : Nat → Option Conn) :
    sforgetOpen (fun i => (conns i).map absConn) = fun i => (forgetOpen conns i).map absConn := by
  funext i
  simp only [sforgetOpen, forgetOpen]
  cases conns i with
  | none => rfl
  | some cn =>
    simp only [Option.map_some]
    by_cases h : cn.state = .closed
    · have h' : (absConn cn).state = .closed := h
      simp only [h, h', ↓reduceIte, Option.map_some]
    · have h' : ¬ (absConn cn).state = .closed := h
      simp only [h, h', ↓reduceIte, Option.map_none]

/-- the version gate of the specification is the version gate of the model -/
theorem sensureOpen_abs (w : World) (c : Nat) (cn : Conn) :
    sensureOpen (absWorld w) c (absConn cn) =
      match ensureOpen w c cn with
      | .error e => .error e
      | .ok (w1, cn1) => .ok (absWorld w1, absConn cn1) := by
  have hb : sblocked (absWorld w) c = blocked w c := rfl
  have hg : sgateOK (absWorld w).committed (absConn cn).client = gateOK w.committed cn.client := rfl
  have hs : (absConn cn).state = cn.state := rfl
  have hr : (absConn cn).recreate = cn.recreate := rfl
  unfold sensureOpen ensureOpen
  rw [hb, hg, hs, hr]
  by_cases h1 : blocked w c = true
  · simp only [h1, ↓reduceIte]
  · have h1' : blocked w c = false := by simpa using h1
    simp only [h1', Bool.false_eq_true, ↓reduceIte]
    cases hst : cn.state with
    | closed =>
      simp only
      by_cases h2 : gateOK w.committed cn.client = true
      · simp only [h2, ↓reduceIte]; rfl
      · have h2' : gateOK w.committed cn.client = false := by simpa using h2
        simp only [h2', Bool.false_eq_true, ↓reduceIte]
        by_cases h3 : (!cn.recreate) = true
        · simp only [h3, ↓reduceIte]
        · have h3' : (!cn.recreate) = false := by simpa using h3
          simp only [h3', Bool.false_eq_true, ↓reduceIte]
          congr 2
          simp only [absWorld, absSnap_fresh, sforgetOpen_abs]
          rfl
    | opened => rfl
    | inTxn => rfl

/-! ### refinement, step by step -/

/-- model result `a` and specification result `b` agree: same abstract state, matching answers -/
def Ref (a : World × Outcome) (b : SWorld × SOut) : Prop := absWorld a.1 = b.1 ∧ OutMatch a.2 b.2

theorem withOpen_ref {w : World} {c : Nat} {f : World → Conn → World × Outcome} {sf : SWorld → SConn → SWorld × SOut}
    (hok : ∀ cn w1 cn1, w.conns c = some cn → ensureOpen w c cn = .ok (w1, cn1) → Ref (f w1 cn1) (sf (absWorld w1) (absConn cn1))) :
    Ref (withOpen w c f) (swithOpen (absWorld w) c sf) := by
  unfold withOpen swithOpen
  rw [absWorld_conns]
  cases hc : w.conns c with
  | none => exact ⟨rfl, trivial⟩
  | some cn =>
    simp only [Option.map_some, sensureOpen_abs]
    cases he : ensureOpen w c cn with
    | error e => exact ⟨rfl, rfl⟩
    | ok p =>
      obtain ⟨w1, cn1⟩ := p
      exact hok cn w1 cn1 hc he

theorem step_refines (hf : StoredKeyFaithful) {n : Nat} {w : World} (h : InvG n w) (op : Op)
    (hsmall : n + opWeight op < 2 ^ 62) : Ref (step w op) (sstep (absWorld w) op) := by
  cases op with
  | reset => exact ⟨absWorld_init, trivial⟩
  | crash => exact ⟨rfl, trivial⟩
  | new c cl rc =>
    refine ⟨?_, trivial⟩
    simp only [step, sstep, absWorld_setConn, absWorld_dropConn, absConn_fresh]
  | drop c =>
    simp only [step, sstep, absWorld_conns]
    cases hc : w.conns c with
    | none => exact ⟨rfl, trivial⟩
    | some cn => exact ⟨absWorld_dropConn w c, trivial⟩
  | epoch c =>
    simp only [step, sstep]
    apply withOpen_ref
    intro cn w1 cn1 _ _
    refine ⟨absWorld_setConn _ _ _, ?_⟩
    simp only [sview_abs]
    exact rfl
  | setiter c m =>
    simp only [step, sstep]
    apply withOpen_ref
    intro cn w1 cn1 _ _
    refine ⟨?_, trivial⟩
    simp only [absWorld_putView, sview_abs]
    rfl
  | start c =>
    simp only [step, sstep]
    apply withOpen_ref
    intro cn w1 cn1 _ _
    by_cases hst : cn1.state = .inTxn
    · have hst' : (absConn cn1).state = .inTxn := hst
      simp only [hst, hst', ↓reduceIte]
      exact ⟨absWorld_setConn _ _ _, rfl⟩
    · have hst' : ¬ (absConn cn1).state = .inTxn := hst
      simp only [hst, hst', ↓reduceIte]
      exact ⟨absWorld_setConn _ _ _, trivial⟩
  | complete c =>
    simp only [step, sstep, absWorld_conns]
    cases hc : w.conns c with
    | none => exact ⟨rfl, trivial⟩
    | some cn =>
      simp only [Option.map_some]
      by_cases hst : cn.state = .inTxn
      · have hst' : (absConn cn).state = .inTxn := hst
        simp only [hst, hst', ↓reduceIte]
        refine ⟨?_, trivial⟩
        simp only [absWorld_setConn, absConn_closed]
        rfl
      · have hst' : ¬ (absConn cn).state = .inTxn := hst
        simp only [hst, hst', ↓reduceIte]
        refine ⟨?_, trivial⟩
        simp only [absWorld_setConn, absConn_closed]
  | set c k r =>
    simp only [step, sstep]
    apply withOpen_ref
    intro cn w1 cn1 hc he
    obtain ⟨h1, ci1⟩ := DataInv_ensureOpen h.data hc he
    obtain ⟨_, _, _, _, hncl⟩ := ensureOpen_lock h.lock hc he
    obtain ⟨v1, v2, v3, _⟩ := view_facts h1 ci1 hncl
    have hm := absMap_applySet hf cn1 (view w1 cn1) k r v1.inv v1.nodup v2 (by simp only [opWeight] at hsmall; omega)
    obtain ⟨_, _, _, _, _, ⟨e1, e2, e3, e4⟩, _⟩ := applySet_full hf cn1 (view w1 cn1) k r v1.inv v1.nodup v2
    refine ⟨?_, trivial⟩
    simp only [absWorld_putView, sview_abs, absConn_ctl (applySet_ctl cn1 (view w1 cn1) k r)]
    congr 1
    simp only [absSnap, e1, e2, e3, e4, hm]
  | lookup c k =>
    simp only [step, sstep]
    apply withOpen_ref
    intro cn w1 cn1 hc he
    obtain ⟨h1, ci1⟩ := DataInv_ensureOpen h.data hc he
    obtain ⟨_, _, _, _, hncl⟩ := ensureOpen_lock h.lock hc he
    obtain ⟨v1, v2, v3, _⟩ := view_facts h1 ci1 hncl
    have hl := (lookup_eq_absMap hf v1.inv (by simp only [opWeight] at hsmall; omega) v2 k).1
    refine ⟨?_, ?_⟩
    · simp only [absWorld_setConn, absConn_ctl (applyLookup_ctl cn1 (view w1 cn1) k)]
    · simp only [hl, sview_abs, absSnap]
      cases absMap (view w1 cn1) k with
      | none => exact trivial
      | some r => exact rfl
  | keys c =>
    simp only [step, sstep]
    apply withOpen_ref
    intro cn w1 cn1 hc he
    obtain ⟨h1, ci1⟩ := DataInv_ensureOpen h.data hc he
    obtain ⟨_, _, _, _, hncl⟩ := ensureOpen_lock h.lock hc he
    obtain ⟨v1, v2, v3, _⟩ := view_facts h1 ci1 hncl
    obtain ⟨cn2, l, hk, _, hagree⟩ := applyKeys_agree hf v1.inv v1.nodup (by simp only [opWeight] at hsmall; omega) v2
    have hctl := applyKeys_ctl (view w1 cn1).keyNames (sortRows (view w1 cn1).rows) cn1
    rw [hk] at hctl
    simp only [hk]
    refine ⟨?_, ?_⟩
    · simp only [absWorld_setConn, absConn_ctl hctl]
    · simp only [sview_abs, absSnap]
      exact hagree

theorem opsWeight_cons_le (op : Op) (ops : List Op) : opWeight op ≤ opsWeight (op :: ops) := by
  simp only [opsWeight]; omega

/-- refinement along a whole op sequence, from any world satisfying the invariant -/
theorem run_refines (hf : StoredKeyFaithful) (hcc : SQLiteDB.closeClearsCaches = true) : ∀ (ops : List Op) (n : Nat) (w : World),
    InvG n w → n + opsWeight ops < 2 ^ 62 →
    absWorld (run w ops) = srun (absWorld w) ops ∧ TraceMatch (trace w ops) (strace (absWorld w) ops) := by
  intro ops
  induction ops with
  | nil => intro n w _ _; exact ⟨rfl, trivial⟩
  | cons op rest ih =>
    intro n w h hsmall
    simp only [opsWeight] at hsmall
    obtain ⟨r1, r2⟩ := step_refines hf h op (by omega)
    obtain ⟨i1, i2⟩ := ih _ _ (InvG_step hf hcc h op) (by omega)
    simp only [run, srun, trace, strace, TraceMatch]
    rw [← r1]
    exact ⟨i1, r2, i2⟩

/-! ### frame and read-your-writes in the specification, and their transfer to the model -/

theorem sensureOpen_ok {w : SWorld} {c : Nat} {cn : SConn} {w1 : SWorld} {cn1 : SConn} (h : sensureOpen w c cn = .ok (w1, cn1)) :
    sblocked w1 c = false ∧ cn1.state ≠ .closed := by
  unfold sensureOpen at h
  by_cases hb : sblocked w c = true
  · simp only [hb, ↓reduceIte] at h; cases h
  · have hb' : sblocked w c = false := by simpa using hb
    simp only [hb', Bool.false_eq_true, ↓reduceIte] at h
    cases hst : cn.state with
    | closed =>
      simp only [hst] at h
      split at h
      · injection h with h; injection h with h1 h2
        rw [← h1, ← h2]; exact ⟨hb', by simp⟩
      · split at h
        · cases h
        · injection h with h; injection h with h1 h2
          rw [← h1, ← h2]; exact ⟨hb', by simp⟩
    | opened =>
      simp only [hst] at h
      injection h with h; injection h with h1 h2
      rw [← h1, ← h2]; exact ⟨hb', by simp [hst]⟩
    | inTxn =>
      simp only [hst] at h
      injection h with h; injection h with h1 h2
      rw [← h1, ← h2]; exact ⟨hb', by simp [hst]⟩

theorem sensureOpen_open {w : SWorld} {c : Nat} {cn : SConn} (hb : sblocked w c = false) (hst : cn.state ≠ .closed) :
    sensureOpen w c cn = .ok (w, cn) := by
  unfold sensureOpen
  simp only [hb, Bool.false_eq_true, ↓reduceIte]

theorem sstep_set_none {sw : SWorld} {c : Nat} (k : Bytes) (r : Result) (hc : sw.conns c = none) :
    sstep sw (.set c k r) = (sw, .noConn) := by simp only [sstep, swithOpen, hc]
theorem sstep_set_err {sw : SWorld} {c : Nat} {cn : SConn} {e : Err} (k : Bytes) (r : Result) (hc : sw.conns c = some cn)
    (he : sensureOpen sw c cn = .error e) : sstep sw (.set c k r) = (sw, .err e) := by simp only [sstep, swithOpen, hc, he]
theorem sstep_set_ok {sw : SWorld} {c : Nat} {cn : SConn} {w1 : SWorld} {cn1 : SConn} (k : Bytes) (r : Result)
    (hc : sw.conns c = some cn) (he : sensureOpen sw c cn = .ok (w1, cn1)) :
    sstep sw (.set c k r) =
      (sputView w1 c cn1 { sview w1 cn1 with map := fun k' => if k' = k then some r else (sview w1 cn1).map k' }, .ok) := by
  simp only [sstep, swithOpen, hc, he]
theorem sstep_lookup_none {sw : SWorld} {c : Nat} (k : Bytes) (hc : sw.conns c = none) :
    sstep sw (.lookup c k) = (sw, .noConn) := by simp only [sstep, swithOpen, hc]
theorem sstep_lookup_err {sw : SWorld} {c : Nat} {cn : SConn} {e : Err} (k : Bytes) (hc : sw.conns c = some cn)
    (he : sensureOpen sw c cn = .error e) : sstep sw (.lookup c k) = (sw, .err e) := by simp only [sstep, swithOpen, hc, he]
theorem sstep_lookup_ok {sw : SWorld} {c : Nat} {cn : SConn} {w1 : SWorld} {cn1 : SConn} (k : Bytes)
    (hc : sw.conns c = some cn) (he : sensureOpen sw c cn = .ok (w1, cn1)) :
    sstep sw (.lookup c k) =
      (ssetConn w1 c cn1, match (sview w1 cn1).map k with | some r => .result r | none => .absent) := by
  simp only [sstep, swithOpen, hc, he]

def SOut.isOk : SOut → Bool
  | .ok => true
  | _ => false

/-- in the specification, the world after `set c k r` answers `lookup c k'` with (old view)[k := r] -/
theorem sstep_set_then_lookup (sw : SWorld) (c : Nat) (k k' : Bytes) (r : Result) :
    (sstep (sstep sw (.set c k r)).1 (.lookup c k')).2 =
      if (sstep sw (.set c k r)).2.isOk ∧ k' = k then .result r else (sstep sw (.lookup c k')).2 := by
  cases hc : sw.conns c with
  | none =>
    rw [sstep_set_none k r hc]
    simp [SOut.isOk]
  | some cn =>
    cases he : sensureOpen sw c cn with
    | error e =>
      rw [sstep_set_err k r hc he]
      simp [SOut.isOk]
    | ok p =>
      obtain ⟨w1, cn1⟩ := p
      obtain ⟨hb, hncl⟩ := sensureOpen_ok he
      rw [sstep_set_ok k r hc he, sstep_lookup_ok k' hc he]
      simp only [SOut.isOk, true_and]
      unfold sputView
      by_cases hst : cn1.state = .inTxn
      · rw [if_pos hst]
        rw [sstep_lookup_ok (cn := { cn1 with pending := { sview w1 cn1 with map := fun k' => if k' = k then some r else (sview w1 cn1).map k' } }) k'
          (by simp [ssetConn]) (sensureOpen_open (by exact hb) (by show cn1.state ≠ .closed; exact hncl))]
        simp only [sview, hst, ↓reduceIte]
        by_cases hk : k' = k
        · simp only [hk, ↓reduceIte]
        · simp only [hk, ↓reduceIte]
      · rw [if_neg hst]
        rw [sstep_lookup_ok (cn := cn1) k' (by simp [ssetConn]) (sensureOpen_open (by exact hb) hncl)]
        simp only [sview, hst, ↓reduceIte, ssetConn]
        by_cases hk : k' = k
        · simp only [hk, ↓reduceIte]
        · simp only [hk, ↓reduceIte]

theorem OutMatch_inj {a a' : Outcome} {b : SOut} (h : OutMatch a b) (h' : OutMatch a' b) (hk : ∀ m, b ≠ .keys m) : a = a' := by
  cases b with
  | keys m => exact absurd rfl (hk m)
  | ok => cases a <;> cases a' <;> simp_all [OutMatch]
  | absent => cases a <;> cases a' <;> simp_all [OutMatch]
  | noConn => cases a <;> cases a' <;> simp_all [OutMatch]
  | epoch n => cases a <;> cases a' <;> simp_all [OutMatch]
  | result r => cases a <;> cases a' <;> simp_all [OutMatch]
  | err e => cases a <;> cases a' <;> simp_all [OutMatch]

theorem OutMatch_ok_iff {a : Outcome} {b : SOut} (h : OutMatch a b) : a = .ok ↔ b.isOk = true := by
  cases a <;> cases b <;> simp_all [OutMatch, SOut.isOk]

theorem sstep_lookup_not_keys (sw : SWorld) (c : Nat) (k : Bytes) : ∀ m, (sstep sw (.lookup c k)).2 ≠ .keys m := by
  intro m
  simp only [sstep, swithOpen]
  cases sw.conns c with
  | none => simp
  | some cn =>
    simp only
    cases sensureOpen sw c cn with
    | error e => simp
    | ok p =>
      simp only
      split <;> simp

/-- FRAME for the model: in a world satisfying the invariant, `set c k r` does not change what `lookup c k'`
answers, for every other key `k'` — whether the set succeeds, is refused, or first reopens / recreates the file. -/
theorem frame_of_inv (hf : StoredKeyFaithful) (hcc : SQLiteDB.closeClearsCaches = true) {n : Nat} {w : World} (h : InvG n w)
    (c : Nat) (k k' : Bytes) (r : Result) (hk : k' ≠ k) (hsmall : n + (r.deps.length + 1) < 2 ^ 62) :
    (step (step w (.set c k r)).1 (.lookup c k')).2 = (step w (.lookup c k')).2 := by
  have r1 := step_refines hf h (.set c k r) hsmall
  have h' := InvG_step hf hcc h (.set c k r)
  have r2 := step_refines hf h' (.lookup c k') (by simp only [opWeight] at *; omega)
  have r3 := step_refines hf h (.lookup c k') (by simp only [opWeight] at *; omega)
  rw [r1.1] at r2
  have hs := sstep_set_then_lookup (absWorld w) c k k' r
  simp only [hk, and_false, ↓reduceIte] at hs
  have m2 := r2.2
  rw [hs] at m2
  exact OutMatch_inj m2 r3.2 (sstep_lookup_not_keys _ _ _)

/-- READ-YOUR-WRITES for the model along sequences: after a `set c k r` that answered `ok`, `lookup c k` answers `r`. -/
theorem ryw_of_inv (hf : StoredKeyFaithful) (hcc : SQLiteDB.closeClearsCaches = true) {n : Nat} {w : World} (h : InvG n w)
    (c : Nat) (k : Bytes) (r : Result) (hok : (step w (.set c k r)).2 = .ok) (hsmall : n + (r.deps.length + 1) < 2 ^ 62) :
    (step (step w (.set c k r)).1 (.lookup c k)).2 = .result r := by
  have r1 := step_refines hf h (.set c k r) hsmall
  have h' := InvG_step hf hcc h (.set c k r)
  have r2 := step_refines hf h' (.lookup c k) (by simp only [opWeight] at *; omega)
  rw [r1.1] at r2
  have hs := sstep_set_then_lookup (absWorld w) c k k r
  have hok' := (OutMatch_ok_iff r1.2).1 hok
  simp only [hok', and_self, ↓reduceIte] at hs
  have m2 := r2.2
  rw [hs] at m2
  generalize (step (step w (.set c k r)).1 (.lookup c k)).2 = o at m2 ⊢
  cases o <;> simp_all [OutMatch]

end LLBuild.BuildDB
