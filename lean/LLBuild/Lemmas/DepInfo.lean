/-
Helper lemmas for C11 / C19 (dependency-info parser): with the final byte NUL, the operand scan stays inside the
buffer; the record loop returns `.ok` from every cursor `≤ length`.
-/
import LLBuild.Lemmas.MakeDeps

namespace LLBuild.DepInfo
open LLBuild.MakeDeps (R peek peek_lt peek_none_ge mapOk mapOk_of_ok slice peek_append_0)

theorem scanNul_ok (inp : Bytes) (pos : Nat) (hl : peek inp (inp.length - 1) = some 0) (h : pos < inp.length) :
    ∃ q, scanNul inp pos = .ok q ∧ q < inp.length := by
  fun_induction scanNul inp pos
  case case1 x hn => have := peek_none_ge hn; omega
  case case2 x c hs hc => exact ⟨_, rfl, h⟩
  case case3 x c hs hc ih =>
    apply ih
    by_cases hx : x = inp.length - 1
    · subst hx; rw [hl] at hs; cases hs; simp at hc
    · omega

theorem records_ok (inp : Bytes) (hl : peek inp (inp.length - 1) = some 0) :
    ∀ (n pos : Nat), inp.length - pos = n → pos ≤ inp.length → ∃ acts, records inp pos = .ok acts := by
  intro n
  induction n using Nat.strongRecOn with
  | _ n ih =>
    intro pos hn h
    unfold records
    split
    · exact ⟨_, rfl⟩
    · rename_i hne
      split
      · rename_i hnone; have := peek_none_ge hnone; omega
      · rename_i op hop
        split
        · exact ⟨_, rfl⟩
        · rename_i hg
          simp [Generated.diOperandGuard] at hg
          obtain ⟨q, hq, hbq⟩ := scanNul_ok inp (pos + 1) hl (by omega)
          have hgeq := scanNul_ge hq
          split
          · rename_i e he; rw [hq] at he; cases he
          · rename_i q' hq'; rw [hq] at hq'; cases hq'
            split
            · exact ⟨_, rfl⟩
            · obtain ⟨a, ha⟩ := ih (inp.length - (q + 1)) (by omega) (q + 1) rfl (by omega)
              rw [mapOk_of_ok ha]; exact ⟨_, rfl⟩

theorem parse_ok (inp : Bytes) : ∃ acts, parse inp = .ok acts := by
  unfold parse
  split
  · exact ⟨_, rfl⟩
  · rename_i hlen
    split
    · rename_i hn; have := peek_none_ge hn; omega
    · rename_i l hl
      split
      · exact ⟨_, rfl⟩
      · rename_i hz
        have hl0 : l = 0 := by simpa using hz
        subst hl0
        split
        · rename_i hn; have := peek_none_ge hn; omega
        · split
          · exact ⟨_, rfl⟩
          · exact records_ok inp hl _ 0 rfl (by omega)

/-! ### round trip -/

theorem scanNul_operand (s : Bytes) : ∀ (pre rest : Bytes), 0 ∉ s →
    scanNul (pre ++ s ++ 0 :: rest) pre.length = .ok (pre.length + s.length) := by
  induction s with
  | nil =>
    intro pre rest _
    unfold scanNul
    have hp : peek (pre ++ [] ++ 0 :: rest) pre.length = some 0 := by simpa using peek_append_0 pre rest 0
    split
    · rename_i hn; rw [hp] at hn; cases hn
    · rename_i c hc; rw [hp] at hc; cases hc; simp
  | cons t s ih =>
    intro pre rest hs
    unfold scanNul
    have hp : peek (pre ++ t :: s ++ 0 :: rest) pre.length = some t := by
      simpa using peek_append_0 pre (s ++ 0 :: rest) t
    have ht : t ≠ 0 := by intro h; subst h; simp at hs
    split
    · rename_i hn; rw [hp] at hn; cases hn
    · rename_i c hc; rw [hp] at hc; cases hc
      simp only [beq_iff_eq, ht, ↓reduceIte]
      have := ih (pre ++ [t]) rest (by intro h; apply hs; simp [h])
      simp at this ⊢
      rw [this]; congr 1; omega

theorem slice_mid (pre s rest : Bytes) : slice (pre ++ s ++ rest) pre.length (pre.length + s.length) = s := by
  simp [slice]

/-- a record the writer may emit after the leading version record -/
def Rec.okTail (r : Rec) : Bool := !r.isVersion && !r.operand.isEmpty && !r.operand.contains 0

theorem dispatch_tail (r : Rec) (pos : Nat) (h : r.isVersion = false) : dispatch r.opcode pos r.operand = r.action := by
  cases r <;> first | rfl | (simp [Rec.isVersion] at h)

theorem records_tail (rs : List Rec) : ∀ (pre : Bytes), (∀ r ∈ rs, r.okTail = true) →
    records (pre ++ encode rs) pre.length = .ok (rs.map Rec.action) := by
  induction rs with
  | nil => intro pre _; unfold records; simp [encode]
  | cons r rs ih =>
    intro pre hrs
    have hr := hrs r (by simp)
    simp only [Rec.okTail, Bool.and_eq_true, Bool.not_eq_true', List.isEmpty_eq_false_iff] at hr
    obtain ⟨⟨hv, hne⟩, h0⟩ := hr
    have h0' : 0 ∉ r.operand := by simpa using h0
    have henc : pre ++ encode (r :: rs) = (pre ++ [r.opcode]) ++ r.operand ++ 0 :: encode rs := by
      simp [encode, encodeRec]
    unfold records
    have hpk : peek (pre ++ encode (r :: rs)) pre.length = some r.opcode := by
      rw [henc]; simpa using peek_append_0 pre (r.operand ++ 0 :: encode rs) r.opcode
    have hlen : (pre ++ encode (r :: rs)).length = pre.length + 1 + r.operand.length + 1 + (encode rs).length := by
      rw [henc]; simp; omega
    have hopl : 0 < r.operand.length := List.length_pos_iff.2 hne
    split
    · omega
    · split
      · rename_i hn; rw [hpk] at hn; cases hn
      · rename_i op hop; rw [hpk] at hop; cases hop
        have hscan : scanNul (pre ++ encode (r :: rs)) (pre.length + 1) = .ok (pre.length + 1 + r.operand.length) := by
          rw [henc]
          simpa using scanNul_operand r.operand (pre ++ [r.opcode]) (encode rs) h0'
        split
        · rename_i hg; simp only [Bool.and_eq_true, beq_iff_eq] at hg; have := hg.2; omega
        · split
          · rename_i e he; rw [hscan] at he; cases he
          · rename_i q hq; rw [hscan] at hq; cases hq
            split
            · omega
            · have hsl : slice (pre ++ encode (r :: rs)) (pre.length + 1) (pre.length + 1 + r.operand.length) = r.operand := by
                rw [henc]
                simpa using slice_mid (pre ++ [r.opcode]) r.operand (0 :: encode rs)
              rw [hsl, dispatch_tail r _ hv]
              have hnext : pre ++ encode (r :: rs) = (pre ++ encodeRec r) ++ encode rs := by simp [encode]
              have hpos : pre.length + 1 + r.operand.length + 1 = (pre ++ encodeRec r).length := by
                simp [encodeRec]; omega
              rw [hnext, hpos, ih (pre ++ encodeRec r) (fun x hx => hrs x (by simp [hx]))]
              rfl

theorem encode_ends_nul (rs : List Rec) (h : rs ≠ []) : ∃ init, encode rs = init ++ [0] := by
  induction rs with
  | nil => exact absurd rfl h
  | cons r rs ih =>
    by_cases hrs : rs = []
    · subst hrs; exact ⟨r.opcode :: r.operand, by simp [encode, encodeRec]⟩
    · obtain ⟨init, hi⟩ := ih hrs
      exact ⟨encodeRec r ++ init, by simp [encode] at hi ⊢; rw [hi]⟩

end LLBuild.DepInfo

namespace LLBuild.MakeDeps

theorem numErrors_pos_of_mem {acts : List Action} {k : ErrKind} {pos : Nat} (h : Action.error k pos ∈ acts) :
    numErrors acts ≠ 0 := by
  unfold numErrors
  intro h0
  have : (acts.filter fun a => match a with | .error _ _ => true | _ => false) = [] := List.length_eq_zero_iff.1 h0
  have hm : Action.error k pos ∈ (acts.filter fun a => match a with | .error _ _ => true | _ => false) :=
    List.mem_filter.2 ⟨h, rfl⟩
  rw [this] at hm; cases hm

end LLBuild.MakeDeps

namespace LLBuild.DepInfo

theorem numErrors_pos_of_mem {acts : List Action} {k : ErrKind} {pos : Nat} (h : Action.error k pos ∈ acts) :
    numErrors acts ≠ 0 := by
  unfold numErrors
  intro h0
  have : (acts.filter fun a => match a with | .error _ _ => true | _ => false) = [] := List.length_eq_zero_iff.1 h0
  have hm : Action.error k pos ∈ (acts.filter fun a => match a with | .error _ _ => true | _ => false) :=
    List.mem_filter.2 ⟨h, rfl⟩
  rw [this] at hm; cases hm

end LLBuild.DepInfo
