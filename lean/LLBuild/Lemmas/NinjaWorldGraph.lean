/-
Graph edits: the list of build statements is replaced between two builds, the world (files, database rows keyed by
command name = rule key) stays.  `WorldInv` carries over to the new manifest when every statement of the new manifest
is either KEPT - it is a statement of the old one, and each of its inputs is produced by the statement that produced it,
or by a real (non-phony) statement under the same rule key with the same outputs (an EDITED producer) - or NEW: it is not
a statement of the old manifest, it is not a generator command, its alias - if phony - is not a file, and the database
holds no row under its rule key (FRESH) or a row stored under ANOTHER signature by a statement with as many outputs
(EDITED: the input lists of a statement were edited; with the repaired engine (F56) the signature covers them, so the
stored result is not accepted by the scan and not handed to the task).  (Adding statements, removing statements that
nothing kept refers to, moving an output to a rule key that was never used, editing the explicit / implicit / order-only
inputs of a statement.)
-/
import LLBuild.Lemmas.NinjaWorldTriggers

namespace LLBuild.NinjaWorld
open LLBuild.NinjaBuild LLBuild.NinjaBuild.Gen

theorem flatMap_congr' {α β : Type} {l : List α} {f g : α → List β} (h : ∀ x ∈ l, f x = g x) : l.flatMap f = l.flatMap g := by
  induction l with
  | nil => rfl
  | cons a l ih =>
    simp only [List.flatMap_cons, h a List.mem_cons_self, ih (fun x hx => h x (List.mem_cons_of_mem _ hx))]

/-! ### scanning a before-list for the producer of a key -/

theorem settled_skip_many {cs : List Command} {w : World} : ∀ (s l : List Command) (k : Path), (∀ x ∈ s, k ∉ x.outs) →
    Settled cs w (s ++ l) k = Settled cs w l k := by
  intro s
  induction s with
  | nil => intro l k _; rfl
  | cons x s ih =>
    intro l k h
    rw [List.cons_append, settled_skip (h x List.mem_cons_self)]
    exact ih l k (fun y hy => h y (List.mem_cons_of_mem _ hy))

theorem resolve_skip_many : ∀ (s l : List Command) (k : Path), (∀ x ∈ s, k ∉ x.outs) → resolve (s ++ l) k = resolve l k := by
  intro s
  induction s with
  | nil => intro l k _; rfl
  | cons x s ih =>
    intro l k h
    rw [List.cons_append, resolve_skip (h x List.mem_cons_self)]
    exact ih l k (fun y hy => h y (List.mem_cons_of_mem _ hy))

/-- where the producer of a key sits in a before-list -/
theorem before_split {cs l post : List Command} (hwf : wfFrom [] cs = true) (hs : cs = l.reverse ++ post) {q : Command} (hq : q ∈ l)
    {k : Path} (hk : k ∈ q.outs) : ∃ s bq, l = s ++ q :: bq ∧ At cs bq q (s.reverse ++ post) ∧ ∀ x ∈ s, k ∉ x.outs := by
  obtain ⟨s, bq, hl⟩ := List.append_of_mem hq
  have hat : At cs bq q (s.reverse ++ post) := ⟨by rw [hs, hl]; simp, hwf⟩
  refine ⟨s, bq, hl, hat, fun x hx hkx => ?_⟩
  have := hat.cmdWF.outs_rest k hk
  rw [producer_none_iff] at this
  exact this x (by simp [hx]) hkx

theorem no_producer_in {cs l post : List Command} (hs : cs = l.reverse ++ post) {k : Path} (hk : producer cs k = none) :
    ∀ x ∈ l, k ∉ x.outs := by
  intro x hx
  rw [producer_none_iff] at hk
  exact hk x (by rw [hs]; simp [hx])

/-! ### keys that mean the same under both manifests -/

/-- key `k` has the same producer under both manifests - or, for a real producer, one with the same rule key and the
same outputs - and so has everything a phony producer stands for -/
inductive Cone (cs cs' : List Command) : Path → Prop
  | src {k : Path} : producer cs' k = none → producer cs k = none → Cone cs cs' k
  | real {k : Path} {q' q : Command} : producer cs' k = some q' → producer cs k = some q → q'.phony = false → q.phony = false →
      q'.name = q.name → q'.outs = q.outs → Cone cs cs' k
  | phony {k : Path} {q : Command} : producer cs' k = some q → producer cs k = some q → q.phony = true →
      (∀ k' ∈ q.exp ++ q.imp, Cone cs cs' k') → Cone cs cs' k

theorem Cone.resOf_eq {cs cs' : List Command} {k : Path} (h : Cone cs cs' k) (w : World) : resOf cs' w k = resOf cs w k := by
  cases h with
  | src h1 h2 => simp only [resOf, h1, h2]
  | real h1 h2 _ _ hn ho => simp only [resOf, h1, h2, hn, ho]
  | phony h1 h2 _ _ => simp only [resOf, h1, h2]

/-- the key as a side condition of the inductions: a source file, or produced in the before-list `l` -/
def KeyOf (cs l : List Command) (k : Path) : Prop := producer cs k = none ∨ ∃ q ∈ l, k ∈ q.outs

theorem At.keyOf_input {cs before rest : List Command} {c : Command} (hat : At cs before c rest) {k : Path}
    (hk : k ∈ c.exp ++ c.imp ++ c.oo ++ c.deps) : KeyOf cs before k := by
  rcases hat.producer_in hk with h | ⟨q, hq, hqb⟩
  · exact Or.inl h
  · exact Or.inr ⟨q, hqb, (producer_some hq).2⟩

/-- the producer of a key of the before-list `l` is in `l` -/
theorem KeyOf.producer_mem {cs l post : List Command} (hwf : wfFrom [] cs = true) (hs : cs = l.reverse ++ post) {k : Path} {q : Command}
    (hk : KeyOf cs l k) (hp : producer cs k = some q) : q ∈ l := by
  rcases hk with h | ⟨x, hx, hkx⟩
  · rw [hp] at h; cases h
  · have := producer_of_mem hwf (by rw [hs]; simp [hx]) hkx
    rw [hp] at this; cases this; exact hx

theorem resolve_cone {cs cs' : List Command} (hwf : wfFrom [] cs = true) (hwf' : wfFrom [] cs' = true) {k : Path} (h : Cone cs cs' k) :
    ∀ (l' post' l post : List Command), cs' = l'.reverse ++ post' → cs = l.reverse ++ post → KeyOf cs' l' k → KeyOf cs l k →
    resolve l' k = resolve l k := by
  induction h with
  | @src k h1 h2 =>
    intro l' post' l post hs' hs _ _
    rw [resolve_self l' (fun q hq hkq => absurd hkq (no_producer_in hs' h1 q hq)),
      resolve_self l (fun q hq hkq => absurd hkq (no_producer_in hs h2 q hq))]
  | @real k q' q h1 h2 hp' hp _ _ =>
    intro l' post' l post hs' hs _ _
    have hu' : ∀ x ∈ l', k ∈ x.outs → x.phony = false := fun x hx hkx => by
      have := producer_of_mem hwf' (by rw [hs']; simp [hx]) hkx
      rw [h1] at this; cases this; exact hp'
    have hu : ∀ x ∈ l, k ∈ x.outs → x.phony = false := fun x hx hkx => by
      have := producer_of_mem hwf (by rw [hs]; simp [hx]) hkx
      rw [h2] at this; cases this; exact hp
    rw [resolve_self l' hu', resolve_self l hu]
  | @phony k q h1 h2 hp _ ih =>
    intro l' post' l post hs' hs hk' hk
    have hkq := (producer_some h1).2
    have hql' : q ∈ l' := hk'.producer_mem hwf' hs' h1
    have hql : q ∈ l := hk.producer_mem hwf hs h2
    obtain ⟨s', bq', hl', hat', hno'⟩ := before_split hwf' hs' hql' hkq
    obtain ⟨s, bq, hl, hat, hno⟩ := before_split hwf hs hql hkq
    rw [hl', hl, resolve_skip_many s' _ k hno', resolve_skip_many s _ k hno, resolve_phony hkq hp, resolve_phony hkq hp]
    apply flatMap_congr'
    intro k' hk'm
    have hin : k' ∈ q.exp ++ q.imp ++ q.oo ++ q.deps := by
      simp only [List.mem_append] at hk'm ⊢; rcases hk'm with h | h <;> simp [h]
    exact ih k' hk'm bq' _ bq _ hat'.split hat.split (hat'.keyOf_input hin) (hat.keyOf_input hin)

theorem settled_cone {cs cs' : List Command} (hwf : wfFrom [] cs = true) (hwf' : wfFrom [] cs' = true) (w : World) {k : Path}
    (h : Cone cs cs' k) :
    ∀ (l' post' l post : List Command), cs' = l'.reverse ++ post' → cs = l.reverse ++ post → KeyOf cs' l' k → KeyOf cs l k →
    (Settled cs' w l' k ↔ Settled cs w l k) := by
  induction h with
  | @src k h1 h2 =>
    intro l' post' l post hs' hs _ _
    have e' : Settled cs' w l' k = Settled cs' w [] k := by
      have := settled_skip_many (cs := cs') (w := w) l' [] k (no_producer_in hs' h1)
      simpa using this
    have e : Settled cs w l k = Settled cs w [] k := by
      have := settled_skip_many (cs := cs) (w := w) l [] k (no_producer_in hs h2)
      simpa using this
    rw [e', e]; rfl
  | @real k q' q h1 h2 hp' hp hn ho =>
    intro l' post' l post hs' hs hk' hk
    have hkq' := (producer_some h1).2
    have hkq := (producer_some h2).2
    have hql' : q' ∈ l' := hk'.producer_mem hwf' hs' h1
    have hql : q ∈ l := hk.producer_mem hwf hs h2
    obtain ⟨s', bq', hl', _, hno'⟩ := before_split hwf' hs' hql' hkq'
    obtain ⟨s, bq, hl, _, hno⟩ := before_split hwf hs hql hkq
    rw [hl', hl, settled_skip_many s' _ k hno', settled_skip_many s _ k hno, settled_real hkq' hp', settled_real hkq hp]
    simp only [resOf, h1, h2, hn, ho]
  | @phony k q h1 h2 hp hc ih =>
    intro l' post' l post hs' hs hk' hk
    have hkq := (producer_some h1).2
    have hql' : q ∈ l' := hk'.producer_mem hwf' hs' h1
    have hql : q ∈ l := hk.producer_mem hwf hs h2
    obtain ⟨s', bq', hl', hat', hno'⟩ := before_split hwf' hs' hql' hkq
    obtain ⟨s, bq, hl, hat, hno⟩ := before_split hwf hs hql hkq
    rw [hl', hl, settled_skip_many s' _ k hno', settled_skip_many s _ k hno, settled_phony hkq hp, settled_phony hkq hp]
    have hin : ∀ k' ∈ q.exp ++ q.imp, k' ∈ q.exp ++ q.imp ++ q.oo ++ q.deps := fun k' hk'm => by
      simp only [List.mem_append] at hk'm ⊢; rcases hk'm with h | h <;> simp [h]
    constructor
    · rintro ⟨r, hr, hsg, hkind, hall⟩
      exact ⟨r, hr, hsg, hkind, fun k' hk'm => ⟨(ih k' hk'm bq' _ bq _ hat'.split hat.split (hat'.keyOf_input (hin k' hk'm))
        (hat.keyOf_input (hin k' hk'm))).1 (hall k' hk'm).1, by rw [← (hc k' hk'm).resOf_eq w]; exact (hall k' hk'm).2⟩⟩
    · rintro ⟨r, hr, hsg, hkind, hall⟩
      exact ⟨r, hr, hsg, hkind, fun k' hk'm => ⟨(ih k' hk'm bq' _ bq _ hat'.split hat.split (hat'.keyOf_input (hin k' hk'm))
        (hat.keyOf_input (hin k' hk'm))).2 (hall k' hk'm).1, by rw [(hc k' hk'm).resOf_eq w]; exact (hall k' hk'm).2⟩⟩

/-! ### graph edits that keep, freshly introduce, or edit the inputs of every statement -/

/-- an input key of a kept statement: the same producer, or - for real producers - one with the same rule key and outputs -/
def sameKeyB (cs cs' : List Command) (k : Path) : Bool :=
  match producer cs' k, producer cs k with
  | none, none => true
  | some q', some q => q' == q || (!q'.phony && !q.phony && q'.name == q.name && q'.outs == q.outs)
  | _, _ => false

/-- the database row under the rule key of a new statement, if any, was stored under another signature, by a statement
with as many outputs -/
def staleRowB (cs : List Command) (w : World) (c : Command) : Bool :=
  match w.cmdDb c.name with
  | none => true
  | some r => r.sig != sigOf c && cs.any fun q => q.name == c.name && q.outs.length == c.outs.length

/-- every statement of the new manifest is KEPT (a statement of the old one whose inputs have the producers they had, up
to edited real producers) or NEW (not a statement of the old one, no row under its rule key that carries its signature,
not a generator, its alias - if phony - not a file) -/
structure GraphOk (cs cs' : List Command) (w : World) : Prop where
  wf' : wfFrom [] cs' = true
  kept : ∀ c ∈ cs', c ∈ cs → ∀ k ∈ c.exp ++ c.imp ++ c.oo ++ c.deps, sameKeyB cs cs' k = true
  fresh : ∀ c ∈ cs', c ∉ cs → staleRowB cs w c = true ∧ c.generator = false ∧ (c.phony = true → ∀ o ∈ c.outs, w.files o = none)

theorem staleRowB_spec {cs : List Command} {w : World} {c : Command} (h : staleRowB cs w c = true) {r : CmdResult}
    (hr : w.cmdDb c.name = some r) : r.sig ≠ sigOf c ∧ ∃ q ∈ cs, q.name = c.name ∧ q.outs.length = c.outs.length := by
  simp only [staleRowB, hr, Bool.and_eq_true, bne_iff_ne, ne_eq, List.any_eq_true, beq_iff_eq] at h
  exact h

theorem cone_of_kept {cs cs' : List Command} {w : World} (hg : GraphOk cs cs' w) :
    ∀ (l' post' : List Command), cs' = l'.reverse ++ post' → ∀ k, KeyOf cs' l' k → sameKeyB cs cs' k = true → Cone cs cs' k := by
  intro l'
  induction l' with
  | nil =>
    intro post' _ k hk hp
    rcases hk with h | ⟨q, hq, _⟩
    · unfold sameKeyB at hp
      rw [h] at hp
      cases h2 : producer cs k with
      | none => exact Cone.src h h2
      | some q => rw [h2] at hp; cases hp
    · cases hq
  | cons q l' ih =>
    intro post' hs' k hk hp
    have hat : At cs' l' q post' := ⟨by rw [hs']; simp, hg.wf'⟩
    by_cases hkq : k ∈ q.outs
    · have h1 := hat.producer_out hkq
      have hp' := hp
      unfold sameKeyB at hp'
      rw [h1] at hp'
      cases h2 : producer cs k with
      | none => rw [h2] at hp'; cases hp'
      | some q0 =>
        rw [h2] at hp'
        simp only [Bool.or_eq_true, beq_iff_eq, Bool.and_eq_true, Bool.not_eq_true'] at hp'
        cases hph : q.phony with
        | false =>
          rcases hp' with rfl | ⟨⟨⟨_, hp0⟩, hn⟩, ho⟩
          · exact Cone.real h1 h2 hph hph rfl rfl
          · exact Cone.real h1 h2 hph hp0 hn ho
        | true =>
          have hqq : q = q0 := by
            rcases hp' with h | ⟨⟨⟨hf, _⟩, _⟩, _⟩
            · exact h
            · rw [hph] at hf; cases hf
          subst hqq
          have hqcs : q ∈ cs := (producer_some h2).1
          refine Cone.phony h1 h2 hph (fun k' hk' => ?_)
          have hin : k' ∈ q.exp ++ q.imp ++ q.oo ++ q.deps := by
            simp only [List.mem_append] at hk' ⊢; rcases hk' with h | h <;> simp [h]
          exact ih (q :: post') (by rw [hs']; simp) k' (hat.keyOf_input hin) (hg.kept q hat.mem hqcs k' hin)
    · have hk' : KeyOf cs' l' k := by
        rcases hk with h | ⟨x, hx, hkx⟩
        · exact Or.inl h
        · rcases List.mem_cons.1 hx with rfl | hx
          · exact absurd hkx hkq
          · exact Or.inr ⟨x, hx, hkx⟩
      exact ih (q :: post') (by rw [hs']; simp) k hk' hp

/-- a kept statement at its two positions: its inputs mean the same -/
theorem kept_inputs {cs cs' : List Command} {w : World} (hwf : wfFrom [] cs = true) (hg : GraphOk cs cs' w)
    {b' r' b r : List Command} {c : Command} (hat' : At cs' b' c r') (hat : At cs b c r) :
    (∀ k ∈ c.exp ++ c.imp ++ c.oo ++ c.deps, Cone cs cs' k ∧ KeyOf cs' b' k ∧ KeyOf cs b k) ∧ readsOf b' c = readsOf b c := by
  have hall : ∀ k ∈ c.exp ++ c.imp ++ c.oo ++ c.deps, Cone cs cs' k ∧ KeyOf cs' b' k ∧ KeyOf cs b k := fun k hk =>
    ⟨cone_of_kept hg b' (c :: r') hat'.split k (hat'.keyOf_input hk) (hg.kept c hat'.mem hat.mem k hk),
     hat'.keyOf_input hk, hat.keyOf_input hk⟩
  refine ⟨hall, ?_⟩
  simp only [readsOf]
  congr 1
  apply flatMap_congr'
  intro k hk
  have hin : k ∈ c.exp ++ c.imp ++ c.oo ++ c.deps := by
    simp only [List.mem_append] at hk ⊢; rcases hk with h | h <;> simp [h]
  obtain ⟨hc, hk', hk0⟩ := hall k hin
  exact resolve_cone hwf hg.wf' hc b' (c :: r') b (c :: r) hat'.split hat.split hk' hk0

/-- **graph edits preserve the invariant** -/
theorem worldInv_graph {m m' : Manifest} (hsem : m'.sem = m.sem) (hwf : wfFrom [] m.cmds = true) {w : World} (hinv : WorldInv m w)
    (hg : GraphOk m.cmds m'.cmds w) : WorldInv m' w := by
  have hwf' := hg.wf'
  -- a statement with a row under its signature, or a generator, is a kept one
  have hkept : ∀ c ∈ m'.cmds, (∃ r, w.cmdDb c.name = some r ∧ r.sig = sigOf c) ∨ c.generator = true → c ∈ m.cmds := by
    intro c hc h
    apply Classical.byContradiction
    intro hn
    obtain ⟨h1, h2, _⟩ := hg.fresh c hc hn
    rcases h with ⟨r, hr, hsg⟩ | h
    · exact (staleRowB_spec h1 hr).1 hsg
    · rw [h2] at h; cases h
  refine ⟨⟨hinv.inv0.fileStamps, hinv.inv0.srcStamps, hinv.inv0.cmdStamps, hinv.inv0.srcEpoch, hinv.inv0.cmdEpoch, ?_, ?_⟩,
    ?_, ?_, ?_, hinv.sh, ?_, ?_⟩
  · intro c hc r hr
    by_cases hcs : c ∈ m.cmds
    · exact hinv.inv0.shape c hcs r hr
    · obtain ⟨_, q, hq, hqn, hql⟩ := staleRowB_spec (hg.fresh c hc hcs).1 hr
      have := hinv.inv0.shape q hq r (by rw [hqn]; exact hr)
      rw [hql] at this
      exact this
  · intro c hc hp o ho
    by_cases hcs : c ∈ m.cmds
    · exact hinv.inv0.phonyAbsent c hcs hp o ho
    · exact (hg.fresh c hc hcs).2.2 hp o ho
  · intro c hc hp r hr hsg hk
    exact hinv.phony c (hkept c hc (Or.inl ⟨r, hr, hsg⟩)) hp r hr hsg hk
  · intro c hc r hr hsg hk k hkm
    have hcs := hkept c hc (Or.inl ⟨r, hr, hsg⟩)
    obtain ⟨b', r', hat'⟩ := At.of_mem hwf' hc
    obtain ⟨b, r0, hat⟩ := At.of_mem hwf hcs
    have hin : k ∈ c.exp ++ c.imp ++ c.oo ++ c.deps := by
      simp only [List.mem_append] at hkm ⊢; rcases hkm with h | h <;> simp [h]
    have hcone := ((kept_inputs hwf hg hat' hat).1 k hin).1
    have := hinv.s c hcs r hr hsg hk k hkm
    simpa only [valueOf, hcone.resOf_eq w] using this
  · intro c hc r hr hsg hk
    exact hinv.d c (hkept c hc (Or.inl ⟨r, hr, hsg⟩)) r hr hsg hk
  · -- provenance
    intro b' c r' hat' hp o ho f hf hu
    have hcs : c ∈ m.cmds := hkept c hat'.mem (by
      rcases hu with h | ⟨r, hr, hsg, _⟩
      · exact Or.inr h
      · exact Or.inl ⟨r, hr, hsg⟩)
    obtain ⟨b, r0, hat⟩ := At.of_mem hwf hcs
    have hreads := (kept_inputs hwf hg hat' hat).2
    have := hinv.t b c r0 hat hp o ho f hf hu
    simpa only [Prov, hreads, hsem] using this
  · -- freshness of what is up to date
    intro b' c r' hat' hp r hr hsg hk hmatch hdeps
    have hcs : c ∈ m.cmds := hkept c hat'.mem (Or.inl ⟨r, hr, hsg⟩)
    obtain ⟨b, r0, hat⟩ := At.of_mem hwf hcs
    obtain ⟨hall, hreads⟩ := kept_inputs hwf hg hat' hat
    have hdeps0 : DepsOK m.cmds w b c r.builtAt := fun k hkd => by
      have hin := insAll_sub c k (depKeys_sub_insAll c k hkd)
      obtain ⟨hc, hk', hk0⟩ := hall k hin
      exact ⟨(settled_cone hwf hwf' w hc b' (c :: r') b (c :: r0) hat'.split hat.split hk' hk0).1 (hdeps k hkd).1,
        by rw [← hc.resOf_eq w]; exact (hdeps k hkd).2⟩
    have := hinv.k b c r0 hat hp r hr hsg hk hmatch hdeps0
    simpa only [FreshWith, hreads, hsem] using this

end LLBuild.NinjaWorld
