/-
Helper lemmas for C11 / C19 (dependency parsers): every helper of the Makefile-deps model returns `.ok` with a
cursor inside `[pos, length]` whenever it is entered with `pos ≤ length` (so no read is out of bounds), and the
one-step / stop lemmas of `lexWord` on escaped text.
-/
import LLBuild.Model.MakeDeps
import LLBuild.Model.DepInfo

namespace LLBuild.MakeDeps

theorem peek_none_ge {inp : Bytes} {i : Nat} (h : peek inp i = none) : inp.length ≤ i := by
  unfold peek at h
  exact List.getElem?_eq_none_iff.1 h

theorem guard_true : Generated.mdTrailingBackslashGuard = true := rfl

theorem nextIs_ok {inp : Bytes} {pos : Nat} (b : UInt8) (h : pos < inp.length) : ∃ r, nextIs inp pos b = .ok r := by
  unfold nextIs
  split
  · exact ⟨_, rfl⟩
  · split
    · rename_i hn; have := peek_none_ge hn; omega
    · exact ⟨_, rfl⟩

theorem nextIs_true {inp : Bytes} {pos : Nat} {b : UInt8} (h : nextIs inp pos b = .ok true) : pos + 1 < inp.length := by
  unfold nextIs at h
  split at h
  · cases h
  · split at h
    · cases h
    · rename_i hs; exact peek_lt hs

theorem crlfFollows_ok (inp : Bytes) (pos : Nat) : ∃ r, crlfFollows inp pos = .ok r := by
  unfold crlfFollows
  split
  · split
    · rename_i hn; have := peek_none_ge hn; omega
    · split
      · split
        · rename_i hn; have := peek_none_ge hn; omega
        · exact ⟨_, rfl⟩
      · exact ⟨_, rfl⟩
  · exact ⟨_, rfl⟩

theorem crlfFollows_true {inp : Bytes} {pos : Nat} (h : crlfFollows inp pos = .ok true) : pos + 2 < inp.length := by
  unfold crlfFollows at h
  split at h
  · assumption
  · cases h

theorem skipComment_ok (inp : Bytes) (pos : Nat) (h : pos < inp.length) :
    ∃ p, skipComment inp pos = .ok p ∧ p < inp.length := by
  fun_induction skipComment inp pos with
  | case1 pos _ => exact ⟨_, rfl, h⟩
  | case2 pos _ hn => have := peek_none_ge hn; omega
  | case3 pos _ d hs _ ih => exact ih (peek_lt hs)
  | case4 pos _ d _ _ => exact ⟨_, rfl, h⟩

theorem skipWsC_ok (inp : Bytes) (pos : Nat) (h : pos ≤ inp.length) :
    ∃ p, skipWsC inp pos = .ok p ∧ p ≤ inp.length := by
  fun_induction skipWsC inp pos with
  | case1 => exact ⟨_, rfl, h⟩
  | case2 pos _ hn => have := peek_none_ge hn; omega
  | case3 pos _ c hs _ e he =>
    obtain ⟨p, hp, _⟩ := skipComment_ok inp pos (peek_lt hs)
    rw [hp] at he; cases he
  | case4 pos _ c hs _ p hp ih =>
    obtain ⟨p', hp', hlt⟩ := skipComment_ok inp pos (peek_lt hs)
    rw [hp'] at hp; cases hp
    exact ih (by omega)
  | case5 pos _ c hs _ _ ih => exact ih (peek_lt hs)
  | case6 pos _ c hs _ _ => exact ⟨_, rfl, h⟩

theorem skipNNW_ok (inp : Bytes) (pos : Nat) (h : pos ≤ inp.length) :
    ∃ p, skipNNW inp pos = .ok p ∧ p ≤ inp.length := by
  fun_induction skipNNW inp pos with
  | case1 => exact ⟨_, rfl, h⟩
  | case2 pos _ hn => have := peek_none_ge hn; omega
  | case3 pos _ c hs _ ih => exact ih (peek_lt hs)
  | case4 pos _ c hs _ _ e he =>
    obtain ⟨r, hr⟩ := nextIs_ok 10 (peek_lt hs); rw [hr] at he; cases he
  | case5 pos _ c hs _ _ ht ih => have := nextIs_true ht; exact ih (by omega)
  | case6 pos _ c hs _ _ _ e he =>
    obtain ⟨r, hr⟩ := crlfFollows_ok inp pos; rw [hr] at he; cases he
  | case7 pos _ c hs _ _ _ ht ih => have := crlfFollows_true ht; exact ih (by omega)
  | case8 pos _ c hs _ _ _ _ => exact ⟨_, rfl, h⟩
  | case9 pos _ c hs _ _ => exact ⟨_, rfl, h⟩

theorem skipEOL_ok (inp : Bytes) (pos : Nat) (h : pos ≤ inp.length) :
    ∃ p, skipEOL inp pos = .ok p ∧ p ≤ inp.length := by
  fun_induction skipEOL inp pos with
  | case1 => exact ⟨_, rfl, h⟩
  | case2 pos _ hn => have := peek_none_ge hn; omega
  | case3 pos _ c hs _ => exact ⟨_, rfl, peek_lt hs⟩
  | case4 pos _ c hs _ ih => exact ih (peek_lt hs)

theorem prepend_of_ok {pre : Bytes} {r : R (Nat × Bytes)} {x : Nat × Bytes} (h : r = .ok x) :
    prepend pre r = .ok (x.1, pre ++ x.2) := by
  subst h; rfl

theorem lexWord_ok (inp : Bytes) (pos : Nat) (h : pos ≤ inp.length) :
    ∃ r, lexWord inp pos = .ok r ∧ r.1 ≤ inp.length := by
  fun_induction lexWord inp pos
  case case1 => exact ⟨_, rfl, h⟩
  case case2 x _ hn => have := peek_none_ge hn; omega
  case case3 x _ d hs _ e he => obtain ⟨r, hr⟩ := nextIs_ok 10 (peek_lt hs); rw [hr] at he; cases he
  case case4 x _ d hs _ _ => exact ⟨_, rfl, h⟩
  case case5 x _ d hs _ _ _ => exact ⟨_, rfl, peek_lt hs⟩
  case case6 x _ d hs _ _ hng hn =>
    have := peek_none_ge hn; have := peek_lt hs
    simp [Generated.mdTrailingBackslashGuard] at hng
    omega
  case case7 x _ d hs _ _ _ d2 hs2 ih =>
    obtain ⟨r, hr, hb⟩ := ih (peek_lt hs2)
    rw [prepend_of_ok hr]; exact ⟨_, rfl, hb⟩
  case case8 x _ d hs _ _ e he => obtain ⟨r, hr⟩ := nextIs_ok 36 (peek_lt hs); rw [hr] at he; cases he
  case case9 x _ d hs _ _ ht ih =>
    obtain ⟨r, hr, hb⟩ := ih (nextIs_true ht)
    rw [prepend_of_ok hr]; exact ⟨_, rfl, hb⟩
  case case10 x _ d hs _ _ _ _ ih =>
    obtain ⟨r, hr, hb⟩ := ih (peek_lt hs)
    rw [prepend_of_ok hr]; exact ⟨_, rfl, hb⟩
  case case11 x _ d hs _ _ _ _ => exact ⟨_, rfl, h⟩
  case case12 x _ d hs _ _ _ ih =>
    obtain ⟨r, hr, hb⟩ := ih (peek_lt hs)
    rw [prepend_of_ok hr]; exact ⟨_, rfl, hb⟩
  case case13 x _ d hs _ _ _ => exact ⟨_, rfl, h⟩

theorem lexColons_ok (inp : Bytes) (pos : Nat) (h : pos ≤ inp.length) :
    ∃ r, lexColons inp pos = .ok r ∧ r.1 ≤ inp.length := by
  fun_induction lexColons inp pos
  case case1 => exact ⟨_, rfl, h⟩
  case case2 x _ hn => have := peek_none_ge hn; omega
  case case3 x _ d hs _ e he =>
    obtain ⟨r, hr, _⟩ := lexWord_ok inp (x + 1) (peek_lt hs); rw [hr] at he; cases he
  case case4 x _ d hs _ r hr ih =>
    obtain ⟨r', hr', hb'⟩ := lexWord_ok inp (x + 1) (peek_lt hs)
    rw [hr'] at hr; cases hr
    obtain ⟨r2, hr2, hb2⟩ := ih hb'
    rw [prepend_of_ok hr2]; exact ⟨_, rfl, hb2⟩
  case case5 x _ d hs _ => exact ⟨_, rfl, h⟩

theorem consActs_of_ok {pre : List Action} {r : R (Nat × List Action)} {x : Nat × List Action} (h : r = .ok x) :
    consActs pre r = .ok (x.1, pre ++ x.2) := by
  subst h; rfl

theorem mapOk_of_ok {α β : Type} {f : α → β} {r : R α} {x : α} (h : r = .ok x) : mapOk f r = .ok (f x) := by
  subst h; rfl

/-- the generic shape of the remaining two loops: unfold one iteration, feed it the `_ok` facts -/
theorem parseDeps_ok (inp : Bytes) : ∀ (n pos : Nat), inp.length - pos = n → pos ≤ inp.length →
    ∃ r, parseDeps inp pos = .ok r ∧ r.1 ≤ inp.length := by
  intro n
  induction n using Nat.strongRecOn with
  | _ n ih =>
    intro pos hn h
    unfold parseDeps
    split
    · exact ⟨_, rfl, h⟩
    · rename_i hne
      obtain ⟨p1, h1, hb1⟩ := skipNNW_ok inp pos h
      have hge1 := skipNNW_ge h1
      split
      · rename_i e he; rw [h1] at he; cases he
      · rename_i q hq; rw [h1] at hq; cases hq
        split
        · exact ⟨_, rfl, hb1⟩
        · rename_i hne1
          split
          · rename_i hnone; have := peek_none_ge hnone; omega
          · rename_i c hc
            split
            · exact ⟨_, rfl, hb1⟩
            · obtain ⟨r, hr, hbr⟩ := lexWord_ok inp p1 hb1
              have hger := lexWord_ge hr
              split
              · rename_i e he; rw [hr] at he; cases he
              · rename_i r' hr'; rw [hr] at hr'; cases hr'
                split
                · obtain ⟨p3, h3, hb3⟩ := skipEOL_ok inp p1 hb1
                  have hgt3 := skipEOL_gt h3 hne1
                  split
                  · rename_i e he; rw [h3] at he; cases he
                  · rename_i q3 hq3; rw [h3] at hq3; cases hq3
                    obtain ⟨r4, hr4, hb4⟩ := ih (inp.length - p3) (by omega) p3 rfl hb3
                    rw [consActs_of_ok hr4]; exact ⟨_, rfl, hb4⟩
                · rename_i hprog
                  obtain ⟨r2, h2, hb2⟩ := lexColons_ok inp r.1 hbr
                  have hge2 := lexColons_ge h2
                  split
                  · rename_i e he; rw [h2] at he; cases he
                  · rename_i q2 hq2; rw [h2] at hq2; cases hq2
                    obtain ⟨r4, hr4, hb4⟩ := ih (inp.length - r2.1) (by omega) r2.1 rfl hb2
                    rw [consActs_of_ok hr4]; exact ⟨_, rfl, hb4⟩

theorem colonAt_ok (inp : Bytes) (pos : Nat) (h : pos ≤ inp.length) : ∃ b, colonAt inp pos = .ok b := by
  unfold colonAt
  split
  · exact ⟨_, rfl⟩
  · split
    · rename_i hn; have := peek_none_ge hn; omega
    · exact ⟨_, rfl⟩

theorem colonAt_true {inp : Bytes} {pos : Nat} (h : colonAt inp pos = .ok true) : pos < inp.length := by
  unfold colonAt at h
  split at h
  · cases h
  · split at h
    · cases h
    · rename_i hs; exact peek_lt hs

theorem parseRules_ok (ign : Bool) (inp : Bytes) : ∀ (n pos : Nat), inp.length - pos = n → pos ≤ inp.length →
    ∃ acts, parseRules ign inp pos = .ok acts := by
  intro n
  induction n using Nat.strongRecOn with
  | _ n ih =>
    intro pos hn h
    unfold parseRules
    split
    · exact ⟨_, rfl⟩
    · rename_i hne
      obtain ⟨p1, h1, hb1⟩ := skipWsC_ok inp pos h
      have hge1 := skipWsC_ge h1
      split
      · rename_i e he; rw [h1] at he; cases he
      · rename_i q hq; rw [h1] at hq; cases hq
        split
        · exact ⟨_, rfl⟩
        · rename_i hne1
          obtain ⟨r, hr, hbr⟩ := lexWord_ok inp p1 hb1
          have hger := lexWord_ge hr
          split
          · rename_i e he; rw [hr] at he; cases he
          · rename_i r' hr'; rw [hr] at hr'; cases hr'
            split
            · obtain ⟨p3, h3, hb3⟩ := skipEOL_ok inp p1 hb1
              have hgt3 := skipEOL_gt h3 hne1
              split
              · rename_i e he; rw [h3] at he; cases he
              · rename_i q3 hq3; rw [h3] at hq3; cases hq3
                obtain ⟨a4, ha4⟩ := ih (inp.length - p3) (by omega) p3 rfl hb3
                rw [mapOk_of_ok ha4]; exact ⟨_, rfl⟩
            · rename_i hprog
              obtain ⟨p3, h3, hb3⟩ := skipNNW_ok inp r.1 hbr
              have hge3 := skipNNW_ge h3
              split
              · rename_i e he; rw [h3] at he; cases he
              · rename_i q3 hq3; rw [h3] at hq3; cases hq3
                obtain ⟨b, hb⟩ := colonAt_ok inp p3 hb3
                split
                · rename_i e he; rw [hb] at he; cases he
                · obtain ⟨p4, h4, hb4⟩ := skipEOL_ok inp p3 hb3
                  have hge4 := skipEOL_ge h4
                  split
                  · rename_i e he; rw [h4] at he; cases he
                  · rename_i q4 hq4; rw [h4] at hq4; cases hq4
                    obtain ⟨a5, ha5⟩ := ih (inp.length - p4) (by omega) p4 rfl hb4
                    rw [mapOk_of_ok ha5]; exact ⟨_, rfl⟩
                · rename_i hct
                  have hlt := colonAt_true hct
                  obtain ⟨d, hd, hbd⟩ := parseDeps_ok inp _ (p3 + 1) rfl hlt
                  have hged := parseDeps_ge hd
                  split
                  · rename_i e he; rw [hd] at he; cases he
                  · rename_i d' hd'; rw [hd] at hd'; cases hd'
                    split
                    · exact ⟨_, rfl⟩
                    · obtain ⟨a5, ha5⟩ := ih (inp.length - d.1) (by omega) d.1 rfl hbd
                      rw [mapOk_of_ok ha5]; exact ⟨_, rfl⟩

theorem peek_append_0 (pre rest : Bytes) (x : UInt8) : peek (pre ++ x :: rest) pre.length = some x := by
  simp [peek]

theorem peek_append_1 (pre rest : Bytes) (x y : UInt8) : peek (pre ++ x :: y :: rest) (pre.length + 1) = some y := by
  simp [peek]

theorem nextIs_append (pre rest : Bytes) (x y b : UInt8) : nextIs (pre ++ x :: y :: rest) pre.length b = .ok (y == b) := by
  unfold nextIs
  simp [peek_append_1]

theorem nextIs_append_last (pre : Bytes) (x b : UInt8) : nextIs (pre ++ [x]) pre.length b = .ok false := by
  unfold nextIs
  simp

theorem lexWord_step (pre rest : Bytes) (c : UInt8) (hc : exprByte c = true) (h58 : c ≠ 58) :
    lexWord (pre ++ escapeByte c ++ rest) pre.length =
      prepend [c] (lexWord (pre ++ escapeByte c ++ rest) (pre.length + (escapeByte c).length)) := by
  simp only [exprByte, Bool.and_eq_true, bne_iff_ne, ne_eq] at hc
  obtain ⟨⟨⟨h0, h9⟩, h10⟩, h13⟩ := hc
  by_cases h1 : c = 32 ∨ c = 35 ∨ c = 92
  · have he : escapeByte c = [92, c] := by rcases h1 with rfl | rfl | rfl <;> rfl
    rw [he]
    simp only [List.append_assoc, List.cons_append, List.nil_append]
    conv => lhs; unfold lexWord
    have hlit : isEscLiteral c = true := by rcases h1 with rfl | rfl | rfl <;> rfl
    split
    · rename_i h; simp at h
    · split
      · rename_i hn; rw [peek_append_0] at hn; cases hn
      · rename_i d hd; rw [peek_append_0] at hd; cases hd
        have hb : (c == 10) = false := by simp [h10]
        simp [peek_append_1, nextIs_append, hb, hlit, Generated.mdTrailingBackslashGuard]
  · by_cases h2 : c = 36
    · subst h2
      have he : escapeByte 36 = [36, 36] := rfl
      rw [he]
      simp only [List.append_assoc, List.cons_append, List.nil_append]
      conv => lhs; unfold lexWord
      split
      · rename_i h; simp at h
      · split
        · rename_i hn; rw [peek_append_0] at hn; cases hn
        · rename_i d hd; rw [peek_append_0] at hd; cases hd
          simp [nextIs_append]
    · have he : escapeByte c = [c] := by
        unfold escapeByte
        simp at h1
        simp [h1, h2]
      rw [he]
      simp only [List.append_assoc, List.cons_append, List.nil_append]
      conv => lhs; unfold lexWord
      have hw : isWordChar c = true := by
        simp at h1
        simp [isWordChar, Generated.mdNonWordChars, h0, h9, h10, h13, h1, h2, h58]
      split
      · rename_i h; simp at h
      · split
        · rename_i hn; rw [peek_append_0] at hn; cases hn
        · rename_i d hd; rw [peek_append_0] at hd; cases hd
          simp at h1
          simp [h1, h2, hw]

theorem lexWord_stop (pre suffix : Bytes) (h : stopsWord suffix = true) :
    lexWord (pre ++ suffix) pre.length = .ok (pre.length, []) := by
  unfold lexWord
  cases suffix with
  | nil => simp
  | cons d rest =>
    simp only [stopsWord, Bool.and_eq_true, Bool.not_eq_true', bne_iff_ne, ne_eq] at h
    split
    · rename_i h'; simp at h'
    · split
      · rename_i hn; rw [peek_append_0] at hn; cases hn
      · rename_i d' hd; rw [peek_append_0] at hd; cases hd
        have h92 : d ≠ 92 := by intro h'; subst h'; simp [isWordChar, Generated.mdNonWordChars] at h
        simp [h92, h.1, h.2]


theorem escape_cons (c : UInt8) (p : Bytes) : escape (c :: p) = escapeByte c ++ escape p := by
  simp [escape]

theorem escapeByte_length_pos (c : UInt8) : 0 < (escapeByte c).length := by
  unfold escapeByte
  split
  · simp
  · split <;> simp

/-- a colon-free expressible path comes back from `lexWord` byte for byte -/
theorem lexWord_roundtrip (p : Bytes) : ∀ (pre suffix : Bytes), (∀ c ∈ p, exprByte c = true ∧ c ≠ 58) →
    stopsWord suffix = true →
    lexWord (pre ++ escape p ++ suffix) pre.length = .ok (pre.length + (escape p).length, p) := by
  induction p with
  | nil => intro pre suffix _ hs; simpa [escape] using lexWord_stop pre suffix hs
  | cons c p ih =>
    intro pre suffix hp hs
    have hc := hp c (by simp)
    rw [escape_cons]
    have e1 : pre ++ (escapeByte c ++ escape p) ++ suffix = pre ++ escapeByte c ++ (escape p ++ suffix) := by simp
    rw [e1, lexWord_step pre _ c hc.1 hc.2]
    have e2 : pre ++ escapeByte c ++ (escape p ++ suffix) = (pre ++ escapeByte c) ++ escape p ++ suffix := by simp
    have e3 : pre.length + (escapeByte c).length = (pre ++ escapeByte c).length := by simp
    rw [e2, e3, ih (pre ++ escapeByte c) suffix (fun x hx => hp x (by simp [hx])) hs]
    simp [prepend, mapOk]; omega

theorem lexColons_stop (pre suffix : Bytes) (h : suffix.head? ≠ some 58) :
    lexColons (pre ++ suffix) pre.length = .ok (pre.length, []) := by
  unfold lexColons
  cases suffix with
  | nil => simp
  | cons d rest =>
    split
    · rename_i h'; simp at h'
    · split
      · rename_i hn; rw [peek_append_0] at hn; cases hn
      · rename_i d' hd; rw [peek_append_0] at hd; cases hd
        have : d ≠ 58 := by simpa using h
        simp [this]

theorem lexColons_step {inp : Bytes} {pos : Nat} {r : Nat × Bytes} (hp : peek inp pos = some 58)
    (hr : lexWord inp (pos + 1) = .ok r) : lexColons inp pos = prepend (58 :: r.2) (lexColons inp r.1) := by
  conv => lhs; unfold lexColons
  have := peek_lt hp
  split
  · omega
  · split
    · rename_i hn; rw [hp] at hn; cases hn
    · rename_i d hd; rw [hp] at hd; cases hd
      simp only [beq_self_eq_true, ↓reduceIte]
      split
      · rename_i e he; rw [hr] at he; cases he
      · rename_i r' hr'; rw [hr] at hr'; cases hr'; rfl

theorem stopsWord_of_stopsDep {s : Bytes} (h : stopsDep s = true) : stopsWord s = true := by
  cases s with
  | nil => rfl
  | cons d r => simp [stopsDep] at h; simp [stopsWord, h.1.1, h.1.2]

theorem head_ne_colon_of_stopsDep {s : Bytes} (h : stopsDep s = true) : s.head? ≠ some 58 := by
  cases s with
  | nil => simp
  | cons d r => simp [stopsDep] at h; simp [h.2]

/-- how `parse` reads one prerequisite written with the documented escaping -/
theorem lexDep_parts (p : Bytes) : ∀ (pre suffix : Bytes), (∀ c ∈ p, exprByte c = true) → stopsDep suffix = true →
    ∃ q w w2, lexWord (pre ++ escape p ++ suffix) pre.length = .ok (q, w) ∧
      lexColons (pre ++ escape p ++ suffix) q = .ok (pre.length + (escape p).length, w2) ∧ w ++ w2 = p ∧
      (p ≠ [] → p.head? ≠ some 58 → pre.length < q) := by
  induction p with
  | nil =>
    intro pre suffix _ hs
    refine ⟨pre.length, [], [], ?_, ?_, rfl, fun h => absurd rfl h⟩
    · simpa [escape] using lexWord_stop pre suffix (stopsWord_of_stopsDep hs)
    · simpa [escape] using lexColons_stop pre suffix (head_ne_colon_of_stopsDep hs)
  | cons c p ih =>
    intro pre suffix hp hs
    have hc := hp c (by simp)
    have hp' : ∀ x ∈ p, exprByte x = true := fun x hx => hp x (by simp [hx])
    rw [escape_cons]
    have e1 : pre ++ (escapeByte c ++ escape p) ++ suffix = pre ++ escapeByte c ++ (escape p ++ suffix) := by simp
    have e2 : pre ++ escapeByte c ++ (escape p ++ suffix) = (pre ++ escapeByte c) ++ escape p ++ suffix := by simp
    have e3 : pre.length + (escapeByte c).length = (pre ++ escapeByte c).length := by simp
    obtain ⟨q, w, w2, h1, h2, h3, _⟩ := ih (pre ++ escapeByte c) suffix hp' hs
    by_cases h58 : c = 58
    · subst h58
      have he : escapeByte 58 = [58] := rfl
      rw [he] at e1 e2 e3 h1 h2 ⊢
      rw [e1]
      refine ⟨pre.length, [], 58 :: (w ++ w2), ?_, ?_, by simp [h3], fun _ h => absurd rfl h⟩
      · have := lexWord_stop pre (58 :: (escape p ++ suffix)) (by simp [stopsWord, isWordChar, Generated.mdNonWordChars])
        simpa using this
      · have hpk : peek (pre ++ [58] ++ (escape p ++ suffix)) pre.length = some 58 := by
          simpa using peek_append_0 pre (escape p ++ suffix) 58
        rw [e2] at hpk ⊢
        have h1' : lexWord (pre ++ [58] ++ escape p ++ suffix) (pre.length + 1) = .ok (q, w) := by simpa using h1
        rw [lexColons_step hpk h1']
        simp only
        rw [h2]
        simp [prepend, mapOk]; omega
    · rw [e1]
      refine ⟨q, c :: w, w2, ?_, ?_, by simp [h3], fun _ _ => ?_⟩
      · rw [lexWord_step pre _ c hc h58, e2, e3, h1]; rfl
      · rw [e2, h2]; simp; omega
      · have := lexWord_ge h1
        have := escapeByte_length_pos c
        simp at this ⊢; omega

theorem lexDep_roundtrip (p pre suffix : Bytes) (hp : ∀ c ∈ p, exprByte c = true) (hs : stopsDep suffix = true) :
    lexDep (pre ++ escape p ++ suffix) pre.length = .ok (pre.length + (escape p).length, p) := by
  obtain ⟨q, w, w2, h1, h2, h3, _⟩ := lexDep_parts p pre suffix hp hs
  unfold lexDep
  rw [h1]
  simp only
  rw [h2]
  simp [prepend, mapOk, h3]


/-! ### what no spelling can produce -/

theorem nextIs_false_ne {inp : Bytes} {pos : Nat} {b d : UInt8} (h : nextIs inp pos b = .ok false)
    (hd : peek inp (pos + 1) = some d) : d ≠ b := by
  unfold nextIs at h
  have := peek_lt hd
  split at h
  · omega
  · rw [hd] at h
    simp at h
    exact h

theorem isWordChar_ne_lf {c : UInt8} (h : isWordChar c = true) : c ≠ 10 := by
  intro hc; subst hc; simp [isWordChar, Generated.mdNonWordChars] at h

theorem lexWord_no_lf {inp : Bytes} {pos : Nat} {r : Nat × Bytes} (h : lexWord inp pos = .ok r) : 10 ∉ r.2 := by
  fun_induction lexWord inp pos generalizing r <;> try (first | (cases h; done) | (cases h; simp; done))
  case case7 x _ d hs _ hf _ d2 hs2 ih =>
    obtain ⟨p, w⟩ := r
    obtain ⟨w', hw, rfl⟩ := prepend_ok h
    have := ih hw
    have hne := nextIs_false_ne hf hs2
    intro hmem
    rw [List.mem_append] at hmem
    rcases hmem with hm | hm
    · split at hm
      · simp at hm; exact hne hm.symm
      · simp at hm; exact hne hm.symm
    · exact this hm
  case case9 x _ d hs _ _ _ ih =>
    obtain ⟨p, w⟩ := r
    obtain ⟨w', hw, rfl⟩ := prepend_ok h
    have := ih hw
    simp_all
  case case10 x _ d hs _ _ _ hw ih =>
    obtain ⟨p, w⟩ := r
    obtain ⟨w', hw', rfl⟩ := prepend_ok h
    have h1 := ih hw'
    have h2 := isWordChar_ne_lf hw
    intro hmem
    simp at hmem
    rcases hmem with hm | hm
    · exact h2 hm.symm
    · exact h1 hm
  case case12 x _ d hs _ _ hw ih =>
    obtain ⟨p, w⟩ := r
    obtain ⟨w', hw', rfl⟩ := prepend_ok h
    have h1 := ih hw'
    have h2 := isWordChar_ne_lf hw
    intro hmem
    simp at hmem
    rcases hmem with hm | hm
    · exact h2 hm.symm
    · exact h1 hm

theorem lexColons_no_lf {inp : Bytes} {pos : Nat} {r : Nat × Bytes} (h : lexColons inp pos = .ok r) : 10 ∉ r.2 := by
  fun_induction lexColons inp pos generalizing r <;> try (first | (cases h; done) | (cases h; simp; done))
  case case4 x _ d hs _ r1 hr1 ih =>
    obtain ⟨p, w⟩ := r
    obtain ⟨w', hw', rfl⟩ := prepend_ok h
    have := ih hw'
    have := lexWord_no_lf hr1
    simp_all

theorem ctl_mono {w : Bytes} (h : ctlOnlyAfterBackslash false w = true) (b : Bool) : ctlOnlyAfterBackslash b w = true := by
  cases w with
  | nil => rfl
  | cons c rest => simp [ctlOnlyAfterBackslash] at h ⊢; simp [h]

theorem ctl_cons {c : UInt8} {w : Bytes} (hc : isCtl c = false) (h : ctlOnlyAfterBackslash false w = true) :
    ctlOnlyAfterBackslash false (c :: w) = true := by
  simp [ctlOnlyAfterBackslash, hc, ctl_mono h]

theorem isWordChar_not_ctl {c : UInt8} (h : isWordChar c = true) : isCtl c = false := by
  simp [isWordChar, Generated.mdNonWordChars] at h
  simp [isCtl, h]

theorem lexWord_ctl {inp : Bytes} {pos : Nat} {r : Nat × Bytes} (h : lexWord inp pos = .ok r) :
    ctlOnlyAfterBackslash false r.2 = true := by
  fun_induction lexWord inp pos generalizing r <;> try (first | (cases h; done) | (cases h; rfl))
  case case7 x _ d hs _ hf _ d2 hs2 ih =>
    obtain ⟨p, w⟩ := r
    obtain ⟨w', hw, rfl⟩ := prepend_ok h
    have := ih hw
    split
    · rename_i hl
      apply ctl_cons _ this
      simp [isEscLiteral, Generated.mdEscapeLiteral] at hl
      rcases hl with rfl | rfl | rfl <;> rfl
    · simp [ctlOnlyAfterBackslash, isCtl, ctl_mono this]
  case case9 x _ d hs _ _ _ ih =>
    obtain ⟨p, w⟩ := r
    obtain ⟨w', hw, rfl⟩ := prepend_ok h
    exact ctl_cons rfl (ih hw)
  case case10 x _ d hs _ _ _ hw ih =>
    obtain ⟨p, w⟩ := r
    obtain ⟨w', hw', rfl⟩ := prepend_ok h
    exact ctl_cons (isWordChar_not_ctl hw) (ih hw')
  case case12 x _ d hs _ _ hw ih =>
    obtain ⟨p, w⟩ := r
    obtain ⟨w', hw', rfl⟩ := prepend_ok h
    exact ctl_cons (isWordChar_not_ctl hw) (ih hw')

/-! ### comments -/

theorem skipComment_text (text : Bytes) : ∀ (pre rest : Bytes) (x : UInt8), 10 ∉ text →
    skipComment (pre ++ x :: text ++ 10 :: rest) pre.length = .ok (pre.length + text.length) := by
  induction text with
  | nil =>
    intro pre rest x _
    unfold skipComment
    have hp : peek (pre ++ [x] ++ 10 :: rest) (pre.length + 1) = some 10 := by
      simpa using peek_append_1 pre rest x 10
    split
    · rename_i h; simp at h
    · split
      · rename_i hn; rw [hp] at hn; cases hn
      · rename_i d hd; rw [hp] at hd; cases hd
        simp [commentCont, Generated.mdCommentLoopNe]
  | cons t text ih =>
    intro pre rest x ht
    unfold skipComment
    have hp : peek (pre ++ x :: (t :: text) ++ 10 :: rest) (pre.length + 1) = some t := by
      simpa using peek_append_1 pre (text ++ 10 :: rest) x t
    have ht10 : t ≠ 10 := by intro h; subst h; simp at ht
    split
    · rename_i h; simp at h
    · split
      · rename_i hn; rw [hp] at hn; cases hn
      · rename_i d hd; rw [hp] at hd; cases hd
        have hc : commentCont t = true := by simp [commentCont, Generated.mdCommentLoopNe, ht10]
        simp only [hc, ↓reduceIte]
        have := ih (pre ++ [x]) rest t (by intro h; apply ht; simp [h])
        simp at this ⊢
        rw [this]
        congr 1; omega

end LLBuild.MakeDeps
