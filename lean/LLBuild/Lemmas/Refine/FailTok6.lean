/-
IM7 — the `F` op: **A BUILD STARTED WITHOUT THE FAILURE FLAG RECORDS NO `ER 6`** (`Tok.isER6`, Fail0.lean), and ends with
the flag still clear.  `ER 6` is emitted only in the `if !r.1` branch of `finishedTasksLoopA` (Async0.lean), taken only when
`setRuleResult` returns `false`, i.e. only when `store.failNextSet = true`; no engine function sets the flag (FailComm.lean)
and a successful write leaves it clear.

The recorder framework of FailTok.lean once more, with the side condition `Tok.isER6 t = false` (`ClosedE`, lemmas `re6_…`
/ `re6A_…`: the functions without a write go through unchanged — they emit `ER 2/3/4/5` at most —, and so does
`finishedTaskWrite`: `S k 2`, registrations, `DS`); the functions that contain the write branch (`finishedTasksLoopA`,
`stA5`, `executeLoopA`, `executeTasksA`, `buildWorkA`, `buildPreA`, `runBuildA`) carry the hypothesis
`s.store.failNextSet = false` and give the recorder fact TOGETHER with "the flag is still clear" (`FOk`).
Main theorems: `runBuildA_noER6`, `runBuildA_flag_false`, `evOfToksF_runBuildA`, `evOfToksF_cutToks`.
Core Lean only.
-/
import LLBuild.Lemmas.Refine.FailTok
import LLBuild.Lemmas.Refine.FailComm
import LLBuild.Lemmas.Refine.FailMon

namespace LLBuild.Refine
open LLBuild.Engine LLBuild.Engine.DSL LLBuild.EngineImpl

theorem isER6_of_isBad {t : Tok} (h : Tok.isBad t = true) : Tok.isER6 t = false := by
  cases t <;> first | rfl | cases h

theorem isER6_iff (t : Tok) : Tok.isER6 t = true ↔ t = .ER 6 := by
  constructor
  · intro h
    cases t <;> first | cases h | skip
    next c =>
      have : c = 6 := by simpa [Tok.isER6] using h
      subst this; rfl
  · rintro rfl; rfl

/-! ## the flag is not written (the functions FailComm.lean has no `_flag` lemma for) -/

theorem flag6_halt (t : Tok) (s : State) : (halt t s).store.failNextSet = s.store.failNextSet :=
  flag_of_comm (f := halt t) (fun b s => halt_withFail b t s) s
theorem flag6_waitStep (s : State) : (waitStep s).store.failNextSet = s.store.failNextSet :=
  flag_of_comm (f := waitStep) (fun b s => waitStep_withFail b s) s
theorem flag6_resolveCycle (key : Key) (s : State) : (resolveCycle key s).2.store.failNextSet = s.store.failNextSet :=
  flag_of_comm_pair (f := resolveCycle key) (fun b s => resolveCycle_withFail b key s) s
theorem flag6_finishedTaskWake (task : Key) (ti : TaskInfo) (s : State) :
    (finishedTaskWake task ti s).store.failNextSet = s.store.failNextSet := rfl
theorem flag6_buildInit (cancelAt : Nat) (sched : List SchedItem) (s : State) :
    (buildInit cancelAt sched s).store.failNextSet = s.store.failNextSet := rfl
theorem flag6_buildStart (s : State) : (buildStart s).store.failNextSet = s.store.failNextSet :=
  flag_of_comm (f := buildStart) (fun b s => buildStart_withFail b s) s
theorem flag6_buildWorkInit (s : State) : (buildWorkInit s).store.failNextSet = s.store.failNextSet :=
  flag_of_comm (f := buildWorkInit) (fun b s => buildWorkInit_withFail b s) s
theorem flag6_buildTail (key : Key) (ok : Bool) (s : State) :
    (buildTail key (ok, s)).2.store.failNextSet = s.store.failNextSet :=
  flag_of_comm_pair (f := fun s => buildTail key (ok, s)) (fun b s => buildTail_withFail b key ok s) s
theorem flag6_finishDB (s : State) : (finishDB s).store.failNextSet = s.store.failNextSet :=
  flag_of_comm (f := finishDB) (fun b s => finishDB_withFail b s) s
theorem flag6_closeOf (v : Val) (s : State) : (closeOf (v, s)).store.failNextSet = s.store.failNextSet :=
  flag_of_comm (f := fun s => closeOf (v, s)) (fun b s => closeOf_withFail b v s) s

/-- **with the flag clear the write succeeds and the flag stays clear** -/
theorem setRuleResult_flag_false (k : Key) (res : Res) (s : State) (hf : s.store.failNextSet = false) :
    (setRuleResult k res s).1 = true ∧ (setRuleResult k res s).2.store.failNextSet = false := by
  have e : (emit (.DS k res) s).store.failNextSet = false := by rw [emit_flag, hf]
  unfold setRuleResult
  dsimp only
  rw [if_neg (by rw [e]; decide)]
  exact ⟨rfl, e⟩

theorem finishedTaskWrite_flag_false (task : Key) (s : State) (hf : s.store.failNextSet = false) :
    (finishedTaskWrite task s).1 = true ∧ (finishedTaskWrite task s).2.store.failNextSet = false := by
  have hp : (finishedTaskPre task s).store.failNextSet = false := by rw [finishedTaskPre_flag, hf]
  rw [finishedTaskWrite_pre]
  split
  · exact setRuleResult_flag_false _ _ _ hp
  · exact ⟨rfl, hp⟩

/-- a predicate on `(halted, trace)` closed under the recorder operations as the engine uses them when no database write
fails: `emit t` only for a token that is not `ER 6` -/
structure ClosedE (R : Bool → List Tok → Prop) : Prop where
  emit : ∀ (t : Tok) (s : State), Tok.isER6 t = false → R s.halted s.trace → R (emit t s).halted (emit t s).trace
  halt : ∀ (t : Tok) (s : State), Tok.isBad t = true → R s.halted s.trace → R (halt t s).halted (halt t s).trace
  doCancel : ∀ (s : State), R s.halted s.trace → R (doCancel s).halted (doCancel s).trace

section PreserveE
variable {R : Bool → List Tok → Prop} (hR : ClosedE R)
include hR

local notation "⟪" s "⟫" => R (State.halted s) (State.trace s)

theorem re6_modScanRecord (k : Key) (f : RuleScanRecord → RuleScanRecord) (s : State) (h : ⟪s⟫) :
    ⟪modScanRecord k f s⟫ := by
  unfold modScanRecord
  split
  · exact h
  · exact hR.halt _ _ rfl h

theorem re6_getRuleInfoForKey (k : Key) (s : State) (h : ⟪s⟫) : ⟪getRuleInfoForKey k s⟫ := by
  unfold getRuleInfoForKey
  split
  · exact h
  · dsimp only
    split
    · split
      · exact hR.emit _ _ rfl (hR.emit _ _ rfl h)
      · exact hR.emit _ _ rfl (hR.emit _ _ rfl h)
    · exact hR.emit _ _ rfl h

theorem re6_addTaskInputRequest (task key inputID : Nat) (oo su : Bool) (s : State) (h : ⟪s⟫) :
    ⟪addTaskInputRequest task key inputID oo su s⟫ := by
  unfold addTaskInputRequest
  split
  · exact hR.halt _ _ rfl h
  · exact re6_getRuleInfoForKey hR _ _ h

theorem re6_taskNeedsInput (task key inputID : Nat) (s : State) (h : ⟪s⟫) : ⟪taskNeedsInput task key inputID s⟫ := by
  unfold taskNeedsInput
  split
  · exact hR.emit _ _ rfl h
  · exact re6_addTaskInputRequest hR _ _ _ _ _ _ h

theorem re6_taskNeedsSingleUseInput (task key inputID : Nat) (s : State) (h : ⟪s⟫) :
    ⟪taskNeedsSingleUseInput task key inputID s⟫ := by
  unfold taskNeedsSingleUseInput
  split
  · exact hR.emit _ _ rfl h
  · exact re6_addTaskInputRequest hR _ _ _ _ _ _ h

theorem re6_taskMustFollow (task key : Nat) (s : State) (h : ⟪s⟫) : ⟪taskMustFollow task key s⟫ :=
  re6_addTaskInputRequest hR _ _ _ _ _ _ h

theorem re6_taskDiscoveredDependency (task key : Nat) (s : State) (h : ⟪s⟫) : ⟪taskDiscoveredDependency task key s⟫ := by
  unfold taskDiscoveredDependency
  split
  · exact hR.emit _ _ rfl h
  · exact h

theorem re6_taskIsComplete (task : Key) (v : Val) (fc : Bool) (s : State) (h : ⟪s⟫) : ⟪taskIsComplete task v fc s⟫ := by
  unfold taskIsComplete
  dsimp only
  split
  · exact hR.emit _ _ rfl h
  · exact h

theorem re6_issue (task : Key) : ∀ (l : List Req) (s : State), ⟪s⟫ → ⟪issue task l s⟫
  | [], s, h => h
  | q :: rest, s, h => by
    rw [issue]
    apply re6_issue task rest
    split
    · exact re6_taskNeedsInput hR _ _ _ _ h
    · split
      · exact re6_taskNeedsSingleUseInput hR _ _ _ _ h
      · exact re6_taskMustFollow hR _ _ _ h

theorem re6_taskStart (task : Key) (s : State) (h : ⟪s⟫) : ⟪taskStart task s⟫ :=
  re6_issue hR _ _ _ (hR.emit _ _ rfl h)

theorem re6_taskProvideValue (task : Key) (id : Nat) (key : Key) (v : Val) (s : State) (h : ⟪s⟫) :
    ⟪taskProvideValue task id key v s⟫ :=
  re6_issue hR _ _ _ (hR.emit _ _ rfl h)

theorem re6_taskComplete (task : Key) (s : State) (h : ⟪s⟫) : ⟪taskComplete task s⟫ :=
  re6_taskIsComplete hR _ _ _ _ (hR.emit _ _ rfl h)

theorem re6_reportDiscovered (task : Key) : ∀ (l : List Key) (s : State), ⟪s⟫ → ⟪reportDiscovered task l s⟫
  | [], s, h => h
  | d :: ds, s, h => by
    rw [reportDiscovered]
    exact re6_reportDiscovered task ds _ (re6_taskDiscoveredDependency hR _ _ _ h)

theorem re6_taskInputsAvailable (task : Key) (s : State) (h : ⟪s⟫) : ⟪taskInputsAvailable task s⟫ := by
  unfold taskInputsAvailable
  dsimp only
  have h1 := re6_reportDiscovered hR task (discKeys (specOf s.rules task) (s.task task).recv) _
    (hR.emit (.IA task (discKeys (specOf s.rules task) (s.task task).recv)) s rfl h)
  split
  · exact re6_taskComplete hR _ _ h1
  · exact h1

theorem re6_completeKey (k : Key) (s : State) (h : ⟪s⟫) : ⟪(completeKey k s).2⟫ := by
  unfold completeKey
  split
  · exact re6_taskComplete hR _ _ h
  · exact h

theorem re6_completeSmallest (s : State) (h : ⟪s⟫) : ⟪(completeSmallest s).2⟫ := by
  unfold completeSmallest
  split
  · exact h
  · exact re6_completeKey hR _ _ h

theorem re6_completeKeys : ∀ (l : List Key) (any : Bool) (s : State), ⟪s⟫ → ⟪(completeKeys l any s).2⟫
  | [], any, s, h => h
  | k :: ks, any, s, h => by
    rw [completeKeys]
    exact re6_completeKeys ks _ _ (re6_completeKey hR k s h)

theorem re6_hook (point : Nat) (s : State) (h : ⟪s⟫) : ⟪hook point s⟫ := by
  unfold hook
  split
  · exact re6_completeSmallest hR _ h
  · split
    next any s1 heq =>
      have h1 : ⟪s1⟫ := by
        refine of_eq_pair heq ?_
        split
        · exact h
        · split
          next any2 s2 heq2 =>
            have h2 : ⟪s2⟫ := of_eq_pair heq2 (re6_completeKeys hR _ _ _ h)
            dsimp only
            split
            · exact hR.doCancel _ h2
            · exact h2
      split
      · exact re6_completeSmallest hR _ h1
      · exact h1

/-! ### scanning and demanding -/

theorem re6_scanRule (k : Key) (s : State) (h : ⟪s⟫) : ⟪(scanRule k s).2⟫ := by
  unfold scanRule
  dsimp only
  repeat' split
  all_goals first
    | exact h
    | exact hR.emit _ _ rfl h
    | exact hR.emit _ _ rfl (hR.emit _ _ rfl h)
    | exact hR.emit _ _ rfl (hR.emit _ _ rfl (hR.emit _ _ rfl h))

theorem re6_demandRule (k : Key) (s : State) (h : ⟪s⟫) : ⟪(demandRule k s).2⟫ := by
  unfold demandRule
  dsimp only
  split
  · exact h
  · split
    · exact h
    · split
      · exact hR.emit _ _ rfl h
      · have h1 := re6_taskStart hR k _ (rs_modRule ((emit (.T k) s).setTask { forRuleInfo := k }) k
          (fun ri => { ri with state := .inProgressWaiting, inProgressInfo := .pendingTaskInfo,
                               result := { ri.result with deps := [] } }) (hR.emit (.T k) s rfl h))
        split <;> split <;> first | exact h1 | exact hR.emit _ _ rfl h1

theorem re6_finishScanRequest (k : Key) (st : StateKind) (s : State) (h : ⟪s⟫) : ⟪finishScanRequest k st s⟫ := by
  unfold finishScanRequest
  split
  · exact hR.halt _ _ rfl h
  · exact h

theorem re6_scanLoop : ∀ (fuel : Nat) (r : RuleScanRequest) (s : State), ⟪s⟫ → ⟪scanLoop fuel r s⟫
  | 0, r, s, h => by rw [scanLoop]; exact hR.halt _ _ rfl h
  | fuel + 1, r, s, h => by
    rw [scanLoop]
    dsimp only
    split
    · exact hR.halt _ _ rfl h
    · next request input s1 heq =>
      have h1 : ⟪s1⟫ := by
        split at heq
        · cases heq; exact h
        · split at heq
          · cases heq
          · cases heq; exact re6_getRuleInfoForKey hR _ _ h
      have h2 := re6_scanRule hR input s1 h1
      split
      · exact re6_modScanRecord hR _ _ _ h2
      · have h3 := re6_demandRule hR input _ h2
        split
        · exact h3
        · split
          · exact hR.emit _ _ rfl (re6_finishScanRequest hR _ _ _ h3)
          · split
            · exact re6_scanLoop fuel _ _ h3
            · exact re6_finishScanRequest hR _ _ _ h3

theorem re6_processRuleScanRequest (r : RuleScanRequest) (s : State) (h : ⟪s⟫) : ⟪processRuleScanRequest r s⟫ := by
  unfold processRuleScanRequest
  split
  · exact h
  · exact re6_scanLoop hR _ _ _ h

theorem re6_decrementTaskWaitCount (task : Key) (s : State) (h : ⟪s⟫) : ⟪decrementTaskWaitCount task s⟫ := by
  unfold decrementTaskWaitCount
  split
  · exact hR.halt _ _ rfl h
  · dsimp only
    split <;> exact h

theorem re6_processInputRequest (r : TaskInputRequest) (s : State) (h : ⟪s⟫) : ⟪processInputRequest r s⟫ := by
  unfold processInputRequest
  dsimp only
  have h2 := re6_scanRule hR r.inputRuleInfo s h
  split
  · exact re6_modScanRecord hR _ _ _ h2
  · have h3 := re6_demandRule hR r.inputRuleInfo _ h2
    split
    · exact h3
    · split <;> exact h3

theorem re6_finishedInputStep (task : Key) (r : TaskInputRequest) (s : State) (h : ⟪s⟫) : ⟪finishedInputStep task r s⟫ := by
  unfold finishedInputStep
  apply re6_decrementTaskWaitCount hR
  split
  · exact h
  · exact re6_taskProvideValue hR _ _ _ _ _ h

theorem re6_readyStep (task : Key) (s : State) (h : ⟪s⟫) : ⟪readyStep task s⟫ := by
  unfold readyStep
  exact re6_taskInputsAvailable hR task _ (rs_modRule s _ _ h)

theorem re6_pushDiscovered : ∀ (l : List Dep) (s : State), ⟪s⟫ → ⟪pushDiscovered l s⟫
  | [], s, h => h
  | d :: ds, s, h => by
    rw [pushDiscovered]
    exact re6_pushDiscovered ds _ (re6_getRuleInfoForKey hR d.key s h)

theorem re6_setRuleResult (k : Key) (res : Res) (s : State) (h : ⟪s⟫) : ⟪(setRuleResult k res s).2⟫ := by
  unfold setRuleResult
  dsimp only
  split <;> exact hR.emit _ _ rfl h

theorem re6_breakCycleLoop : ∀ (l : List Key) (s : State), ⟪s⟫ → ⟪(breakCycleLoop l s).2⟫
  | [], s, h => h
  | k :: rest, s, h => by
    rw [breakCycleLoop.eq_def]
    dsimp only
    split
    · split
      · exact h
      · exact hR.emit _ _ rfl (re6_finishScanRequest hR _ _ _ h)
    · split
      · split
        · exact re6_breakCycleLoop _ s h
        · split
          · exact re6_breakCycleLoop _ s h
          · split <;> exact h
      · exact re6_breakCycleLoop rest s h

theorem re6_resolveCycle (key : Key) (s : State) (h : ⟪s⟫) : ⟪(resolveCycle key s).2⟫ := by
  unfold resolveCycle
  split
  · exact hR.halt _ _ rfl h
  · next cycleList _ =>
    have h1 : ⟪(breakCycle cycleList s).2⟫ := re6_breakCycleLoop hR _ s h
    dsimp only
    split
    · exact h1
    · exact hR.emit _ _ rfl h1

theorem re6A_asyncStep (it : SchedItem) (s : State) (h : ⟪s⟫) : ⟪asyncStep it s⟫ := by
  unfold asyncStep
  dsimp only
  have h1 := re6_completeKeys hR it.keys false s h
  split
  · exact hR.doCancel _ h1
  · exact h1

theorem re6A_asyncPoint (a : Async) (s : State) (h : ⟪s⟫) : ⟪(asyncPoint a s).2⟫ := by
  cases a with
  | nil => exact h
  | cons it rest => exact re6A_asyncStep hR it s h

theorem re6A_scanRequestsLoopA : ∀ (fuel : Nat) (w : Bool) (a : Async) (s : State), ⟪s⟫ → ⟪(scanRequestsLoopA fuel w a s).2.2⟫
  | 0, w, a, s, h => by rw [scanRequestsLoopA]; exact hR.halt _ _ rfl h
  | fuel + 1, w, a, s, h => by
    rw [scanRequestsLoopA]
    dsimp only
    have h1 := re6A_asyncPoint hR a s h
    split
    · exact h1
    · exact re6A_scanRequestsLoopA fuel _ _ _ (re6_processRuleScanRequest hR _ _ h1)

theorem re6A_inputRequestsLoopA : ∀ (fuel : Nat) (w : Bool) (a : Async) (s : State), ⟪s⟫ → ⟪(inputRequestsLoopA fuel w a s).2.2⟫
  | 0, w, a, s, h => by rw [inputRequestsLoopA]; exact hR.halt _ _ rfl h
  | fuel + 1, w, a, s, h => by
    rw [inputRequestsLoopA]
    dsimp only
    have h1 := re6A_asyncPoint hR a s h
    split
    · exact h1
    · exact re6A_inputRequestsLoopA fuel _ _ _ (re6_processInputRequest hR _ _ h1)

theorem re6A_finishedInputsLoopA : ∀ (fuel : Nat) (w : Bool) (a : Async) (s : State), ⟪s⟫ → ⟪(finishedInputsLoopA fuel w a s).2.2⟫
  | 0, w, a, s, h => by rw [finishedInputsLoopA]; exact hR.halt _ _ rfl h
  | fuel + 1, w, a, s, h => by
    rw [finishedInputsLoopA]
    dsimp only
    have h1 := re6A_asyncPoint hR a s h
    split
    · exact h1
    · split
      · exact hR.halt _ _ rfl h1
      · exact re6A_finishedInputsLoopA fuel _ _ _ (re6_finishedInputStep hR _ _ _ h1)

theorem re6A_readyTasksLoopA : ∀ (fuel : Nat) (w : Bool) (a : Async) (s : State), ⟪s⟫ → ⟪(readyTasksLoopA fuel w a s).2.2⟫
  | 0, w, a, s, h => by rw [readyTasksLoopA]; exact hR.halt _ _ rfl h
  | fuel + 1, w, a, s, h => by
    rw [readyTasksLoopA]
    dsimp only
    have h1 := re6A_asyncPoint hR a s h
    split
    · exact h1
    · exact re6A_readyTasksLoopA fuel _ _ _ (re6_readyStep hR _ _ h1)

theorem re6A_drainLoopA : ∀ (fuel : Nat) (a : Async) (s : State), ⟪s⟫ → ⟪(drainLoopA fuel a s).2⟫
  | 0, a, s, h => by rw [drainLoopA]; exact hR.halt _ _ rfl h
  | fuel + 1, a, s, h => by
    rw [drainLoopA]
    dsimp only
    have h1 := re6_hook hR 2 _ (re6A_asyncPoint hR a s h)
    split
    · exact h
    · split
      · exact hR.halt _ _ rfl h1
      · exact re6A_drainLoopA fuel _ _ h1

theorem re6A_cancelRemainingTasksA (a : Async) (s : State) (h : ⟪s⟫) : ⟪(cancelRemainingTasksA a s).2⟫ := by
  unfold cancelRemainingTasksA
  exact rsA_cancelTail _ (re6A_drainLoopA hR _ _ _ h)

theorem re6A_waitStep (s : State) (h : ⟪s⟫) : ⟪waitStep s⟫ := by
  unfold waitStep
  dsimp only
  split
  · exact hR.halt _ _ rfl (re6_hook hR 1 s h)
  · exact re6_hook hR 1 s h

theorem re6A_buildTail (key : Key) (r : Bool × State) (h : ⟪r.2⟫) : ⟪(buildTail key r).2⟫ := by
  unfold buildTail
  obtain ⟨ok, s1⟩ := r
  dsimp only at h ⊢
  generalize hs2 : (if s1.hasDB = true then _ else s1) = s2
  have h2 : ⟪s2⟫ := by
    rw [← hs2]
    split
    · exact hR.emit _ _ rfl h
    · exact h
  split
  · exact h2
  · exact re6_getRuleInfoForKey hR key s2 h2


/-! ### the rest of FailTok.lean's list (stages, build start, build end) and `finishedTaskWrite` -/

omit hR in
theorem re6_finishedTaskWake (task : Key) (ti : TaskInfo) (s : State) (h : ⟪s⟫) : ⟪finishedTaskWake task ti s⟫ := h

theorem re6A_stA1 (a : Async) (s : State) (h : ⟪s⟫) : ⟪(stA1 a s).2.2⟫ :=
  re6A_scanRequestsLoopA hR _ _ _ _ h

theorem re6A_stA2 (a : Async) (s : State) (h : ⟪s⟫) : ⟪(stA2 a s).2.2⟫ :=
  re6A_inputRequestsLoopA hR _ _ _ _ (re6A_stA1 hR a s h)

theorem re6A_stA3 (a : Async) (s : State) (h : ⟪s⟫) : ⟪(stA3 a s).2.2⟫ :=
  re6A_finishedInputsLoopA hR _ _ _ _ (re6A_stA2 hR a s h)

theorem re6A_stA4 (a : Async) (s : State) (h : ⟪s⟫) : ⟪(stA4 a s).2.2⟫ :=
  re6A_readyTasksLoopA hR _ _ _ _ (re6A_stA3 hR a s h)

/-- the top of an `executeLoopA` iteration: the item boundary and hook point 0 -/
theorem re6A_loopTop (a : Async) (s : State) (h : ⟪s⟫) : ⟪hook 0 (asyncPoint a s).2⟫ :=
  re6_hook hR 0 _ (re6A_asyncPoint hR a s h)

/-- `build()` from its start up to and including `QC` -/
theorem re6A_buildStartA (s : State) (h : ⟪s⟫) : ⟪buildStartA s⟫ := by
  unfold buildStartA
  have h0 : ⟪(if s.hasDB = true then emit .DB s else s)⟫ := by
    split
    · exact hR.emit _ _ rfl h
    · exact h
  exact hR.emit .QC _ rfl h0

/-- `DB` alone (the cancelled-before-start exit of `buildPreA`) -/
theorem re6A_buildDB (s : State) (h : ⟪s⟫) : ⟪(if s.hasDB = true then emit .DB s else s)⟫ := by
  split
  · exact hR.emit _ _ rfl h
  · exact h

theorem re6_finishDB (s : State) (h : ⟪s⟫) : ⟪finishDB s⟫ := by
  unfold finishDB
  split
  · exact hR.emit _ _ rfl h
  · exact h

theorem re6_closeOf (p : Val × State) (h : ⟪p.2⟫) : ⟪closeOf p⟫ := by
  unfold closeOf
  exact hR.emit _ _ rfl (hR.emit (.R p.1) { p.2 with buildActive := false } rfl h)

/-- the end of `runBuildA` after the work loop: `DI`, `DE`, `R v`, `Z a b` -/
theorem re6A_buildEnd (key : Key) (r : Bool × State) (h : ⟪r.2⟫) :
    ⟪closeOf ((buildTail key r).1, finishDB (buildTail key r).2)⟫ :=
  re6_closeOf hR _ (re6_finishDB hR _ (re6A_buildTail hR key r h))

/-- the start of `runBuildA`: `B key`, from a recorder that has been reset -/
theorem re6A_runBuildStart (key cancelAt : Nat) (sched : List SchedItem) (s : State) (h : R false []) :
    ⟪emit (.B key) (buildInit cancelAt sched s)⟫ :=
  hR.emit (.B key) (buildInit cancelAt sched s) rfl h

theorem re6_finishedTaskWrite (task : Key) (s : State) (h : ⟪s⟫) : ⟪(finishedTaskWrite task s).2⟫ := by
  unfold finishedTaskWrite
  dsimp only
  have h1 : ⟪emit (.S (s.task task).forRuleInfo 2)
      (s.modRule (s.task task).forRuleInfo (fun ri => setComplete s { ri with inProgressInfo := .null }))⟫ :=
    hR.emit _ _ rfl h
  have h2 := re6_pushDiscovered hR (s.task task).discoveredDependencies _
    (rs_modRule _ (s.task task).forRuleInfo
      (fun ri => { ri with result := { ri.result with deps := ri.result.deps ++ (s.task task).discoveredDependencies } }) h1)
  split
  · exact re6_setRuleResult hR _ _ _ h2
  · exact h2

/-! ### the functions that contain the write branch: from a state with the flag clear -/

/-- the recorder fact and "the flag is clear" -/
def FOk (R : Bool → List Tok → Prop) (s : State) : Prop := R s.halted s.trace ∧ s.store.failNextSet = false

theorem re6_finishedTaskWrite_ok (task : Key) (s : State) (h : FOk R s) :
    FOk R (finishedTaskWrite task s).2 ∧ (finishedTaskWrite task s).1 = true :=
  ⟨⟨re6_finishedTaskWrite hR task s h.1, (finishedTaskWrite_flag_false task s h.2).2⟩,
    (finishedTaskWrite_flag_false task s h.2).1⟩

/-- `finishedTasksLoopA` with the flag clear: no `ER 6`, the flag stays clear, the loop does not report a failed write -/
theorem re6A_finishedTasksLoopA : ∀ (fuel : Nat) (w : Bool) (a : Async) (s : State), FOk R s →
    FOk R (finishedTasksLoopA fuel w a s).2.2.2 ∧ (finishedTasksLoopA fuel w a s).1 = false
  | 0, w, a, s, h => by
    rw [finishedTasksLoopA]
    exact ⟨⟨hR.halt _ _ rfl h.1, by rw [flag6_halt]; exact h.2⟩, rfl⟩
  | fuel + 1, w, a, s, h => by
    rw [finishedTasksLoopA]
    dsimp only
    have h0 : FOk R (asyncPoint a s).2 := ⟨re6A_asyncPoint hR a s h.1, by rw [asyncPoint_flag]; exact h.2⟩
    split
    · exact ⟨h0, rfl⟩
    · next task _ =>
      obtain ⟨h1, hw⟩ := re6_finishedTaskWrite_ok hR task
        { (asyncPoint a s).2 with finishedTaskInfos := (asyncPoint a s).2.finishedTaskInfos.dropLast } h0
      split
      · next hc => rw [hw] at hc; cases hc
      · exact re6A_finishedTasksLoopA fuel _ _ _ h1

theorem re6A_stA5 (a : Async) (s : State) (h : FOk R s) : FOk R (stA5 a s).2.2.2 ∧ (stA5 a s).1 = false :=
  re6A_finishedTasksLoopA hR _ _ _ _ ⟨re6A_stA4 hR a s h.1, by rw [stA4_flag]; exact h.2⟩

theorem re6A_cancelRemainingTasksA_ok (a : Async) (s : State) (h : FOk R s) : FOk R (cancelRemainingTasksA a s).2 :=
  ⟨re6A_cancelRemainingTasksA hR a s h.1, by rw [cancelRemainingTasksA_flag]; exact h.2⟩

theorem re6A_asyncPoint_ok (a : Async) (s : State) (h : FOk R s) : FOk R (asyncPoint a s).2 :=
  ⟨re6A_asyncPoint hR a s h.1, by rw [asyncPoint_flag]; exact h.2⟩

theorem re6A_executeLoopA (key : Key) : ∀ (fuel : Nat) (a : Async) (s : State), FOk R s → FOk R (executeLoopA key fuel a s).2.2
  | 0, a, s, h => ⟨hR.halt .FUEL s rfl h.1, by rw [executeLoopA_zero, flag6_halt]; exact h.2⟩
  | fuel + 1, a, s, h => by
    rw [executeLoopA_succ]
    split
    · exact h
    · have h0 : FOk R (hook 0 (asyncPoint a s).2) :=
        ⟨re6_hook hR 0 _ (re6A_asyncPoint hR a s h.1), by rw [hook_flag, asyncPoint_flag]; exact h.2⟩
      split
      · exact re6A_cancelRemainingTasksA_ok hR _ _ h0
      · obtain ⟨h5, hb5⟩ := re6A_stA5 hR (asyncPoint a s).1 _ h0
        have hW : ∀ (w : Bool) (a' : Async) (x : State), FOk R x → FOk R (afterWaitA key fuel w a' x).2.2 := by
          intro w a' x hx
          have hc : FOk R (resolveCycle key x).2 :=
            ⟨re6_resolveCycle hR key x hx.1, by rw [flag6_resolveCycle]; exact hx.2⟩
          unfold afterWaitA
          split
          · exact re6A_executeLoopA key fuel _ _ hx
          · split
            · split
              · exact re6A_executeLoopA key fuel _ _ hc
              · exact re6A_cancelRemainingTasksA_ok hR _ _ hc
            · exact hx
        unfold afterTasksA
        split
        · exact h5
        · have h6 := re6A_asyncPoint_ok hR (stA5 (asyncPoint a s).1 (hook 0 (asyncPoint a s).2)).2.2.1 _ h5
          split
          · exact hW _ _ _ ⟨re6A_waitStep hR _ h6.1, by rw [flag6_waitStep]; exact h6.2⟩
          · exact hW _ _ _ h6

theorem re6A_executeTasksA (key : Key) (a : Async) (s : State) (h : FOk R s) : FOk R (executeTasksA key a s).2.2 := by
  rw [executeTasksA_eq]
  exact re6A_executeLoopA hR key _ _ _
    ⟨re6_getRuleInfoForKey hR key { s with finishedInputRequests := [] } h.1, by rw [executeTasksInit_flag]; exact h.2⟩

theorem re6A_buildWorkA (key : Key) (a : Async) (s : State) (h : FOk R s) : FOk R (buildWorkA key a s).2 := by
  unfold buildWorkA
  have h1 : FOk R { emit .QC s with currentEpoch := (emit .QC s).currentEpoch + 1 } :=
    ⟨hR.emit .QC s rfl h.1, by rw [← h.2]; exact emit_flag .QC s⟩
  have h2 := re6A_executeTasksA hR key a _ h1
  exact ⟨re6A_buildTail hR key _ h2.1, by rw [flag6_buildTail]; exact h2.2⟩

theorem re6A_buildPreA (key : Key) (a : Async) (s : State) (h : FOk R s) : FOk R (buildPreA key a s).2 := by
  unfold buildPreA
  have h0 : FOk R (if s.hasDB = true then emit .DB s else s) := by
    split
    · exact ⟨hR.emit _ _ rfl h.1, by rw [emit_flag]; exact h.2⟩
    · exact h
  generalize (if s.hasDB = true then emit .DB s else s) = s0 at h0 ⊢
  dsimp only
  split
  · exact h0
  · exact re6A_buildWorkA hR key a s0 h0

/-- `runBuildA` from a state whose recorder has been reset and whose flag is clear -/
theorem re6A_runBuildA (key cancelAt : Nat) (sched : List SchedItem) (a : Async) (s : State)
    (hf : s.store.failNextSet = false) (h : R false []) : FOk R (runBuildA key cancelAt sched a s) := by
  unfold runBuildA
  dsimp only
  have hp := re6A_buildPreA hR key a (emit (.B key) (buildInit cancelAt sched s))
    ⟨hR.emit (.B key) (buildInit cancelAt sched s) rfl h, by rw [emit_flag]; exact hf⟩
  exact ⟨re6_closeOf hR _ (re6_finishDB hR _ hp.1), by rw [flag6_closeOf, flag6_finishDB]; exact hp.2⟩

end PreserveE

/-! ## the instance and the main theorems -/

/-- every token recorded on top of `tr0` is not `ER 6` -/
theorem closedE_new (tr0 : List Tok) : ClosedE (NewQ (fun t => Tok.isER6 t = false) tr0) where
  emit := fun t s ht h => newQ_emit (Q := fun t => Tok.isER6 t = false) rfl tr0 t s ht h
  halt := fun t s ht h => newQ_halt tr0 t s (isER6_of_isBad ht) h
  doCancel := fun s h => newQ_doCancel (Q := fun t => Tok.isER6 t = false) rfl tr0 s h

/-- from `s` to `s'` the trace only grew, and by tokens that are not `ER 6` -/
def NoE6 (s s' : State) : Prop := ∃ toks, Emits s toks s' ∧ ∀ t ∈ toks, Tok.isER6 t = false

theorem NoE6.of_emits {s s' : State} (h : NoE6 s s') {toks : List Tok} (he : Emits s toks s') :
    ∀ t ∈ toks, Tok.isER6 t = false := by
  obtain ⟨toks', he', hq⟩ := h
  rw [emits_inj he he']; exact hq

/-- the pieces of a build, in `Emits` form: from a state with the flag clear the function records no `ER 6` and leaves the
flag clear -/
theorem noE6_of {s s' : State} (hf : s.store.failNextSet = false)
    (h : ∀ {R : Bool → List Tok → Prop}, ClosedE R → FOk R s → FOk R s') : NoE6 s s' ∧ s'.store.failNextSet = false := by
  obtain ⟨⟨new, hp, hq⟩, hf'⟩ := h (closedE_new s.trace) ⟨newQ_refl _ s, hf⟩
  exact ⟨⟨new.reverse, by simp [Emits, hp], fun t ht => hq t (List.mem_reverse.1 ht)⟩, hf'⟩

theorem finishedTaskWrite_noER6 (task : Key) (s : State) (hf : s.store.failNextSet = false) :
    NoE6 s (finishedTaskWrite task s).2 ∧ (finishedTaskWrite task s).2.store.failNextSet = false :=
  noE6_of hf (fun hR h => (re6_finishedTaskWrite_ok hR task s h).1)

theorem finishedTasksLoopA_noER6 (fuel : Nat) (w : Bool) (a : Async) (s : State) (hf : s.store.failNextSet = false) :
    NoE6 s (finishedTasksLoopA fuel w a s).2.2.2 ∧ (finishedTasksLoopA fuel w a s).2.2.2.store.failNextSet = false :=
  noE6_of hf (fun hR h => (re6A_finishedTasksLoopA hR fuel w a s h).1)

/-- with the flag clear `finishedTasksLoopA` never leaves through the failed-write exit -/
theorem finishedTasksLoopA_flag_false_fst (fuel : Nat) (w : Bool) (a : Async) (s : State) (hf : s.store.failNextSet = false) :
    (finishedTasksLoopA fuel w a s).1 = false :=
  (re6A_finishedTasksLoopA (closedE_new s.trace) fuel w a s ⟨newQ_refl _ s, hf⟩).2

theorem stA5_noER6 (a : Async) (s : State) (hf : s.store.failNextSet = false) :
    NoE6 s (stA5 a s).2.2.2 ∧ (stA5 a s).2.2.2.store.failNextSet = false :=
  noE6_of hf (fun hR h => (re6A_stA5 hR a s h).1)

theorem stA5_flag_false_fst (a : Async) (s : State) (hf : s.store.failNextSet = false) : (stA5 a s).1 = false :=
  (re6A_stA5 (closedE_new s.trace) a s ⟨newQ_refl _ s, hf⟩).2

theorem executeLoopA_noER6 (key : Key) (fuel : Nat) (a : Async) (s : State) (hf : s.store.failNextSet = false) :
    NoE6 s (executeLoopA key fuel a s).2.2 ∧ (executeLoopA key fuel a s).2.2.store.failNextSet = false :=
  noE6_of hf (fun hR h => re6A_executeLoopA hR key fuel a s h)

theorem executeTasksA_noER6 (key : Key) (a : Async) (s : State) (hf : s.store.failNextSet = false) :
    NoE6 s (executeTasksA key a s).2.2 ∧ (executeTasksA key a s).2.2.store.failNextSet = false :=
  noE6_of hf (fun hR h => re6A_executeTasksA hR key a s h)

theorem buildWorkA_noER6 (key : Key) (a : Async) (s : State) (hf : s.store.failNextSet = false) :
    NoE6 s (buildWorkA key a s).2 ∧ (buildWorkA key a s).2.store.failNextSet = false :=
  noE6_of hf (fun hR h => re6A_buildWorkA hR key a s h)

theorem buildPreA_noER6 (key : Key) (a : Async) (s : State) (hf : s.store.failNextSet = false) :
    NoE6 s (buildPreA key a s).2 ∧ (buildPreA key a s).2.store.failNextSet = false :=
  noE6_of hf (fun hR h => re6A_buildPreA hR key a s h)

/-- **a build started without the failure flag records no `ER 6`** (`buildInit` resets the trace to `[]`, so this is the
whole trace of the build) -/
theorem runBuildA_noER6 (key cancelAt : Nat) (sched : List SchedItem) (a : Async) (s : State)
    (hf : s.store.failNextSet = false) : ∀ t ∈ (runBuildA key cancelAt sched a s).trace, Tok.isER6 t = false := by
  obtain ⟨new, hp, hq⟩ := (re6A_runBuildA (closedE_new []) key cancelAt sched a s hf ⟨[], rfl, fun _ h => by cases h⟩).1
  rw [hp, List.append_nil]; exact hq

/-- **… and ends with the flag still clear** -/
theorem runBuildA_flag_false (key cancelAt : Nat) (sched : List SchedItem) (a : Async) (s : State)
    (hf : s.store.failNextSet = false) : (runBuildA key cancelAt sched a s).store.failNextSet = false :=
  (re6A_runBuildA (closedE_new []) key cancelAt sched a s hf ⟨[], rfl, fun _ h => by cases h⟩).2

theorem runBuildA_noER6_rev (key cancelAt : Nat) (sched : List SchedItem) (a : Async) (s : State)
    (hf : s.store.failNextSet = false) : ∀ t ∈ (runBuildA key cancelAt sched a s).trace.reverse, Tok.isER6 t = false :=
  fun t ht => runBuildA_noER6 key cancelAt sched a s hf t (List.mem_reverse.1 ht)

/-- the trace of a build without the flag: the failed-write reading is the plain reading -/
theorem evOfToksF_runBuildA (key cancelAt : Nat) (sched : List SchedItem) (a : Async) (s : State)
    (hf : s.store.failNextSet = false) (ph : Option Key) :
    evOfToksF ph (runBuildA key cancelAt sched a s).trace.reverse = evOfToks ph (runBuildA key cancelAt sched a s).trace.reverse :=
  evOfToksF_noER6 _ ph (runBuildA_noER6_rev key cancelAt sched a s hf)

theorem trunF_runBuildA (P : Program) (key cancelAt : Nat) (sched : List SchedItem) (a : Async) (s : State)
    (hf : s.store.failNextSet = false) (ms : MSt) :
    trunF P ms (runBuildA key cancelAt sched a s).trace.reverse = trun P ms (runBuildA key cancelAt sched a s).trace.reverse :=
  trunF_noER6 P _ ms (runBuildA_noER6_rev key cancelAt sched a s hf)

theorem cutToks_noER6 (key cancelAt : Nat) (sched : List SchedItem) (a : Async) (cut : Nat) (s : State)
    (hf : s.store.failNextSet = false) : ∀ t ∈ cutToks key cancelAt sched a cut s, Tok.isER6 t = false := by
  intro t ht
  unfold cutToks at ht
  exact runBuildA_noER6_rev key cancelAt sched a s hf t
    ((List.takeWhile_prefix _).subset (List.mem_of_mem_take ht))

/-- the same for the cut trace of a killed build (Final4.lean) -/
theorem evOfToksF_cutToks (key cancelAt : Nat) (sched : List SchedItem) (a : Async) (cut : Nat) (s : State)
    (hf : s.store.failNextSet = false) (ph : Option Key) :
    evOfToksF ph (cutToks key cancelAt sched a cut s) = evOfToks ph (cutToks key cancelAt sched a cut s) :=
  evOfToksF_noER6 _ ph (cutToks_noER6 key cancelAt sched a cut s hf)

theorem trunF_cutToks (P : Program) (key cancelAt : Nat) (sched : List SchedItem) (a : Async) (cut : Nat) (s : State)
    (hf : s.store.failNextSet = false) (ms : MSt) :
    trunF P ms (cutToks key cancelAt sched a cut s) = trun P ms (cutToks key cancelAt sched a cut s) :=
  trunF_noER6 P _ ms (cutToks_noER6 key cancelAt sched a cut s hf)

end LLBuild.Refine
