/-
IM3 — termination / no-stall: leaving the work loop (`drainLoop`, `cancelRemainingTasks`, also after `CY ks`).
* `DrainInv0`: the part of `Exit.DrainInv` that the no-halt argument needs (ghost state + count clause; no monitor
  bookkeeping, no `NoMid`); `DrainInv.to0`;
* `drain_hook0`: hook point 2 keeps it, never halts, does not touch the count, and leaves a finished task while the
  count is not 0 (NO STALL);
* `drainLoop_nohalt` (and `drainLoop_nohalt'` from `Exit.DrainInv`): `numOutstandingUnfinishedTasks < fuel` suffices;
* `cancelRemainingTasks_nohalt`, `cancelRemainingTasks_cycle_nohalt`;
* `outstanding_le_Phi`: `numOutstandingUnfinishedTasks ≤ Phi rules U s {}`; hence the `…_of_Phi` corollaries.
-/
import LLBuild.Lemmas.Refine.Exit
import LLBuild.Lemmas.Refine.Ready
import LLBuild.Lemmas.Refine.Term0

namespace LLBuild.Refine
open LLBuild.Engine LLBuild.Engine.DSL LLBuild.EngineImpl

/-! ## `taskComplete` / hook point 2 never halt and do not touch the count -/

theorem taskIsComplete_halted (a : Key) (v : Val) (fc : Bool) (s : State) : (taskIsComplete a v fc s).halted = s.halted := by
  unfold taskIsComplete
  simp only []
  split
  · show (emit _ s).halted = _
    rw [emit_halted_eq]
  · rfl

theorem taskComplete_halted (a : Key) (s : State) : (taskComplete a s).halted = s.halted := by
  unfold taskComplete
  simp only []
  rw [taskIsComplete_halted]
  show (emit _ s).halted = _
  rw [emit_halted_eq]

theorem taskIsComplete_num (a : Key) (v : Val) (fc : Bool) (s : State) :
    (taskIsComplete a v fc s).numOutstandingUnfinishedTasks = s.numOutstandingUnfinishedTasks := by
  unfold taskIsComplete
  simp only []
  split
  · show (emit _ s).numOutstandingUnfinishedTasks = _
    rw [emit_numOutstanding]
  · rfl

theorem taskComplete_num (a : Key) (s : State) :
    (taskComplete a s).numOutstandingUnfinishedTasks = s.numOutstandingUnfinishedTasks := by
  unfold taskComplete
  simp only []
  rw [taskIsComplete_num]
  show (emit _ s).numOutstandingUnfinishedTasks = _
  rw [emit_numOutstanding]

theorem hook2_cases (s : State) :
    (s.pendingDeferred = [] ∧ hook 2 s = s) ∨
    (∃ k rest, s.pendingDeferred = k :: rest ∧
      hook 2 s = taskComplete k { s with pendingDeferred := s.pendingDeferred.filter (· != k) }) := by
  rw [hook2_eq]
  unfold completeSmallest
  cases hpd : s.pendingDeferred with
  | nil => left; exact ⟨rfl, rfl⟩
  | cons k rest =>
    right
    refine ⟨k, rest, rfl, ?_⟩
    simp only []
    unfold completeKey
    have hcont : s.pendingDeferred.contains k = true := by rw [hpd]; simp
    rw [if_pos hcont, hpd]

theorem hook2_halted (s : State) : (hook 2 s).halted = s.halted := by
  rcases hook2_cases s with ⟨_, h⟩ | ⟨k, rest, _, h⟩
  · rw [h]
  · rw [h, taskComplete_halted]

theorem hook2_num (s : State) : (hook 2 s).numOutstandingUnfinishedTasks = s.numOutstandingUnfinishedTasks := by
  rcases hook2_cases s with ⟨_, h⟩ | ⟨k, rest, _, h⟩
  · rw [h]
  · rw [h, taskComplete_num]

/-! ## The invariant of the drain, as far as halting is concerned -/

/-- the full relation holds for a ghost state `g` that differs from the real one only in `finishedTaskInfos` /
`numOutstandingUnfinishedTasks` (`fr f n g`), and the tasks still counted are deferred or finished -/
def DrainInv0 (rules : List RuleSpec) (s : State) : Prop :=
  ∃ (g : State) (m0 : Engine.St) (f : List Key) (n : Nat),
    Rel rules g ⟨m0, none⟩ {} ∧ s = fr f n g ∧ n ≤ g.pendingDeferred.length + f.length

theorem DrainInv.to0 {rules : List RuleSpec} {key : Key} {s : State} {m : Engine.St} (h : DrainInv rules key s m) :
    DrainInv0 rules s := by
  obtain ⟨g, m0, c, f, n, hr, _, hs, _, _, _, hcnt⟩ := h
  exact ⟨g, m0, f, n, hr, hs, hcnt⟩

theorem DrainInv0.ofRel {rules : List RuleSpec} {s : State} {m : Engine.St} (hr : Rel rules s ⟨m, none⟩ {}) :
    DrainInv0 rules s :=
  ⟨s, m, s.finishedTaskInfos, s.numOutstandingUnfinishedTasks, hr, rfl, Nat.le_of_eq (by simpa using hr.outstandingCount)⟩

/-- hook point 2 under the drain invariant: the invariant is kept and, while tasks are counted as outstanding, a
finished task is left (NO STALL) -/
theorem drain_hook0 {rules : List RuleSpec} (hok : RulesOk rules) {s : State} (hinv : DrainInv0 rules s)
    (hh : s.halted = false) :
    DrainInv0 rules (hook 2 s) ∧ (s.numOutstandingUnfinishedTasks ≠ 0 → (hook 2 s).finishedTaskInfos ≠ []) := by
  obtain ⟨g, m0, f, n, hr, rfl, hcnt⟩ := hinv
  have hpd0 : (fr f n g).pendingDeferred = g.pendingDeferred := rfl
  rcases hook2_cases (fr f n g) with ⟨hpd, h⟩ | ⟨k, rest, hpd, h⟩
  · rw [h]
    refine ⟨⟨g, m0, f, n, hr, rfl, hcnt⟩, ?_⟩
    intro h0
    replace h0 : n ≠ 0 := h0
    show f ≠ []
    rw [hpd0] at hpd
    rw [hpd] at hcnt
    intro e; subst e
    simp at hcnt; exact h0 hcnt
  · rw [h]
    rw [hpd0] at hpd
    have hk : k ∈ g.pendingDeferred := by rw [hpd]; simp
    have hhg : g.halted = false := hh
    have e0 : ({ fr f n g with pendingDeferred := (fr f n g).pendingDeferred.filter (· != k) } : State) =
        fr f n { g with pendingDeferred := g.pendingDeferred.filter (· != k) } := rfl
    rw [e0]
    obtain ⟨f', hf', hfapp⟩ := taskComplete_frame k { g with pendingDeferred := g.pendingDeferred.filter (· != k) } f n
    rw [hf']
    obtain ⟨toks, ms', _, _, hr', hpend, _⟩ := taskComplete_sim rules hok g ⟨m0, none⟩ k hr hhg hk
    obtain ⟨m1, p1⟩ := ms'
    replace hpend : p1 = none := hpend
    subst hpend
    obtain ⟨t, _, hcomp, _⟩ := hr.deferredOk k hk
    have hf2 : f' = f ++ [k] := hfapp (by
      show (g.rule k).isInProgressComputing = true
      simp [RuleInfo.isInProgressComputing, hcomp])
    refine ⟨⟨_, m1, f', n, hr', rfl, ?_⟩, fun _ => ?_⟩
    · have hnd := hr.deferredNodup
      rw [hpd] at hnd
      have hrest : (g.pendingDeferred.filter (· != k)) = rest := by
        rw [hpd, List.filter_cons]
        simp only [bne_self_eq_false, Bool.false_eq_true, if_false]
        exact filter_ne_of_not_mem k rest (List.nodup_cons.1 hnd).1
      rw [taskComplete_pendingDeferred]
      show n ≤ (g.pendingDeferred.filter (· != k)).length + f'.length
      rw [hrest, hf2, List.length_append]
      rw [hpd] at hcnt
      simp only [List.length_cons, List.length_nil] at hcnt ⊢
      omega
    · show f' ≠ []
      rw [hf2]; simp

/-! ## 1. The drain loop does not halt -/

/-- **`drainLoop` never halts** when its fuel exceeds the number of outstanding tasks: each round with a non-zero count
completes the smallest deferred task (or finds finished ones) and subtracts ≥ 1; no `BAD stall`, no `FUEL`. -/
theorem drainLoop_nohalt {rules : List RuleSpec} (hok : RulesOk rules) :
    ∀ (fuel : Nat) (s : State), DrainInv0 rules s → s.halted = false → s.numOutstandingUnfinishedTasks < fuel →
    (drainLoop fuel s).halted = false
  | 0, s, _, _, hlt => by cases hlt
  | fuel + 1, s, hinv, hh, hlt => by
    rw [drainLoop_succ]
    by_cases h0 : (s.numOutstandingUnfinishedTasks == 0) = true
    · rw [if_pos h0]; exact hh
    · rw [if_neg h0]
      have h0' : s.numOutstandingUnfinishedTasks ≠ 0 := by simpa using h0
      obtain ⟨hinv1, hfin⟩ := drain_hook0 hok hinv hh
      have hfin1 := hfin h0'
      have hne : ¬ (hook 2 s).finishedTaskInfos.isEmpty = true := by
        simpa using hfin1
      rw [if_neg hne]
      apply drainLoop_nohalt hok fuel
      · obtain ⟨g, m0, f, n, a1, a3, a7⟩ := hinv1
        refine ⟨g, m0, [], (hook 2 s).numOutstandingUnfinishedTasks - (hook 2 s).finishedTaskInfos.length, a1, ?_, ?_⟩
        · rw [a3]; rfl
        · rw [a3]
          show n - f.length ≤ g.pendingDeferred.length + 0
          omega
      · show (hook 2 s).halted = false
        rw [hook2_halted]; exact hh
      · show (hook 2 s).numOutstandingUnfinishedTasks - (hook 2 s).finishedTaskInfos.length < fuel
        rw [hook2_num]
        have : 0 < (hook 2 s).finishedTaskInfos.length := List.length_pos_iff.2 hfin1
        omega

/-- the same from the invariant of `Exit.lean` -/
theorem drainLoop_nohalt' {rules : List RuleSpec} {key : Key} (hok : RulesOk rules) (fuel : Nat) (s : State) (m : Engine.St)
    (hinv : DrainInv rules key s m) (hh : s.halted = false) (hlt : s.numOutstandingUnfinishedTasks < fuel) :
    (drainLoop fuel s).halted = false :=
  drainLoop_nohalt hok fuel s hinv.to0 hh hlt

/-! ## 2. `cancelRemainingTasks` does not halt -/

theorem cancelRemainingTasks_nohalt0 {rules : List RuleSpec} (hok : RulesOk rules) {s : State} (hinv : DrainInv0 rules s)
    (hh : s.halted = false) (hlt : s.numOutstandingUnfinishedTasks < loopFuel) :
    (cancelRemainingTasks s).halted = false := by
  rw [cancelRemainingTasks_eq, cancelFinish_halted]
  exact drainLoop_nohalt hok loopFuel s hinv hh hlt

/-- **`cancelRemainingTasks` never halts** (cancellation exit) -/
theorem cancelRemainingTasks_nohalt {rules : List RuleSpec} (hok : RulesOk rules) {s : State} {ms : MSt}
    (hr : Rel rules s ms {}) (hp : ms.pend = none) (hh : s.halted = false)
    (hlt : s.numOutstandingUnfinishedTasks < loopFuel) : (cancelRemainingTasks s).halted = false := by
  obtain ⟨m, p⟩ := ms
  simp only at hp
  subst hp
  exact cancelRemainingTasks_nohalt0 hok (DrainInv0.ofRel hr) hh hlt

/-- **… nor after a reported cycle** (cycle exit) -/
theorem cancelRemainingTasks_cycle_nohalt {rules : List RuleSpec} (hok : RulesOk rules) {s : State} {ms : MSt}
    (ks : List Key) (hr : Rel rules s ms {}) (hp : ms.pend = none) (hh : s.halted = false)
    (hlt : s.numOutstandingUnfinishedTasks < loopFuel) : (cancelRemainingTasks (emit (.CY ks) s)).halted = false := by
  obtain ⟨m, p⟩ := ms
  simp only at hp
  subst hp
  apply cancelRemainingTasks_nohalt0 hok
  · rcases emit_spec (.CY ks) s hh with he | ⟨_, he⟩
    · rw [he]
      exact DrainInv0.ofRel (m := m)
        (hr.recorder (.CY ks :: s.trace) s.halted s.cancelAtEvent s.cancelIssued s.sched s.buildCancelled
          hr.cancelled hr.errCancelled)
    · rw [he]
      exact DrainInv0.ofRel (m := cancelM m) (hr.cancelled_ms (.X :: .CY ks :: s.trace))
  · rw [emit_halted_eq]; exact hh
  · rw [emit_numOutstanding]; exact hlt

/-! ## 3. The count of outstanding tasks is bounded by the potential -/

theorem sumBy_cons {α : Type} (w : α → Nat) (a : α) (l : List α) : sumBy w (a :: l) = w a + sumBy w l := by
  simp [sumBy]

/-- a duplicate-free list of keys of weight ≥ 1 inside `U` is no longer than the total weight of `U` -/
theorem length_le_sumBy (w : Key → Nat) : ∀ (U L : List Key), L.Nodup → (∀ a ∈ L, a ∈ U) → (∀ a ∈ L, 1 ≤ w a) →
    L.length ≤ sumBy w U
  | [], L, _, hsub, _ => by
    cases L with
    | nil => simp
    | cons a _ => have := hsub a (by simp); cases this
  | u :: U, L, hnd, hsub, hw => by
    rw [sumBy_cons]
    have hnd' : (L.filter (· != u)).Nodup := hnd.filter _
    have hsub' : ∀ a ∈ L.filter (· != u), a ∈ U := by
      intro a ha
      simp only [List.mem_filter, bne_iff_ne, ne_eq] at ha
      rcases List.mem_cons.1 (hsub a ha.1) with e | e
      · exact absurd e ha.2
      · exact e
    have hw' : ∀ a ∈ L.filter (· != u), 1 ≤ w a := fun a ha => hw a (List.mem_filter.1 ha).1
    have ih := length_le_sumBy w U (L.filter (· != u)) hnd' hsub' hw'
    by_cases hu : u ∈ L
    · have := filter_ne_length u L hnd hu
      have := hw u hu
      omega
    · rw [filter_ne_of_not_mem u L hu] at ih
      omega

/-- a computing rule weighs at least 1 -/
theorem ruleW_pos_of_computing (rules : List RuleSpec) {s : State} {a : Key} (hreg : Registered s a)
    (hst : (s.rule a).state = .inProgressComputing) : 1 ≤ ruleW rules s a := by
  obtain ⟨ri, hl⟩ := Option.isSome_iff_exists.1 hreg
  rw [rule_of_lookup hl] at hst
  have hph : 1 ≤ phase s a := by
    unfold phase
    simp only [hl, hst]
    split <;> omega
  unfold ruleW
  omega

/-- **the count of outstanding tasks is at most the potential**: by `Rel.outstandingCount` it is
`|pendingDeferred| + |finishedTaskInfos|`; the two lists are duplicate-free and disjoint (`done` or not), and every such
task's rule is computing, hence registered, in `U`, of weight ≥ 1. -/
theorem outstanding_le_Phi {rules : List RuleSpec} {U : List Key} {s : State} {ms : MSt}
    (hr : Rel rules s ms {}) (hp : ms.pend = none) (hU : ClosedU rules U s) :
    s.numOutstandingUnfinishedTasks ≤ Phi rules U s {} := by
  have hcount : s.numOutstandingUnfinishedTasks = (s.pendingDeferred ++ s.finishedTaskInfos).length := by
    rw [hr.outstandingCount, hp, List.length_append]; simp
  have hnd : (s.pendingDeferred ++ s.finishedTaskInfos).Nodup := by
    refine List.nodup_append.2 ⟨hr.deferredNodup, hr.finTaskNodup, ?_⟩
    intro a ha b hb e
    subst e
    obtain ⟨t1, h1, _, d1⟩ := hr.deferredOk a ha
    obtain ⟨t2, h2, _, d2⟩ := hr.finTaskOk a hb
    rw [h1] at h2; cases h2
    rw [d1] at d2; cases d2
  have hcomp : ∀ a ∈ s.pendingDeferred ++ s.finishedTaskInfos,
      Registered s a ∧ (s.rule a).state = .inProgressComputing := by
    intro a ha
    rcases List.mem_append.1 ha with h | h
    · obtain ⟨t, h1, h2, _⟩ := hr.deferredOk a h
      exact ⟨hr.task_registered (by rw [h1]; rfl), h2⟩
    · obtain ⟨t, h1, h2, _⟩ := hr.finTaskOk a h
      exact ⟨hr.task_registered (by rw [h1]; rfl), h2⟩
  have hle := length_le_sumBy (ruleW rules s) U _ hnd (fun a ha => hU.registered a (hcomp a ha).1)
    (fun a ha => ruleW_pos_of_computing rules (hcomp a ha).1 (hcomp a ha).2)
  rw [hcount]
  unfold Phi
  omega

/-- `cancelRemainingTasks` never halts when the potential is below the fuel -/
theorem cancelRemainingTasks_nohalt_of_Phi {rules : List RuleSpec} (hok : RulesOk rules) {U : List Key} {s : State} {ms : MSt}
    (hr : Rel rules s ms {}) (hp : ms.pend = none) (hU : ClosedU rules U s) (hh : s.halted = false)
    (hlt : Phi rules U s {} < loopFuel) : (cancelRemainingTasks s).halted = false :=
  cancelRemainingTasks_nohalt hok hr hp hh (Nat.lt_of_le_of_lt (outstanding_le_Phi hr hp hU) hlt)

theorem cancelRemainingTasks_cycle_nohalt_of_Phi {rules : List RuleSpec} (hok : RulesOk rules) {U : List Key} {s : State} {ms : MSt}
    (ks : List Key) (hr : Rel rules s ms {}) (hp : ms.pend = none) (hU : ClosedU rules U s) (hh : s.halted = false)
    (hlt : Phi rules U s {} < loopFuel) : (cancelRemainingTasks (emit (.CY ks) s)).halted = false :=
  cancelRemainingTasks_cycle_nohalt hok ks hr hp hh (Nat.lt_of_le_of_lt (outstanding_le_Phi hr hp hU) hlt)

end LLBuild.Refine
