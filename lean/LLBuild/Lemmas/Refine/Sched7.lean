/-
Token lifts of C02 / C06 — the monitor state AT AN ARBITRARY TOKEN of the middle of a build.

* `DoneAt σ pre m`: every rule complete in `m` is complete BY A TOKEN of `pre`, with the value and `computedAt` that token (or the
  snapshot) gives: `S d 1` (found up to date: value / `computedAt` of the snapshot) or `DS d row` (ran: `row.value`,
  `row.computedAt`);
* `build_at_mid`: for a split `trace = pre ++ t :: post` at a token `t` of the middle of the build (not `B`, `X`, `DE`, `R`, `Z`):
  the monitor state `msp` reached by `pre`, in which `t` is accepted and passes the in-order guard, with `XInv`, `Inv2`, `RInv`,
  `DoneAt`, `SeenInv`, the unchanged ghost flag and external state, and any accumulator invariant `J` the caller supplies.
-/
import LLBuild.Lemmas.Engine.Exec7
import LLBuild.Lemmas.Refine.Sched6End

set_option linter.unusedSimpArgs false

namespace LLBuild.Refine
open LLBuild.Engine LLBuild.Engine.DSL LLBuild.EngineImpl

/-- `d` became complete by a token of `pre`, with this `computedAt` and value -/
def DoneTok (σ : Snap) (pre : List Tok) (d : Key) (c : Nat) (v : Val) : Prop :=
  (Tok.S d 1 ∈ pre ∧ c = (σ.res d).computedAt ∧ v = (σ.res d).value) ∨
  (∃ row, Tok.DS d row ∈ pre ∧ c = row.computedAt ∧ v = row.value)

theorem DoneTok.mono {σ : Snap} {pre pre' : List Tok} {d : Key} {c : Nat} {v : Val} (h : DoneTok σ pre d c v)
    (hs : ∀ t ∈ pre, t ∈ pre') : DoneTok σ pre' d c v := by
  rcases h with ⟨a, b⟩ | ⟨row, a, b⟩
  · exact Or.inl ⟨hs _ a, b⟩
  · exact Or.inr ⟨row, hs _ a, b⟩

def DoneAt (σ : Snap) (pre : List Tok) (m : Engine.St) : Prop :=
  ∀ d, m.status d = .done → DoneTok σ pre d (m.mem.res d).computedAt (m.mem.res d).value

theorem toEvent_upToDate {t : Tok} {k : Key} (h : t.toEvent? = some (.upToDate k)) : t = .S k 1 := by
  cases t <;> simp only [Tok.toEvent?, Option.some.injEq, reduceCtorEq] at h
  rename_i k0 n
  rcases n with _ | _ | n <;> simp only [Tok.toEvent?, Option.some.injEq, reduceCtorEq, Event.upToDate.injEq] at h
  subst h; rfl

theorem toEvent_not_finished {t : Tok} {k : Key} {row : Res} (h : t.toEvent? = some (.finished k row)) : False := by
  cases t <;> simp only [Tok.toEvent?, Option.some.injEq, reduceCtorEq] at h
  rename_i k0 n
  rcases n with _ | _ | n <;> simp only [Tok.toEvent?, Option.some.injEq, reduceCtorEq] at h

/-- one event keeps `DoneAt` (the token of the event is appended) -/
theorem step_doneAt {P : Program} {σ : Snap} {root : Key} {s s' : St} {e : Event} {acc : List Tok} {t : Tok}
    (hx : XInv P σ root s) (hd : DoneAt σ acc s) (h : step P s e = some s') (hmid : Event.isMidX e = true)
    (hup : ∀ k, e = .upToDate k → t = .S k 1) (hfin : ∀ k row, e = .finished k row → t = .DS k row) :
    DoneAt σ (acc ++ [t]) s' := by
  have hsub : ∀ x ∈ acc, x ∈ acc ++ [t] := fun x hx => List.mem_append_left _ hx
  have hlast : t ∈ acc ++ [t] := List.mem_append_right _ List.mem_cons_self
  intro d hdone
  rcases step_newDone h hmid d hdone with a | a | ⟨row, a⟩
  · -- complete before: nothing about `d` changes
    rcases step_mem_frame h hmid d with e1 | ⟨_, hs⟩ | ⟨_, hs⟩ | ⟨_, hs⟩ | ⟨_, _, _, hs⟩ | ⟨_, _, hs⟩
    · rw [e1]; exact (hd d a).mono hsub
    all_goals (rw [a] at hs; cases hs)
  · subst a
    have htt := hup d rfl
    subst htt
    simp only [step] at h
    split at h
    · rename_i hc
      cases h
      simp only [Bool.and_eq_true, beq_iff_eq] at hc
      have hmem := (hx.key d).scan (Or.inl hc.1.1)
      left
      refine ⟨hlast, ?_, ?_⟩
      · show ((s.mem.setRes d _).res d).computedAt = _
        rw [setRes_res_same, hmem]
      · show ((s.mem.setRes d _).res d).value = _
        rw [setRes_res_same, hmem]
    · cases h
  · subst a
    have htt := hfin d row rfl
    subst htt
    simp only [step] at h
    split at h
    · rename_i hc
      cases h
      simp only [Bool.and_eq_true, beq_iff_eq] at hc
      obtain ⟨⟨⟨⟨⟨⟨⟨⟨⟨_, _⟩, _⟩, hv⟩, _⟩, _⟩, hca⟩, _⟩, _⟩, _⟩ := hc
      right
      refine ⟨row, hlast, ?_, ?_⟩
      · show (upd s.mem.res d _ d).computedAt = _
        rw [upd_same]; exact hca.symm
      · show (upd s.mem.res d _ d).value = _
        rw [upd_same]; exact hv.symm
    · cases h

/-- everything carried along the tokens of the middle of a build -/
structure MidInv (P : Program) (σ : Snap) (root : Key) (acc : List Tok) (m : Engine.St) : Prop where
  x : XInv P σ root m
  i2 : Inv2 m
  r : RInv σ m
  d : DoneAt σ acc m
  seen : SeenInv acc m

theorem tstepX_midInv {P : Program} {σ : Snap} {root : Key} {ms ms' : MSt} {t : Tok} {acc : List Tok}
    (h : tstepX P ms t = some ms') (hc : Tok.isClose t = false) (hm : MidInv P σ root acc ms.m) :
    MidInv P σ root (acc ++ [t]) ms'.m := by
  obtain ⟨a1, a2, _⟩ := tstepX_xinv h hc hm.x hm.i2
  have hts := (tstepX_tstep h).1
  have htg : ms.m.target.isSome = true := by rw [hm.x.target]; rfl
  refine ⟨a1, a2, ?_, ?_, tstep_seen hts (Or.inl hc) htg hm.seen⟩
  · rcases tstep_event hts with ⟨_, e⟩ | ⟨ev, he | ⟨k0, row0, ht, he⟩, hst⟩
    · rw [e]; exact hm.r
    · rcases toEvent_midX he hc with hmid | ⟨k1, hk1⟩
      · exact step_rinv hm.x hm.r hst hmid
      · subst hk1
        rw [step_buildStart_inside P k1 htg] at hst; cases hst
    · subst ht; subst he; exact step_rinv hm.x hm.r hst rfl
  · rcases tstep_event hts with ⟨_, e⟩ | ⟨ev, he | ⟨k0, row0, ht, he⟩, hst⟩
    · rw [e]
      intro d hd
      exact (hm.d d hd).mono (fun x hx => List.mem_append_left _ hx)
    · rcases toEvent_midX he hc with hmid | ⟨k1, hk1⟩
      · refine step_doneAt hm.x hm.d hst hmid ?_ ?_
        · intro k e; subst e; exact toEvent_upToDate he
        · intro k row e; subst e; exact (toEvent_not_finished he).elim
      · subst hk1
        rw [step_buildStart_inside P k1 htg] at hst; cases hst
    · subst ht; subst he
      exact step_doneAt hm.x hm.d hst rfl (fun k e => by cases e) (fun k row e => by cases e; rfl)

theorem trunX_midInv {P : Program} {σ : Snap} {root : Key} : ∀ (toks : List Tok) (ms ms' : MSt) (acc : List Tok),
    trunX P ms toks = some ms' → (∀ t ∈ toks, Tok.isClose t = false) → MidInv P σ root acc ms.m →
    MidInv P σ root (acc ++ toks) ms'.m
  | [], ms, ms', acc, h, _, hm => by
    simp only [trunX, Option.some.injEq] at h; subst h; simpa using hm
  | t :: ts, ms, ms', acc, h, hc, hm => by
    simp only [trunX] at h
    cases hs : tstepX P ms t with
    | none => rw [hs] at h; simp at h
    | some ms1 =>
      rw [hs] at h; simp only [Option.bind_some] at h
      have := trunX_midInv ts ms1 ms' (acc ++ [t]) h (fun t' ht' => hc t' (List.mem_cons_of_mem _ ht'))
        (tstepX_midInv hs (hc t List.mem_cons_self) hm)
      simpa [List.append_assoc] using this

/-- the tokens of the middle of a build that the lifts are about -/
def Tok.isMidTok : Tok → Bool
  | .B _ => false
  | .X => false
  | .DE => false
  | .R _ => false
  | .Z _ _ => false
  | _ => true

theorem isMidTok_notClose {t : Tok} (h : Tok.isMidTok t = true) : Tok.isClose t = false := by
  cases t <;> first | rfl | cases h

/-- a middle token of a trace `B key :: rest ++ DE :: x ++ [R v, Z 0 0]` lies in `rest` -/
theorem split_mid {key : Key} {rest x pre post : List Tok} {v : Val} {t : Tok} (hx : x = [] ∨ x = [Tok.X])
    (ht : Tok.isMidTok t = true)
    (h : pre ++ t :: post = (Tok.B key :: rest) ++ Tok.DE :: (x ++ [Tok.R v, Tok.Z 0 0])) :
    ∃ pre' post', pre = Tok.B key :: pre' ∧ rest = pre' ++ t :: post' := by
  rcases List.append_eq_append_iff.1 h with ⟨a', h1, h2⟩ | ⟨c', h1, h2⟩
  · cases a' with
    | nil =>
      simp only [List.nil_append, List.cons.injEq] at h2
      rw [h2.1] at ht; cases ht
    | cons z zs =>
      simp only [List.cons_append, List.cons.injEq] at h2
      obtain ⟨e1, _⟩ := h2
      subst e1
      cases pre with
      | nil =>
        simp only [List.nil_append, List.cons.injEq] at h1
        rw [← h1.1] at ht; cases ht
      | cons p pre' =>
        simp only [List.cons_append, List.cons.injEq] at h1
        obtain ⟨e1, e2⟩ := h1
        exact ⟨pre', zs, by rw [e1], e2⟩
  · exfalso
    have hm : t ∈ Tok.DE :: (x ++ [Tok.R v, Tok.Z 0 0]) := by rw [h2]; simp
    rcases hx with e | e <;> subst e <;>
      simp only [List.nil_append, List.cons_append, List.mem_cons, List.not_mem_nil, or_false] at hm <;>
      rcases hm with e | e | e | e <;> (try subst e) <;> first | cases ht | (rcases e with e | e <;> subst e <;> cases ht)

/-- **the monitor at a token of the middle of a build**.  `J` is any invariant on (tokens so far, monitor state) that holds
after `B key` and is kept by every accepted middle token. -/
theorem build_at_mid {rules : List RuleSpec} (hok : RulesOk rules) {s : State} {m : Engine.St}
    (hr : RelIdle rules s m) (h2 : Inv2 m) (key cancelAt : Nat) (sched : List SchedItem) (a : Async)
    (hsize : workBound rules s key + 2 < scanFuel) {pre post : List Tok} {t : Tok}
    (htr : (runBuildA key cancelAt sched a s).trace.reverse = pre ++ t :: post) (ht : Tok.isMidTok t = true)
    {J : List Tok → Engine.St → Prop}
    (hJB : ∀ ms1, tstep (program rules) ⟨m, none⟩ (.B key) = some ms1 → J [Tok.B key] ms1.m)
    (hJ : ∀ (ms ms' : MSt) (t : Tok) (acc : List Tok), tstep (program rules) ms t = some ms' → Tok.isClose t = false →
      ms.m.target.isSome = true → J acc ms.m → J (acc ++ [t]) ms'.m) :
    ∃ msp msq, trun (program rules) ⟨m, none⟩ pre = some msp ∧ tstep (program rules) msp t = some msq ∧
      tokOkX msp.m t = true ∧ MidInv (program rules) (snapOf (program rules) m) key pre msp.m ∧ J pre msp.m ∧
      msp.m.env = s.env ∧ msp.m.pendingDropped = m.pendingDropped ∧ ∃ pre', pre = Tok.B key :: pre' := by
  have hloop := workLoopA_final rules hok
  have hnh := build_terminates_async hok hr key cancelAt sched a hsize
  obtain ⟨m', hrunX, _⟩ := runBuildA_simX hok hr key cancelAt sched a hnh
  obtain ⟨rest, v, x, hsh, hx, hnc⟩ := runBuildA_trace_shape0 hloop hr key cancelAt sched a hnh
  rw [htr] at hsh
  obtain ⟨pre', post', hp, hrest⟩ := split_mid hx ht hsh
  subst hp
  rw [htr] at hrunX
  obtain ⟨msp, hpre, hafter⟩ := trunX_prefix hrunX
  have hpreT := trunX_trun _ _ _ hpre
  simp only [trunX] at hafter
  cases htk : tstepX (program rules) msp t with
  | none => rw [htk] at hafter; simp at hafter
  | some msq =>
    obtain ⟨hts, hok'⟩ := tstepX_tstep htk
    have hnc' : ∀ t ∈ pre', Tok.isClose t = false := by
      intro t ht
      exact hnc t (List.mem_cons_of_mem _ (by rw [hrest]; exact List.mem_append_left _ ht))
    have hpre' := hpre
    simp only [trunX] at hpre'
    cases hB : tstepX (program rules) ⟨m, none⟩ (.B key) with
    | none => rw [hB] at hpre'; simp at hpre'
    | some ms1 =>
      rw [hB] at hpre'; simp only [Option.bind_some] at hpre'
      obtain ⟨x1, i1, _⟩ := tstepX_B_xinv hB h2
      have hBt := (tstepX_tstep hB).1
      have hidle : ∀ k, ms1.m.status k = .idle := by
        have hst := tstep_ev_inv hBt (e := .buildStart key) rfl
        simp only [step] at hst
        split at hst
        · cases ms1; simp only [Option.some.injEq] at hst; subst hst; intro k; rfl
        · cases hst
      have hm1 : MidInv (program rules) (snapOf (program rules) m) key [Tok.B key] ms1.m :=
        ⟨x1, i1, (fun k hk => by rw [hidle k] at hk; cases hk), (fun d hd => by rw [hidle d] at hd; cases hd),
          seen_after_B hBt⟩
      have hmid := trunX_midInv pre' ms1 msp [Tok.B key] hpre' hnc' hm1
      -- the caller's invariant
      have hJ' : ∀ (toks : List Tok) (ms ms' : MSt) (acc : List Tok), trun (program rules) ms toks = some ms' →
          (∀ t ∈ toks, Tok.isClose t = false) → ms.m.target.isSome = true → J acc ms.m → J (acc ++ toks) ms'.m := by
        intro toks
        induction toks with
        | nil =>
          intro ms ms' acc h _ _ hj
          simp only [trun, Option.some.injEq] at h; subst h; simpa using hj
        | cons t ts ih =>
          intro ms ms' acc h hc htg hj
          simp only [trun] at h
          cases hs : tstep (program rules) ms t with
          | none => rw [hs] at h; simp at h
          | some ms1 =>
            rw [hs] at h; simp only [Option.bind_some] at h
            have hct := hc t List.mem_cons_self
            have := ih ms1 ms' (acc ++ [t]) h (fun t' ht' => hc t' (List.mem_cons_of_mem _ ht'))
              (tstep_target_isSome hs (Or.inl hct) htg) (hJ ms ms1 t acc hs hct htg hj)
            simpa [List.append_assoc] using this
      have ht1 : ms1.m.target.isSome = true := by rw [(tstep_B hBt).2.1]; rfl
      have hj := hJ' pre' ms1 msp [Tok.B key] (trunX_trun _ _ _ hpre') hnc' ht1 (hJB ms1 hBt)
      obtain ⟨_, he, hd, _⟩ := trun_B_mid hpreT hnc'
      exact ⟨msp, msq, hpreT, hts, hok', by simpa using hmid, by simpa using hj, he.trans hr.env, hd, pre', rfl⟩

end LLBuild.Refine
