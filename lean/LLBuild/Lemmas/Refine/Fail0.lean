/-
IM7 — the `F` op (an injected failure of the next database write): DEFINITIONS.

What the engine does (notes/REFINE.md §11): the first `setRuleResult` after `F` fails.  The rule was already set `Complete`
and reported (`S k 2`), its discovered dependencies registered (`L`/`G`), the write recorded (`DS k row`) — and then
`ER 6`, `cancelRemainingTasks` (which resets the rule: its task is still listed), `DI`, `DE`, `R 0`, `Z`.  The store is
unchanged.

How the trace is read: **`DS k row` followed by `ER 6` (at most the `X` of a cancellation in between) is a write that did not happen — no
`finished` event**
(the registrations in the window are kept; the same rule as for `KILL` inside a write window).  `Engine.step` is
unchanged; `evOfToksF` / `trunF` are `evOfToks` / `trun` with that one extra clause.

* `withFail b s`: the state with the failure flag set to `b` (`opFail = withFail true`).  No engine function except
  `setRuleResult` reads the flag (`FailComm.lean`).
* `Tok.isS2b`: `S k 2` is reported only by `finishedTaskWrite` (`FailTok.lean`).
Core Lean only.
-/
import LLBuild.Lemmas.Refine.Final5

namespace LLBuild.Refine
open LLBuild.Engine LLBuild.Engine.DSL LLBuild.EngineImpl

/-- the state with the "fail the next database write" flag set to `b` -/
def withFail (b : Bool) (s : State) : State := { s with store := { s.store with failNextSet := b } }

theorem opFail_eq (s : State) : opFail s = withFail true s := rfl

@[simp] theorem withFail_flag (b : Bool) (s : State) : (withFail b s).store.failNextSet = b := rfl
@[simp] theorem withFail_rows (b : Bool) (s : State) : (withFail b s).store.rows = s.store.rows := rfl
@[simp] theorem withFail_iteration (b : Bool) (s : State) : (withFail b s).store.iteration = s.store.iteration := rfl
@[simp] theorem withFail_withFail (b c : Bool) (s : State) : withFail b (withFail c s) = withFail b s := rfl
theorem withFail_self (s : State) : withFail s.store.failNextSet s = s := rfl
theorem withFail_of_flag {s : State} {b : Bool} (h : s.store.failNextSet = b) : withFail b s = s := by
  subst h; rfl

/-- `ER 6`: "error while updating the database" -/
def Tok.isER6 : Tok → Bool
  | .ER c => c == 6
  | _ => false

/-- `S k 2` as a Boolean -/
def Tok.isS2b (t : Tok) : Bool := (Tok.isS2 t).isSome

/-- the write just recorded FAILED: the next token is `ER 6`, possibly after the `X` of a cancellation that fired at the
`DS` token itself (`emit` runs the `cancelAtEvent` check at every token) -/
def nextIsER6 : List Tok → Bool
  | .X :: t :: _ => Tok.isER6 t
  | t :: _ => Tok.isER6 t
  | [] => false

/-- the events of a (possibly cut) token trace, a failed write read as "no completion" -/
def evOfToksF : Option Key → List Tok → Option (List Event)
  | _, [] => some []
  | none, t :: ts =>
    match Tok.isS2 t with
    | some k => evOfToksF (some k) ts
    | none =>
      match t.toEvent? with
      | none => none
      | some e => (evOfToksF none ts).map (fun b => e :: b)
  | some k, t :: ts =>
    match t with
    | .DS k' row =>
      if k = k' then
        if nextIsER6 ts then evOfToksF none ts
        else (evOfToksF none ts).map (fun b => Event.finished k row :: b)
      else none
    | _ =>
      if Tok.isReg t then
        match t.toEvent? with
        | none => none
        | some e => (evOfToksF (some k) ts).map (fun b => e :: b)
      else none

/-- the token monitor with the failed-write clause -/
def trunF (P : Program) : MSt → List Tok → Option MSt
  | ms, [] => some ms
  | ms, t :: ts =>
    match ms.pend, t with
    | some k, .DS k' _ =>
      if k = k' ∧ nextIsER6 ts = true then trunF P { ms with pend := none } ts
      else (tstep P ms t).bind (fun ms' => trunF P ms' ts)
    | _, _ => (tstep P ms t).bind (fun ms' => trunF P ms' ts)

/-- `finishedTasksLoop`'s body up to (not including) the database write -/
def finishedTaskPre (task : Key) (s : State) : State :=
  let taskInfo := s.task task
  let k := taskInfo.forRuleInfo
  let s := s.modRule k (fun ri => setComplete s { ri with inProgressInfo := .null })
  let s := emit (.S k 2) s
  let s := s.modRule k (fun ri => { ri with result := { ri.result with deps := ri.result.deps ++ taskInfo.discoveredDependencies } })
  pushDiscovered taskInfo.discoveredDependencies s

theorem finishedTaskWrite_pre (task : Key) (s : State) :
    finishedTaskWrite task s =
      if (finishedTaskPre task s).hasDB then
        setRuleResult (s.task task).forRuleInfo ((finishedTaskPre task s).rule (s.task task).forRuleInfo).result
          (finishedTaskPre task s)
      else (true, finishedTaskPre task s) := rfl

/-- the state in which `finishedTasksLoop` calls `cancelRemainingTasks` after a failed write (flag consumed) -/
def failExitState (task : Key) (s : State) : State :=
  let p := finishedTaskPre task s
  let k := (s.task task).forRuleInfo
  let x := emit (.ER 6) (emit (.DS k (p.rule k).result) p)
  { x with numOutstandingUnfinishedTasks := x.numOutstandingUnfinishedTasks - 1 }

end LLBuild.Refine
