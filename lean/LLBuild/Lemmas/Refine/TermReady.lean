/-
IM3 — termination / no-stall, section D (ready tasks, completions, the hook): the potential `Phi` (`Term0.lean`)
never increases in `hook`, drops by ≥ 1 per completed task (`taskComplete`: phase 2 → 1), per ready task
(`readyStep`: phase 3 → 2 or 1) and in the wait branch (`hook 1` completes at least one parked task); none of these
functions halts; `readyTasksLoop` needs at most `Phi + 1` fuel.
Helpers live in `LLBuild.Refine.TermReady` (no clash with the shared toolbox `TermBasic`).
-/
import LLBuild.Lemmas.Refine.Ready
import LLBuild.Lemmas.Refine.Term0

namespace LLBuild.Refine.TermReady
open LLBuild.Engine LLBuild.Engine.DSL LLBuild.EngineImpl

/-! ## `sumBy` -/

theorem sumBy_cons {α : Type} (f : α → Nat) (x : α) (l : List α) : sumBy f (x :: l) = f x + sumBy f l := by
  simp [sumBy]

theorem sumBy_congr {α : Type} {f g : α → Nat} : ∀ (l : List α), (∀ x ∈ l, f x = g x) → sumBy f l = sumBy g l
  | [], _ => rfl
  | x :: xs, h => by
    rw [sumBy_cons, sumBy_cons, h x List.mem_cons_self, sumBy_congr xs (fun y hy => h y (List.mem_cons_of_mem _ hy))]

/-- one summand of a sum over a duplicate-free list drops by `c` -/
theorem sumBy_drop {f g : Key → Nat} {a : Key} {c : Nat} : ∀ (l : List Key), l.Nodup → a ∈ l →
    (∀ x, x ≠ a → f x = g x) → f a + c ≤ g a → sumBy f l + c ≤ sumBy g l
  | [], _, hm, _, _ => by cases hm
  | x :: xs, hn, hm, hne, ha => by
    have hn' := List.nodup_cons.1 hn
    rw [sumBy_cons, sumBy_cons]
    by_cases e : x = a
    · subst e
      have : sumBy f xs = sumBy g xs := sumBy_congr xs (fun y hy => hne y (fun e' => hn'.1 (e' ▸ hy)))
      omega
    · have hm' : a ∈ xs := by
        rcases List.mem_cons.1 hm with h | h
        · exact absurd h.symm e
        · exact h
      have := sumBy_drop xs hn'.2 hm' hne ha
      rw [hne x e]
      omega

/-! ## `ruleW` by phase -/

theorem ruleW_phase1 {rules : List RuleSpec} {s : State} {k : Key} (h : phase s k = 1) :
    ruleW rules s k = 1 + 6 * (specOf rules k).discs.length := by
  unfold ruleW; rw [h]; simp

theorem ruleW_phase2 {rules : List RuleSpec} {s : State} {k : Key} (h : phase s k = 2) :
    ruleW rules s k = 2 + 6 * (specOf rules k).discs.length := by
  unfold ruleW; rw [h]; simp

theorem ruleW_phase3 {rules : List RuleSpec} {s : State} {k : Key} (h : phase s k = 3) :
    ruleW rules s k = 3 + 6 * ((allReqs (specOf rules k)).length - (s.task k).issuedReqs.length) +
      6 * (specOf rules k).discs.length := by
  unfold ruleW; rw [h]; simp

/-! ## the recorder does not move the potential -/

theorem Phi_emit (rules : List RuleSpec) (U : List Key) (t : Tok) (s : State) (h : Hand) :
    Phi rules U (emit t s) h = Phi rules U s h := by
  by_cases hh : s.halted = true
  · rw [emit_halted t s hh]
  · have hh' : s.halted = false := by simpa using hh
    rcases emit_spec t s hh' with e | ⟨_, e⟩ <;> rw [e] <;> rfl

theorem ClosedU_emit {rules : List RuleSpec} {U : List Key} {s : State} (t : Tok) (hc : ClosedU rules U s) :
    ClosedU rules U (emit t s) := by
  by_cases hh : s.halted = true
  · rw [emit_halted t s hh]; exact hc
  · have hh' : s.halted = false := by simpa using hh
    rcases emit_spec t s hh' with e | ⟨_, e⟩ <;> rw [e] <;>
      exact ⟨hc.nodup, hc.registered, hc.reqs, hc.discs, hc.deps, hc.inputs⟩

theorem TermStep_emit {rules : List RuleSpec} {U : List Key} {s : State} {h : Hand} (t : Tok) (hc : ClosedU rules U s) :
    TermStep rules U s h (emit t s) h 0 :=
  ⟨ClosedU_emit t hc, by rw [Phi_emit]; exact Nat.le_refl _⟩

theorem TermStep_doCancel {rules : List RuleSpec} {U : List Key} {s : State} {h : Hand} (hc : ClosedU rules U s) :
    TermStep rules U s h (doCancel s) h 0 := by
  unfold doCancel
  split
  · exact ⟨hc, Nat.le_refl _⟩
  · split
    · exact ⟨⟨hc.nodup, hc.registered, hc.reqs, hc.discs, hc.deps, hc.inputs⟩, Nat.le_refl _⟩
    · exact ⟨⟨hc.nodup, hc.registered, hc.reqs, hc.discs, hc.deps, hc.inputs⟩, Nat.le_refl _⟩

theorem TermStep.refl {rules : List RuleSpec} {U : List Key} {s : State} {h : Hand} (hc : ClosedU rules U s) :
    TermStep rules U s h s h 0 := ⟨hc, Nat.le_refl _⟩

theorem TermStep.weaken {rules : List RuleSpec} {U : List Key} {s s' : State} {h h' : Hand} {c d : Nat}
    (a : TermStep rules U s h s' h' c) (hd : d ≤ c) : TermStep rules U s h s' h' d :=
  ⟨a.1, by have := a.2; omega⟩

/-- composition with an explicit bound (elaborates fast: the bound is checked by `omega` after both steps are known) -/
theorem tstrans {rules : List RuleSpec} {U : List Key} {s1 s2 s3 : State} {h1 h2 h3 : Hand} {c d e : Nat}
    (a : TermStep rules U s1 h1 s2 h2 c) (b : TermStep rules U s2 h2 s3 h3 d) (he : e ≤ c + d) :
    TermStep rules U s1 h1 s3 h3 e :=
  ⟨b.1, by have := a.2; have := b.2; omega⟩

/-! ## the generic update `updS` (`Ready.lean`) -/

section updS
variable {rules : List RuleSpec} {U : List Key} {s : State} {ri ri0 : RuleInfo} {t t0 : TaskInfo} {rdy fin pd : List Key} {n : Nat}

theorem updS_task_ne (htk : t.forRuleInfo = ri.key) {k : Key} (hne : k ≠ ri.key) :
    (updS ri t rdy fin pd n s).task k = s.task k := by
  unfold State.task; rw [updS_tlookup, htk]; simp [hne]

theorem updS_task_self (htk : t.forRuleInfo = ri.key) : (updS ri t rdy fin pd n s).task ri.key = t := by
  unfold State.task; rw [updS_tlookup, htk]; simp

theorem phase_updS_ne (htk : t.forRuleInfo = ri.key) {k : Key} (hne : k ≠ ri.key) :
    phase (updS ri t rdy fin pd n s) k = phase s k := by
  unfold phase
  rw [updS_lookup, updS_task_ne htk hne]
  simp only [hne, if_false]
  rfl

theorem phase_updS_self (htk : t.forRuleInfo = ri.key) (hst : ri.state = .inProgressComputing) :
    phase (updS ri t rdy fin pd n s) ri.key = if t.done then 1 else 2 := by
  unfold phase
  rw [updS_lookup, updS_task_self htk]
  simp [hst]

theorem deps0_updS (hl : s.ruleInfos.lookup ri.key = some ri0) (hdeps : ri.result.deps = ri0.result.deps) (k : Key) :
    deps0 (updS ri t rdy fin pd n s) k = deps0 s k := by
  unfold deps0
  rw [updS_lookup]
  by_cases e : k = ri.key
  · subst e; simp [hl, hdeps]
  · simp only [e, if_false]; rfl

theorem ruleW_updS_ne (hl : s.ruleInfos.lookup ri.key = some ri0) (hdeps : ri.result.deps = ri0.result.deps)
    (htk : t.forRuleInfo = ri.key) {k : Key} (hne : k ≠ ri.key) :
    ruleW rules (updS ri t rdy fin pd n s) k = ruleW rules s k := by
  unfold ruleW
  rw [phase_updS_ne htk hne, deps0_updS hl hdeps, updS_task_ne htk hne]

theorem ruleDeps_updS (hl : s.ruleInfos.lookup ri.key = some ri0) (hdeps : ri.result.deps = ri0.result.deps) (k : Key) :
    ((updS ri t rdy fin pd n s).rule k).result.deps = (s.rule k).result.deps := by
  by_cases e : k = ri.key
  · subst e; rw [updS_rule_self, rule_of_lookup hl, hdeps]
  · rw [updS_rule_ne e]

/-- the phase of the updated rule stays strictly between "done" and "has no verdict": queue weights do not move -/
theorem phaseClass_updS (htk : t.forRuleInfo = ri.key) (hst : ri.state = .inProgressComputing)
    (hph0 : 1 ≤ phase s ri.key ∧ phase s ri.key < 5) (k : Key) :
    (5 ≤ phase (updS ri t rdy fin pd n s) k ↔ 5 ≤ phase s k) ∧ (1 ≤ phase (updS ri t rdy fin pd n s) k ↔ 1 ≤ phase s k) := by
  by_cases e : k = ri.key
  · subst e
    rw [phase_updS_self htk hst]
    cases t.done <;> simp <;> omega
  · rw [phase_updS_ne htk e]; exact ⟨Iff.rfl, Iff.rfl⟩

/-- **`Phi` across the generic update**: everything but the weight of the updated rule is unchanged -/
theorem Phi_updS {h : Hand} {c : Nat} (hU : U.Nodup) (haU : ri.key ∈ U)
    (hl : s.ruleInfos.lookup ri.key = some ri0) (hlt : s.taskInfos.lookup t.forRuleInfo = some t0)
    (htk : t.forRuleInfo = ri.key) (ho : ri0.isScanning = false) (hst : ri.state = .inProgressComputing)
    (hdeps : ri.result.deps = ri0.result.deps) (hreq : t.requestedBy = t0.requestedBy)
    (hdef : t.deferredScanRequests = t0.deferredScanRequests)
    (hph0 : 1 ≤ phase s ri.key ∧ phase s ri.key < 5)
    (hw : ruleW rules (updS ri t rdy fin pd n s) ri.key + c ≤ ruleW rules s ri.key) :
    Phi rules U (updS ri t rdy fin pd n s) h + c ≤ Phi rules U s h := by
  have hn : ri.isScanning = false := by simp [RuleInfo.isScanning, hst]
  have hcls := phaseClass_updS (s := s) (rdy := rdy) (fin := fin) (pd := pd) (n := n) htk hst hph0
  have e1 : sumBy (ruleW rules (updS ri t rdy fin pd n s)) U + c ≤ sumBy (ruleW rules s) U :=
    sumBy_drop U hU haU (fun x hx => ruleW_updS_ne hl hdeps htk hx) hw
  have e2 : inputQW (updS ri t rdy fin pd n s) = inputQW s := by
    funext r; unfold inputQW; simp only [(hcls r.inputRuleInfo).1]
  have e3 : pausedAll (updS ri t rdy fin pd n s) = pausedAll s := by
    unfold pausedAll; rw [updS_liveRecords hl ho hn]
  have e4 : requestedByAll (updS ri t rdy fin pd n s) = requestedByAll s := updS_requestedByAll hlt hreq
  have e5 : ∀ r, scanRest (updS ri t rdy fin pd n s) r = scanRest s r := by
    intro r; unfold scanRest; rw [ruleDeps_updS hl hdeps]
  have e6 : scanQW (updS ri t rdy fin pd n s) = scanQW s := by
    funext r
    unfold scanQW
    rw [e5, ruleDeps_updS hl hdeps]
    cases (s.rule r.ruleInfo).result.deps[r.inputIndex]? with
    | none => rfl
    | some d => simp only [(hcls d.key).1, (hcls d.key).2]
  have e7 : liveRecords (updS ri t rdy fin pd n s) = liveRecords s := updS_liveRecords hl ho hn
  have e8 := updS_taskDeferred (ri := ri) (rdy := rdy) (fin := fin) (pd := pd) (n := n) hlt hdef
  have e9 : (fun r => scanRest (updS ri t rdy fin pd n s) r + 4) = (fun r => scanRest s r + 4) := by
    funext r; rw [e5]
  have e10 : (fun r => scanRest (updS ri t rdy fin pd n s) r + 2) = (fun r => scanRest s r + 2) := by
    funext r; rw [e5]
  unfold Phi
  rw [e2, e3, e4, e6, e7, e8, e9, e10]
  show sumBy (ruleW rules (updS ri t rdy fin pd n s)) U + sumBy (inputQW s) (h.inp ++ s.inputRequests) + _ + _ +
    (h.fin ++ s.finishedInputRequests).length + sumBy (scanQW s) (h.scan ++ s.ruleInfosToScan) + _ + _ + c ≤ _
  omega

theorem ClosedU_updS (hc : ClosedU rules U s) (hl : s.ruleInfos.lookup ri.key = some ri0)
    (hdeps : ri.result.deps = ri0.result.deps) : ClosedU rules U (updS ri t rdy fin pd n s) := by
  refine ⟨hc.nodup, ?_, hc.reqs, hc.discs, ?_, hc.inputs⟩
  · intro k hk
    apply hc.registered
    unfold Registered at *
    rw [updS_lookup] at hk
    by_cases e : k = ri.key
    · rw [e, hl]; rfl
    · simpa [e] using hk
  · intro k hk d hd
    rw [deps0_updS hl hdeps] at hd
    exact hc.deps k hk d hd

end updS

/-! ## fields the potential does not read -/

theorem Phi_pd (rules : List RuleSpec) (U : List Key) (x : State) (l : List Key) (h : Hand) :
    Phi rules U { x with pendingDeferred := l } h = Phi rules U x h := rfl

theorem ClosedU_pd {rules : List RuleSpec} {U : List Key} {x : State} (l : List Key) (hc : ClosedU rules U x) :
    ClosedU rules U { x with pendingDeferred := l } :=
  ⟨hc.nodup, hc.registered, hc.reqs, hc.discs, hc.deps, hc.inputs⟩

theorem Phi_sched (rules : List RuleSpec) (U : List Key) (x : State) (l : List SchedItem) (h : Hand) :
    Phi rules U { x with sched := l } h = Phi rules U x h := rfl

theorem ClosedU_sched {rules : List RuleSpec} {U : List Key} {x : State} (l : List SchedItem) (hc : ClosedU rules U x) :
    ClosedU rules U { x with sched := l } :=
  ⟨hc.nodup, hc.registered, hc.reqs, hc.discs, hc.deps, hc.inputs⟩

/-! ## `taskComplete`: phase 2 → 1 -/

/-- `taskComplete a` on ANY state in which the task of `a` is computing and not done: `Phi` drops by exactly the
phase step 2 → 1 of rule `a` -/
theorem taskComplete_term_core {rules : List RuleSpec} {U : List Key} {y : State} {h : Hand} {a : Key}
    {ri0 : RuleInfo} {t0 : TaskInfo}
    (hl : y.ruleInfos.lookup a = some ri0) (hlt : y.taskInfos.lookup a = some t0) (hk : ri0.key = a)
    (hfor : t0.forRuleInfo = a) (hcomp : ri0.state = .inProgressComputing) (hdone : t0.done = false)
    (hc : ClosedU rules U y) : TermStep rules U y h (taskComplete a y) h 1 := by
  have hrule : y.rule a = ri0 := rule_of_lookup hl
  have htask : y.task a = t0 := task_of_lookup hlt
  have hcmp : (y.rule a).isInProgressComputing = true := by
    rw [hrule]; simp [RuleInfo.isInProgressComputing, hcomp]
  rw [taskComplete_eq a y hcmp]
  unfold completeUpd
  rw [hrule, htask]
  generalize outValue (specOf y.rules a) y.env t0.recv = v
  generalize (specOf y.rules a).force = f
  obtain ⟨ri, hri⟩ : ∃ ri : RuleInfo, ri = { ri0 with result := completeRes ri0 v (f != 0) y.currentEpoch } := ⟨_, rfl⟩
  obtain ⟨t, ht⟩ : ∃ t : TaskInfo, t = { t0 with done := true } := ⟨_, rfl⟩
  rw [← hri, ← ht]
  have hrik : ri.key = a := by rw [hri]; exact hk
  have htk : t.forRuleInfo = ri.key := by rw [ht, hrik]; exact hfor
  have hst : ri.state = .inProgressComputing := by rw [hri]; exact hcomp
  have hdeps : ri.result.deps = ri0.result.deps := by
    rw [hri]; show (completeRes ri0 v (f != 0) y.currentEpoch).deps = _
    unfold completeRes; split <;> rfl
  have hl' : y.ruleInfos.lookup ri.key = some ri0 := by rw [hrik]; exact hl
  have hlt' : y.taskInfos.lookup t.forRuleInfo = some t0 := by rw [htk, hrik]; exact hlt
  have hp2 : phase y ri.key = 2 := by
    rw [hrik]; unfold phase; rw [hl]; simp [hcomp, htask, hdone]
  have hp1 : phase (updS ri t y.readyTaskInfos (y.finishedTaskInfos ++ [a]) y.pendingDeferred y.numOutstandingUnfinishedTasks y) ri.key = 1 := by
    rw [phase_updS_self htk hst, ht]; rfl
  have hstep : TermStep rules U y h
      (updS ri t y.readyTaskInfos (y.finishedTaskInfos ++ [a]) y.pendingDeferred y.numOutstandingUnfinishedTasks y) h 1 := by
    refine ⟨ClosedU_updS hc hl' hdeps, ?_⟩
    refine Phi_updS hc.nodup (hc.registered _ (by unfold Registered; rw [hl']; rfl)) hl' hlt' htk
      (by simp [RuleInfo.isScanning, hcomp]) hst hdeps (by rw [ht]) (by rw [ht]) (by rw [hp2]; omega) ?_
    rw [ruleW_phase1 hp1, ruleW_phase2 hp2]; omega
  exact tstrans hstep (TermStep_emit _ hstep.1) (by omega)

end LLBuild.Refine.TermReady

namespace LLBuild.Refine
open LLBuild.Engine LLBuild.Engine.DSL LLBuild.EngineImpl
open LLBuild.Refine.TermReady

/-! ## 1. `taskComplete` -/

theorem taskComplete_nohalt {rules : List RuleSpec} {s : State} {ms : MSt} {a : Key}
    (hr : Rel rules s ms {}) (hh : s.halted = false) (ha : a ∈ s.pendingDeferred) :
    (taskComplete a { s with pendingDeferred := s.pendingDeferred.filter (· != a) }).halted = false := by
  obtain ⟨⟨_, _, _, _, _, _, _, _, _, a8, _⟩, _⟩ := taskComplete_step hr hh ha
  exact a8

/-- `taskComplete` of a parked task (state of `Todo_taskComplete`): `Phi` drops by 1 (phase 2 → 1) -/
theorem taskComplete_term {rules : List RuleSpec} {U : List Key} {s : State} {ms : MSt} {a : Key}
    (hr : Rel rules s ms {}) (ha : a ∈ s.pendingDeferred) (hc : ClosedU rules U s) :
    TermStep rules U s {} (taskComplete a { s with pendingDeferred := s.pendingDeferred.filter (· != a) }) {} 1 := by
  obtain ⟨t0, hlt, hcomp, hdone0⟩ := hr.deferredOk a ha
  have hregA : Registered s a := hr.task_registered (by rw [hlt]; rfl)
  obtain ⟨ri0, hl⟩ := Option.isSome_iff_exists.1 hregA
  rw [rule_of_lookup hl] at hcomp
  have := taskComplete_term_core (rules := rules) (U := U) (h := {})
    (y := { s with pendingDeferred := s.pendingDeferred.filter (· != a) }) hl hlt (hr.keyOk a ri0 hl)
    (hr.taskOk a t0 hlt).forRule hcomp hdone0 (ClosedU_pd _ hc)
  exact ⟨this.1, by have := this.2; rw [Phi_pd] at this; exact this⟩

/-! ## 2. the hook -/

theorem completeKey_term {rules : List RuleSpec} {U : List Key} {s : State} {ms : MSt} (k : Key)
    (hr : Rel rules s ms {}) (hc : ClosedU rules U s) :
    TermStep rules U s {} (completeKey k s).2 {} 0 ∧
      ((completeKey k s).1 = true → TermStep rules U s {} (completeKey k s).2 {} 1) ∧
      (k ∈ s.pendingDeferred → TermStep rules U s {} (completeKey k s).2 {} 1) := by
  unfold completeKey
  by_cases hcn : s.pendingDeferred.contains k = true
  · simp only [hcn, if_true]
    have hk : k ∈ s.pendingDeferred := by simpa using hcn
    have := taskComplete_term hr hk hc
    exact ⟨TermStep.weaken this (by omega), fun _ => this, fun _ => this⟩
  · simp only [hcn, Bool.false_eq_true, if_false]
    refine ⟨TermStep.refl hc, fun x => (by cases x), fun hk => ?_⟩
    exact absurd (by simpa using hk) hcn

theorem completeKey_false (k : Key) (s : State) (h : (completeKey k s).1 = false) : (completeKey k s).2 = s := by
  by_cases hc : k ∈ s.pendingDeferred
  · simp [completeKey, hc] at h
  · simp [completeKey, hc]

theorem completeKeys_false : ∀ (ks : List Key) (any : Bool) (s : State), (completeKeys ks any s).1 = false →
    any = false ∧ (completeKeys ks any s).2 = s
  | [], any, s, h => ⟨h, rfl⟩
  | k :: ks, any, s, h => by
    rw [completeKeys] at h ⊢
    have e : completeKey k s = ((completeKey k s).1, (completeKey k s).2) := rfl
    rw [e] at h ⊢
    simp only at h ⊢
    obtain ⟨h1, h2⟩ := completeKeys_false ks (any || (completeKey k s).1) (completeKey k s).2 h
    have hb : (completeKey k s).1 = false := by
      cases hb : (completeKey k s).1 with
      | false => rfl
      | true => rw [hb] at h1; simp at h1
    have ha : any = false := by
      cases ha : any with
      | false => rfl
      | true => rw [ha] at h1; simp at h1
    exact ⟨ha, by rw [h2]; exact completeKey_false k s hb⟩

theorem completeKeys_term {rules : List RuleSpec} {U : List Key} : ∀ (ks : List Key) (any : Bool) (s : State) (ms : MSt),
    Rel rules s ms {} → s.halted = false → ClosedU rules U s →
    TermStep rules U s {} (completeKeys ks any s).2 {} 0 ∧
      ((completeKeys ks any s).1 = true → any = true ∨ TermStep rules U s {} (completeKeys ks any s).2 {} 1)
  | [], any, s, ms, _, _, hc => ⟨TermStep.refl hc, fun x => Or.inl x⟩
  | k :: ks, any, s, ms, hr, hh, hc => by
    rw [completeKeys]
    obtain ⟨hstep, _, _⟩ := completeKey_step k hr hh
    obtain ⟨t0, t1, _⟩ := completeKey_term (U := U) k hr hc
    generalize completeKey k s = r at hstep t0 t1 ⊢
    obtain ⟨b, s1⟩ := r
    simp only at hstep t0 t1 ⊢
    obtain ⟨_, ms1, _, _, hr1, _, _, _, _, hh1, _⟩ := hstep
    obtain ⟨i0, i1⟩ := completeKeys_term ks (any || b) s1 ms1 hr1 hh1 t0.1
    refine ⟨tstrans t0 i0 (by omega), fun hres => ?_⟩
    rcases i1 hres with e | e
    · cases any with
      | true => exact Or.inl rfl
      | false =>
        have hb : b = true := by simpa using e
        exact Or.inr (tstrans (t1 hb) i0 (by omega))
    · exact Or.inr (tstrans t0 e (by omega))

theorem completeSmallest_term {rules : List RuleSpec} {U : List Key} {s : State} {ms : MSt}
    (hr : Rel rules s ms {}) (hc : ClosedU rules U s) :
    TermStep rules U s {} (completeSmallest s).2 {} 0 ∧
      (s.pendingDeferred ≠ [] → TermStep rules U s {} (completeSmallest s).2 {} 1) := by
  unfold completeSmallest
  cases hq : s.pendingDeferred with
  | nil => exact ⟨TermStep.refl hc, fun x => absurd rfl x⟩
  | cons k rest =>
    simp only
    obtain ⟨h1, _, h3⟩ := completeKey_term (U := U) k hr hc
    exact ⟨h1, fun _ => h3 (by rw [hq]; exact List.mem_cons_self)⟩

theorem hookSched_term {rules : List RuleSpec} {U : List Key} {s : State} {ms : MSt}
    (hr : Rel rules s ms {}) (hh : s.halted = false) (hc : ClosedU rules U s) :
    TermStep rules U s {} (hookSched s).2 {} 0 ∧ ((hookSched s).1 = true → TermStep rules U s {} (hookSched s).2 {} 1) := by
  unfold hookSched
  cases hq : s.sched with
  | nil => exact ⟨TermStep.refl hc, fun x => by cases x⟩
  | cons it rest =>
    simp only
    have hr0 : Rel rules { s with sched := rest } ms {} :=
      hr.recorder s.trace s.halted s.cancelAtEvent s.cancelIssued rest s.buildCancelled hr.cancelled hr.errCancelled
    have hc0 : ClosedU rules U { s with sched := rest } := ClosedU_sched rest hc
    obtain ⟨i0, i1⟩ := completeKeys_term (U := U) it.keys false { s with sched := rest } ms hr0 hh hc0
    have j0 : TermStep rules U s {} (completeKeys it.keys false { s with sched := rest }).2 {} 0 :=
      ⟨i0.1, by have := i0.2; rw [Phi_sched] at this; exact this⟩
    have j1 : (completeKeys it.keys false { s with sched := rest }).1 = true →
        TermStep rules U s {} (completeKeys it.keys false { s with sched := rest }).2 {} 1 := by
      intro x
      rcases i1 x with e | e
      · cases e
      · exact ⟨e.1, by have := e.2; rw [Phi_sched] at this; exact this⟩
    by_cases hcn : it.cancel = true
    · simp only [hcn, if_true]
      exact ⟨tstrans j0 (TermStep_doCancel j0.1) (by omega), fun x => tstrans (j1 x) (TermStep_doCancel j0.1) (by omega)⟩
    · simp only [hcn, Bool.false_eq_true, if_false]
      exact ⟨j0, j1⟩

theorem hookSched_false (s : State) (h : (hookSched s).1 = false) :
    (hookSched s).2.finishedTaskInfos = s.finishedTaskInfos := by
  unfold hookSched at h ⊢
  cases hq : s.sched with
  | nil => rfl
  | cons it rest =>
    rw [hq] at h
    simp only at h ⊢
    obtain ⟨_, h2⟩ := completeKeys_false it.keys false { s with sched := rest } h
    rw [h2]
    split
    · exact (doCancel_same _).finishedTaskInfos
    · rfl

theorem hook_nohalt {rules : List RuleSpec} {s : State} {ms : MSt} (point : Nat)
    (hr : Rel rules s ms {}) (hh : s.halted = false) : (hook point s).halted = false := by
  obtain ⟨⟨_, _, _, _, _, _, _, _, _, a8, _⟩, _⟩ := hook_step point hr hh
  exact a8

/-- `hook point` never increases `Phi` -/
theorem hook_term {rules : List RuleSpec} {U : List Key} {s : State} {ms : MSt} (point : Nat)
    (hr : Rel rules s ms {}) (_hp : ms.pend = none) (hh : s.halted = false) (hc : ClosedU rules U s) :
    TermStep rules U s {} (hook point s) {} 0 := by
  rw [hook_eq]
  by_cases h2 : (point == 2) = true
  · simp only [h2, if_true]
    exact (completeSmallest_term hr hc).1
  · simp only [h2, Bool.false_eq_true, if_false]
    obtain ⟨j0, _⟩ := hookSched_term (U := U) hr hh hc
    by_cases hcn : (point == 1 && !(hookSched s).1) = true
    · simp only [hcn, if_true]
      obtain ⟨⟨_, ms1, _, _, hr1, _⟩, _⟩ := hookSched_step hr hh
      exact tstrans j0 (completeSmallest_term hr1 j0.1).1 (by omega)
    · simp only [hcn, Bool.false_eq_true, if_false]
      exact j0

/-- **the wait branch**: with outstanding tasks and nothing finished, hook point 1 completes at least one parked task
(`finishedTaskInfos` becomes non-empty: no stall) and `Phi` drops by ≥ 1 (phase 2 → 1) -/
theorem hook_wait_term {rules : List RuleSpec} {U : List Key} {s : State} {ms : MSt}
    (hr : Rel rules s ms {}) (hp : ms.pend = none) (hh : s.halted = false) (hc : ClosedU rules U s)
    (hn : s.numOutstandingUnfinishedTasks ≠ 0) (hf : s.finishedTaskInfos = []) :
    (hook 1 s).finishedTaskInfos ≠ [] ∧ TermStep rules U s {} (hook 1 s) {} 1 := by
  refine ⟨(hook_step 1 hr hh).2 rfl hp hn, ?_⟩
  rw [hook_eq]
  simp only [show ((1 : Nat) == 2) = false from rfl, Bool.false_eq_true, if_false, beq_self_eq_true, Bool.true_and]
  obtain ⟨j0, j1⟩ := hookSched_term (U := U) hr hh hc
  cases hany : (hookSched s).1 with
  | true =>
    simp only [Bool.not_true, Bool.false_eq_true, if_false]
    exact j1 hany
  | false =>
    simp only [Bool.not_false, if_true]
    obtain ⟨⟨_, ms1, _, _, hr1, hp1, _, _, _, _, hnum, _⟩, _⟩ := hookSched_step hr hh
    have hpd : (hookSched s).2.pendingDeferred ≠ [] := by
      intro hpd
      have hcnt := hr1.outstandingCount
      rw [hp1, hp, hpd, hookSched_false s hany, hf, hnum] at hcnt
      exact hn (by simpa using hcnt)
    exact tstrans j0 ((completeSmallest_term hr1 j0.1).2 hpd) (by omega)

/-! ## 3. ready tasks -/

theorem readyStep_nohalt {rules : List RuleSpec} {s : State} {ms : MSt} {a : Key} {rest : List Key}
    (hr : Rel rules s ms {}) (hp : ms.pend = none) (hh : s.halted = false) (hready : s.readyTaskInfos = a :: rest)
    (hnm : NoMid s) : (readyStep a { s with readyTaskInfos := rest }).halted = false :=
  (readyStep_full hr hp hh hready hnm).2.1

/-- the body of `readyTasksLoop`: rule `a` goes from phase 3 to phase 2 (deferred) or 1 (completed at once); the
budget of phase 3 for unissued requests is dropped, the `discs` budget stays -/
theorem readyStep_term {rules : List RuleSpec} {U : List Key} {s : State} {ms : MSt} {a : Key} {rest : List Key}
    (hr : Rel rules s ms {}) (_hp : ms.pend = none) (_hh : s.halted = false) (hready : s.readyTaskInfos = a :: rest)
    (_hnm : NoMid s) (hc : ClosedU rules U s) :
    TermStep rules U s {} (readyStep a { s with readyTaskInfos := rest }) {} 1 := by
  have haR : a ∈ s.readyTaskInfos := by rw [hready]; exact List.mem_cons_self
  obtain ⟨t0, hlt, hwait, _⟩ := hr.readyOk a haR
  have hregA : Registered s a := hr.task_registered (by rw [hlt]; rfl)
  obtain ⟨ri0, hl⟩ := Option.isSome_iff_exists.1 hregA
  have hrule : s.rule a = ri0 := rule_of_lookup hl
  rw [hrule] at hwait
  have hk : ri0.key = a := hr.keyOk a ri0 hl
  have hTok := hr.taskOk a t0 hlt
  have hfor : t0.forRuleInfo = a := hTok.forRule
  have hapd : a ∉ s.pendingDeferred := by
    intro h'; obtain ⟨_, _, h2, _⟩ := hr.deferredOk a h'; rw [hrule, hwait] at h2; cases h2
  have hdone0 : t0.done = false := (hTok.waiting (by rw [hrule]; exact hwait)).2.2
  obtain ⟨ds, hds⟩ : ∃ ds, ds = discKeys (specOf s.rules a) t0.recv := ⟨_, rfl⟩
  obtain ⟨ri, hri⟩ : ∃ ri : RuleInfo, ri = { ri0 with state := .inProgressComputing } := ⟨_, rfl⟩
  obtain ⟨t, ht⟩ : ∃ t : TaskInfo, t = { t0 with discoveredDependencies := t0.discoveredDependencies ++ discDeps ds } := ⟨_, rfl⟩
  obtain ⟨X, hX⟩ : ∃ X, X = emit (.IA a ds) (updS ri t rest s.finishedTaskInfos (insertKey a s.pendingDeferred)
      (s.numOutstandingUnfinishedTasks + 1) s) := ⟨_, rfl⟩
  rw [readyStep_eq a s rest ri0 t0 hl hlt hk hfor hapd ds hds ri hri t ht X hX]
  have hrik : ri.key = a := by rw [hri]; exact hk
  have hst : ri.state = .inProgressComputing := by rw [hri]
  have htk : t.forRuleInfo = ri.key := by rw [ht, hrik]; exact hfor
  have htdone : t.done = false := by rw [ht]; exact hdone0
  have hl' : s.ruleInfos.lookup ri.key = some ri0 := by rw [hrik]; exact hl
  have hlt' : s.taskInfos.lookup t.forRuleInfo = some t0 := by rw [htk, hrik]; exact hlt
  have hdeps : ri.result.deps = ri0.result.deps := by rw [hri]
  have hp3 : phase s ri.key = 3 := by
    rw [hrik]; unfold phase; rw [hl]; simp [hwait]
  have hp2 : phase (updS ri t rest s.finishedTaskInfos (insertKey a s.pendingDeferred) (s.numOutstandingUnfinishedTasks + 1) s) ri.key = 2 := by
    rw [phase_updS_self htk hst, htdone]; rfl
  have hstep : TermStep rules U s {}
      (updS ri t rest s.finishedTaskInfos (insertKey a s.pendingDeferred) (s.numOutstandingUnfinishedTasks + 1) s) {} 1 := by
    refine ⟨ClosedU_updS hc hl' hdeps, ?_⟩
    refine Phi_updS hc.nodup (hc.registered _ (by unfold Registered; rw [hl']; rfl)) hl' hlt' htk
      (by simp [RuleInfo.isScanning, hwait]) hst hdeps (by rw [ht]) (by rw [ht]) (by rw [hp3]; omega) ?_
    rw [ruleW_phase2 hp2, ruleW_phase3 hp3]; omega
  have hstepX : TermStep rules U s {} X {} 1 := by
    rw [hX]; exact tstrans hstep (TermStep_emit _ hstep.1) (by omega)
  by_cases hd : ((specOf s.rules a).deferred == 0) = true
  · simp only [hd, if_true]
    -- the task is completed at once out of `pendingDeferred`: 2 → 1
    have hXe : X = updS ri t rest s.finishedTaskInfos (insertKey a s.pendingDeferred) (s.numOutstandingUnfinishedTasks + 1)
        (emit (.IA a ds) s) := by rw [hX, emit_updS]
    have hlX : X.ruleInfos.lookup a = some ri := by rw [hXe, updS_lookup, hrik]; simp
    have hltX : X.taskInfos.lookup a = some t := by rw [hXe, updS_tlookup, htk, hrik]; simp
    have hcore := taskComplete_term_core (rules := rules) (U := U) (h := {})
      (y := { X with pendingDeferred := X.pendingDeferred.filter (· != a) }) hlX hltX hrik (by rw [htk, hrik]) hst htdone
      (ClosedU_pd _ hstepX.1)
    have hcore' : TermStep rules U X {} (taskComplete a { X with pendingDeferred := X.pendingDeferred.filter (· != a) }) {} 1 :=
      ⟨hcore.1, by have := hcore.2; rw [Phi_pd] at this; exact this⟩
    exact tstrans hstepX hcore' (by omega)
  · simp only [hd, Bool.false_eq_true, if_false]
    exact hstepX

/-- `readyTasksLoop` neither halts nor increases `Phi`, with `Phi + 1` fuel -/
theorem readyTasksLoop_nohalt_term {rules : List RuleSpec} {U : List Key} : ∀ (fuel : Nat) (w : Bool) (s : State) (ms : MSt),
    Rel rules s ms {} → ms.pend = none → s.halted = false → NoMid s → ClosedU rules U s → Phi rules U s {} < fuel →
    (readyTasksLoop fuel w s).2.halted = false ∧
      TermStep rules U s {} (readyTasksLoop fuel w s).2 {} (if s.readyTaskInfos = [] then 0 else 1)
  | 0, _, _, _, _, _, _, _, _, hlt => by cases hlt
  | fuel + 1, w, s, ms, hr, hp, hh, hnm, hc, hlt => by
    rw [readyTasksLoop_succ]
    cases hq : s.readyTaskInfos with
    | nil => simp only [if_true]; exact ⟨hh, TermStep.refl hc⟩
    | cons a rest =>
      simp only [reduceCtorEq, if_false]
      obtain ⟨⟨_, ms1, _, _, a3, a4, _, _, a7⟩, a8, _⟩ := readyStep_full hr hp hh hq hnm
      have hstep := readyStep_term (U := U) hr hp hh hq hnm hc
      have hlt1 : Phi rules U (readyStep a { s with readyTaskInfos := rest }) {} < fuel := by
        have := hstep.2; omega
      obtain ⟨b1, b2⟩ := readyTasksLoop_nohalt_term fuel true _ ms1 a3 a4 a8 a7 hstep.1 hlt1
      exact ⟨b1, tstrans hstep b2 (by omega)⟩

theorem readyTasksLoop_nohalt {rules : List RuleSpec} {U : List Key} (fuel : Nat) (w : Bool) {s : State} {ms : MSt}
    (hr : Rel rules s ms {}) (hp : ms.pend = none) (hh : s.halted = false) (hnm : NoMid s) (hc : ClosedU rules U s)
    (hlt : Phi rules U s {} < fuel) : (readyTasksLoop fuel w s).2.halted = false :=
  (readyTasksLoop_nohalt_term fuel w s ms hr hp hh hnm hc hlt).1

theorem readyTasksLoop_term {rules : List RuleSpec} {U : List Key} (fuel : Nat) (w : Bool) {s : State} {ms : MSt}
    (hr : Rel rules s ms {}) (hp : ms.pend = none) (hh : s.halted = false) (hnm : NoMid s) (hc : ClosedU rules U s)
    (hlt : Phi rules U s {} < fuel) :
    TermStep rules U s {} (readyTasksLoop fuel w s).2 {} (if s.readyTaskInfos = [] then 0 else 1) :=
  (readyTasksLoop_nohalt_term fuel w s ms hr hp hh hnm hc hlt).2

end LLBuild.Refine
