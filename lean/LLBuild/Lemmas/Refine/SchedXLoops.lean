/-
C06 "the same set of executed rules" — stage 3 of `runBuildA_simX`: the two loops that scan rules, with `SimX`.
* `finishScan_needs_simX` (`N k 3 (some i)`: guard `Rel.hand_firstStale`), `afterDemand_simX`, `afterScan_simX`,
  `scanLoop_simX` (the walk of ScanLoop.lean §4 with `scanRule_simX` and the guard `Rel.hand_demandedX` of the request in
  hand, re-established after the `L`/`G` tokens of `getRuleInfoForKey` by `scanLookup_sim`), `scanRequestsLoopA_simX`;
* `processInputRequest_headS` (token shape), `processInputRequest_simX` (guard `demandedX_of_hand`),
  `inputRequestsLoopA_simX`.
The relation at the intermediate states comes from the EXISTING `…_sim` lemmas; only the acceptance by `trunX` is new.
-/
import LLBuild.Lemmas.Refine.SchedXClosed

namespace LLBuild.Refine
open LLBuild.Engine LLBuild.Engine.DSL LLBuild.EngineImpl

/-! ## 1. `scanLoop` -/

/-- `finishScanRequest k NeedsToRun ; N k 3 input` passes the in-order guard: `input` is the FIRST stale dependency -/
theorem finishScan_needs_simX {rules : List RuleSpec} (hok : RulesOk rules) (s : State) (ms : MSt) (r : RuleScanRequest)
    (i : Key) (hr : Rel rules s ms { scan := [r] }) (hp : ms.pend = none) (hh : s.halted = false)
    (hin : r.inputRuleInfo = some i) (hoo : r.orderOnly = false) (hdone : isDone ms.m i = true)
    (hlt : (s.rule r.ruleInfo).result.builtAt < (s.rule i).result.computedAt) :
    SimX rules s ms (emit (.N r.ruleInfo 3 (some i)) (finishScanRequest r.ruleInfo .needsToRun s)) {} (fun _ => True) := by
  intro hfin
  obtain ⟨toks, ms', h1, h2, h3⟩ := finishScan_needs_sim rules hok s ms r i hr hp hh hin hoo hdone hlt hfin
  refine ⟨toks, ms', h1, ?_, h3⟩
  obtain ⟨rk, rec, hlk, hsc, hrec, hstM⟩ := hr.hand_rule
  have hguard := hr.hand_firstStale hin hoo hdone hlt
  rw [finishScanRequest_eq .needsToRun hlk hrec] at h1
  have hh' : (finishState rk rec .needsToRun s).halted = false := hh
  rcases emit_emits (.N r.ruleInfo 3 (some i)) _ hh' with e | e
  · have := Emits.inj h1 (e.of_trace_eq finishState_trace)
    subst this
    exact trunX_cons_of h2 hguard NoXL.nil
  · have := Emits.inj h1 (e.of_trace_eq finishState_trace)
    subst this
    exact trunX_cons_of h2 hguard (NoXL.cons rfl NoXL.nil)

/-- the loop statement for a given fuel -/
def ScanLoopAtX (rules : List RuleSpec) (fuel : Nat) : Prop :=
  ∀ (s : State) (ms : MSt) (r : RuleScanRequest),
    Rel rules s ms { scan := [r] } → ms.pend = none → s.halted = false →
    SimX rules s ms (scanLoop fuel r s) {} (fun _ => True)

theorem afterDemand_simX {rules : List RuleSpec} (hok : RulesOk rules) {fuel : Nat} (ih : ScanLoopAtX rules fuel)
    {s : State} {ms : MSt} {r : RuleScanRequest} {input : Key}
    (hr : Rel rules s ms { scan := [r] }) (hp : ms.pend = none) (hh : s.halted = false)
    (hin : r.inputRuleInfo = some input) (hdone : isDone ms.m input = true) :
    SimX rules s ms (afterDemand fuel r input s) {} (fun _ => True) := by
  unfold afterDemand
  by_cases hc : (!r.orderOnly && decide ((s.rule r.ruleInfo).result.builtAt < (s.rule input).result.computedAt)) = true
  · rw [if_pos hc]
    simp only [Bool.and_eq_true, Bool.not_eq_true', decide_eq_true_eq] at hc
    exact finishScan_needs_simX hok s ms r input hr hp hh hin hc.1 hdone hc.2
  · rw [if_neg hc]
    have hfresh : r.orderOnly = true ∨ ¬ (s.rule r.ruleInfo).result.builtAt < (s.rule input).result.computedAt := by
      simp only [Bool.and_eq_true, Bool.not_eq_true', decide_eq_true_eq, not_and] at hc
      cases hoo : r.orderOnly with
      | true => exact Or.inl rfl
      | false => exact Or.inr (hc hoo)
    by_cases hl : r.inputIndex + 1 = (s.rule r.ruleInfo).result.deps.length
    · have hb : (r.inputIndex + 1 != (s.rule r.ruleInfo).result.deps.length) = false := by simpa using hl
      rw [hb]
      simp only [Bool.false_eq_true, if_false]
      exact SimX.of_noX (finishScan_fresh_sim rules hok s ms r input hr hp hh hin hdone hfresh hl)
        (fun _ => noXB_finishScanRequest _ _ s)
    · have hb : (r.inputIndex + 1 != (s.rule r.ruleInfo).result.deps.length) = true := by simpa using hl
      rw [hb]
      simp only [if_true]
      exact ih s ms _ (scanAdvance_sim rules s ms r input hr hin hdone hfresh hl) hp hh

theorem afterScan_simX {rules : List RuleSpec} (hok : RulesOk rules) {fuel : Nat}
    (ih : ScanLoopAtX rules fuel) {s : State} {ms : MSt} {r : RuleScanRequest} {input : Key}
    (hr : Rel rules s ms { scan := [r] }) (hp : ms.pend = none) (hh : s.halted = false)
    (hin : r.inputRuleInfo = some input) :
    SimX rules s ms (afterScan fuel r input (scanRule input s)) {} (fun _ => True) := by
  intro hfin
  have hokr := hr.scanOk r (mem_scanReqs_hand s r)
  have hreg_in : Registered s input := (hokr.cached input hin).1
  have hinhand : InHand { scan := [r] } s input := Or.inl ⟨r, by simp, hin⟩
  have hsim1 := scanRule_simX hok s ms { scan := [r] } input hr hp hh hreg_in hinhand (fun _ => hr.hand_demandedX hin)
  generalize scanRule input s = p at hsim1 hfin
  obtain ⟨b, s2⟩ := p
  simp only at hsim1
  have hh2 : s2.halted = false := (haltMono_afterScan fuel r input b).of_result hfin
  obtain ⟨toks1, ms2, he1, hrun1, hr2, hp2, hreg2, htg2, _, hsc_t, hsc_f⟩ := hsim1 hh2
  refine SimX.prepend he1 hrun1 hreg2 htg2 ?_ hfin
  unfold afterScan
  simp only
  cases b with
  | false =>
    simp only [Bool.not_false, if_true]
    obtain ⟨ri, rec, hl, hs, hrec, heq⟩ := hr2.modScanRecord_eq r (hsc_f rfl)
    rw [heq]
    intro _
    exact ⟨[], ms2, Emits.refl _, rfl, hr2.deferAtRecord hin hl hs hrec, hp2, setRule_regMono s2 _, rfl, trivial⟩
  | true =>
    simp only [Bool.not_true, Bool.false_eq_true, if_false]
    have hsim2 : SimX rules s2 ms2 (demandRule input s2).2 { scan := [r] } _ :=
      SimX.of_noX (demandRule_sim rules hok s2 ms2 { scan := [r] } input rfl hr2 hp2 hh2 rfl (hreg2 _ hreg_in) (hsc_t rfl))
        (fun _ => noXB_demandRule input s2)
    intro hfin2
    generalize demandRule input s2 = q at hsim2 hfin2
    obtain ⟨c, s3⟩ := q
    simp only at hsim2 hfin2
    cases c with
    | false =>
      simp only [Bool.not_false, if_true] at hfin2 ⊢
      have hh3 : s3.halted = false := hfin2
      obtain ⟨toks2, ms3, he2, hrun2, hr3, hp3, hreg3, htg3, _, hd_f, _⟩ := hsim2 hh3
      obtain ⟨t, hlt⟩ := Option.isSome_iff_exists.1 (hd_f rfl)
      have e : s3.modTask input (fun t => { t with deferredScanRequests := t.deferredScanRequests ++ [r] }) =
          s3.setTask { t with deferredScanRequests := t.deferredScanRequests ++ [r] } := by
        unfold State.modTask; rw [task_of_lookup hlt]
      rw [e]
      exact ⟨toks2, ms3, he2, hrun2, hr3.deferAtTask hin hlt, hp3, hreg3, htg3, trivial⟩
    | true =>
      simp only [Bool.not_true, Bool.false_eq_true, if_false] at hfin2 ⊢
      have hh3 : s3.halted = false := (haltMono_afterDemand fuel r input).of_result hfin2
      obtain ⟨toks2, ms3, he2, hrun2, hr3, hp3, hreg3, htg3, hd_t, _, _⟩ := hsim2 hh3
      exact SimX.prepend he2 hrun2 hreg3 htg3 (afterDemand_simX hok ih hr3 hp3 hh3 hin (hd_t rfl)) hfin2

theorem scanLoop_atX {rules : List RuleSpec} (hok : RulesOk rules) : ∀ fuel, ScanLoopAtX rules fuel
  | 0 => by
    intro s ms r _ _ _ hfin
    rw [scanLoop, halt_halted] at hfin
    cases hfin
  | fuel + 1 => by
    intro s ms r hr hp hh
    have ih := scanLoop_atX hok fuel
    rw [scanLoop_succ]
    have hokr := hr.scanOk r (mem_scanReqs_hand s r)
    cases hin : r.inputRuleInfo with
    | some i =>
      simp only
      exact afterScan_simX hok ih hr hp hh hin
    | none =>
      simp only
      obtain ⟨d, hd⟩ : ∃ d, (s.rule r.ruleInfo).result.deps[r.inputIndex]? = some d :=
        ⟨_, List.getElem?_eq_getElem hokr.inBounds⟩
      rw [hd]
      simp only
      obtain ⟨toks, ms1, he, hrun, hrel, hp1, hreg, hh1, htg, hmono⟩ := hr.getRule' hh d.key
      have hrule := getRuleInfoForKey_rule_of_registered d.key s hr.hasDB hokr.reg
      have hlook := scanLookup_sim rules _ ms1 r d hrel hin (by rw [hrule]; exact hd) hreg
      exact SimX.prepend he ((noXB_getRuleInfoForKey d.key s).trunX he hrun) hmono htg
        (afterScan_simX hok ih hlook (hp1.trans hp) hh1 rfl)

/-- **`scanLoop` passes the in-order guards** -/
theorem scanLoop_simX {rules : List RuleSpec} (hok : RulesOk rules) (fuel : Nat) (s : State) (ms : MSt)
    (r : RuleScanRequest) (hr : Rel rules s ms { scan := [r] }) (hp : ms.pend = none) (hh : s.halted = false) :
    SimX rules s ms (scanLoop fuel r s) {} (fun _ => True) :=
  scanLoop_atX hok fuel s ms r hr hp hh

/-! ## 2. `scanRequestsLoopA` -/

/-- one item boundary records no X-token -/
theorem asyncPoint_simX {rules : List RuleSpec} (hok : RulesOk rules) (a : Async) {s : State} {ms : MSt}
    (hr : Rel rules s ms {}) (hp : ms.pend = none) (hh : s.halted = false) :
    (asyncPoint a s).2.halted = false ∧ SimX rules s ms (asyncPoint a s).2 {} (fun _ => True) := by
  obtain ⟨h1, h2⟩ := AsyncScan.asyncPoint_sim asyncStepSim hok a hr hp hh
  exact ⟨h1, SimX.of_noX h2 (fun _ => noXB_asyncPoint a s)⟩

theorem scanRequestsLoopA_simX {rules : List RuleSpec} (hok : RulesOk rules) :
    ∀ (fuel : Nat) (w : Bool) (a : Async) (s : State) (ms : MSt),
      Rel rules s ms {} → ms.pend = none → s.halted = false →
      SimX rules s ms (scanRequestsLoopA fuel w a s).2.2 {}
        (fun _ => (scanRequestsLoopA fuel w a s).2.2.ruleInfosToScan = []) := by
  intro fuel
  induction fuel with
  | zero =>
    intro w a s ms _ _ _ hfin
    rw [scanRequestsLoopA] at hfin
    simp only [halt_halted] at hfin
    cases hfin
  | succ fuel ih =>
    intro w a s ms hr hp hh
    rw [AsyncScan.scanRequestsLoopA_succ]
    obtain ⟨hh1, hsim1⟩ := asyncPoint_simX hok a hr hp hh
    obtain ⟨toks0, ms1, he0, hrun0, hr1, hp1, hreg0, htg0, _⟩ := hsim1 hh1
    generalize asyncPoint a s = p at hh1 he0 hr1 hreg0 ⊢
    obtain ⟨a1, s1⟩ := p
    simp only at hh1 he0 hr1 hreg0 ⊢
    cases hq : s1.ruleInfosToScan.getLast? with
    | none =>
      simp only
      intro _
      exact ⟨toks0, ms1, he0, hrun0, hr1, hp1, hreg0, htg0, List.getLast?_eq_none_iff.1 hq⟩
    | some request =>
      simp only
      rw [AsyncScan.process_eq hr1 hq]
      have hpop : Rel rules (AsyncScan.popQ s1) ms1 { scan := [request] } := hr1.popScan hq
      have hsim := scanLoop_simX hok scanFuel _ ms1 request hpop hp1 hh1
      intro hfin
      have hh2 := (AsyncScan.haltMono_scanRequestsLoopA fuel true a1).of_result hfin
      obtain ⟨toks1, ms2, he1, hrun1, hr2, hp2, hreg1, htg1, _⟩ := hsim hh2
      refine SimX.prepend he0 hrun0 hreg0 htg0 ?_ hfin
      exact SimX.prepend (s := s1) he1 hrun1 hreg1 htg1 (ih true a1 _ ms2 hr2 hp2 hh2)

/-! ## 3. `processInputRequest`, `inputRequestsLoopA` -/

/-- tokens of `processInputRequest r`: nothing, or `S r.inputRuleInfo 0` first and no X-token behind it -/
theorem processInputRequest_headS (r : TaskInputRequest) (s : State) :
    HeadS r.inputRuleInfo s (processInputRequest r s) := by
  rw [processInputRequest_eq]
  have h1 := scanRule_headS r.inputRuleInfo s
  split
  · exact h1.trans_noX (noXB_modScanRecord _ _ _)
  · exact h1.trans_noX ((noXB_demandRule _ _).trans (NoXB.of_trace (inputTail_trace _ _ _)))

/-- **`processInputRequest` passes the in-order guard** -/
theorem processInputRequest_simX {rules : List RuleSpec} (hok : RulesOk rules) (s : State) (ms : MSt)
    (r : TaskInputRequest) (hr : Rel rules s ms { inp := [r] }) (hp : ms.pend = none) (hh : s.halted = false)
    (hfq : FreshScanQ s) (hpf : PendFresh ms.m) :
    SimX rules s ms (processInputRequest r s) {}
      (fun ms' => FreshScanQ (processInputRequest r s) ∧ PendFresh ms'.m) :=
  SimX.of_headS (processInputRequest_sim demandRule_sim rules hok s ms r hr hp hh hfq hpf)
    (fun _ => processInputRequest_headS r s) (demandedX_of_hand hr hp)

theorem inputRequestsLoopA_simX {rules : List RuleSpec} (hok : RulesOk rules) :
    ∀ (fuel : Nat) (w : Bool) (a : Async) (s : State) (ms : MSt),
      Rel rules s ms {} → ms.pend = none → s.halted = false → FreshScanQ s →
      PendFresh ms.m →
      SimX rules s ms (inputRequestsLoopA fuel w a s).2.2 {} (fun ms' =>
        ((inputRequestsLoopA fuel w a s).2.2.inputRequests = [] ∧ NoMid (inputRequestsLoopA fuel w a s).2.2 ∧
          FreshScanQ (inputRequestsLoopA fuel w a s).2.2) ∧ PendFresh ms'.m) := by
  intro fuel
  induction fuel with
  | zero =>
    intro w a s ms _ _ _ _ _ hfin
    rw [inputRequestsLoopA] at hfin
    simp only at hfin
    rw [halt_halted] at hfin; cases hfin
  | succ fuel ih =>
    intro w a s ms hr hp hh hfq hpf
    rw [inputRequestsLoopA]
    obtain ⟨hh0, _, hfq0, toks0, ms0, he0, hrun0, hrel0, hp0, hreg0, htgt0⟩ :=
      AsyncInput.asyncPoint_sim asyncStepSim asyncStepFrame hok a hr hp hh
    have hrunX0 := (noXB_asyncPoint a s).trunX he0 hrun0
    have hfq0 := hfq0 hfq
    have hpf0 := trun_pendFresh toks0 hrun0 hpf
    generalize asyncPoint a s = p at hh0 hfq0 he0 hrel0 hreg0 ⊢
    obtain ⟨a0, s0⟩ := p
    dsimp only at hh0 hfq0 he0 hrel0 hreg0 ⊢
    cases hq : s0.inputRequests with
    | nil =>
      dsimp only
      intro _
      exact ⟨toks0, ms0, he0, hrunX0, hrel0, hp0, hreg0, htgt0, ⟨hq, noMid_of_drained hrel0 hq hfq0, hfq0⟩, hpf0⟩
    | cons r rest =>
      dsimp only
      have hr1 := hrel0.popInput hp0 hq
      have hpi := processInputRequest_simX hok { s0 with inputRequests := rest } ms0 r hr1 hp0 hh0 hfq0 hpf0
      generalize processInputRequest r { s0 with inputRequests := rest } = s1 at hpi ⊢
      intro hfin
      have hh1 : s1.halted = false := (inputRequestsLoopA_haltMono fuel true a0).of_result hfin
      obtain ⟨toks1, ms1, he1, hrun1, hrel1, hp1, hreg1, htgt1, hfq1, hpf1⟩ := hpi hh1
      obtain ⟨toks2, ms2, he2, hrun2, hrel2, hp2, hreg2, htgt2, hpost, hpf2⟩ :=
        ih true a0 s1 ms1 hrel1 hp1 hh1 hfq1 hpf1 hfin
      have he1' : Emits s0 toks1 s1 := he1
      exact ⟨toks0 ++ (toks1 ++ toks2), ms2, he0.trans (he1'.trans he2),
        trunX_append_some hrunX0 (trunX_append_some hrun1 hrun2), hrel2, hp2,
        fun k hk => hreg2 k (hreg1 k (hreg0 k hk)), htgt2.trans (htgt1.trans htgt0), hpost, hpf2⟩

end LLBuild.Refine
