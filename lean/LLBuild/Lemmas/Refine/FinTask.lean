/-
IM2 — refinement: finished tasks (`finishedTasksLoop`), section E of `Todo.lean`.
* preliminaries: `setRule` at a registered key commutes with `getRuleInfoForKey` / `pushDiscovered`
  (so that the discovered dependencies can be appended to `result.deps` AFTER the dummies were pushed: between the
  append and `DS` the clause `TaskOk.depsPerm` of the finishing task does not hold);
* (i) `Rel.setCompleteS2`: the rule is set `Complete` and `S a 2` is buffered (`pend = some a`);
* (ii) `Rel.pushDiscovered`: the dummies of the discovered dependencies under `pend = some a`;
* (iii) `finished_guard`: the monitor's guard of `finished a row`;
* (iv) `Rel.finishedWake`: the relation after `DS a row`, the wake-up of the waiters and the deletion of the task;
* `finishedTaskStep_sim : Todo_finishedTaskStep`, `finishedTasksLoop_sim : Todo_finishedTasksLoop`.
-/
import LLBuild.Lemmas.Refine.Scan
import LLBuild.Lemmas.Refine.Halt

namespace LLBuild.Refine
open LLBuild.Engine LLBuild.Engine.DSL LLBuild.EngineImpl

/-! ## preliminaries -/

theorem alSet_comm {α : Type} : ∀ (l : List (Key × α)) (a k : Key) (x y : α), a ≠ k → (l.lookup a).isSome = true →
    alSet (alSet l a x) k y = alSet (alSet l k y) a x
  | [], a, k, x, y, _, h => by simp at h
  | (k0, z) :: rest, a, k, x, y, hne, h => by
    by_cases h0 : k0 = a
    · subst h0
      have e1 : (k0 == k) = false := by simpa using hne
      simp [alSet, e1]
    · have e0 : (k0 == a) = false := by simpa using h0
      rw [lookup_cons_ite] at h
      have h' : (rest.lookup a).isSome = true := by
        have : ¬ a = k0 := fun e => h0 e.symm
        simpa [this] using h
      by_cases h1 : k0 = k
      · subst h1
        simp [alSet, e0]
      · have e1 : (k0 == k) = false := by simpa using h1
        simp [alSet, e0, e1, alSet_comm rest a k x y hne h']

theorem setRule_comm (s : State) (ra rb : RuleInfo) (hne : ra.key ≠ rb.key) (hreg : Registered s ra.key) :
    (s.setRule ra).setRule rb = (s.setRule rb).setRule ra := by
  unfold State.setRule
  simp only
  rw [alSet_comm _ _ _ _ _ hne hreg]

theorem setRule_registered {s : State} (ri : RuleInfo) {k : Key} (h : Registered s k) : Registered (s.setRule ri) k := by
  unfold Registered at *
  rw [setRule_lookup]
  by_cases e : k = ri.key <;> simp [e, h]

/-- `setRule` at a registered key commutes with a lookup -/
theorem getRuleInfoForKey_setRule (k : Key) (s : State) (ri : RuleInfo) (hdb : s.hasDB = true)
    (hreg : Registered s ri.key) :
    getRuleInfoForKey k (s.setRule ri) = (getRuleInfoForKey k s).setRule ri := by
  by_cases hk : k = ri.key
  · subst hk
    rw [getRuleInfoForKey_old _ s hreg, getRuleInfoForKey_old _ _ (by simp)]
  · cases hl : s.ruleInfos.lookup k with
    | some r0 =>
      rw [getRuleInfoForKey_old k s (by rw [hl]; rfl), getRuleInfoForKey_old k _ (by simp [hk, hl])]
    | none =>
      have hl' : (s.setRule ri).ruleInfos.lookup k = none := by simp [hk, hl]
      rw [getRuleInfoForKey_fresh k s hdb hl, getRuleInfoForKey_fresh k (s.setRule ri) hdb hl']
      have e : freshRule (s.setRule ri) k = freshRule s k := rfl
      rw [e, ← emit_setRule, ← emit_setRule]
      rw [setRule_comm s ri (freshRule s k) (fun e => hk e.symm) hreg]
      rfl

/-- the dummy input request of a discovered dependency -/
def dummyOf (d : Dep) : TaskInputRequest :=
  { taskInfo := none, inputID := 0, inputRuleInfo := d.key, orderOnly := d.orderOnly, forcePriorValue := false,
    singleUse := d.singleUse }

theorem pushDiscovered_cons (d : Dep) (ds : List Dep) (s : State) :
    pushDiscovered (d :: ds) s = pushDiscovered ds (pushInput (dummyOf d) (getRuleInfoForKey d.key s)) := rfl

theorem pushInput_setRule (r : TaskInputRequest) (s : State) (ri : RuleInfo) :
    pushInput r (s.setRule ri) = (pushInput r s).setRule ri := rfl

theorem getRuleInfoForKey_keep (k : Key) (s : State) (hdb : s.hasDB = true) {k' : Key} {ri : RuleInfo}
    (h : s.ruleInfos.lookup k' = some ri) : (getRuleInfoForKey k s).ruleInfos.lookup k' = some ri := by
  rw [getRuleInfoForKey_lookup k s hdb]
  by_cases e : k' = k
  · subst e; simp [h]
  · simp [e, h]

theorem getRuleInfoForKey_new (k : Key) (s : State) (hdb : s.hasDB = true) {k' : Key} {ri : RuleInfo}
    (h : (getRuleInfoForKey k s).ruleInfos.lookup k' = some ri) :
    s.ruleInfos.lookup k' = some ri ∨ ri.state = .incomplete := by
  rw [getRuleInfoForKey_lookup k s hdb] at h
  split at h
  · right; simp at h; subst h; rfl
  · exact Or.inl h

theorem pushDiscovered_setRule : ∀ (ds : List Dep) (s : State) (ri : RuleInfo), s.hasDB = true → Registered s ri.key →
    pushDiscovered ds (s.setRule ri) = (pushDiscovered ds s).setRule ri
  | [], _, _, _, _ => rfl
  | d :: ds, s, ri, hdb, hreg => by
    rw [pushDiscovered_cons, pushDiscovered_cons, getRuleInfoForKey_setRule _ _ _ hdb hreg, pushInput_setRule]
    refine pushDiscovered_setRule ds _ ri ?_ ?_
    · show (getRuleInfoForKey d.key s).hasDB = true
      rw [(getRuleInfoForKey_same d.key s).hasDB]; exact hdb
    · obtain ⟨r0, h0⟩ := Option.isSome_iff_exists.1 hreg
      show ((getRuleInfoForKey d.key s).ruleInfos.lookup ri.key).isSome = true
      rw [getRuleInfoForKey_keep d.key s hdb h0]; rfl

/-! ### tokens that keep the monitor's target -/

/-- registrations proper -/
def Tok.isLGX : Tok → Bool
  | .L _ => true
  | .G _ _ => true
  | .X => true
  | _ => false

theorem tstep_LGX_target {P : Program} {ms ms' : MSt} {t : Tok} (ht : Tok.isLGX t = true)
    (h : tstep P ms t = some ms') : ms'.m.target = ms.m.target := by
  obtain ⟨m, pend⟩ := ms
  cases t <;> simp only [Tok.isLGX, Bool.false_eq_true] at ht
  case L k =>
    cases pend <;> simp [tstep, Tok.isS2, Tok.toEvent?, Tok.isReg, step] at h <;> (obtain ⟨_, rfl⟩ := h; rfl)
  case G k f =>
    cases pend <;> simp [tstep, Tok.isS2, Tok.toEvent?, Tok.isReg, step] at h <;> (obtain ⟨_, rfl⟩ := h; rfl)
  case X =>
    cases pend <;> simp [tstep, Tok.isS2, Tok.toEvent?, Tok.isReg, step] at h <;> (subst h; rfl)

theorem trun_LGX_target {P : Program} : ∀ (toks : List Tok) (ms ms' : MSt), (∀ t ∈ toks, Tok.isLGX t = true) →
    trun P ms toks = some ms' → ms'.m.target = ms.m.target
  | [], ms, ms', _, h => by simp [trun] at h; subst h; rfl
  | t :: rest, ms, ms', hs, h => by
    simp only [trun] at h
    cases hts : tstep P ms t with
    | none => rw [hts] at h; simp at h
    | some ms1 =>
      rw [hts] at h; simp only [Option.bind_some] at h
      rw [trun_LGX_target rest ms1 ms' (fun t ht => hs t (by simp [ht])) h]
      exact tstep_LGX_target (hs t (by simp)) hts

theorem emits_inj {s s' : State} {a b : List Tok} (h1 : Emits s a s') (h2 : Emits s b s') : a = b := by
  unfold Emits at h1 h2
  rw [h1] at h2
  exact List.reverse_inj.1 (List.append_cancel_right h2)

/-! ### what `pushDiscovered` does to the engine -/

structure PushFrame (s s' : State) : Prop where
  taskInfos : s'.taskInfos = s.taskInfos
  hasDB : s'.hasDB = s.hasDB
  halted : s'.halted = s.halted
  store : s'.store = s.store
  ready : s'.readyTaskInfos = s.readyTaskInfos
  currentEpoch : s'.currentEpoch = s.currentEpoch
  keep : ∀ k ri, s.ruleInfos.lookup k = some ri → s'.ruleInfos.lookup k = some ri
  new : ∀ k ri, s'.ruleInfos.lookup k = some ri → s.ruleInfos.lookup k = some ri ∨ ri.state = .incomplete
  inputs : ∀ r ∈ s.inputRequests, r ∈ s'.inputRequests
  toks : ∃ toks, Emits s toks s' ∧ ∀ t ∈ toks, Tok.isLGX t = true

theorem PushFrame.rfl' (s : State) : PushFrame s s :=
  { taskInfos := rfl, hasDB := rfl, halted := rfl, store := rfl, ready := rfl, currentEpoch := rfl,
    keep := fun _ _ h => h, new := fun _ _ h => Or.inl h,
    inputs := fun _ h => h, toks := ⟨[], Emits.refl s, fun _ h => by cases h⟩ }

theorem PushFrame.trans {s1 s2 s3 : State} (a : PushFrame s1 s2) (b : PushFrame s2 s3) : PushFrame s1 s3 :=
  { taskInfos := b.taskInfos.trans a.taskInfos, hasDB := b.hasDB.trans a.hasDB, halted := b.halted.trans a.halted,
    store := b.store.trans a.store, ready := b.ready.trans a.ready, currentEpoch := b.currentEpoch.trans a.currentEpoch,
    keep := fun k ri h => b.keep k ri (a.keep k ri h),
    new := fun k ri h => by
      rcases b.new k ri h with h1 | h1
      · exact a.new k ri h1
      · exact Or.inr h1,
    inputs := fun r h => b.inputs r (a.inputs r h),
    toks := by
      obtain ⟨t1, e1, p1⟩ := a.toks
      obtain ⟨t2, e2, p2⟩ := b.toks
      refine ⟨t1 ++ t2, e1.trans e2, fun t ht => ?_⟩
      rcases List.mem_append.1 ht with h | h
      · exact p1 t h
      · exact p2 t h }

theorem getRuleInfoForKey_frame (k : Key) (s : State) (hdb : s.hasDB = true) (hh : s.halted = false) :
    PushFrame s (getRuleInfoForKey k s) := by
  have hs := getRuleInfoForKey_same k s
  refine { taskInfos := hs.taskInfos, hasDB := hs.hasDB, halted := hs.halted,
           store := hs.store, ready := hs.readyTaskInfos, currentEpoch := hs.currentEpoch,
           keep := fun k' ri h => getRuleInfoForKey_keep k s hdb h,
           new := fun k' ri h => getRuleInfoForKey_new k s hdb h,
           inputs := fun r h => by rw [hs.inputRequests]; exact h, toks := ?_ }
  rcases getRuleInfoForKey_emits k s hdb hh with ⟨_, e⟩ | ⟨_, x1, x2, h1, h2, e⟩
  · rw [e]; exact ⟨[], Emits.refl s, fun _ h => by cases h⟩
  · refine ⟨_, e, fun t ht => ?_⟩
    simp only [List.mem_append, List.mem_singleton] at ht
    rcases ht with ((ht | ht) | ht) | ht
    · subst ht; rfl
    · rcases h1 with h1 | h1 <;> subst h1 <;> simp at ht; subst ht; rfl
    · subst ht; rfl
    · rcases h2 with h2 | h2 <;> subst h2 <;> simp at ht; subst ht; rfl

theorem pushInput_frame (r : TaskInputRequest) (s : State) : PushFrame s (pushInput r s) :=
  { taskInfos := rfl, hasDB := rfl, halted := rfl, store := rfl, ready := rfl, currentEpoch := rfl,
    keep := fun _ _ h => h, new := fun _ _ h => Or.inl h,
    inputs := fun x h => by simp only [pushInput]; exact List.mem_append_left _ h,
    toks := ⟨[], by simp [Emits, pushInput], fun _ h => by cases h⟩ }

theorem pushDiscovered_frame : ∀ (ds : List Dep) (s : State), s.hasDB = true → s.halted = false →
    PushFrame s (pushDiscovered ds s) ∧ ∀ d ∈ ds, dummyOf d ∈ (pushDiscovered ds s).inputRequests
  | [], s, _, _ => ⟨PushFrame.rfl' s, fun _ h => by cases h⟩
  | d :: ds, s, hdb, hh => by
    rw [pushDiscovered_cons]
    have f1 := getRuleInfoForKey_frame d.key s hdb hh
    have f2 := pushInput_frame (dummyOf d) (getRuleInfoForKey d.key s)
    have f12 := f1.trans f2
    obtain ⟨f3, h3⟩ := pushDiscovered_frame ds (pushInput (dummyOf d) (getRuleInfoForKey d.key s))
      (by rw [f12.hasDB]; exact hdb) (by rw [f12.halted]; exact hh)
    refine ⟨f12.trans f3, fun x hx => ?_⟩
    rcases List.mem_cons.1 hx with e | e
    · subst e
      exact f3.inputs _ (by simp [pushInput])
    · exact h3 x e

/-! ## (i) the rule is set `Complete`, `S a 2` is buffered -/

/-- the engine after the finished task `a` was popped and its rule set `Complete` (before `S a 2` is recorded) -/
def finS1 (s : State) (ri1 : RuleInfo) : State :=
  ({ s with finishedTaskInfos := s.finishedTaskInfos.dropLast } : State).setRule ri1

/-- `setComplete` after the task pointer was dropped -/
def finRule1 (s : State) (ri0 : RuleInfo) : RuleInfo := setComplete s { ri0 with inProgressInfo := .null }

section finS1
variable {s : State} {ri1 : RuleInfo}

theorem finS1_lookup (k : Key) :
    (finS1 s ri1).ruleInfos.lookup k = if k = ri1.key then some ri1 else s.ruleInfos.lookup k := by
  unfold finS1; rw [setRule_lookup]

theorem finS1_rule (k : Key) : (finS1 s ri1).rule k = if k = ri1.key then ri1 else s.rule k := by
  unfold finS1; rw [setRule_rule]; rfl

theorem finS1_liveRecords {ri0 : RuleInfo} (hl : s.ruleInfos.lookup ri1.key = some ri0)
    (ho : ri0.isScanning = false) (hn : ri1.isScanning = false) : liveRecords (finS1 s ri1) = liveRecords s :=
  setRule_liveRecords_nn (s := { s with finishedTaskInfos := s.finishedTaskInfos.dropLast }) hl rfl ho hn

theorem finS1_unprocessed {ri0 : RuleInfo} (hl : s.ruleInfos.lookup ri1.key = some ri0)
    (ho : ri0.isScanning = false) (hn : ri1.isScanning = false) (h : Hand) :
    unprocessed (finS1 s ri1) h = unprocessed s h := by
  unfold unprocessed pausedAll; rw [finS1_liveRecords hl ho hn]; rfl

theorem finS1_processed (h : Hand) : processed (finS1 s ri1) h = processed s h := rfl

theorem finS1_outstanding {ri0 : RuleInfo} (hl : s.ruleInfos.lookup ri1.key = some ri0)
    (ho : ri0.isScanning = false) (hn : ri1.isScanning = false) (h : Hand) :
    outstanding (finS1 s ri1) h = outstanding s h := by
  unfold outstanding; rw [finS1_unprocessed hl ho hn, finS1_processed]

theorem finS1_scanReqs {ri0 : RuleInfo} (hl : s.ruleInfos.lookup ri1.key = some ri0)
    (ho : ri0.isScanning = false) (hn : ri1.isScanning = false) (h : Hand) :
    scanReqs (finS1 s ri1) h = scanReqs s h := by
  unfold scanReqs deferredAll; rw [finS1_liveRecords hl ho hn]; rfl

end finS1

theorem getLast?_split {α : Type} {l : List α} {a : α} (h : l.getLast? = some a) : l = l.dropLast ++ [a] := by
  obtain ⟨ys, e⟩ := List.getLast?_eq_some_iff.1 h
  rw [e, List.dropLast_concat]

/-- **(i)** `Rel` with nothing buffered and `a` the last finished task ⇒ once its rule is `Complete`
(`builtAt := currentEpoch`, task pointer dropped) and `S a 2` is buffered, `Rel` with `pend = some a` -/
theorem Rel.setCompleteS2 {rules : List RuleSpec} {s : State} {m : Engine.St} {a : Key} {t : TaskInfo} {ri0 : RuleInfo}
    (hr : Rel rules s ⟨m, none⟩ {}) (hlast : s.finishedTaskInfos.getLast? = some a)
    (ht : s.taskInfos.lookup a = some t) (hl : s.ruleInfos.lookup a = some ri0) :
    Rel rules (finS1 s (finRule1 s ri0)) ⟨m, some a⟩ {} := by
  have hk : ri0.key = a := hr.keyOk a ri0 hl
  have hk1 : (finRule1 s ri0).key = a := hk
  have hmem : a ∈ s.finishedTaskInfos := List.mem_of_getLast? hlast
  have hsplit := getLast?_split hlast
  obtain ⟨t', ht', hst0', hdone⟩ := hr.finTaskOk a hmem
  rw [ht] at ht'; cases ht'
  have hst0 : ri0.state = .inProgressComputing := by rw [← rule_of_lookup hl]; exact hst0'
  have ho : ri0.isScanning = false := by simp [RuleInfo.isScanning, hst0]
  have hn : (finRule1 s ri0).isScanning = false := by simp [RuleInfo.isScanning, finRule1, setComplete]
  have hl1 : s.ruleInfos.lookup (finRule1 s ri0).key = some ri0 := by rw [hk1]; exact hl
  have hlk : ∀ k, (finS1 s (finRule1 s ri0)).ruleInfos.lookup k = if k = a then some (finRule1 s ri0) else s.ruleInfos.lookup k := by
    intro k; rw [finS1_lookup, hk1]
  have hrule : ∀ k, (finS1 s (finRule1 s ri0)).rule k = if k = a then finRule1 s ri0 else s.rule k := by
    intro k; rw [finS1_rule, hk1]
  have hrule_ne : ∀ k, k ≠ a → (finS1 s (finRule1 s ri0)).rule k = s.rule k := by
    intro k hne; rw [hrule]; simp [hne]
  have hout := finS1_outstanding (s := s) hl1 ho hn {}
  have hunp := finS1_unprocessed (s := s) hl1 ho hn {}
  have hsr := finS1_scanReqs (s := s) hl1 ho hn {}
  have hlr := finS1_liveRecords (s := s) hl1 ho hn
  have hstatusOf : ∀ k, statusOf (finS1 s (finRule1 s ri0)) (some a) k = statusOf s none k := by
    intro k
    unfold statusOf
    rw [hlk]
    by_cases e : k = a
    · subst e
      simp [hl, hst0, finRule1, setComplete]
      rfl
    · simp only [e, if_false]
      have e' : ¬ (some a = some k) := by intro x; cases x; exact e rfl
      cases s.ruleInfos.lookup k with
      | none => rfl
      | some ri => simp only [e']; cases ri.state <;> simp <;> rfl
  have hreg : ∀ k, Registered s k → Registered (finS1 s (finRule1 s ri0)) k := by
    intro k h1; unfold Registered at *; rw [hlk]; by_cases e : k = a <;> simp [e, h1]
  have hold : ∀ k ri, (finS1 s (finRule1 s ri0)).ruleInfos.lookup k = some ri → k ≠ a → s.ruleInfos.lookup k = some ri := by
    intro k ri h1 h2; rw [hlk] at h1; simpa [h2] using h1
  have hself : ∀ ri, (finS1 s (finRule1 s ri0)).ruleInfos.lookup a = some ri → ri = finRule1 s ri0 := by
    intro ri h1; rw [hlk] at h1; simp at h1; exact h1.symm
  have hst1 : (finRule1 s ri0).state = .complete := rfl
  have htask_state : ∀ b tb, s.taskInfos.lookup b = some tb → (s.rule b).state = .inProgressWaiting → b ≠ a := by
    intro b tb _ hw e; subst e; rw [rule_of_lookup hl, hst0] at hw; cases hw
  have hb := hr.taskOk a t ht
  have hnodup : s.finishedTaskInfos.dropLast.Nodup ∧ a ∉ s.finishedTaskInfos.dropLast := by
    have := hr.finTaskNodup
    rw [hsplit, List.nodup_append] at this
    exact ⟨this.1, fun hm => this.2.2 a hm a (by simp) rfl⟩
  refine
    { rules_eq := hr.rules_eq, env := hr.env, hasDB := hr.hasDB, noResolve := hr.noResolve, noFail := hr.noFail,
      epoch := hr.epoch, reg := ?reg, keyOk := ?keyOk, rulesNodup := ?rulesNodup, sig := ?sig, res := ?res,
      resUnreg := ?resUnreg, db := hr.db, dbBuilt := hr.dbBuilt, dbBuiltLe := hr.dbBuiltLe, dbIter := hr.dbIter,
      builtLe := ?builtLe,
      active := hr.active, started := hr.started, notReturned := hr.notReturned, epochPos := hr.epochPos,
      cancelled := hr.cancelled, errCancelled := hr.errCancelled, noCycle := hr.noCycle, targetReg := hr.targetReg,
      status := ?status, pendOk := ?pendOk,
      validIdle := hr.validIdle, scanningOk := ?scanningOk, dntrFresh := ?dntrFresh, inScanned := hr.inScanned,
      inRan := hr.inRan, ranOk := hr.ranOk, scanOne := ?scanOne, scanOk := ?scanOk,
      deferredAtRecord := ?deferredAtRecord, deferredAtTask := hr.deferredAtTask, recordLive := ?recordLive,
      scanCount := ?scanCount, recordWaited := ?recordWaited, midScan := ?midScan, taskKeys := ?taskKeys,
      taskNodup := hr.taskNodup,
      taskOk := ?taskOk, reqReg := ?reqReg, reqTask := ?reqTask, dummyOk := ?dummyOk, dummyUnproc := hr.dummyUnproc,
      pausedAt := ?pausedAt, requestedAt := hr.requestedAt, finDone := hr.finDone, pendingOk := ?pendingOk,
      readyOk := ?readyOk, readyNodup := hr.readyNodup, finTaskOk := ?finTaskOk, finTaskNodup := hnodup.1,
      deferredOk := ?deferredOk, deferredNodup := hr.deferredNodup, computingWhere := ?computingWhere,
      outstandingCount := ?outstandingCount }
  case reg =>
    intro k; rw [hlk, hr.reg k]
    by_cases e : k = a
    · subst e; simp [hl]
    · simp [e]
  case keyOk =>
    intro k ri h1
    by_cases e : k = a
    · subst e; rw [hself ri h1]; exact hk1
    · exact hr.keyOk k ri (hold k ri h1 e)
  case rulesNodup => exact setRule_rulesNodup _ hr.rulesNodup
  case sig =>
    intro k ri h1
    by_cases e : k = a
    · subst e; rw [hself ri h1]; exact hr.sig k ri0 hl
    · exact hr.sig k ri (hold k ri h1 e)
  case res =>
    intro k ri h1
    by_cases e : k = a
    · subst e; rw [hself ri h1]
      obtain ⟨a1, a2, a3, _, _⟩ := hr.res k ri0 hl
      refine ⟨a1, a2, a3, ?_, ?_⟩ <;> (intro x; simp at x)
    · have := hr.res k ri (hold k ri h1 e)
      have e' : ((some a : Option Key) == some k) = false := by simpa using (fun x : a = k => e x.symm)
      simpa [e'] using this
  case resUnreg =>
    intro k h1; rw [hlk] at h1
    by_cases e : k = a
    · subst e; simp at h1
    · simp only [e, if_false] at h1; exact hr.resUnreg k h1
  case builtLe =>
    intro k ri h1
    by_cases e : k = a
    · subst e; rw [hself ri h1]; exact Nat.le_refl _
    · exact hr.builtLe k ri (hold k ri h1 e)
  case status => intro k; rw [hstatusOf]; exact hr.status k
  case pendOk =>
    intro k hp
    cases hp
    exact ⟨finRule1 s ri0, by rw [hlk]; simp, rfl, rfl, by rw [hb.completed]; exact hdone⟩
  case scanningOk =>
    intro k ri h1 h2
    by_cases e : k = a
    · subst e; rw [hself ri h1, hst1] at h2; rcases h2 with h2 | h2 <;> cases h2
    · exact hr.scanningOk k ri (hold k ri h1 e) h2
  case dntrFresh =>
    intro k ri h1 h2
    by_cases e : k = a
    · subst e; rw [hself ri h1, hst1] at h2; cases h2
    · exact hr.dntrFresh k ri (hold k ri h1 e) h2
  case scanOne =>
    intro k ri h1 h2
    rw [hsr]
    by_cases e : k = a
    · subst e; rw [hself ri h1, hst1] at h2; cases h2
    · exact hr.scanOne k ri (hold k ri h1 e) h2
  case scanOk =>
    intro r hm; rw [hsr] at hm
    have h0 := hr.scanOk r hm
    have hne : r.ruleInfo ≠ a := by
      intro e; have := h0.scanning; rw [e, rule_of_lookup hl, hst0] at this; cases this
    exact h0.frame hreg (hrule_ne _ hne) rfl (fun _ h => h)
  case deferredAtRecord => rw [hlr]; exact hr.deferredAtRecord
  case recordLive =>
    intro k ri h1 h2
    by_cases e : k = a
    · subst e; rw [hself ri h1, hst1] at h2; cases h2
    · exact hr.recordLive k ri (hold k ri h1 e) h2
  case scanCount =>
    show s.numRulesBeingScanned = _
    rw [hr.scanCount]
    exact (setRule_scanCount_nn (s := { s with finishedTaskInfos := s.finishedTaskInfos.dropLast }) hl1 rfl ho hn).symm
  case recordWaited => rw [hlr]; exact hr.recordWaited
  case midScan =>
    intro k ri h1 h2
    by_cases e : k = a
    · subst e; rw [hself ri h1, hst1] at h2; rcases h2 with h2 | h2 <;> cases h2
    · exact hr.midScan k ri (hold k ri h1 e) h2
  case taskKeys => intro k; rw [hstatusOf]; exact hr.taskKeys k
  case taskOk =>
    intro b tb h1
    replace h1 : s.taskInfos.lookup b = some tb := h1
    by_cases e : b = a
    · subst e
      rw [ht] at h1; cases h1
      have hra : (finS1 s (finRule1 s ri0)).rule b = finRule1 s ri0 := by rw [hrule]; simp
      refine { forRule := hb.forRule, started := hb.started, issued := hb.issued, issuedSeq := hb.issuedSeq,
               recv := hb.recv, deliveredIssued := hb.deliveredIssued, completed := hb.completed,
               waitCount := by rw [hout]; exact hb.waitCount, outIssued := by rw [hout]; exact hb.outIssued,
               issuedOut := by rw [hout]; exact hb.issuedOut, outNodup := by rw [hout]; exact hb.outNodup,
               depsPerm := ?_, waiting := ?_, computing := ?_ }
      · rw [hunp, hra]
        have := hb.depsPerm
        rw [rule_of_lookup hl] at this
        exact this
      · rw [hra, hst1]; intro x; cases x
      · rw [hra, hout]; intro _
        exact hb.computing (by rw [rule_of_lookup hl, hst0]; intro x; cases x)
    · exact (hr.taskOk b tb h1).frame (hrule_ne b e) rfl (by rw [hout]) (by rw [hunp]) rfl rfl rfl (fun _ h => h) rfl
  case reqReg =>
    intro r hm; rw [hout] at hm
    exact ⟨hreg _ (hr.reqReg r hm).1, (hr.reqReg r hm).2⟩
  case reqTask =>
    intro r hm b hb'; rw [hout] at hm
    obtain ⟨h1, h2⟩ := hr.reqTask r hm b hb'
    obtain ⟨tb, htb⟩ := Option.isSome_iff_exists.1 h1
    exact ⟨h1, by rw [hrule_ne b (htask_state b tb htb h2)]; exact h2⟩
  case dummyOk =>
    intro r hm hn'; rw [hunp] at hm
    rcases hr.dummyOk r hm hn' with h1 | h1 | h1 | ⟨k2, t2, h1, _⟩
    · exact Or.inl h1
    · exact Or.inr (Or.inl h1)
    · exact Or.inr (Or.inr (Or.inl h1))
    · cases h1
  case pausedAt => rw [hlr]; exact hr.pausedAt
  case pendingOk =>
    intro p hp; rw [hunp]; exact hr.pendingOk p hp
  case readyOk =>
    intro b hb'
    obtain ⟨tb, h1, h2, h3⟩ := hr.readyOk b hb'
    exact ⟨tb, h1, by rw [hrule_ne b (htask_state b tb h1 h2)]; exact h2, h3⟩
  case finTaskOk =>
    intro b hb'
    replace hb' : b ∈ s.finishedTaskInfos.dropLast := hb'
    have hne : b ≠ a := fun e => hnodup.2 (e ▸ hb')
    obtain ⟨tb, h1, h2, h3⟩ := hr.finTaskOk b ((List.dropLast_sublist _).subset hb')
    exact ⟨tb, h1, by rw [hrule_ne b hne]; exact h2, h3⟩
  case deferredOk =>
    intro b hb'
    obtain ⟨tb, h1, h2, h3⟩ := hr.deferredOk b hb'
    have hne : b ≠ a := by
      intro e; subst e; rw [ht] at h1; cases h1; rw [hdone] at h3; cases h3
    exact ⟨tb, h1, by rw [hrule_ne b hne]; exact h2, h3⟩
  case computingWhere =>
    intro b tb h1 h2
    replace h1 : s.taskInfos.lookup b = some tb := h1
    have hne : b ≠ a := by
      intro e; subst e; rw [hrule] at h2; simp [hst1] at h2
    rw [hrule_ne b hne] at h2
    obtain ⟨c1, c2⟩ := hr.computingWhere b tb h1 h2
    refine ⟨c1, fun hd => ?_⟩
    have := c2 hd
    rw [hsplit] at this
    rcases List.mem_append.1 this with h3 | h3
    · exact h3
    · simp at h3; exact absurd h3 hne
  case outstandingCount =>
    show s.numOutstandingUnfinishedTasks = s.pendingDeferred.length + s.finishedTaskInfos.dropLast.length + 1
    have := hr.outstandingCount
    rw [hsplit] at this
    simp at this
    rw [this]; simp; omega

/-! ## (ii) the dummies of the discovered dependencies, under `pend = some a` -/

/-- **(ii)** `pushDiscovered` (for each key `getRuleInfoForKey` + a dummy input request) keeps `Rel` in the phase
`pend = some a`: a dummy is justified by the LAST disjunct of `dummyOk` (a discovered dependency of the task of `pend`) -/
theorem Rel.pushDiscovered {rules : List RuleSpec} {a : Key} {t : TaskInfo} : ∀ (ds : List Dep) (s : State) (ms : MSt),
    Rel rules s ms {} → s.halted = false → ms.pend = some a → s.taskInfos.lookup a = some t →
    (∀ d ∈ ds, d ∈ t.discoveredDependencies) →
    ∃ toks ms', Emits s toks (EngineImpl.pushDiscovered ds s) ∧ trun (program rules) ms toks = some ms' ∧
      Rel rules (EngineImpl.pushDiscovered ds s) ms' {} ∧ ms'.pend = some a
  | [], s, ms, hr, _, hp, _, _ => ⟨[], ms, Emits.refl s, rfl, hr, hp⟩
  | d :: ds, s, ms, hr, hh, hp, ht, hds => by
    rw [pushDiscovered_cons]
    obtain ⟨toks1, ms1, he1, hrun1, hr1, hp1, hreg1, hh1⟩ := hr.getRule hh d.key
    have ht1 : (EngineImpl.getRuleInfoForKey d.key s).taskInfos.lookup a = some t := by
      rw [(getRuleInfoForKey_same d.key s).taskInfos]; exact ht
    have hpa : ms1.pend = some a := hp1.trans hp
    have hr2 : Rel rules (pushInput (dummyOf d) (EngineImpl.getRuleInfoForKey d.key s)) ms1 {} :=
      hr1.pushDummy (dummyOf d) rfl hreg1 rfl
        (Or.inr (Or.inr (Or.inr ⟨a, t, hpa, ht1, d, hds d (by simp), rfl⟩)))
    obtain ⟨toks2, ms2, he2, hrun2, hr3, hp2⟩ :=
      Rel.pushDiscovered ds (pushInput (dummyOf d) (EngineImpl.getRuleInfoForKey d.key s)) ms1 hr2 hh1 hpa ht1
        (fun x hx => hds x (by simp [hx]))
    refine ⟨toks1 ++ toks2, ms2, ?_, trun_append_some hrun1 hrun2, hr3, hp2⟩
    have he1' : Emits s toks1 (pushInput (dummyOf d) (EngineImpl.getRuleInfoForKey d.key s)) := he1
    exact he1'.trans he2

/-! ## (iii) the guard of `finished a row` -/

/-- the rule with the task's discovered dependencies appended (its `result` is the row written by `DS`) -/
def finRule2 (ri : RuleInfo) (t : TaskInfo) : RuleInfo :=
  { ri with result := { ri.result with deps := ri.result.deps ++ t.discoveredDependencies } }

/-- the monitor after `finished a row` -/
def finM (P : Program) (m : Engine.St) (a : Key) (row : Res) : Engine.St :=
  { m with status := upd m.status a .done,
           mem := { res := upd m.mem.res a { m.mem.res a with builtAt := m.epoch, deps := row.deps },
                    seq := upd m.mem.seq a (m.task a).seq,
                    disc := upd m.mem.disc a ((m.task a).discs.map (fun d => (d, P.out d m.env []))),
                    env := upd m.mem.env a m.env },
           db := { res := upd m.db.res a { m.mem.res a with builtAt := m.epoch, deps := row.deps },
                   seq := upd m.db.seq a (m.task a).seq,
                   disc := upd m.db.disc a ((m.task a).discs.map (fun d => (d, P.out d m.env []))),
                   env := upd m.db.env a m.env },
           pending := (m.pending.filter (fun p => p.1 != a)) ++
             ((m.task a).discs.map (fun d => (d, P.out d m.env []))).filter (fun p => !(isDone m p.1) && p.1 != a) }

theorem step_finished {P : Program} {m : Engine.St} {a : Key} {row : Res}
    (h1 : m.status a = .computing) (h2 : (m.task a).started = true) (h3 : (m.task a).completed = true)
    (h4 : row.value = (m.mem.res a).value) (h5 : row.sig = (m.mem.res a).sig) (h6 : row.builtAt = m.epoch)
    (h7 : row.computedAt = (m.mem.res a).computedAt)
    (h8 : row.deps.length = (m.task a).issued.length + (m.task a).discs.length)
    (h9 : isPerm (row.deps.take (m.task a).issued.length) ((m.task a).issued.map Req.toDep) = true)
    (h10 : row.deps.drop (m.task a).issued.length = discDeps (m.task a).discs) :
    step P m (.finished a row) = some (finM P m a row) := by
  simp only [step]
  rw [if_pos]
  · rfl
  · simp [h1, h2, h3, h4, h5, h6, h7, h8, h9, h10]

/-- what `Rel` in the phase `pend = some a` says about the finishing task and its rule -/
structure FinFacts (s : State) (m : Engine.St) (a : Key) (t : TaskInfo) (ri : RuleInfo) : Prop where
  key : ri.key = a
  complete : ri.state = .complete
  built : ri.result.builtAt = s.currentEpoch
  computing : m.status a = .computing
  started : (m.task a).started = true
  completed : (m.task a).completed = true
  value : (m.mem.res a).value = ri.result.value
  sig : (m.mem.res a).sig = ri.result.sig
  computedAt : (m.mem.res a).computedAt = ri.result.computedAt
  issued : (m.task a).issued = t.issuedReqs
  disc : t.discoveredDependencies = discDeps (m.task a).discs
  perm : List.Perm (t.issuedReqs.map Req.toDep) ri.result.deps

theorem Rel.finFacts {rules : List RuleSpec} {s : State} {m : Engine.St} {a : Key} {t : TaskInfo} {ri : RuleInfo}
    (hr : Rel rules s ⟨m, some a⟩ {}) (ht : s.taskInfos.lookup a = some t) (hl : s.ruleInfos.lookup a = some ri) :
    FinFacts s m a t ri := by
  obtain ⟨ri', hl', hc, hbu, hcomp⟩ := hr.pendOk a rfl
  rw [hl] at hl'; cases hl'
  have hb := hr.taskOk a t ht
  have hrule : s.rule a = ri := rule_of_lookup hl
  have hnw : (s.rule a).state ≠ .inProgressWaiting := by rw [hrule, hc]; intro x; cases x
  obtain ⟨hd, hout⟩ := hb.computing hnw
  have hunp : ofTask a (unprocessed s {}) = [] := by
    unfold ofTask outstanding at hout
    rw [List.filter_append] at hout
    exact (List.append_eq_nil_iff.1 hout).1
  obtain ⟨r1, r2, r3, _, _⟩ := hr.res a ri hl
  refine { key := hr.keyOk a ri hl, complete := hc, built := hbu, computing := ?_, started := hb.started,
           completed := hcomp, value := r1, sig := r2, computedAt := r3, issued := ?_, disc := hd, perm := ?_ }
  · have := hr.status a
    simp only at this
    rw [this]
    unfold statusOf
    rw [hl]
    simp [hc, hbu]
  · have := hb.issued
    simpa [Hand.toIssue] using this
  · have := hb.depsPerm
    rw [hunp, hrule] at this
    simpa using this

/-- **(iii)** the monitor accepts `finished a row` for `row` = the rule's result with the discovered dependencies appended -/
theorem finished_guard {rules : List RuleSpec} {s : State} {m : Engine.St} {a : Key} {t : TaskInfo} {ri : RuleInfo}
    (hr : Rel rules s ⟨m, some a⟩ {}) (ht : s.taskInfos.lookup a = some t) (hl : s.ruleInfos.lookup a = some ri) :
    step (program rules) m (.finished a (finRule2 ri t).result) =
      some (finM (program rules) m a (finRule2 ri t).result) := by
  have f := hr.finFacts ht hl
  have hlen : ri.result.deps.length = (m.task a).issued.length := by
    rw [f.issued, ← f.perm.length_eq]; simp
  have hdl : t.discoveredDependencies.length = (m.task a).discs.length := by rw [f.disc]; simp [discDeps]
  refine step_finished f.computing f.started f.completed f.value.symm f.sig.symm ?_ f.computedAt.symm ?_ ?_ ?_
  · show ri.result.builtAt = m.epoch
    rw [f.built]; exact hr.epoch.symm
  · show (ri.result.deps ++ t.discoveredDependencies).length = _
    rw [List.length_append, hlen, hdl]
  · show isPerm ((ri.result.deps ++ t.discoveredDependencies).take _) _ = true
    rw [List.take_left' hlen, f.issued]
    exact (isPerm_iff _ _).2 f.perm.symm
  · show (ri.result.deps ++ t.discoveredDependencies).drop _ = _
    rw [List.drop_left' hlen]; exact f.disc

/-! ## (iv) after `DS a row`: the waiters are woken, the task is deleted -/

/-- the engine after the row was written, the waiters were woken and the task was deleted (without the recorder) -/
def finState (a : Key) (t : TaskInfo) (ri2 : RuleInfo) (s : State) : State :=
  { s with ruleInfos := alSet s.ruleInfos ri2.key ri2,
           store := { s.store with rows := rowsSet s.store.rows a ri2.result },
           ruleInfosToScan := s.ruleInfosToScan ++ t.deferredScanRequests,
           finishedInputRequests := s.finishedInputRequests ++ t.requestedBy,
           numOutstandingUnfinishedTasks := s.numOutstandingUnfinishedTasks - 1,
           taskInfos := alErase s.taskInfos a,
           pendingDeferred := s.pendingDeferred.filter (· != a) }

theorem alErase_split {α : Type} : ∀ (l : List (Key × α)) (k : Key) (x : α), (l.map (fun p => p.1)).Nodup →
    l.lookup k = some x → ∃ l1 l2, l = l1 ++ (k, x) :: l2 ∧ alErase l k = l1 ++ l2
  | [], k, x, _, h => by simp at h
  | (k0, y) :: rest, k, x, hn, h => by
    rw [lookup_cons_ite] at h
    simp only [List.map_cons, List.nodup_cons] at hn
    by_cases hk : k = k0
    · subst hk
      simp only [if_true, Option.some.injEq] at h
      subst h
      refine ⟨[], rest, rfl, ?_⟩
      unfold alErase
      simp only [List.filter_cons, bne_self_eq_false, Bool.false_eq_true, if_false, List.nil_append]
      apply List.filter_eq_self.2
      intro p hp
      have : p.1 ≠ k := fun e => hn.1 (e ▸ List.mem_map.2 ⟨p, hp, rfl⟩)
      simpa using this
    · simp only [hk, if_false] at h
      obtain ⟨l1, l2, h1, h2⟩ := alErase_split rest k x hn.2 h
      refine ⟨(k0, y) :: l1, l2, by rw [h1]; rfl, ?_⟩
      have : (k0 != k) = true := by simpa using (fun e : k0 = k => hk e.symm)
      unfold alErase at h2 ⊢
      simp only [List.filter_cons, this, if_true, h2, List.cons_append]

theorem res_ext_upd (r1 r2 : Res) (X : List Dep) (e : Nat) (h1 : r1.value = r2.value) (h2 : r1.sig = r2.sig)
    (h3 : r1.computedAt = r2.computedAt) (h4 : r2.builtAt = e) :
    ({ r1 with builtAt := e, deps := X } : Res) = { r2 with deps := X } := by
  cases r1; cases r2; simp_all

section finM
variable {P : Program} {m : Engine.St} {a : Key} {row : Res}

theorem finM_status (k : Key) : (finM P m a row).status k = if k = a then .done else m.status k := by
  simp [finM, upd]

theorem finM_mem_ne {k : Key} (h : k ≠ a) : (finM P m a row).mem.res k = m.mem.res k := by
  simp [finM, upd, h]

theorem finM_mem_self : (finM P m a row).mem.res a = { m.mem.res a with builtAt := m.epoch, deps := row.deps } := by
  simp [finM, upd]

theorem finM_db_ne {k : Key} (h : k ≠ a) : (finM P m a row).db.res k = m.db.res k := by
  simp [finM, upd, h]

theorem finM_db_self : (finM P m a row).db.res a = { m.mem.res a with builtAt := m.epoch, deps := row.deps } := by
  simp [finM, upd]

theorem finM_isDone (x : Key) : isDone (finM P m a row) x = true ↔ x = a ∨ isDone m x = true := by
  unfold isDone
  rw [finM_status]
  by_cases e : x = a
  · simp [e]
  · simp [e]

end finM

/-- **(iv)** the relation after the merged event `finished a row`: the rule carries the row, the store has it, the
waiters of the task are woken (`requestedBy` → `finishedInputRequests`, deferred scan requests → `ruleInfosToScan`),
the task is deleted and no longer counted -/
theorem Rel.finishedWake {rules : List RuleSpec} {s : State} {m : Engine.St} {a : Key} {t : TaskInfo} {ri : RuleInfo}
    (hr : Rel rules s ⟨m, some a⟩ {}) (ht : s.taskInfos.lookup a = some t) (hl : s.ruleInfos.lookup a = some ri)
    (hdisc : ∀ d ∈ t.discoveredDependencies, ∃ r ∈ s.inputRequests, r.taskInfo = none ∧ r.inputRuleInfo = d.key) :
    Rel rules (finState a t (finRule2 ri t) s) ⟨finM (program rules) m a (finRule2 ri t).result, none⟩ {} := by
  have f := hr.finFacts ht hl
  have hk2 : (finRule2 ri t).key = a := f.key
  have hst2 : (finRule2 ri t).state = .complete := f.complete
  have ho : ri.isScanning = false := by simp [RuleInfo.isScanning, f.complete]
  have hn : (finRule2 ri t).isScanning = false := ho
  have hl2 : s.ruleInfos.lookup (finRule2 ri t).key = some ri := by rw [hk2]; exact hl
  have hrI : (finState a t (finRule2 ri t) s).ruleInfos = (s.setRule (finRule2 ri t)).ruleInfos := rfl
  have hlk : ∀ k, (finState a t (finRule2 ri t) s).ruleInfos.lookup k =
      if k = a then some (finRule2 ri t) else s.ruleInfos.lookup k := by
    intro k; rw [hrI, setRule_lookup, hk2]
  have hrule : ∀ k, (finState a t (finRule2 ri t) s).rule k = if k = a then finRule2 ri t else s.rule k := by
    intro k; unfold State.rule; rw [hlk]; by_cases e : k = a <;> simp [e]
  have hrule_ne : ∀ k, k ≠ a → (finState a t (finRule2 ri t) s).rule k = s.rule k := by
    intro k hne; rw [hrule]; simp [hne]
  have hlr : liveRecords (finState a t (finRule2 ri t) s) = liveRecords s := by
    have : liveRecords (finState a t (finRule2 ri t) s) = liveRecords (s.setRule (finRule2 ri t)) := by
      unfold liveRecords; rw [hrI]
    rw [this]; exact setRule_liveRecords_nn hl2 rfl ho hn
  obtain ⟨l1, l2, hs1, hs2⟩ := alErase_split s.taskInfos a t hr.taskNodup ht
  have hsT : (finState a t (finRule2 ri t) s).taskInfos = l1 ++ l2 := hs2
  have htl : ∀ k, (finState a t (finRule2 ri t) s).taskInfos.lookup k = if k = a then none else s.taskInfos.lookup k := by
    intro k; exact lookup_alErase s.taskInfos a k
  have htl_ne : ∀ k tk, (finState a t (finRule2 ri t) s).taskInfos.lookup k = some tk → k ≠ a ∧ s.taskInfos.lookup k = some tk := by
    intro k tk h1; rw [htl] at h1
    by_cases e : k = a
    · simp [e] at h1
    · simp only [e, if_false] at h1; exact ⟨e, h1⟩
  have htmem : ∀ p ∈ (finState a t (finRule2 ri t) s).taskInfos, p ∈ s.taskInfos := by
    intro p hp; exact (List.filter_sublist (l := s.taskInfos)).subset hp
  have hunp : unprocessed (finState a t (finRule2 ri t) s) {} = unprocessed s {} := by
    unfold unprocessed pausedAll; rw [hlr]; rfl
  have hproc : List.Perm (processed (finState a t (finRule2 ri t) s) {}) (processed s {}) := by
    unfold processed requestedByAll
    rw [hsT, hs1]
    show List.Perm (_ ++ _ ++ (s.finishedInputRequests ++ t.requestedBy)) _
    rw [List.perm_iff_count]; intro x
    simp [List.count_append, List.flatMap_append, List.flatMap_cons]; omega
  have hout : List.Perm (outstanding (finState a t (finRule2 ri t) s) {}) (outstanding s {}) := by
    unfold outstanding; rw [hunp]; exact List.Perm.append_left _ hproc
  have hsr : List.Perm (scanReqs (finState a t (finRule2 ri t) s) {}) (scanReqs s {}) := by
    unfold scanReqs deferredAll
    rw [hlr, hsT, hs1]
    show List.Perm (_ ++ (s.ruleInfosToScan ++ t.deferredScanRequests) ++ _) _
    rw [List.perm_iff_count]; intro x
    simp [List.count_append, List.flatMap_append, List.flatMap_cons]; omega
  have hstatus' := fun k => finM_status (P := program rules) (m := m) (a := a) (row := (finRule2 ri t).result) k
  have hndone : isDone m a = false := by unfold isDone; rw [f.computing]; rfl
  have hdone : ∀ x, isDone m x = true → isDone (finM (program rules) m a (finRule2 ri t).result) x = true :=
    fun x hx => (finM_isDone x).2 (Or.inr hx)
  have hdoneA : isDone (finM (program rules) m a (finRule2 ri t).result) a = true := (finM_isDone a).2 (Or.inl rfl)
  have hmem' := fun k (h : k ≠ a) => finM_mem_ne (P := program rules) (m := m) (row := (finRule2 ri t).result) h
  have hrowEq : ({ m.mem.res a with builtAt := m.epoch, deps := (finRule2 ri t).result.deps } : Res) = (finRule2 ri t).result :=
    res_ext_upd _ _ _ _ f.value f.sig f.computedAt (by rw [f.built]; exact hr.epoch.symm)
  have hstatusOf : ∀ k, statusOf (finState a t (finRule2 ri t) s) none k = if k = a then .done else statusOf s (some a) k := by
    intro k
    unfold statusOf
    rw [hlk]
    by_cases e : k = a
    · subst e
      have hb2 : (finRule2 ri t).result.builtAt = (finState k t (finRule2 ri t) s).currentEpoch := f.built
      simp [hst2, hb2]
    · simp only [e, if_false]
      have e' : ¬ (some a = some k) := by intro x; cases x; exact e rfl
      show _ = match s.ruleInfos.lookup k with | none => _ | some ri => _
      cases s.ruleInfos.lookup k with
      | none => rfl
      | some rk => simp only [e']; cases rk.state <;> simp <;> rfl
  have hreg : ∀ k, Registered s k → Registered (finState a t (finRule2 ri t) s) k := by
    intro k h1; unfold Registered at *; rw [hlk]; by_cases e : k = a <;> simp [e, h1]
  have hold : ∀ k rk, (finState a t (finRule2 ri t) s).ruleInfos.lookup k = some rk → k ≠ a → s.ruleInfos.lookup k = some rk := by
    intro k rk h1 h2; rw [hlk] at h1; simpa [h2] using h1
  have hself : ∀ rk, (finState a t (finRule2 ri t) s).ruleInfos.lookup a = some rk → rk = finRule2 ri t := by
    intro rk h1; rw [hlk] at h1; simp at h1; exact h1.symm
  have hfreshdep : ∀ (r : Res) d, depFresh m r d = true → depFresh (finM (program rules) m a (finRule2 ri t).result) r d = true := by
    intro r d hd
    unfold depFresh at hd ⊢
    simp only [Bool.and_eq_true] at hd ⊢
    have hdk : d.key ≠ a := by
      intro e; have := hd.1; rw [e, hndone] at this; cases this
    rw [hmem' _ hdk]; exact ⟨hdone _ hd.1, hd.2⟩
  have hwait_ne : ∀ b, (s.rule b).state = .inProgressWaiting → b ≠ a := by
    intro b hw e; subst e; rw [rule_of_lookup hl, f.complete] at hw; cases hw
  have hcomp_ne : ∀ b, (s.rule b).state = .inProgressComputing → b ≠ a := by
    intro b hw e; subst e; rw [rule_of_lookup hl, f.complete] at hw; cases hw
  have hnotdef : a ∉ s.pendingDeferred := by
    intro hm
    obtain ⟨_, _, h2, _⟩ := hr.deferredOk a hm
    exact hcomp_ne a h2 rfl
  refine
    { rules_eq := hr.rules_eq, env := hr.env, hasDB := hr.hasDB, noResolve := hr.noResolve, noFail := hr.noFail,
      epoch := hr.epoch, reg := ?reg, keyOk := ?keyOk, rulesNodup := ?rulesNodup, sig := ?sig, res := ?res,
      resUnreg := ?resUnreg, db := ?db, dbBuilt := ?dbBuilt, dbBuiltLe := ?dbBuiltLe, dbIter := hr.dbIter,
      builtLe := ?builtLe,
      active := hr.active, started := hr.started, notReturned := hr.notReturned, epochPos := hr.epochPos,
      cancelled := hr.cancelled, errCancelled := hr.errCancelled, noCycle := hr.noCycle, targetReg := hr.targetReg,
      status := ?status, pendOk := ?pendOk,
      validIdle := ?validIdle, scanningOk := ?scanningOk, dntrFresh := ?dntrFresh, inScanned := ?inScanned,
      inRan := ?inRan, ranOk := ?ranOk, scanOne := ?scanOne, scanOk := ?scanOk,
      deferredAtRecord := ?deferredAtRecord, deferredAtTask := ?deferredAtTask, recordLive := ?recordLive,
      scanCount := ?scanCount, recordWaited := ?recordWaited, midScan := ?midScan, taskKeys := ?taskKeys,
      taskNodup := ?taskNodup,
      taskOk := ?taskOk, reqReg := ?reqReg, reqTask := ?reqTask, dummyOk := ?dummyOk, dummyUnproc := ?dummyUnproc,
      pausedAt := ?pausedAt, requestedAt := ?requestedAt, finDone := ?finDone, pendingOk := ?pendingOk,
      readyOk := ?readyOk, readyNodup := hr.readyNodup, finTaskOk := ?finTaskOk, finTaskNodup := hr.finTaskNodup,
      deferredOk := ?deferredOk, deferredNodup := ?deferredNodup, computingWhere := ?computingWhere,
      outstandingCount := ?outstandingCount }
  case reg =>
    intro k
    show m.registered k = _
    rw [hlk, hr.reg k]
    by_cases e : k = a
    · subst e; simp [hl]
    · simp [e]
  case keyOk =>
    intro k rk h1
    by_cases e : k = a
    · subst e; rw [hself rk h1]; exact hk2
    · exact hr.keyOk k rk (hold k rk h1 e)
  case rulesNodup => rw [hrI]; exact setRule_rulesNodup _ hr.rulesNodup
  case sig =>
    intro k rk h1
    show m.sigAt k = _
    by_cases e : k = a
    · subst e; rw [hself rk h1]; exact hr.sig k ri hl
    · exact hr.sig k rk (hold k rk h1 e)
  case res =>
    intro k rk h1
    by_cases e : k = a
    · subst e; rw [hself rk h1, finM_mem_self, hrowEq]
      exact ⟨rfl, rfl, rfl, fun _ => rfl, fun _ _ _ => rfl⟩
    · have := hr.res k rk (hold k rk h1 e)
      have e' : ((some a : Option Key) == some k) = false := by simpa using (fun x : a = k => e x.symm)
      rw [hmem' k e]
      simpa [e'] using this
  case resUnreg =>
    intro k h1; rw [hlk] at h1
    by_cases e : k = a
    · subst e; simp at h1
    · simp only [e, if_false] at h1
      rw [hmem' k e, finM_db_ne e]; exact hr.resUnreg k h1
  case db =>
    intro k
    show _ = ((rowsSet s.store.rows a (finRule2 ri t).result).lookup k).getD {}
    rw [lookup_rowsSet]
    by_cases e : k = a
    · subst e; rw [finM_db_self, hrowEq]; simp
    · rw [finM_db_ne e]; simp only [e, if_false]; exact hr.db k
  case dbBuilt =>
    intro k row h1
    replace h1 : (rowsSet s.store.rows a (finRule2 ri t).result).lookup k = some row := h1
    rw [lookup_rowsSet] at h1
    by_cases e : k = a
    · simp [e] at h1; subst h1
      show ri.result.builtAt ≠ 0
      rw [f.built]; exact hr.epochPos
    · simp only [e, if_false] at h1; exact hr.dbBuilt k row h1
  case dbBuiltLe =>
    intro k row h1
    replace h1 : (rowsSet s.store.rows a (finRule2 ri t).result).lookup k = some row := h1
    rw [lookup_rowsSet] at h1
    show row.builtAt ≤ s.currentEpoch
    by_cases e : k = a
    · simp [e] at h1; subst h1
      show ri.result.builtAt ≤ _
      rw [f.built]; exact Nat.le_refl _
    · simp only [e, if_false] at h1; exact hr.dbBuiltLe k row h1
  case builtLe =>
    intro k rk h1
    show rk.result.builtAt ≤ s.currentEpoch
    by_cases e : k = a
    · subst e; rw [hself rk h1]
      show ri.result.builtAt ≤ _
      rw [f.built]; exact Nat.le_refl _
    · exact hr.builtLe k rk (hold k rk h1 e)
  case status =>
    intro k
    rw [hstatusOf, hstatus']
    by_cases e : k = a
    · simp [e]
    · simp only [e, if_false]; exact hr.status k
  case pendOk => intro k hp; cases hp
  case validIdle =>
    intro k hi
    rw [hstatus'] at hi
    show m.validSeen k = none
    by_cases e : k = a
    · simp [e] at hi
    · simp only [e, if_false] at hi; exact hr.validIdle k hi
  case scanningOk =>
    intro k rk h1 h2
    by_cases e : k = a
    · subst e; rw [hself rk h1, hst2] at h2; rcases h2 with h2 | h2 <;> cases h2
    · exact hr.scanningOk k rk (hold k rk h1 e) h2
  case dntrFresh =>
    intro k rk h1 h2
    by_cases e : k = a
    · subst e; rw [hself rk h1, hst2] at h2; cases h2
    · rw [hmem' k e]
      intro d hd
      exact hfreshdep _ d (hr.dntrFresh k rk (hold k rk h1 e) h2 d hd)
  case inScanned =>
    intro k hi
    rw [hstatus'] at hi
    show k ∈ m.scanned
    by_cases e : k = a
    · simp [e] at hi
    · simp only [e, if_false] at hi; exact hr.inScanned k hi
  case inRan =>
    intro k hi
    rw [hstatus'] at hi
    show k ∈ m.ran
    by_cases e : k = a
    · simp [e] at hi
    · simp only [e, if_false] at hi; exact hr.inRan k hi
  case ranOk =>
    intro k hk'
    rw [hstatus']
    by_cases e : k = a
    · simp [e]
    · simp only [e, if_false]; exact hr.ranOk k hk'
  case scanOne =>
    intro k rk h1 h2
    rw [(List.Perm.filter _ hsr).length_eq]
    by_cases e : k = a
    · subst e; rw [hself rk h1, hst2] at h2; cases h2
    · exact hr.scanOne k rk (hold k rk h1 e) h2
  case scanOk =>
    intro r hm
    have h0 := hr.scanOk r (hsr.mem_iff.1 hm)
    have hne : r.ruleInfo ≠ a := by
      intro e; have := h0.scanning; rw [e, rule_of_lookup hl, f.complete] at this; cases this
    exact h0.frame hreg (hrule_ne _ hne) (hmem' _ hne) (hfreshdep _)
  case deferredAtRecord => rw [hlr]; exact hr.deferredAtRecord
  case deferredAtTask => intro p hp; exact hr.deferredAtTask p (htmem p hp)
  case recordLive =>
    intro k rk h1 h2
    by_cases e : k = a
    · subst e; rw [hself rk h1, hst2] at h2; cases h2
    · exact hr.recordLive k rk (hold k rk h1 e) h2
  case scanCount =>
    show s.numRulesBeingScanned = _
    rw [hr.scanCount, hrI]
    exact (setRule_scanCount_nn hl2 rfl ho hn).symm
  case recordWaited =>
    rw [hlr]
    intro p hp
    rcases hr.recordWaited p hp with h1 | h1 | ⟨r, h1, h2⟩ | h1
    · exact Or.inl h1
    · exact Or.inr (Or.inl h1)
    · refine Or.inr (Or.inr (Or.inl ⟨r, ?_, h2⟩))
      simp only [List.nil_append] at h1 ⊢
      exact List.mem_append_left _ h1
    · exact Or.inr (Or.inr (Or.inr h1))
  case midScan =>
    intro k rk h1 h2
    have e : k ≠ a := by
      intro e; subst e; rw [hself rk h1, hst2] at h2; rcases h2 with h2 | h2 <;> cases h2
    rcases hr.midScan k rk (hold k rk h1 e) h2 with ⟨r, h3, h4⟩ | h3
    · refine Or.inl ⟨r, ?_, h4⟩
      simp only [List.nil_append] at h3 ⊢
      exact List.mem_append_left _ h3
    · exact Or.inr h3
  case taskKeys =>
    intro k
    rw [htl, hstatusOf]
    by_cases e : k = a
    · simp [e]
    · simp only [e, if_false]; exact hr.taskKeys k
  case taskNodup =>
    exact List.Nodup.sublist ((List.filter_sublist (l := s.taskInfos)).map _) hr.taskNodup
  case taskOk =>
    intro b tb h1
    obtain ⟨hne, h2⟩ := htl_ne b tb h1
    refine (hr.taskOk b tb h2).frame (hrule_ne b hne) rfl hout (by rw [hunp]) rfl rfl rfl hdone ?_
    unfold priorDue
    rw [hmem' b hne]; rfl
  case reqReg =>
    intro r hm
    have := hr.reqReg r (hout.mem_iff.1 hm)
    exact ⟨hreg _ this.1, this.2⟩
  case reqTask =>
    intro r hm b hb'
    obtain ⟨h1, h2⟩ := hr.reqTask r (hout.mem_iff.1 hm) b hb'
    have hne := hwait_ne b h2
    exact ⟨by rw [htl]; simpa [hne] using h1, by rw [hrule_ne b hne]; exact h2⟩
  case dummyOk =>
    intro r hm hn'
    rw [hunp] at hm
    rw [hstatus']
    by_cases ea : r.inputRuleInfo = a
    · left; simp [ea]
    · simp only [ea, if_false]
      rcases hr.dummyOk r hm hn' with h1 | h1 | ⟨p, h1, h2⟩ | ⟨k2, t2, h1, h2, d, h3, h4⟩
      · exact Or.inl h1
      · exact Or.inr (Or.inl h1)
      · refine Or.inr (Or.inr (Or.inl ⟨p, ?_, h2⟩))
        show p ∈ _ ++ _
        refine List.mem_append_left _ (List.mem_filter.2 ⟨h1, ?_⟩)
        rw [h2]; simpa using ea
      · cases h1
        rw [ht] at h2; cases h2
        by_cases hd : isDone m r.inputRuleInfo = true
        · left
          unfold isDone at hd
          intro e; rw [e] at hd; cases hd
        · refine Or.inr (Or.inr (Or.inl ⟨(r.inputRuleInfo, (program rules).out r.inputRuleInfo m.env []), ?_, rfl⟩))
          show _ ∈ _ ++ _
          refine List.mem_append_right _ (List.mem_filter.2 ⟨?_, ?_⟩)
          · rw [f.disc] at h3
            obtain ⟨x, hx, hxd⟩ := List.mem_map.1 h3
            refine List.mem_map.2 ⟨x, hx, ?_⟩
            rw [← h4, ← hxd]
          · simp [hd, ea]
  case dummyUnproc => intro r hm; exact hr.dummyUnproc r (hproc.mem_iff.1 hm)
  case pausedAt => rw [hlr]; exact hr.pausedAt
  case requestedAt => intro p hp; exact hr.requestedAt p (htmem p hp)
  case finDone =>
    intro r hm
    replace hm : r ∈ [] ++ (s.finishedInputRequests ++ t.requestedBy) := hm
    simp only [List.nil_append, List.mem_append] at hm
    rcases hm with h1 | h1
    · exact hdone _ (hr.finDone r (by simpa using h1))
    · have := hr.requestedAt (a, t) (lookup_mem _ _ _ ht) r h1
      rw [this]; exact hdoneA
  case pendingOk =>
    intro p hp
    replace hp : p ∈ (m.pending.filter (fun p => p.1 != a)) ++
      (((m.task a).discs.map (fun d => (d, (program rules).out d m.env []))).filter (fun p => !(isDone m p.1) && p.1 != a)) := hp
    rw [hunp, htl]
    rcases List.mem_append.1 hp with h1 | h1
    · obtain ⟨h2, h3⟩ := List.mem_filter.1 h1
      have hne : p.1 ≠ a := by simpa using h3
      simp only [hne, if_false]
      exact hr.pendingOk p h2
    · obtain ⟨h2, _⟩ := List.mem_filter.1 h1
      obtain ⟨x, hx, hxp⟩ := List.mem_map.1 h2
      have hd : (⟨x, false, false⟩ : Dep) ∈ t.discoveredDependencies := by
        rw [f.disc]; exact List.mem_map.2 ⟨x, hx, rfl⟩
      obtain ⟨r, hr1, hr2, hr3⟩ := hdisc _ hd
      refine Or.inl ⟨r, ?_, hr2, ?_⟩
      · unfold unprocessed
        exact List.mem_append_left _ (List.mem_append_right _ hr1)
      · rw [hr3, ← hxp]
  case readyOk =>
    intro b hb'
    obtain ⟨tb, h1, h2, h3⟩ := hr.readyOk b hb'
    have hne := hwait_ne b h2
    exact ⟨tb, by rw [htl]; simpa [hne] using h1, by rw [hrule_ne b hne]; exact h2, h3⟩
  case finTaskOk =>
    intro b hb'
    obtain ⟨tb, h1, h2, h3⟩ := hr.finTaskOk b hb'
    have hne := hcomp_ne b h2
    exact ⟨tb, by rw [htl]; simpa [hne] using h1, by rw [hrule_ne b hne]; exact h2, h3⟩
  case deferredOk =>
    intro b hb'
    obtain ⟨hb1, _⟩ := List.mem_filter.1 hb'
    obtain ⟨tb, h1, h2, h3⟩ := hr.deferredOk b hb1
    have hne := hcomp_ne b h2
    exact ⟨tb, by rw [htl]; simpa [hne] using h1, by rw [hrule_ne b hne]; exact h2, h3⟩
  case deferredNodup => exact List.Nodup.sublist List.filter_sublist hr.deferredNodup
  case computingWhere =>
    intro b tb h1 h2
    obtain ⟨hne, h3⟩ := htl_ne b tb h1
    rw [hrule_ne b hne] at h2
    obtain ⟨c1, c2⟩ := hr.computingWhere b tb h3 h2
    refine ⟨fun hd => ?_, c2⟩
    exact List.mem_filter.2 ⟨c1 hd, by simpa using hne⟩
  case outstandingCount =>
    show s.numOutstandingUnfinishedTasks - 1 = (s.pendingDeferred.filter (· != a)).length + s.finishedTaskInfos.length + 0
    have h1 : s.pendingDeferred.filter (· != a) = s.pendingDeferred := by
      apply List.filter_eq_self.2
      intro x hx
      have : x ≠ a := fun e => hnotdef (e ▸ hx)
      simpa using this
    have := hr.outstandingCount
    simp only [Option.isSome_some, if_true] at this
    rw [h1, this]; omega

/-! ## the body of `finishedTasksLoop` -/

theorem emit_finState (tok : Tok) (a : Key) (t : TaskInfo) (ri2 : RuleInfo) (s : State) :
    emit tok (finState a t ri2 s) = finState a t ri2 (emit tok s) := by
  unfold emit finState
  by_cases hh : s.halted = true
  · simp [hh]
  · simp only [hh, Bool.false_eq_true, if_false]
    split <;> simp [doCancel] <;> split <;> rfl

theorem setRuleResult_ok (k : Key) (res : Res) (s : State) (h : s.store.failNextSet = false) :
    setRuleResult k res s =
      (true, { emit (.DS k res) s with
                 store := { (emit (.DS k res) s).store with rows := rowsSet (emit (.DS k res) s).store.rows k res } }) := by
  unfold setRuleResult
  simp [h]

theorem wake_eq (a : Key) (t : TaskInfo) (ri2 : RuleInfo) (X : State) :
    finishedTaskWake a t
      { X.setRule ri2 with store := { (X.setRule ri2).store with rows := rowsSet (X.setRule ri2).store.rows a ri2.result } } =
    finState a t ri2 X := rfl

/-- `finishedTaskWrite` with the append of the discovered dependencies moved behind `pushDiscovered` -/
theorem finishedTaskWrite_eq (a : Key) (s0 : State) (ri0 : RuleInfo) (hfk : (s0.task a).forRuleInfo = a)
    (hl : s0.ruleInfos.lookup a = some ri0) (hk : ri0.key = a) (hdb : s0.hasDB = true) (hh : s0.halted = false) :
    finishedTaskWrite a s0 =
      setRuleResult a (finRule2 (finRule1 s0 ri0) (s0.task a)).result
        ((pushDiscovered (s0.task a).discoveredDependencies (emit (.S a 2) (s0.setRule (finRule1 s0 ri0)))).setRule
          (finRule2 (finRule1 s0 ri0) (s0.task a))) := by
  have hk1 : (finRule1 s0 ri0).key = a := hk
  have hk2 : (finRule2 (finRule1 s0 ri0) (s0.task a)).key = a := hk
  have e1 : s0.modRule a (fun ri => setComplete s0 { ri with inProgressInfo := .null }) = s0.setRule (finRule1 s0 ri0) := by
    unfold State.modRule; rw [rule_of_lookup hl]; rfl
  have e2 : (emit (.S a 2) (s0.setRule (finRule1 s0 ri0))).modRule a
        (fun ri => { ri with result := { ri.result with deps := ri.result.deps ++ (s0.task a).discoveredDependencies } }) =
      (emit (.S a 2) (s0.setRule (finRule1 s0 ri0))).setRule (finRule2 (finRule1 s0 ri0) (s0.task a)) := by
    unfold State.modRule
    rw [emit_rule, setRule_rule, hk1]
    simp only [if_true]
    rfl
  have hdb2 : (emit (.S a 2) (s0.setRule (finRule1 s0 ri0))).hasDB = true := by rw [emit_hasDB]; exact hdb
  have hh2 : (emit (.S a 2) (s0.setRule (finRule1 s0 ri0))).halted = false := by rw [emit_halted_eq]; exact hh
  have hreg2 : Registered (emit (.S a 2) (s0.setRule (finRule1 s0 ri0))) (finRule2 (finRule1 s0 ri0) (s0.task a)).key := by
    unfold Registered; rw [emit_ruleInfos, setRule_lookup, hk2, hk1]; simp
  have e3 := pushDiscovered_setRule (s0.task a).discoveredDependencies _ _ hdb2 hreg2
  have fr := (pushDiscovered_frame (s0.task a).discoveredDependencies _ hdb2 hh2).1
  unfold finishedTaskWrite
  simp only [hfk]
  rw [e1, e2, e3]
  have hdb4 : ((pushDiscovered (s0.task a).discoveredDependencies (emit (.S a 2) (s0.setRule (finRule1 s0 ri0)))).setRule
      (finRule2 (finRule1 s0 ri0) (s0.task a))).hasDB = true := by
    show (pushDiscovered _ _).hasDB = true
    rw [fr.hasDB]; exact hdb2
  rw [if_pos hdb4, setRule_rule, hk2]
  simp only [if_true]

/-- the whole body as ONE recorded token after the engine update `finState` -/
theorem finishedTaskStep_eq (a : Key) (s0 : State) (ri0 : RuleInfo) (t : TaskInfo) (htask : s0.task a = t)
    (hfk : t.forRuleInfo = a) (hl : s0.ruleInfos.lookup a = some ri0) (hk : ri0.key = a) (hdb : s0.hasDB = true)
    (hh : s0.halted = false)
    (hnf : (pushDiscovered t.discoveredDependencies (emit (.S a 2) (s0.setRule (finRule1 s0 ri0)))).store.failNextSet = false) :
    (finishedTaskWrite a s0).1 = true ∧
    finishedTaskWake a t (finishedTaskWrite a s0).2 =
      emit (.DS a (finRule2 (finRule1 s0 ri0) t).result) (finState a t (finRule2 (finRule1 s0 ri0) t)
        (pushDiscovered t.discoveredDependencies (emit (.S a 2) (s0.setRule (finRule1 s0 ri0))))) := by
  have heq := finishedTaskWrite_eq a s0 ri0 (by rw [htask]; exact hfk) hl hk hdb hh
  rw [htask] at heq
  have hnf' : ((pushDiscovered t.discoveredDependencies (emit (.S a 2) (s0.setRule (finRule1 s0 ri0)))).setRule
      (finRule2 (finRule1 s0 ri0) t)).store.failNextSet = false := hnf
  rw [setRuleResult_ok _ _ _ hnf', emit_setRule] at heq
  rw [heq]
  refine ⟨rfl, ?_⟩
  simp only
  rw [wake_eq, ← emit_finState]

/-- the body of `finishedTasksLoop` for the popped task `a`, with the facts the loop needs unconditionally (the write
succeeds, nothing halts) -/
theorem finishedTaskStep_strong {rules : List RuleSpec} (s : State) (ms : MSt) (a : Key)
    (hr : Rel rules s ms {}) (hp : ms.pend = none) (hh : s.halted = false)
    (hlast : s.finishedTaskInfos.getLast? = some a) (hnm : NoMid s) :
    (finishedTaskWrite a { s with finishedTaskInfos := s.finishedTaskInfos.dropLast }).1 = true ∧
    (finishedTaskWake a (s.task a) (finishedTaskWrite a { s with finishedTaskInfos := s.finishedTaskInfos.dropLast }).2).halted = false ∧
    ∃ toks ms', Emits s toks (finishedTaskWake a (s.task a) (finishedTaskWrite a { s with finishedTaskInfos := s.finishedTaskInfos.dropLast }).2) ∧
      trun (program rules) ms toks = some ms' ∧
      Rel rules (finishedTaskWake a (s.task a) (finishedTaskWrite a { s with finishedTaskInfos := s.finishedTaskInfos.dropLast }).2) ms' {} ∧
      ms'.pend = none ∧
      RegMono s (finishedTaskWake a (s.task a) (finishedTaskWrite a { s with finishedTaskInfos := s.finishedTaskInfos.dropLast }).2) ∧
      ms'.m.target = ms.m.target ∧
      NoMid (finishedTaskWake a (s.task a) (finishedTaskWrite a { s with finishedTaskInfos := s.finishedTaskInfos.dropLast }).2) := by
  obtain ⟨m, pend⟩ := ms
  simp only at hp; subst hp
  have hmem : a ∈ s.finishedTaskInfos := List.mem_of_getLast? hlast
  obtain ⟨t, ht, _, _⟩ := hr.finTaskOk a hmem
  obtain ⟨ri0, hl⟩ := Option.isSome_iff_exists.1 (hr.task_registered (by rw [ht]; rfl))
  have hb := hr.taskOk a t ht
  have htask : s.task a = t := task_of_lookup ht
  have hk : ri0.key = a := hr.keyOk a ri0 hl
  -- (i)
  have hr1 := hr.setCompleteS2 hlast ht hl
  have hh1 : (finS1 s (finRule1 s ri0)).halted = false := hh
  obtain ⟨toks1, ms2, he1, hrun1, hr2, hms2⟩ :=
    Rel.emit_list [.S a 2] (finS1 s (finRule1 s ri0)) ⟨m, none⟩ ⟨m, some a⟩ hh1
      (by intro x hx; simp at hx; subst hx; rfl) (by simp [trun, tstep_S2]) hr1
  simp only [emitAll_cons, emitAll_nil] at he1 hr2
  have hp2 : ms2.pend = some a := by rcases hms2 with e | e <;> rw [e] <;> rfl
  have htg2 : ms2.m.target = m.target := by rcases hms2 with e | e <;> rw [e] <;> rfl
  have hh2 : (emit (.S a 2) (finS1 s (finRule1 s ri0))).halted = false := by rw [emit_halted_eq]; exact hh1
  have hdb2 : (emit (.S a 2) (finS1 s (finRule1 s ri0))).hasDB = true := by rw [emit_hasDB]; exact hr.hasDB
  have ht2 : (emit (.S a 2) (finS1 s (finRule1 s ri0))).taskInfos.lookup a = some t := by rw [emit_taskInfos]; exact ht
  have hl2 : (emit (.S a 2) (finS1 s (finRule1 s ri0))).ruleInfos.lookup a = some (finRule1 s ri0) := by
    rw [emit_ruleInfos, finS1_lookup]; simp [show (finRule1 s ri0).key = a from hk]
  -- (ii)
  obtain ⟨toks2, ms4, he2, hrun2, hr4, hp4⟩ :=
    Rel.pushDiscovered (a := a) (t := t) t.discoveredDependencies _ ms2 hr2 hh2 hp2 ht2 (fun _ h => h)
  obtain ⟨fr, hdum⟩ := pushDiscovered_frame t.discoveredDependencies _ hdb2 hh2
  obtain ⟨m4, pend4⟩ := ms4
  simp only at hp4; subst hp4
  have ht4 := fr.taskInfos ▸ ht2
  have hl4 := fr.keep a _ hl2
  have htg4 : m4.target = ms2.m.target := by
    obtain ⟨toks2', he2', hlgx⟩ := fr.toks
    have := emits_inj he2 he2'
    subst this
    exact trun_LGX_target toks2 ms2 _ hlgx hrun2
  -- (iii), (iv)
  have hguard := finished_guard hr4 ht4 hl4
  have hr5 := hr4.finishedWake ht4 hl4 (fun d hd => ⟨dummyOf d, hdum d hd, rfl, rfl⟩)
  have hh5 : (finState a t (finRule2 (finRule1 s ri0) t)
      (pushDiscovered t.discoveredDependencies (emit (.S a 2) (finS1 s (finRule1 s ri0))))).halted = false := by
    show (pushDiscovered _ _).halted = false
    rw [fr.halted]; exact hh2
  obtain ⟨toks3, ms5, he3, hrun3, hr6, hms5⟩ :=
    Rel.emit_list [.DS a (finRule2 (finRule1 s ri0) t).result] _ ⟨m4, some a⟩ _ hh5
      (by intro x hx; simp at hx; subst hx; rfl) (by simp [trun, tstep_DS hguard]) hr5
  simp only [emitAll_cons, emitAll_nil] at he3 hr6
  -- the function is that composition
  have heq : (finishedTaskWrite a { s with finishedTaskInfos := s.finishedTaskInfos.dropLast }).1 = true ∧
      finishedTaskWake a t (finishedTaskWrite a { s with finishedTaskInfos := s.finishedTaskInfos.dropLast }).2 =
        emit (.DS a (finRule2 (finRule1 s ri0) t).result) (finState a t (finRule2 (finRule1 s ri0) t)
          (pushDiscovered t.discoveredDependencies (emit (.S a 2) (finS1 s (finRule1 s ri0))))) :=
    finishedTaskStep_eq a { s with finishedTaskInfos := s.finishedTaskInfos.dropLast } ri0 t htask hb.forRule hl hk
      hr.hasDB hh hr4.noFail
  rw [htask, heq.2]
  refine ⟨heq.1, ?_, toks1 ++ toks2 ++ toks3, ms5, ?_, ?_, hr6, ?_, ?_, ?_, ?_⟩
  · rw [emit_halted_eq]; exact hh5
  · have he1' : Emits s toks1 (emit (.S a 2) (finS1 s (finRule1 s ri0))) := he1
    have he3' : Emits (pushDiscovered t.discoveredDependencies (emit (.S a 2) (finS1 s (finRule1 s ri0)))) toks3
        (emit (.DS a (finRule2 (finRule1 s ri0) t).result) (finState a t (finRule2 (finRule1 s ri0) t)
          (pushDiscovered t.discoveredDependencies (emit (.S a 2) (finS1 s (finRule1 s ri0)))))) := he3
    exact (he1'.trans he2).trans he3'
  · exact trun_append_some (trun_append_some hrun1 hrun2) hrun3
  · rcases hms5 with e | e <;> rw [e] <;> rfl
  · intro k hk'
    obtain ⟨rk, hrk⟩ := Option.isSome_iff_exists.1 hk'
    unfold Registered
    rw [emit_ruleInfos]
    show ((alSet _ _ _).lookup k).isSome = true
    rw [lookup_alSet]
    by_cases e : k = (finRule2 (finRule1 s ri0) t).key
    · simp [e]
    · simp only [e, if_false]
      have h1 : (emit (.S a 2) (finS1 s (finRule1 s ri0))).ruleInfos.lookup k = some rk := by
        rw [emit_ruleInfos, finS1_lookup]
        have : k ≠ (finRule1 s ri0).key := e
        simp [this, hrk]
      rw [fr.keep k rk h1]; rfl
  · have : ms5.m.target = m4.target := by rcases hms5 with e | e <;> rw [e] <;> rfl
    rw [this, htg4, htg2]
  · intro k rk hlk
    rw [emit_ruleInfos] at hlk
    replace hlk : (alSet _ (finRule2 (finRule1 s ri0) t).key (finRule2 (finRule1 s ri0) t)).lookup k = some rk := hlk
    rw [lookup_alSet] at hlk
    by_cases e : k = (finRule2 (finRule1 s ri0) t).key
    · simp [e] at hlk; subst hlk
      have : (finRule2 (finRule1 s ri0) t).state = .complete := rfl
      rw [this]; exact ⟨(by intro x; cases x), (by intro x; cases x)⟩
    · simp only [e, if_false] at hlk
      rcases fr.new k rk hlk with h1 | h1
      · rw [emit_ruleInfos, finS1_lookup] at h1
        have : k ≠ (finRule1 s ri0).key := e
        simp only [this, if_false] at h1
        exact hnm k rk h1
      · rw [h1]; exact ⟨(by intro x; cases x), (by intro x; cases x)⟩

/-- **`Todo_finishedTaskStep`** -/
theorem finishedTaskStep_sim : Todo_finishedTaskStep := by
  intro rules _ s ms a hr hp hh hlast hnm
  obtain ⟨h1, _, toks, ms', he, hrun, hrel, hp', hreg, htg, hnm'⟩ := finishedTaskStep_strong s ms a hr hp hh hlast hnm
  exact ⟨h1, fun _ => ⟨toks, ms', he, hrun, hrel, hp', hreg, htg, hnm'⟩⟩

/-! ## the loop -/

/-- **`Todo_finishedTasksLoop`**: induction on the fuel; every write succeeds, so the first component is `false` -/
theorem finishedTasksLoop_sim : Todo_finishedTasksLoop := by
  intro rules _ fuel
  induction fuel with
  | zero =>
    intro w s ms _ _ _ _
    refine ⟨rfl, fun hnh => ?_⟩
    have : (finishedTasksLoop 0 w s).2.2.halted = true := halt_halted .FUEL s
    rw [this] at hnh; cases hnh
  | succ n ih =>
    intro w s ms hr hp hh hnm
    rw [finishedTasksLoop_succ]
    cases hlast : s.finishedTaskInfos.getLast? with
    | none =>
      simp only
      refine ⟨trivial, fun _ => ⟨[], ms, Emits.refl s, rfl, hr, hp, fun _ h => h, rfl, ?_, hnm⟩⟩
      exact List.getLast?_eq_none_iff.1 hlast
    | some a =>
      simp only
      obtain ⟨h1, h2, toks, ms', he, hrun, hrel, hp', hreg, htg, hnm'⟩ :=
        finishedTaskStep_strong s ms a hr hp hh hlast hnm
      rw [h1]
      simp only [Bool.not_true, Bool.false_eq_true, if_false]
      obtain ⟨i1, i2⟩ := ih true _ ms' hrel hp' h2 hnm'
      refine ⟨i1, fun hfin => ?_⟩
      obtain ⟨toks2, ms'', he2, hrun2, hrel2, hp2, hreg2, htg2, hpost⟩ := i2 hfin
      exact ⟨toks ++ toks2, ms'', he.trans he2, trun_append_some hrun hrun2, hrel2, hp2,
        fun k hk => hreg2 k (hreg k hk), htg2.trans htg, hpost⟩

/-! ## wave 2: the loop-level facts `Aux` (`Spec.lean`) -/

/-- `Aux` does not read the recorder -/
theorem Aux.same {key : Key} {s s' : State} {h : Hand} (hs : SameEngine s s') (ha : Aux key s h) : Aux key s' h := by
  refine { readyZero := ?_, rootSeen := ?_ }
  · intro a t h1 h2 h3
    rw [hs.taskInfos] at h1; rw [rule_same hs] at h2; rw [hs.readyTaskInfos]
    exact ha.readyZero a t h1 h2 h3
  · have e : statusOf s' none key = statusOf s none key := by unfold statusOf; rw [hs.ruleInfos, hs.currentEpoch]
    rw [e, hs.inputRequests]; exact ha.rootSeen

/-- the state after the body of `finishedTasksLoop`, explicitly: ONE `DS` recorded on top of `finState` of the state
after `S a 2` and the dummies -/
theorem finishedTaskStep_shape {rules : List RuleSpec} (s : State) (ms : MSt) (a : Key)
    (hr : Rel rules s ms {}) (hh : s.halted = false) (hlast : s.finishedTaskInfos.getLast? = some a) :
    ∃ t ri0, s.taskInfos.lookup a = some t ∧ s.ruleInfos.lookup a = some ri0 ∧ ri0.key = a ∧
      PushFrame (emit (.S a 2) (finS1 s (finRule1 s ri0)))
        (pushDiscovered t.discoveredDependencies (emit (.S a 2) (finS1 s (finRule1 s ri0)))) ∧
      finishedTaskWake a (s.task a) (finishedTaskWrite a { s with finishedTaskInfos := s.finishedTaskInfos.dropLast }).2 =
        emit (.DS a (finRule2 (finRule1 s ri0) t).result) (finState a t (finRule2 (finRule1 s ri0) t)
          (pushDiscovered t.discoveredDependencies (emit (.S a 2) (finS1 s (finRule1 s ri0))))) := by
  have hmem : a ∈ s.finishedTaskInfos := List.mem_of_getLast? hlast
  obtain ⟨t, ht, _, _⟩ := hr.finTaskOk a hmem
  obtain ⟨ri0, hl⟩ := Option.isSome_iff_exists.1 (hr.task_registered (by rw [ht]; rfl))
  have hb := hr.taskOk a t ht
  have htask : s.task a = t := task_of_lookup ht
  have hk : ri0.key = a := hr.keyOk a ri0 hl
  have hh2 : (emit (.S a 2) (finS1 s (finRule1 s ri0))).halted = false := by rw [emit_halted_eq]; exact hh
  have hdb2 : (emit (.S a 2) (finS1 s (finRule1 s ri0))).hasDB = true := by rw [emit_hasDB]; exact hr.hasDB
  obtain ⟨fr, _⟩ := pushDiscovered_frame t.discoveredDependencies _ hdb2 hh2
  have hnf : (pushDiscovered t.discoveredDependencies (emit (.S a 2) (finS1 s (finRule1 s ri0)))).store.failNextSet = false := by
    rw [fr.store, emit_store]; exact hr.noFail
  have heq : (finishedTaskWrite a { s with finishedTaskInfos := s.finishedTaskInfos.dropLast }).1 = true ∧
      finishedTaskWake a t (finishedTaskWrite a { s with finishedTaskInfos := s.finishedTaskInfos.dropLast }).2 =
        emit (.DS a (finRule2 (finRule1 s ri0) t).result) (finState a t (finRule2 (finRule1 s ri0) t)
          (pushDiscovered t.discoveredDependencies (emit (.S a 2) (finS1 s (finRule1 s ri0))))) :=
    finishedTaskStep_eq a { s with finishedTaskInfos := s.finishedTaskInfos.dropLast } ri0 t htask hb.forRule hl hk
      hr.hasDB hh hnf
  exact ⟨t, ri0, ht, hl, hk, fr, by rw [htask]; exact heq.2⟩

/-- **`Aux` across the body of `finishedTasksLoop`** -/
theorem finishedTaskStep_aux {rules : List RuleSpec} {key : Key} {s : State} {ms : MSt} {a : Key}
    (_hok : RulesOk rules) (hr : Rel rules s ms {}) (_hp : ms.pend = none) (hh : s.halted = false)
    (hlast : s.finishedTaskInfos.getLast? = some a) (_hnm : NoMid s) (ha : Aux key s {}) :
    Aux key (finishedTaskWake a (s.task a) (finishedTaskWrite a { s with finishedTaskInfos := s.finishedTaskInfos.dropLast }).2) {} := by
  obtain ⟨t, ri0, ht, hl, hk, fr, heq⟩ := finishedTaskStep_shape s ms a hr hh hlast
  rw [heq]
  refine Aux.same (emit_same _ _) ?_
  have hk2 : (finRule2 (finRule1 s ri0) t).key = a := hk
  have hk1 : (finRule1 s ri0).key = a := hk
  have hlk : ∀ k, (finState a t (finRule2 (finRule1 s ri0) t)
      (pushDiscovered t.discoveredDependencies (emit (.S a 2) (finS1 s (finRule1 s ri0))))).ruleInfos.lookup k =
      if k = a then some (finRule2 (finRule1 s ri0) t)
      else (pushDiscovered t.discoveredDependencies (emit (.S a 2) (finS1 s (finRule1 s ri0)))).ruleInfos.lookup k := by
    intro k
    show (alSet _ _ _).lookup k = _
    rw [lookup_alSet, hk2]
  have hkeep : ∀ k rk, k ≠ a → s.ruleInfos.lookup k = some rk →
      (pushDiscovered t.discoveredDependencies (emit (.S a 2) (finS1 s (finRule1 s ri0)))).ruleInfos.lookup k = some rk := by
    intro k rk hne h1
    apply fr.keep
    rw [emit_ruleInfos, finS1_lookup, hk1]
    simp [hne, h1]
  have hepoch : (finState a t (finRule2 (finRule1 s ri0) t)
      (pushDiscovered t.discoveredDependencies (emit (.S a 2) (finS1 s (finRule1 s ri0))))).currentEpoch = s.currentEpoch := by
    show (pushDiscovered _ _).currentEpoch = _
    rw [fr.currentEpoch, emit_currentEpoch]; rfl
  refine { readyZero := ?_, rootSeen := ?_ }
  · intro b tb h1 h2 h3
    replace h1 : (alErase (pushDiscovered t.discoveredDependencies (emit (.S a 2) (finS1 s (finRule1 s ri0)))).taskInfos a).lookup b = some tb := h1
    rw [fr.taskInfos, emit_taskInfos, lookup_alErase] at h1
    have hne : b ≠ a := by intro e; simp [e] at h1
    simp only [hne, if_false] at h1
    replace h1 : s.taskInfos.lookup b = some tb := h1
    obtain ⟨rb, hrb⟩ := Option.isSome_iff_exists.1 (hr.task_registered (by rw [h1]; rfl))
    have hruleb : (finState a t (finRule2 (finRule1 s ri0) t)
        (pushDiscovered t.discoveredDependencies (emit (.S a 2) (finS1 s (finRule1 s ri0))))).rule b = s.rule b := by
      unfold State.rule
      rw [hlk, if_neg hne, hkeep b rb hne hrb, hrb]
    rw [hruleb] at h2
    show b ∈ (pushDiscovered _ _).readyTaskInfos ∨ _
    rw [fr.ready, emit_readyTaskInfos]
    exact ha.readyZero b tb h1 h2 h3
  · rcases ha.rootSeen with h1 | ⟨r, h1, h2⟩
    · left
      cases hlk' : s.ruleInfos.lookup key with
      | none => exfalso; apply h1; unfold statusOf; rw [hlk']
      | some rk =>
        by_cases e : key = a
        · subst e
          unfold statusOf
          rw [hlk, if_pos rfl, hepoch]
          have h3 : (finRule2 (finRule1 s ri0) t).state = .complete := rfl
          have h4 : (finRule2 (finRule1 s ri0) t).result.builtAt = s.currentEpoch := rfl
          simp [h3, h4]
        · have : statusOf (finState a t (finRule2 (finRule1 s ri0) t)
              (pushDiscovered t.discoveredDependencies (emit (.S a 2) (finS1 s (finRule1 s ri0))))) none key =
              statusOf s none key := by
            unfold statusOf
            rw [hlk, if_neg e, hkeep key rk e hlk', hlk', hepoch]
          rw [this]; exact h1
    · right
      refine ⟨r, ?_, h2⟩
      simp only [List.nil_append] at h1 ⊢
      show r ∈ (pushDiscovered _ _).inputRequests
      apply fr.inputs
      rw [emit_inputRequests]; exact h1

/-- **`Aux` across `finishedTasksLoop`** -/
theorem finishedTasksLoop_aux {rules : List RuleSpec} {key : Key} (hok : RulesOk rules) :
    ∀ (fuel : Nat) (w : Bool) (s : State) (ms : MSt),
      Rel rules s ms {} → ms.pend = none → s.halted = false → NoMid s → Aux key s {} →
      Aux key (finishedTasksLoop fuel w s).2.2 {}
  | 0, w, s, _, _, _, _, _, ha => by
    show Aux key (halt .FUEL s) {}
    exact Aux.same (halt_same _ _) ha
  | n + 1, w, s, ms, hr, hp, hh, hnm, ha => by
    rw [finishedTasksLoop_succ]
    cases hlast : s.finishedTaskInfos.getLast? with
    | none => exact ha
    | some a =>
      simp only
      obtain ⟨h1, h2, _, ms', _, _, hrel, hp', _, _, hnm'⟩ := finishedTaskStep_strong s ms a hr hp hh hlast hnm
      rw [h1]
      simp only [Bool.not_true, Bool.false_eq_true, if_false]
      exact finishedTasksLoop_aux hok n true _ ms' hrel hp' h2 hnm' (finishedTaskStep_aux hok hr hp hh hlast hnm ha)

end LLBuild.Refine
