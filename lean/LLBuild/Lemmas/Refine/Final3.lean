/-
IM4 — free-running completion threads and cancellation at item granularity: the END RESULTS (design and the reduction
argument from instruction-level interleavings: notes/REFINE.md §9; definitions: `Async0.lean`).
For EVERY asynchronous schedule `a` (what other threads do at the successive item boundaries: parked tasks complete,
`cancelBuild()` is called):
* `runBuildA_sim` / `runBuildA_refines`: a build that does not halt is accepted by the monitor and ends in `RelIdle`;
* `build_terminates_async` / `build_noBad_async`: under the size condition of IM3 it does not halt (no `FUEL`/`BAD _`);
* `refinement_final_async`: histories of ops with asynchronous builds, from a fresh harness, under `histSizedA`;
* `runBuildA_nil` (AsyncLoop.lean): with the empty schedule `runBuildA` IS `runBuild`, so `refinement_final_async`
  specialises to `refinement_final_sized` (`refinement_final_sized_of_async`).
-/
import LLBuild.Lemmas.Refine.AsyncLoop

namespace LLBuild.Refine
open LLBuild.Engine LLBuild.Engine.DSL LLBuild.EngineImpl

/-! ## 1. one asynchronous build: refinement -/

/-- `executeTasksA` from the prologue relation (as `executeTasks_sim`, Main.lean) -/
theorem executeTasksA_sim {rules : List RuleSpec} (hloop : WorkLoopSpecA rules) {key : Key} (a : Async) {s : State}
    {m : Engine.St} (hr : RelPre rules key true s m) (hfin : s.finishedInputRequests = []) (hh : s.halted = false)
    (hnh : (executeTasksA key a s).2.2.halted = false) :
    ∃ toks m', Emits s toks (executeTasksA key a s).2.2 ∧ trun (program rules) ⟨m, none⟩ toks = some ⟨m', none⟩ ∧
      RelPost rules key (executeTasksA key a s).2.2 m' (executeTasksA key a s).1 ∧ m'.started = true := by
  have hs0 : ({ s with finishedInputRequests := [] } : State) = s := by
    cases s; simp at hfin; simp [hfin]
  unfold executeTasksA at hnh ⊢
  simp only [hs0] at hnh ⊢
  obtain ⟨toks1, m1, he1, hrun1, hr1, hreg1, hh1⟩ := hr.getRule hh key
  have hrel := Rel.entry hr1
  have hrel2 := hrel.pushDummy { taskInfo := none, inputID := 0, inputRuleInfo := key } rfl hreg1 rfl
    (Or.inr (Or.inl hr1.target))
  have hnm : NoMid (pushInput { taskInfo := none, inputID := 0, inputRuleInfo := key } (getRuleInfoForKey key s)) := by
    intro k ri hl
    rcases hr1.states k ri hl with e | e <;> rw [e] <;> exact ⟨by decide, by decide⟩
  have haux : Aux key (pushInput { taskInfo := none, inputID := 0, inputRuleInfo := key } (getRuleInfoForKey key s)) {} :=
    { readyZero := fun a t hl => (by
        have : (getRuleInfoForKey key s).taskInfos.lookup a = some t := hl
        rw [hr1.noTasks] at this; cases this),
      rootSeen := Or.inr ⟨{ taskInfo := none, inputID := 0, inputRuleInfo := key }, by simp [pushInput], rfl⟩ }
  obtain ⟨toks2, m2, he2, hrun2, hpost, hst⟩ :=
    hloop key loopFuel a _ _ hrel2 hnm rfl hr1.target hreg1 hh1
      (fun p hp => by rw [hr1.noPending] at hp; cases hp)
      (fun a q hd => by rw [hr1.noSeq a] at hd; simp [delivered] at hd)
      haux hnh
  exact ⟨toks1 ++ toks2, m2, he1.trans he2, trun_append_some hrun1 hrun2, hpost, hst⟩

theorem buildWorkA_halted (key : Key) (a : Async) (s : State) :
    (buildWorkA key a s).2.halted =
      (executeTasksA key a { emit .QC s with currentEpoch := (emit .QC s).currentEpoch + 1 }).2.2.halted := by
  unfold buildWorkA; rw [buildTail_halted]

theorem buildWorkA_sim {rules : List RuleSpec} (hloop : WorkLoopSpecA rules) {key : Key} (a : Async) {s : State}
    {m : Engine.St} (hr : RelPre rules key false s m) (hh : s.halted = false)
    (hnh : (buildWorkA key a s).2.halted = false) :
    ∃ toks m' b, Emits s toks (buildWorkA key a s).2 ∧ trun (program rules) ⟨m, none⟩ toks = some ⟨m', none⟩ ∧
      PostOk rules key (buildWorkA key a s) m' b := by
  rw [buildWorkA_halted] at hnh
  obtain ⟨m2, hstep2, hr2⟩ := prologue_QC hr hh
  have hsQ : ({ emit .QC s with currentEpoch := (emit .QC s).currentEpoch + 1 } : State) =
      { emit .QC s with currentEpoch := (emit .QC s).currentEpoch + 1, finishedInputRequests := [] } := by
    have : (emit .QC s).finishedInputRequests = [] := by simp [hr.noFinQ]
    rw [← this]
  unfold buildWorkA
  rw [hsQ] at hnh ⊢
  have heQ : Emits s [.QC]
      { emit .QC s with currentEpoch := (emit .QC s).currentEpoch + 1, finishedInputRequests := [] } := by
    rw [emit_QC _ hh]; simp [Emits]
  have hhQ : ({ emit .QC s with currentEpoch := (emit .QC s).currentEpoch + 1, finishedInputRequests := [] } : State).halted = false := by
    show (emit .QC s).halted = false
    simp [hh]
  obtain ⟨toks3, m3, he3, hrun3, hpost, hst3⟩ := executeTasksA_sim hloop a hr2 rfl hhQ hnh
  obtain ⟨toks4, m4, he4, hrun4, b, hp⟩ := buildTail_sim (key := key)
    (r := ((executeTasksA key a { emit .QC s with currentEpoch := (emit .QC s).currentEpoch + 1, finishedInputRequests := [] }).1,
           (executeTasksA key a { emit .QC s with currentEpoch := (emit .QC s).currentEpoch + 1, finishedInputRequests := [] }).2.2))
    hpost hst3 hnh
  refine ⟨[.QC] ++ toks3 ++ toks4, m4, b, (heQ.trans he3).trans he4, ?_, hp⟩
  refine trun_append_some (trun_append_some ?_ hrun3) hrun4
  exact trun_single (tstep_ev (by rfl) (by rfl) hstep2)

theorem buildPreA_sim {rules : List RuleSpec} (hloop : WorkLoopSpecA rules) {key : Key} (a : Async) {s : State}
    {m : Engine.St} (hr : RelPre rules key false s m) (hh : s.halted = false)
    (hnh : (buildPreA key a s).2.halted = false) :
    ∃ toks m' b, Emits s toks (buildPreA key a s).2 ∧ trun (program rules) ⟨m, none⟩ toks = some ⟨m', none⟩ ∧
      PostOk rules key (buildPreA key a s) m' b := by
  unfold buildPreA at hnh ⊢
  simp only [hr.hasDB, if_true] at hnh ⊢
  obtain ⟨toks1, m1, he1, hrun1, hr1, hh1⟩ := prologue_DB hr hh
  by_cases hc : (emit .DB s).buildCancelled = true
  · simp only [hc, if_true] at hnh ⊢
    exact ⟨toks1, m1, false, he1, hrun1,
      { post := hr1.toPost hc, iter := Or.inl hr1.startedEq, iterEq := hr1.iterEq rfl,
        valOk := fun h => (by cases h), valFail := fun _ => rfl }⟩
  · simp only [hc, Bool.false_eq_true, if_false] at hnh ⊢
    obtain ⟨toks2, m2, b, he2, hrun2, hp⟩ := buildWorkA_sim hloop a hr1 hh1 hnh
    exact ⟨toks1 ++ toks2, m2, b, he1.trans he2, trun_append_some hrun1 hrun2, hp⟩

theorem runBuildA_pre_halted (key cancelAt : Nat) (sched : List SchedItem) (a : Async) (s : State) :
    (runBuildA key cancelAt sched a s).halted =
      (buildPreA key a (emit (.B key) (buildInit cancelAt sched s))).2.halted := by
  unfold runBuildA closeOf finishDB
  rw [emit_halted_eq, emit_halted_eq]
  simp only []
  split
  · rw [emit_halted_eq]
  · rfl

theorem runBuildA_eq (key cancelAt : Nat) (sched : List SchedItem) (a : Async) (s : State)
    (hdb : (buildPreA key a (emit (.B key) (buildInit cancelAt sched s))).2.hasDB = true) :
    runBuildA key cancelAt sched a s =
      closeBuild (buildPreA key a (emit (.B key) (buildInit cancelAt sched s))).1
        (buildPreA key a (emit (.B key) (buildInit cancelAt sched s))).2 := by
  unfold runBuildA
  have : finishDB (buildPreA key a (emit (.B key) (buildInit cancelAt sched s))).2 =
      emit .DE (buildPreA key a (emit (.B key) (buildInit cancelAt sched s))).2 := by
    unfold finishDB; rw [if_pos hdb]
  simp only [this]
  rfl

/-- **Refinement for one asynchronous build**: from `RelIdle`, a `runBuildA` that does not halt emits a token trace the
token monitor accepts, and ends in `RelIdle` — whatever the other threads did at the item boundaries. -/
theorem runBuildA_sim {rules : List RuleSpec} (hloop : WorkLoopSpecA rules) {s : State} {m : Engine.St}
    (hr : RelIdle rules s m) (key cancelAt : Nat) (sched : List SchedItem) (a : Async)
    (hnh : (runBuildA key cancelAt sched a s).halted = false) :
    ∃ m', trun (program rules) ⟨m, none⟩ (runBuildA key cancelAt sched a s).trace.reverse = some ⟨m', none⟩ ∧
      RelIdle rules (runBuildA key cancelAt sched a s) m' := by
  obtain ⟨toks1, m1, he1, hrun1, hr1, hh1⟩ := prologue_B hr key cancelAt sched
  have hnhP : (buildPreA key a (emit (.B key) (buildInit cancelAt sched s))).2.halted = false := by
    rw [← runBuildA_pre_halted]; exact hnh
  obtain ⟨toks2, m2, b, he2, hrun2, hp⟩ := buildPreA_sim hloop a hr1 hh1 hnhP
  have hdb : (buildPreA key a (emit (.B key) (buildInit cancelAt sched s))).2.hasDB = true := hp.post.base.hasDB
  rw [runBuildA_eq key cancelAt sched a s hdb]
  obtain ⟨toks3, m3, he3, hrun3, hidle⟩ := epilogue_close hp.post hnhP hp.iter hp.iterEq hp.valOk hp.valFail
  refine ⟨m3, ?_, hidle⟩
  have hem := (he1.trans he2).trans he3
  unfold Emits at hem
  unfold closeBuild
  rw [hem]
  simp only [buildInit, List.append_nil, List.reverse_reverse]
  exact trun_append_some (trun_append_some hrun1 hrun2) hrun3

/-- … in the monitor's own vocabulary -/
theorem runBuildA_refines {rules : List RuleSpec} (hok : RulesOk rules) {s : State} {m : Engine.St}
    (hr : RelIdle rules s m) (key cancelAt : Nat) (sched : List SchedItem) (a : Async)
    (hnh : (runBuildA key cancelAt sched a s).halted = false) :
    ∃ evs m', toEvents (runBuildA key cancelAt sched a s).trace.reverse = some evs ∧
      run (program rules) m evs = some m' ∧ RelIdle rules (runBuildA key cancelAt sched a s) m' := by
  obtain ⟨m', h1, h2⟩ := runBuildA_sim (workLoopA_final rules hok) hr key cancelAt sched a hnh
  obtain ⟨evs, h3, h4⟩ := trun_toEvents h1
  exact ⟨evs, m', h3, h4, h2⟩

/-! ## 2. one asynchronous build: termination -/

theorem executeTasksA_nohalt {rules : List RuleSpec} (hok : RulesOk rules) {key : Key} (a : Async) {s : State}
    {m : Engine.St} (hr : RelPre rules key true s m) (hd : DiscM (program rules) m)
    (hfin : s.finishedInputRequests = []) (hh : s.halted = false) (hsize : workBound rules s key + 2 < scanFuel) :
    (executeTasksA key a s).2.2.halted = false := by
  have hs0 : ({ s with finishedInputRequests := [] } : State) = s := by
    cases s; simp at hfin; simp [hfin]
  unfold executeTasksA
  simp only [hs0]
  obtain ⟨toks1, m1, he1, hrun1, hr1, hreg1, hh1⟩ := hr.getRule hh key
  have hrel := Rel.entry hr1
  have hrel2 := hrel.pushDummy { taskInfo := none, inputID := 0, inputRuleInfo := key } rfl hreg1 rfl
    (Or.inr (Or.inl hr1.target))
  have hnm : NoMid (pushInput { taskInfo := none, inputID := 0, inputRuleInfo := key } (getRuleInfoForKey key s)) := by
    intro k ri hl
    rcases hr1.states k ri hl with e | e <;> rw [e] <;> exact ⟨by decide, by decide⟩
  have haux : Aux key (pushInput { taskInfo := none, inputID := 0, inputRuleInfo := key } (getRuleInfoForKey key s)) {} :=
    { readyZero := fun a t hl => (by
        have : (getRuleInfoForKey key s).taskInfos.lookup a = some t := hl
        rw [hr1.noTasks] at this; cases this),
      rootSeen := Or.inr ⟨{ taskInfo := none, inputID := 0, inputRuleInfo := key }, by simp [pushInput], rfl⟩ }
  obtain ⟨hU, hPhi⟩ := entry_term (rules := rules) key hr.toQuiet hr.rulesNodup hr.hasDB
    { taskInfo := none, inputID := 0, inputRuleInfo := key } rfl
  have hlen := keyUniverse_length_le_workBound rules s key
  have hsf := scanFuel_eq
  have hlf := loopFuel_eq
  exact executeLoopA_nohalt hok (U := keyUniverse rules s key) (by omega) loopFuel a
    (pushInput { taskInfo := none, inputID := 0, inputRuleInfo := key } (getRuleInfoForKey key s)) ⟨m1, none⟩
    ⟨hrel2, rfl, hr1.target, hreg1, fun p hp => (by rw [hr1.noPending] at hp; cases hp),
      fun a q hdl => (by rw [hr1.noSeq a] at hdl; simp [delivered] at hdl)⟩
    hnm haux (trun_discM hrun1 hd) hU hh1 (by omega) (by omega) (by omega)

theorem buildPreA_nohalt {rules : List RuleSpec} (hok : RulesOk rules) {key : Key} (a : Async) {s : State}
    {m : Engine.St} (hr : RelPre rules key false s m) (hd : DiscM (program rules) m) (hh : s.halted = false)
    (hsize : workBound rules s key + 2 < scanFuel) : (buildPreA key a s).2.halted = false := by
  unfold buildPreA
  simp only [hr.hasDB, if_true]
  obtain ⟨toks1, m1, he1, hrun1, hr1, hh1⟩ := prologue_DB hr hh
  have hd1 : DiscM (program rules) m1 := trun_discM hrun1 hd
  have hri : (emit .DB s).ruleInfos = s.ruleInfos := (emit_same .DB s).ruleInfos
  have hsto : (emit .DB s).store = s.store := (emit_same .DB s).store
  generalize emit .DB s = sD at hr1 hh1 hri hsto ⊢
  by_cases hc : sD.buildCancelled = true
  · simp only [hc, if_true]; exact hh1
  · simp only [hc, Bool.false_eq_true, if_false]
    rw [buildWorkA_halted]
    obtain ⟨m2, hstep2, hr2⟩ := prologue_QC hr1 hh1
    have hd2 : DiscM (program rules) m2 := step_discM _ _ _ _ hstep2 hd1
    have hri2 : (emit .QC sD).ruleInfos = s.ruleInfos := ((emit_same .QC sD).ruleInfos).trans hri
    have hsto2 : (emit .QC sD).store = s.store := ((emit_same .QC sD).store).trans hsto
    have hfq : (emit .QC sD).finishedInputRequests = [] := by
      rw [(emit_same .QC sD).finishedInputRequests]; exact hr1.noFinQ
    have hhQ : (emit .QC sD).halted = false := by rw [emit_halted_eq]; exact hh1
    generalize emit .QC sD = sQ at hr2 hri2 hsto2 hfq hhQ ⊢
    have hsQ : ({ sQ with currentEpoch := sQ.currentEpoch + 1 } : State) =
        { sQ with currentEpoch := sQ.currentEpoch + 1, finishedInputRequests := [] } := by
      rw [← hfq]
    rw [hsQ]
    refine executeTasksA_nohalt hok a hr2 hd2 rfl hhQ ?_
    rw [workBound_congr rules (s := s) (s' := { sQ with currentEpoch := sQ.currentEpoch + 1, finishedInputRequests := [] })
      key hri2 hsto2]
    exact hsize

/-- **IM4 + IM3: an asynchronous build terminates without `FUEL` / `BAD _`**, for every schedule of completions and
cancellations at item boundaries, under the size condition of `build_terminates`. -/
theorem build_terminates_async {rules : List RuleSpec} (hok : RulesOk rules) {s : State} {m : Engine.St}
    (hr : RelIdle rules s m) (key cancelAt : Nat) (sched : List SchedItem) (a : Async)
    (hsize : workBound rules s key + 2 < scanFuel) : (runBuildA key cancelAt sched a s).halted = false := by
  obtain ⟨toks1, m1, he1, hrun1, hr1, hh1⟩ := prologue_B hr key cancelAt sched
  have hd1 : DiscM (program rules) m1 := by
    have htoks : toks1 = (emit (.B key) (buildInit cancelAt sched s)).trace.reverse := by
      unfold Emits at he1
      rw [he1]; simp [buildInit]
    have hB : ∃ rest, toks1 = .B key :: rest := by
      rcases emit_spec (.B key) (buildInit cancelAt sched s) rfl with e | ⟨_, e⟩
      · exact ⟨[], by rw [htoks, e]; simp [buildInit]⟩
      · exact ⟨[.X], by rw [htoks, e]; simp [buildInit]⟩
    obtain ⟨rest, hrest⟩ := hB
    rw [hrest] at hrun1
    exact trun_B_discM hrun1
  rw [runBuildA_pre_halted]
  refine buildPreA_nohalt hok a hr1 hd1 hh1 ?_
  rw [workBound_congr rules (s := s) (s' := emit (.B key) (buildInit cancelAt sched s)) key
    (emit_same (.B key) _).ruleInfos (emit_same (.B key) _).store]
  exact hsize

/-- … so its printed trace contains no `FUEL` / `BAD _` token -/
theorem build_noBad_async {rules : List RuleSpec} (hok : RulesOk rules) {s : State} {m : Engine.St}
    (hr : RelIdle rules s m) (key cancelAt : Nat) (sched : List SchedItem) (a : Async)
    (hsize : workBound rules s key + 2 < scanFuel) : NoBad (runBuildA key cancelAt sched a s).trace :=
  (halted_iff_bad_async key cancelAt sched a s).1 (build_terminates_async hok hr key cancelAt sched a hsize)

/-! ## 3. histories with asynchronous builds -/

/-- the ops of `Main.lean` with an asynchronous schedule for every build -/
inductive OpA
  | wipe
  | restart
  | mutate (slot val : Nat)
  | build (key cancelAt : Nat) (sched : List SchedItem) (a : Async)

def runOpA : OpA → State → State
  | .wipe, s => opWipe s
  | .restart, s => opRestart s
  | .mutate a b, s => opMutate a b s
  | .build key cancelAt sched a, s => runBuildA key cancelAt sched a s

def opEventsA : OpA → State → Option (List Event)
  | .wipe, _ => some [.wipe]
  | .restart, _ => some [.restart]
  | .mutate a b, _ => some [.mutate a b]
  | .build key cancelAt sched a, s => toEvents (runBuildA key cancelAt sched a s).trace.reverse

def runOpsA : List OpA → State → State
  | [], s => s
  | op :: ops, s => runOpsA ops (runOpA op s)

def histEventsA : List OpA → State → Option (List Event)
  | [], _ => some []
  | op :: ops, s => do
    let a ← opEventsA op s
    let b ← histEventsA ops (runOpA op s)
    some (a ++ b)

/-- the size condition on a history (as `histSized`, Final2.lean; the schedules are unconstrained) -/
def histSizedA (rules : List RuleSpec) : List OpA → State → Prop
  | [], _ => True
  | op :: ops, s =>
    (match op with
     | .build key _ _ _ => workBound rules s key + 2 < scanFuel
     | _ => True) ∧ histSizedA rules ops (runOpA op s)

theorem refinement_opA {rules : List RuleSpec} (hok : RulesOk rules) {s : State} {m : Engine.St}
    (hr : RelIdle rules s m) (op : OpA) (hs : histSizedA rules [op] s) :
    ∃ evs m', opEventsA op s = some evs ∧ run (program rules) m evs = some m' ∧ RelIdle rules (runOpA op s) m' := by
  cases op with
  | wipe =>
    obtain ⟨m', h1, h2⟩ := hr.wipe (program rules)
    exact ⟨[.wipe], m', rfl, by simp [run, h1], h2⟩
  | restart =>
    obtain ⟨m', h1, h2⟩ := hr.restart (program rules)
    exact ⟨[.restart], m', rfl, by simp [run, h1], h2⟩
  | mutate a b =>
    obtain ⟨m', h1, h2⟩ := hr.mutate (program rules) a b
    exact ⟨[.mutate a b], m', rfl, by simp [run, h1], h2⟩
  | build key cancelAt sched a =>
    exact runBuildA_refines hok hr key cancelAt sched a (build_terminates_async hok hr key cancelAt sched a hs.1)

theorem refinement_historyA {rules : List RuleSpec} (hok : RulesOk rules) :
    ∀ (ops : List OpA) (s : State) (m : Engine.St), RelIdle rules s m → histSizedA rules ops s →
      ∃ evs m', histEventsA ops s = some evs ∧ run (program rules) m evs = some m' ∧ RelIdle rules (runOpsA ops s) m'
  | [], s, m, hr, _ => ⟨[], m, rfl, rfl, hr⟩
  | op :: ops, s, m, hr, hs => by
    obtain ⟨evs1, m1, h1, h2, h3⟩ := refinement_opA hok hr op ⟨hs.1, trivial⟩
    obtain ⟨evs2, m2, h4, h5, h6⟩ := refinement_historyA hok ops (runOpA op s) m1 h3 hs.2
    refine ⟨evs1 ++ evs2, m2, ?_, ?_, h6⟩
    · simp [histEventsA, h1, h4]
    · rw [run_append, h2]; simpa using h5

/-- **IM2 + IM3 + IM4.**  From a fresh harness with program `rules`, any history of ops whose builds satisfy the size
condition — each build with an ARBITRARY schedule of completions and cancellations by other threads at item
boundaries — is accepted by the abstract monitor. -/
theorem refinement_final_async {rules : List RuleSpec} (hok : RulesOk rules) (ops : List OpA)
    (hs : histSizedA rules ops (opProgram rules {})) :
    ∃ evs m', histEventsA ops (opProgram rules {}) = some evs ∧ run (program rules) {} evs = some m' ∧
      RelIdle rules (runOpsA ops (opProgram rules {})) m' :=
  refinement_historyA hok ops _ _ (RelIdle.init rules) hs

/-! ## 4. the empty schedules: the synchronous results are the special case -/

def Op.toA : Op → OpA
  | .wipe => .wipe
  | .restart => .restart
  | .mutate a b => .mutate a b
  | .build key cancelAt sched => .build key cancelAt sched []

theorem runOpA_toA (op : Op) (s : State) : runOpA op.toA s = runOp op s := by
  cases op <;> simp [Op.toA, runOpA, runOp, runBuildA_nil]

theorem opEventsA_toA (op : Op) (s : State) : opEventsA op.toA s = opEvents op s := by
  cases op <;> simp [Op.toA, opEventsA, opEvents, runBuildA_nil]

theorem runOpsA_toA : ∀ (ops : List Op) (s : State), runOpsA (ops.map Op.toA) s = runOps ops s
  | [], _ => rfl
  | op :: ops, s => by
    simp only [List.map_cons, runOpsA, runOps, runOpA_toA]
    exact runOpsA_toA ops _

theorem histEventsA_toA : ∀ (ops : List Op) (s : State), histEventsA (ops.map Op.toA) s = histEvents ops s
  | [], _ => rfl
  | op :: ops, s => by
    simp only [List.map_cons, histEventsA, histEvents, runOpA_toA, opEventsA_toA, histEventsA_toA ops]

theorem histSizedA_toA (rules : List RuleSpec) : ∀ (ops : List Op) (s : State),
    histSizedA rules (ops.map Op.toA) s ↔ histSized rules ops s
  | [], _ => Iff.rfl
  | op :: ops, s => by
    simp only [List.map_cons, histSizedA, histSized, runOpA_toA, histSizedA_toA rules ops]
    cases op <;> simp [Op.toA]

/-- `refinement_final_sized` (Final2.lean) is `refinement_final_async` for empty schedules -/
theorem refinement_final_sized_of_async {rules : List RuleSpec} (hok : RulesOk rules) (ops : List Op)
    (hs : histSized rules ops (opProgram rules {})) :
    ∃ evs m', histEvents ops (opProgram rules {}) = some evs ∧ run (program rules) {} evs = some m' ∧
      RelIdle rules (runOps ops (opProgram rules {})) m' := by
  have h := refinement_final_async hok (ops.map Op.toA) ((histSizedA_toA rules ops _).2 hs)
  rwa [histEventsA_toA, runOpsA_toA] at h

/-! ## 5. non-vacuity: a history with NON-empty asynchronous schedules -/

/-- a deferred input rule `1` (its task parks in `pendingDeferred` until somebody calls `taskIsComplete`) and a derived
rule `3` that requests it -/
def exRulesD : List RuleSpec :=
  [{ key := 1, deferred := 1 }, { key := 3, kind := 1, statics := [⟨1, 7, 0⟩] }]

theorem exRulesD_ok : RulesOk exRulesD := by
  have h : ∀ k, allReqs (specOf exRulesD k) = [] ∨ allReqs (specOf exRulesD k) = [⟨1, 7, 0⟩] := by
    intro k
    unfold specOf exRulesD
    by_cases h1 : k = 1
    · subst h1; left; rfl
    · by_cases h3 : k = 3
      · subst h3; right; rfl
      · left
        have e1 : ((1 : Nat) == k) = false := by simpa using (Ne.symm h1)
        have e3 : ((3 : Nat) == k) = false := by simpa using (Ne.symm h3)
        simp [List.find?, e1, e3, allReqs]
  refine ⟨?_, ?_, ?_⟩
  · intro k q hq; rcases h k with e | e <;> rw [e] at hq <;> simp at hq; subst hq; decide
  · intro k q hq; rcases h k with e | e <;> rw [e] at hq <;> simp at hq; subst hq; decide
  · intro k; rcases h k with e | e <;> rw [e] <;> simp

/-- at every one of the first 40 item boundaries another thread completes task `1` if it is parked -/
def exAsyncComplete : Async := List.replicate 40 { keys := [1] }

/-- another thread cancels the build at the 12th item boundary -/
def exAsyncCancel : Async := List.replicate 11 ({} : SchedItem) ++ [{ cancel := true }]

/-- build `3` with the completion of the deferred task `1` arriving asynchronously; change the input; build again with
an asynchronous cancellation in the middle of the work loop; restart; build with the empty schedule -/
def exOpsA : List OpA :=
  [.mutate 1 55, .build 3 0 [] exAsyncComplete, .mutate 1 56, .build 3 0 [] exAsyncCancel, .restart, .build 3 0 [] []]

theorem exOpsA_sized : histSizedA exRulesD exOpsA (opProgram exRulesD {}) := by
  simp only [exOpsA, histSizedA, runOpA, and_true, true_and]
  refine ⟨by decide, by decide, by decide⟩

/-- the theorem applies -/
example : ∃ evs m', histEventsA exOpsA (opProgram exRulesD {}) = some evs ∧ run (program exRulesD) {} evs = some m' ∧
    RelIdle exRulesD (runOpsA exOpsA (opProgram exRulesD {})) m' :=
  refinement_final_async exRulesD_ok exOpsA exOpsA_sized

/-- the asynchronous cancellation acts: the second build ends cancelled (it reports `X` in the middle of the work loop,
drains the running task and returns `R 0`), whereas the same build with the empty schedule is not cancelled -/
example : (runBuildA 3 0 [] exAsyncCancel (runOpsA [.mutate 1 55, .build 3 0 [] exAsyncComplete, .mutate 1 56]
      (opProgram exRulesD {}))).buildCancelled = true ∧
    (runBuildA 3 0 [] [] (runOpsA [.mutate 1 55, .build 3 0 [] exAsyncComplete, .mutate 1 56]
      (opProgram exRulesD {}))).buildCancelled = false := by
  decide

/-- the state in which the work loop of the first build is entered -/
def exEntry : State :=
  let sQ := emit .QC (emit .DB (emit (.B 3) (buildInit 0 [] (opMutate 1 55 (opProgram exRulesD {})))))
  pushInput { taskInfo := none, inputID := 0, inputRuleInfo := 3 }
    (getRuleInfoForKey 3 { sQ with currentEpoch := sQ.currentEpoch + 1 })

/-- the asynchronous completion acts: the deferred task `1` is completed by the other thread at the item boundary
right after it is parked, so the work loop needs 3 iterations; with the empty schedule it has to go through the
wait branch (`hook 1`) and 3 iterations are not enough (the traces of the two builds are the same tokens) -/
example : (executeLoopA 3 3 exAsyncComplete exEntry).2.2.halted = false ∧
    (executeLoopA 3 3 [] exEntry).2.2.halted = true := by
  decide

/-
#print axioms workLoopA_final          -- [propext, Classical.choice, Quot.sound]
#print axioms executeLoopA_nohalt      -- [propext, Classical.choice, Quot.sound]
#print axioms build_terminates_async   -- [propext, Classical.choice, Quot.sound]
#print axioms build_noBad_async        -- [propext, Classical.choice, Quot.sound]
#print axioms refinement_final_async   -- [propext, Classical.choice, Quot.sound]
#print axioms runBuildA_nil            -- [propext, Quot.sound]
-/
end LLBuild.Refine
