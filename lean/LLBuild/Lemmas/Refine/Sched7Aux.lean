/-
Token lifts of C02 / C06 — auxiliary lemmas:
* `needs3_cert`: what the guards of `needs k 3 (some d)` (monitor's `needsOk` + the in-order guard `firstStale`) say, with the key of
  the stale dependency exposed;
* `aux_step_ran_nodup` / `aux_trun_ran_nodup`: `ran` has no duplicates;
* `step_done_stays`: a complete rule stays complete (events of the middle of a build);
* `DoneTok.congr`: `DoneTok` only looks at `computedAt` / value of the snapshot;
* `nodup_ids_inj`: distinct ids identify requests.
-/
import LLBuild.Lemmas.Refine.Sched7

namespace LLBuild.Refine
open LLBuild.Engine LLBuild.Engine.DSL LLBuild.EngineImpl

/-- the guards of `needs k 3 (some d)` in a state with `XInv` -/
theorem needs3_cert {P : Program} {σ : Snap} {root : Key} {s : St} (hx : XInv P σ root s) {k d : Key}
    (hst : s.status k = .scanning) (hok : needsOk s k 3 (some d) = true)
    (hx3 : evOkX s (.needs k 3 (some d)) = true) :
    s.validSeen k = some true ∧ σ.reusable P k ∧
    ∃ (pre : List Dep) (dp : Dep) (post : List Dep), σ.deps k = pre ++ dp :: post ∧ dp.key = d ∧ dp.orderOnly = false ∧
      (∀ x ∈ pre, s.status x.key = .done ∧ depKeeps (σ.res k).builtAt x (s.mem.res x.key).computedAt) ∧
      s.status d = .done ∧ (σ.res k).builtAt < (s.mem.res d).computedAt := by
  have hmem := (hx.key k).scan (Or.inl hst)
  unfold needsOk at hok
  simp only [Bool.and_eq_true, beq_iff_eq] at hok
  obtain ⟨⟨⟨hvs, _⟩, hdone⟩, hlt⟩ := hok
  have hlt' : (s.mem.res k).builtAt < (s.mem.res d).computedAt := by simpa using hlt
  have hre := (hx.key k).validT hst hvs
  have hfs : (firstStale s (s.mem.res k) (s.mem.res k).deps).map (fun dp => dp.key) = some d := by
    have : ((firstStale s (s.mem.res k) (s.mem.res k).deps).map (fun dp => dp.key) == some d) = true := hx3
    simpa using this
  cases hf : firstStale s (s.mem.res k) (s.mem.res k).deps with
  | none => rw [hf] at hfs; cases hfs
  | some dp =>
    rw [hf] at hfs
    simp only [Option.map_some, Option.some.injEq] at hfs
    obtain ⟨pre, post, hsplit, hstale, hpre⟩ := firstStale_split s _ _ dp hf
    have hoo : dp.orderOnly = false := by
      cases hoo : dp.orderOnly with
      | false => rfl
      | true =>
        have : depFresh s (s.mem.res k) dp = true := by
          simp only [depFresh, hfs, hdone, hoo, Bool.true_or, Bool.and_self]
        rw [this] at hstale; cases hstale
    rw [hmem] at hsplit hpre hlt'
    exact ⟨hvs, hre, pre, dp, post, hsplit, hfs, hoo, fun x hxm => depFresh_keeps (hpre x hxm),
      by simpa [isDone] using hdone, hlt'⟩

/-- `ran` stays duplicate-free -/
theorem aux_step_ran_nodup {P : Program} {s s' : St} {e : Event} (h : step P s e = some s') (hmid : Event.isMidX e = true)
    (hn : s.ran.Nodup) : s'.ran.Nodup := by
  rw [step_ranX h hmid]
  cases e with
  | create k =>
    simp only [step] at h
    split at h
    · rename_i hc
      simp only [Bool.and_eq_true, Bool.not_eq_eq_eq_not, Bool.not_true] at hc
      show (k :: s.ran).Nodup
      exact List.nodup_cons.2 ⟨by simpa using hc.2, hn⟩
    · cases h
  | _ => exact hn

theorem aux_trun_ran_nodup {P : Program} : ∀ (toks : List Tok) (ms ms' : MSt), trun P ms toks = some ms' →
    (∀ t ∈ toks, Tok.isClose t = false ∨ t = .DE) → ms.m.target.isSome = true → ms.m.ran.Nodup → ms'.m.ran.Nodup
  | [], ms, ms', h, _, _, hn => by
    simp only [trun, Option.some.injEq] at h; subst h; exact hn
  | t :: ts, ms, ms', h, hc, htg, hn => by
    simp only [trun] at h
    cases hts : tstep P ms t with
    | none => rw [hts] at h; simp at h
    | some ms1 =>
      rw [hts] at h; simp only [Option.bind_some] at h
      have hct := hc t List.mem_cons_self
      refine aux_trun_ran_nodup ts ms1 ms' h (fun t' ht' => hc t' (List.mem_cons_of_mem _ ht'))
        (tstep_target_isSome hts hct htg) ?_
      rcases tstep_event hts with ⟨_, e⟩ | ⟨ev, he | ⟨k0, row0, ht, he⟩, hst⟩
      · rw [e]; exact hn
      · have hmid : Event.isMidX ev = true := by
          rcases hct with hct | hct
          · rcases toEvent_midX he hct with hmid | ⟨k1, hk1⟩
            · exact hmid
            · subst hk1
              rw [step_buildStart_inside P k1 htg] at hst; cases hst
          · subst hct
            simp only [Tok.toEvent?, Option.some.injEq] at he; subst he; rfl
        exact aux_step_ran_nodup hst hmid hn
      · subst ht; subst he; exact aux_step_ran_nodup hst rfl hn

/-- a complete rule stays complete -/
theorem step_done_stays {P : Program} {s s' : St} {e : Event} (h : step P s e = some s') (hmid : Event.isMidX e = true)
    (k : Key) (hk : s.status k = .done) : s'.status k = .done := by
  cases e with
  | scanning k0 =>
    simp only [step] at h
    split at h
    · rename_i hc
      cases h
      simp only [Bool.and_eq_true, beq_iff_eq] at hc
      have : k ≠ k0 := fun e => by subst e; rw [hc.1.1.2] at hk; cases hk
      simpa [upd, this] using hk
    · cases h
  | needs k0 r i =>
    simp only [step] at h
    split at h
    · rename_i hc
      cases h
      simp only [Bool.and_eq_true, beq_iff_eq] at hc
      have : k ≠ k0 := fun e => by subst e; rw [hc.1] at hk; cases hk
      simpa [upd, this] using hk
    · cases h
  | upToDate k0 =>
    simp only [step] at h
    split at h
    · cases h
      by_cases e : k = k0
      · subst e; simp [upd]
      · simpa [upd, e] using hk
    · cases h
  | create k0 =>
    simp only [step] at h
    split at h
    · rename_i hc
      cases h
      simp only [Bool.and_eq_true, beq_iff_eq] at hc
      have : k ≠ k0 := fun e => by subst e; rw [hc.1] at hk; cases hk
      simpa [upd, this] using hk
    · cases h
  | inputsAvail k0 ds =>
    simp only [step] at h
    split at h
    · rename_i hc
      cases h
      simp only [Bool.and_eq_true, beq_iff_eq] at hc
      have : k ≠ k0 := fun e => by subst e; rw [hc.1.1.1.1] at hk; cases hk
      simpa [upd, this] using hk
    · cases h
  | finished k0 row =>
    simp only [step] at h
    split at h
    · cases h
      by_cases e : k = k0
      · subst e; simp [upd]
      · simpa [upd, e] using hk
    · cases h
  | _ => first
    | (exact Bool.noConfusion hmid)
    | (simp only [step] at h
       repeat' split at h
       all_goals (first | cases h | skip)
       all_goals (exact hk))

theorem DoneTok.congr {σ σ' : Snap} (h : SnapEq σ σ') {pre : List Tok} {d : Key} {c : Nat} {v : Val}
    (hd : DoneTok σ pre d c v) : DoneTok σ' pre d c v := by
  rcases hd with ⟨a, b, e⟩ | hd
  · exact Or.inl ⟨a, by rw [← h.computedAt d]; exact b, by rw [← h.value d]; exact e⟩
  · exact Or.inr hd

/-- requests of one list with pairwise distinct ids are identified by their id -/
theorem nodup_ids_inj {l : List Req} (hn : (l.map (fun q => q.id)).Nodup) {q q' : Req} (hq : q ∈ l) (hq' : q' ∈ l)
    (hid : q.id = q'.id) : q = q' := by
  induction l with
  | nil => cases hq
  | cons x xs ih =>
    simp only [List.map_cons, List.nodup_cons] at hn
    rcases List.mem_cons.1 hq with e | e <;> rcases List.mem_cons.1 hq' with e' | e'
    · rw [e, e']
    · exfalso; apply hn.1; rw [← e, hid]; exact List.mem_map.2 ⟨q', e', rfl⟩
    · exfalso; apply hn.1; rw [← e', ← hid]; exact List.mem_map.2 ⟨q, e, rfl⟩
    · exact ih hn.2 e e'

end LLBuild.Refine
