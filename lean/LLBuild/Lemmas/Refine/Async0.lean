/-
IM4 — free-running completion threads and cancellation at ITEM granularity: DEFINITIONS (design and the reduction
argument from instruction-level interleavings: notes/REFINE.md §9).
The model's loops are re-stated with an asynchronous schedule `a : Async` threaded through them: at every item boundary
(`asyncPoint`: before each iteration of each of the five queue loops — hence also between the phases of an
`executeLoop` iteration —, at the top of the work loop, before the wait check, in every round of the cancellation drain)
ONE schedule item is consumed: a set of parked deferred tasks completes NOW (`taskIsComplete` from another thread) and,
optionally, `cancelBuild()` is called NOW.  The bodies of the loops are the model's own functions (`Model/EngineImpl.lean`
is not touched), and with the empty schedule every `…A` function IS the model's function (`…_nil` lemmas), so the
differential correspondence with the C++ carries over unchanged.
-/
import LLBuild.Lemmas.Refine.Final2

namespace LLBuild.Refine
open LLBuild.Engine LLBuild.Engine.DSL LLBuild.EngineImpl

/-- an asynchronous schedule: what other threads do at the successive item boundaries (an item with no keys and no
cancel = nothing happens at that boundary) -/
abbrev Async := List SchedItem

/-- other threads act: the parked tasks `it.keys` call `taskIsComplete`, then possibly `cancelBuild()` -/
def asyncStep (it : SchedItem) (s : State) : State :=
  let s := (completeKeys it.keys false s).2
  if it.cancel then doCancel s else s

/-- an item boundary: consume one schedule item -/
def asyncPoint (a : Async) (s : State) : Async × State :=
  match a with
  | [] => ([], s)
  | it :: rest => (rest, asyncStep it s)

def scanRequestsLoopA : Nat → Bool → Async → State → Bool × Async × State
  | 0, w, a, s => (w, a, halt .FUEL s)
  | fuel + 1, w, a, s =>
    let p := asyncPoint a s
    match p.2.ruleInfosToScan.getLast? with
    | none => (w, p.1, p.2)
    | some request =>
      scanRequestsLoopA fuel true p.1
        (processRuleScanRequest request { p.2 with ruleInfosToScan := p.2.ruleInfosToScan.dropLast })

def inputRequestsLoopA : Nat → Bool → Async → State → Bool × Async × State
  | 0, w, a, s => (w, a, halt .FUEL s)
  | fuel + 1, w, a, s =>
    let p := asyncPoint a s
    match p.2.inputRequests with
    | [] => (w, p.1, p.2)
    | request :: rest => inputRequestsLoopA fuel true p.1 (processInputRequest request { p.2 with inputRequests := rest })

def finishedInputsLoopA : Nat → Bool → Async → State → Bool × Async × State
  | 0, w, a, s => (w, a, halt .FUEL s)
  | fuel + 1, w, a, s =>
    let p := asyncPoint a s
    match p.2.finishedInputRequests.getLast? with
    | none => (w, p.1, p.2)
    | some request =>
      match request.taskInfo with
      | none => (true, p.1, halt (.BAD "finished-dummy-request")
          { p.2 with finishedInputRequests := p.2.finishedInputRequests.dropLast })
      | some task =>
        finishedInputsLoopA fuel true p.1
          (finishedInputStep task request { p.2 with finishedInputRequests := p.2.finishedInputRequests.dropLast })

def readyTasksLoopA : Nat → Bool → Async → State → Bool × Async × State
  | 0, w, a, s => (w, a, halt .FUEL s)
  | fuel + 1, w, a, s =>
    let p := asyncPoint a s
    match p.2.readyTaskInfos with
    | [] => (w, p.1, p.2)
    | task :: rest => readyTasksLoopA fuel true p.1 (readyStep task { p.2 with readyTaskInfos := rest })

/-- the drain of `cancelRemainingTasks` with completions arriving -/
def drainLoopA : Nat → Async → State → Async × State
  | 0, a, s => (a, halt .FUEL s)
  | fuel + 1, a, s =>
    if s.numOutstandingUnfinishedTasks == 0 then (a, s) else
    let p := asyncPoint a s
    let s := hook 2 p.2
    if s.finishedTaskInfos.isEmpty then (p.1, halt (.BAD "stall") s)
    else
      drainLoopA fuel p.1 { s with numOutstandingUnfinishedTasks := s.numOutstandingUnfinishedTasks - s.finishedTaskInfos.length,
                                   finishedTaskInfos := [] }

/-- `cancelRemainingTasks` after its drain -/
def cancelTail (s : State) : State :=
  let s := cancelTasks s.taskInfos s
  let s := { s with ruleInfos := s.ruleInfos.map (fun (p : Key × RuleInfo) => if p.2.isScanning then (p.1, p.2.setCancelled) else p),
                    numRulesBeingScanned := 0 }
  let tasks := s.taskInfos
  let s := { s with ruleInfosToScan := [], inputRequests := [], finishedInputRequests := [], readyTaskInfos := [],
                    finishedTaskInfos := [], taskInfos := [] }
  destroyTasks tasks s

theorem cancelRemainingTasks_eq_tail (s : State) : cancelRemainingTasks s = cancelTail (drainLoop loopFuel s) := rfl

def cancelRemainingTasksA (a : Async) (s : State) : Async × State :=
  let p := drainLoopA loopFuel a s
  (p.1, cancelTail p.2)

def finishedTasksLoopA : Nat → Bool → Async → State → Bool × Bool × Async × State
  | 0, w, a, s => (false, w, a, halt .FUEL s)
  | fuel + 1, w, a, s =>
    let p := asyncPoint a s
    match p.2.finishedTaskInfos.getLast? with
    | none => (false, w, p.1, p.2)
    | some task =>
      let s0 := { p.2 with finishedTaskInfos := p.2.finishedTaskInfos.dropLast }
      let r := finishedTaskWrite task s0
      if !r.1 then
        let q := cancelRemainingTasksA p.1
          { emit (.ER 6) r.2 with numOutstandingUnfinishedTasks := (emit (.ER 6) r.2).numOutstandingUnfinishedTasks - 1 }
        (true, true, q.1, q.2)
      else finishedTasksLoopA fuel true p.1 (finishedTaskWake task (s0.task task) r.2)

/-- the work loop with completions and cancellation arriving at every item boundary -/
def executeLoopA (buildKey : Key) : Nat → Async → State → Bool × Async × State
  | 0, a, s => (false, a, halt .FUEL s)
  | fuel + 1, a, s =>
    if s.halted then (false, a, s) else
    let p0 := asyncPoint a s
    let s := hook 0 p0.2
    if s.buildCancelled then
      let q := cancelRemainingTasksA p0.1 s
      (false, q.1, q.2)
    else
    let r1 := scanRequestsLoopA loopFuel false p0.1 s
    let r2 := inputRequestsLoopA loopFuel r1.1 r1.2.1 r1.2.2
    let r3 := finishedInputsLoopA loopFuel r2.1 r2.2.1 r2.2.2
    let r4 := readyTasksLoopA loopFuel r3.1 r3.2.1 r3.2.2
    let r5 := finishedTasksLoopA loopFuel r4.1 r4.2.1 r4.2.2
    if r5.1 then (false, r5.2.2.1, r5.2.2.2) else
    let p6 := asyncPoint r5.2.2.1 r5.2.2.2
    let s := p6.2
    let w : Bool × State :=
      if !r5.2.1 && s.numOutstandingUnfinishedTasks != 0 then
        let s := hook 1 s
        (true, if s.finishedTaskInfos.isEmpty then halt (.BAD "stall") s else s)
      else (r5.2.1, s)
    if w.1 then executeLoopA buildKey fuel p6.1 w.2 else
    let s := w.2
    if !s.taskInfos.isEmpty || s.numRulesBeingScanned != 0 || !isComplete s (s.rule buildKey) then
      let c := resolveCycle buildKey s
      if c.1 then executeLoopA buildKey fuel p6.1 c.2
      else
        let q := cancelRemainingTasksA p6.1 c.2
        (false, q.1, q.2)
    else (true, p6.1, s)

def executeTasksA (buildKey : Key) (a : Async) (s : State) : Bool × Async × State :=
  let s := { s with finishedInputRequests := [] }
  let s := getRuleInfoForKey buildKey s
  let s := { s with inputRequests := s.inputRequests ++ [{ taskInfo := none, inputID := 0, inputRuleInfo := buildKey }] }
  executeLoopA buildKey loopFuel a s

/-- `buildTail` / `buildWork` / `buildPre` of Main.lean with the asynchronous work loop -/
def buildWorkA (key : Key) (a : Async) (s : State) : Val × State :=
  let r := executeTasksA key a { emit .QC s with currentEpoch := (emit .QC s).currentEpoch + 1 }
  buildTail key (r.1, r.2.2)

def buildPreA (key : Key) (a : Async) (s : State) : Val × State :=
  let s := if s.hasDB then emit .DB s else s
  if s.buildCancelled then (0, s) else buildWorkA key a s

/-- `runBuild` with other threads acting according to `a` -/
def runBuildA (key cancelAt : Nat) (sched : List SchedItem) (a : Async) (s : State) : State :=
  let p := buildPreA key a (emit (.B key) (buildInit cancelAt sched s))
  closeOf (p.1, finishDB p.2)

end LLBuild.Refine
