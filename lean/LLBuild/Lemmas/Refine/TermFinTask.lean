/-
IM3 — termination: finished tasks (`finishedTasksLoop`).  The body for the popped task `a` drops the potential `Phi`
(Term0.lean) by at least 1: rule `a` goes phase 1 → 0 and gives up its `6·|discs|` budget, which pays the dummies of
the discovered dependencies (≤ 5 each); `requestedBy` (2 each) become finished requests (1 each); scan requests parked
at the task (`scanRest + 2`) are queued at a dependency that is now done (`scanRest + 1`).
STRENGTHENED: needs the loop-level invariant `DiscInv` (the discovered dependencies of a task are among its spec's
`discs`), which `Rel` does not carry.
-/
import LLBuild.Lemmas.Refine.FinTask
import LLBuild.Lemmas.Refine.FinInput
import LLBuild.Lemmas.Refine.Term0

namespace LLBuild.Refine
open LLBuild.Engine LLBuild.Engine.DSL LLBuild.EngineImpl

/-! ## `sumBy` algebra (local: `ft_` prefix, `TermBasic.lean` is not there yet) -/

theorem ft_sumBy_nil {α : Type} (f : α → Nat) : sumBy f [] = 0 := rfl
theorem ft_sumBy_cons {α : Type} (f : α → Nat) (x : α) (l : List α) : sumBy f (x :: l) = f x + sumBy f l := by
  simp [sumBy]
theorem ft_sumBy_append {α : Type} (f : α → Nat) (l1 l2 : List α) : sumBy f (l1 ++ l2) = sumBy f l1 + sumBy f l2 := by
  simp [sumBy]

theorem ft_sumBy_le {α : Type} {f g : α → Nat} : ∀ {l : List α}, (∀ x ∈ l, f x ≤ g x) → sumBy f l ≤ sumBy g l
  | [], _ => Nat.le_refl _
  | x :: l, h => by
    rw [ft_sumBy_cons, ft_sumBy_cons]
    have h1 := h x (by simp)
    have h2 := ft_sumBy_le (l := l) (fun y hy => h y (by simp [hy]))
    omega

theorem ft_sumBy_congr {α : Type} {f g : α → Nat} {l : List α} (h : ∀ x ∈ l, f x = g x) : sumBy f l = sumBy g l :=
  Nat.le_antisymm (ft_sumBy_le (fun x hx => Nat.le_of_eq (h x hx))) (ft_sumBy_le (fun x hx => Nat.le_of_eq (h x hx).symm))

theorem ft_sumBy_le_const {α : Type} {f : α → Nat} {c : Nat} : ∀ {l : List α}, (∀ x ∈ l, f x ≤ c) → sumBy f l ≤ c * l.length
  | [], _ => by simp [sumBy]
  | x :: l, h => by
    rw [ft_sumBy_cons, List.length_cons, Nat.mul_succ]
    have h1 := h x (by simp)
    have h2 := ft_sumBy_le_const (l := l) (fun y hy => h y (by simp [hy]))
    omega

/-- two weight functions that agree except at one key of a duplicate-free list -/
theorem ft_sumBy_split {f g : Key → Nat} {a : Key} : ∀ {U : List Key}, U.Nodup → a ∈ U → (∀ k ∈ U, k ≠ a → f k = g k) →
    sumBy f U + g a = sumBy g U + f a
  | [], _, ha, _ => by cases ha
  | x :: U, hn, ha, h => by
    rw [ft_sumBy_cons, ft_sumBy_cons]
    simp only [List.nodup_cons] at hn
    by_cases e : x = a
    · subst e
      have : sumBy f U = sumBy g U :=
        ft_sumBy_congr (fun k hk => h k (by simp [hk]) (fun e => hn.1 (e ▸ hk)))
      omega
    · have ha' : a ∈ U := by
        rcases List.mem_cons.1 ha with e' | e'
        · exact absurd e'.symm e
        · exact e'
      have := ft_sumBy_split hn.2 ha' (fun k hk => h k (by simp [hk]))
      have hx := h x (by simp) e
      omega

theorem ft_flatMap_length_append {α β : Type} (f : α → List β) (l1 l2 : List α) (x : α) :
    ((l1 ++ x :: l2).flatMap f).length = ((l1 ++ l2).flatMap f).length + (f x).length := by
  simp [List.flatMap_append, List.flatMap_cons]; omega

theorem ft_sumBy_flatMap_append {α β : Type} (w : β → Nat) (f : α → List β) (l1 l2 : List α) (x : α) :
    sumBy w ((l1 ++ x :: l2).flatMap f) = sumBy w ((l1 ++ l2).flatMap f) + sumBy w (f x) := by
  simp only [List.flatMap_append, List.flatMap_cons, ft_sumBy_append]; omega

/-! ## more about `getRuleInfoForKey` / `pushDiscovered` -/

theorem ft_getRule_liveRecords (k : Key) (s : State) (hdb : s.hasDB = true) :
    liveRecords (getRuleInfoForKey k s) = liveRecords s := by
  cases hl : s.ruleInfos.lookup k with
  | some r0 => rw [getRuleInfoForKey_old k s (by rw [hl]; rfl)]
  | none =>
    rw [getRuleInfoForKey_fresh k s hdb hl]
    have : liveRecords (emit (.G k (s.store.rows.lookup k).isSome) (emit (.L k) (s.setRule (freshRule s k)))) =
        liveRecords (s.setRule (freshRule s k)) := by
      unfold liveRecords; rw [emit_ruleInfos, emit_ruleInfos]
    rw [this]
    exact fresh_liveRecords hl rfl rfl

theorem ft_pushDiscovered_liveRecords : ∀ (ds : List Dep) (s : State), s.hasDB = true →
    liveRecords (pushDiscovered ds s) = liveRecords s
  | [], _, _ => rfl
  | d :: ds, s, hdb => by
    rw [pushDiscovered_cons, ft_pushDiscovered_liveRecords ds _ (by
      show (getRuleInfoForKey d.key s).hasDB = true
      rw [(getRuleInfoForKey_same d.key s).hasDB]; exact hdb)]
    show liveRecords (getRuleInfoForKey d.key s) = _
    exact ft_getRule_liveRecords d.key s hdb

theorem ft_pushDiscovered_inputs : ∀ (ds : List Dep) (s : State),
    (pushDiscovered ds s).inputRequests = s.inputRequests ++ ds.map dummyOf
  | [], s => by simp [pushDiscovered]
  | d :: ds, s => by
    rw [pushDiscovered_cons, ft_pushDiscovered_inputs ds]
    show (getRuleInfoForKey d.key s).inputRequests ++ [dummyOf d] ++ _ = _
    rw [(getRuleInfoForKey_same d.key s).inputRequests]
    simp

/-- fields `pushDiscovered` does not touch -/
structure ft_Same (s s' : State) : Prop where
  store : s'.store = s.store
  scanQ : s'.ruleInfosToScan = s.ruleInfosToScan
  finQ : s'.finishedInputRequests = s.finishedInputRequests

theorem ft_pushDiscovered_same : ∀ (ds : List Dep) (s : State), ft_Same s (pushDiscovered ds s)
  | [], _ => ⟨rfl, rfl, rfl⟩
  | d :: ds, s => by
    rw [pushDiscovered_cons]
    have h1 := ft_pushDiscovered_same ds (pushInput (dummyOf d) (getRuleInfoForKey d.key s))
    have h2 := getRuleInfoForKey_same d.key s
    exact ⟨h1.store.trans h2.store, h1.scanQ.trans h2.ruleInfosToScan, h1.finQ.trans h2.finishedInputRequests⟩

/-- a rule that `pushDiscovered` registers is the fresh one: `Incomplete`, with the stored row as result -/
theorem ft_pushDiscovered_new : ∀ (ds : List Dep) (s : State), s.hasDB = true → ∀ k rk,
    (pushDiscovered ds s).ruleInfos.lookup k = some rk →
    s.ruleInfos.lookup k = some rk ∨
      (s.ruleInfos.lookup k = none ∧ rk.state = .incomplete ∧ rk.result = (s.store.rows.lookup k).getD {})
  | [], _, _, _, _, h => Or.inl h
  | d :: ds, s, hdb, k, rk, h => by
    rw [pushDiscovered_cons] at h
    have hs := getRuleInfoForKey_same d.key s
    rcases ft_pushDiscovered_new ds _ (by
        show (getRuleInfoForKey d.key s).hasDB = true
        rw [hs.hasDB]; exact hdb) k rk h with h1 | ⟨h1, h2, h3⟩
    · replace h1 : (getRuleInfoForKey d.key s).ruleInfos.lookup k = some rk := h1
      rw [getRuleInfoForKey_lookup d.key s hdb] at h1
      split at h1
      · rename_i hc
        right
        simp at h1; subst h1
        rw [hc.1]
        exact ⟨hc.2, rfl, rfl⟩
      · exact Or.inl h1
    · replace h1 : (getRuleInfoForKey d.key s).ruleInfos.lookup k = none := h1
      replace h3 : rk.result = ((getRuleInfoForKey d.key s).store.rows.lookup k).getD {} := h3
      rw [hs.store] at h3
      rw [getRuleInfoForKey_lookup d.key s hdb] at h1
      split at h1
      · cases h1
      · exact Or.inr ⟨h1, h2, h3⟩

/-! ## the state after the body, field by field -/

/-- what the body of `finishedTasksLoop` for task `a` (its `TaskInfo` `t`, its rule finally `ri2`) does to the engine -/
structure FinShape (s s' : State) (a : Key) (t : TaskInfo) (ri2 : RuleInfo) : Prop where
  lookA : s'.ruleInfos.lookup a = some ri2
  keep : ∀ k rk, k ≠ a → s.ruleInfos.lookup k = some rk → s'.ruleInfos.lookup k = some rk
  new : ∀ k rk, k ≠ a → s'.ruleInfos.lookup k = some rk → s.ruleInfos.lookup k = some rk ∨
    (s.ruleInfos.lookup k = none ∧ rk.state = .incomplete ∧ rk.result = (s.store.rows.lookup k).getD {})
  tasks : s'.taskInfos = alErase s.taskInfos a
  inputs : s'.inputRequests = s.inputRequests ++ t.discoveredDependencies.map dummyOf
  live : liveRecords s' = liveRecords s
  epoch : s'.currentEpoch = s.currentEpoch
  rows : s'.store.rows = rowsSet s.store.rows a ri2.result
  scanQ : s'.ruleInfosToScan = s.ruleInfosToScan ++ t.deferredScanRequests
  finQ : s'.finishedInputRequests = s.finishedInputRequests ++ t.requestedBy
  ready : s'.readyTaskInfos = s.readyTaskInfos
  newKey : ∀ k, Registered s' k → Registered s k ∨ ∃ d ∈ t.discoveredDependencies, d.key = k

theorem ft_pushDiscovered_reg : ∀ (ds : List Dep) (s : State), s.hasDB = true → ∀ k,
    Registered (pushDiscovered ds s) k → Registered s k ∨ ∃ d ∈ ds, d.key = k
  | [], _, _, _, h => Or.inl h
  | d :: ds, s, hdb, k, h => by
    rw [pushDiscovered_cons] at h
    rcases ft_pushDiscovered_reg ds _ (by
        show (getRuleInfoForKey d.key s).hasDB = true
        rw [(getRuleInfoForKey_same d.key s).hasDB]; exact hdb) k h with h1 | ⟨x, hx, hxk⟩
    · replace h1 : ((getRuleInfoForKey d.key s).ruleInfos.lookup k).isSome = true := h1
      rw [getRuleInfoForKey_lookup d.key s hdb] at h1
      split at h1
      · rename_i hc; exact Or.inr ⟨d, by simp, hc.1.symm⟩
      · exact Or.inl h1
    · exact Or.inr ⟨x, by simp [hx], hxk⟩

theorem finishedTaskStep_finShape {rules : List RuleSpec} (s : State) (ms : MSt) (a : Key)
    (hr : Rel rules s ms {}) (hh : s.halted = false) (hlast : s.finishedTaskInfos.getLast? = some a) :
    ∃ t ri0, s.taskInfos.lookup a = some t ∧ s.ruleInfos.lookup a = some ri0 ∧
      FinShape s (finishedTaskWake a (s.task a) (finishedTaskWrite a { s with finishedTaskInfos := s.finishedTaskInfos.dropLast }).2)
        a t (finRule2 (finRule1 s ri0) t) := by
  obtain ⟨t, ri0, ht, hl, hk, fr, heq⟩ := finishedTaskStep_shape s ms a hr hh hlast
  refine ⟨t, ri0, ht, hl, ?_⟩
  rw [heq]
  have hk2 : (finRule2 (finRule1 s ri0) t).key = a := hk
  have hk1 : (finRule1 s ri0).key = a := hk
  have hdb2 : (emit (.S a 2) (finS1 s (finRule1 s ri0))).hasDB = true := by rw [emit_hasDB]; exact hr.hasDB
  have hsame := ft_pushDiscovered_same t.discoveredDependencies (emit (.S a 2) (finS1 s (finRule1 s ri0)))
  have hlk : ∀ k, (emit (.DS a (finRule2 (finRule1 s ri0) t).result) (finState a t (finRule2 (finRule1 s ri0) t)
      (pushDiscovered t.discoveredDependencies (emit (.S a 2) (finS1 s (finRule1 s ri0)))))).ruleInfos.lookup k =
      if k = a then some (finRule2 (finRule1 s ri0) t)
      else (pushDiscovered t.discoveredDependencies (emit (.S a 2) (finS1 s (finRule1 s ri0)))).ruleInfos.lookup k := by
    intro k
    rw [emit_ruleInfos]
    show (alSet _ _ _).lookup k = _
    rw [lookup_alSet, hk2]
  have hl2 : ∀ k, k ≠ a → (emit (.S a 2) (finS1 s (finRule1 s ri0))).ruleInfos.lookup k = s.ruleInfos.lookup k := by
    intro k hne
    rw [emit_ruleInfos, finS1_lookup, hk1]; simp [hne]
  obtain ⟨t', ht', hst0', _⟩ := hr.finTaskOk a (List.mem_of_getLast? hlast)
  have hst0 : ri0.state = .inProgressComputing := by rw [← rule_of_lookup hl]; exact hst0'
  refine { lookA := by rw [hlk]; simp, keep := ?_, new := ?_, tasks := ?_, inputs := ?_, live := ?_, epoch := ?_,
           rows := ?_, scanQ := ?_, finQ := ?_, ready := ?_, newKey := ?_ }
  · intro k rk hne h1
    rw [hlk, if_neg hne]
    exact fr.keep k rk (by rw [hl2 k hne]; exact h1)
  · intro k rk hne h1
    rw [hlk, if_neg hne] at h1
    rcases ft_pushDiscovered_new _ _ hdb2 k rk h1 with h2 | ⟨h2, h3, h4⟩
    · left; rw [hl2 k hne] at h2; exact h2
    · right; rw [hl2 k hne] at h2; rw [emit_store] at h4; exact ⟨h2, h3, h4⟩
  · rw [emit_taskInfos]
    show alErase (pushDiscovered _ _).taskInfos a = _
    rw [fr.taskInfos, emit_taskInfos]; rfl
  · rw [emit_inputRequests]
    show (pushDiscovered _ _).inputRequests = _
    rw [ft_pushDiscovered_inputs, emit_inputRequests]; rfl
  · have e1 : liveRecords (emit (.DS a (finRule2 (finRule1 s ri0) t).result) (finState a t (finRule2 (finRule1 s ri0) t)
        (pushDiscovered t.discoveredDependencies (emit (.S a 2) (finS1 s (finRule1 s ri0)))))) =
        liveRecords ((pushDiscovered t.discoveredDependencies (emit (.S a 2) (finS1 s (finRule1 s ri0)))).setRule
          (finRule2 (finRule1 s ri0) t)) := by
      unfold liveRecords; rw [emit_ruleInfos]; rfl
    have hl4 : (pushDiscovered t.discoveredDependencies (emit (.S a 2) (finS1 s (finRule1 s ri0)))).ruleInfos.lookup
        (finRule2 (finRule1 s ri0) t).key = some (finRule1 s ri0) := by
      rw [hk2]; apply fr.keep
      rw [emit_ruleInfos, finS1_lookup, hk1]; simp
    have hn1 : (finRule1 s ri0).isScanning = false := by simp [RuleInfo.isScanning, finRule1, setComplete]
    have hn2 : (finRule2 (finRule1 s ri0) t).isScanning = false := hn1
    rw [e1, setRule_liveRecords_nn hl4 rfl hn1 hn2, ft_pushDiscovered_liveRecords _ _ hdb2]
    have e2 : liveRecords (emit (.S a 2) (finS1 s (finRule1 s ri0))) = liveRecords (finS1 s (finRule1 s ri0)) := by
      unfold liveRecords; rw [emit_ruleInfos]
    rw [e2]
    exact finS1_liveRecords (ri0 := ri0) (by rw [hk1]; exact hl) (by simp [RuleInfo.isScanning, hst0]) hn1
  · rw [emit_currentEpoch]
    show (pushDiscovered _ _).currentEpoch = _
    rw [fr.currentEpoch, emit_currentEpoch]; rfl
  · rw [emit_store]
    show rowsSet (pushDiscovered _ _).store.rows a _ = _
    rw [hsame.store, emit_store]; rfl
  · rw [emit_ruleInfosToScan]
    show (pushDiscovered _ _).ruleInfosToScan ++ _ = _
    rw [hsame.scanQ, emit_ruleInfosToScan]; rfl
  · rw [emit_finishedInputRequests]
    show (pushDiscovered _ _).finishedInputRequests ++ _ = _
    rw [hsame.finQ, emit_finishedInputRequests]; rfl
  · rw [emit_readyTaskInfos]
    show (pushDiscovered _ _).readyTaskInfos = _
    rw [fr.ready, emit_readyTaskInfos]; rfl
  · intro k hk'
    unfold Registered at hk' ⊢
    by_cases e : k = a
    · left; rw [e, hl]; rfl
    · rw [hlk, if_neg e] at hk'
      rcases ft_pushDiscovered_reg _ _ hdb2 k hk' with h1 | h1
      · left; unfold Registered at h1; rw [hl2 k e] at h1; exact h1
      · exact Or.inr h1

/-! ## the accounting -/

theorem ft_inputQW_le (s : State) (r : TaskInputRequest) : inputQW s r ≤ 5 := by
  unfold inputQW; split <;> omega

/-- **the potential drops by ≥ 1 across the body of `finishedTasksLoop`** (from the field-by-field description) -/
theorem FinShape.term {rules : List RuleSpec} {U : List Key} {s s' : State} {ms : MSt} {a : Key} {t : TaskInfo}
    {ri0 : RuleInfo}
    (hr : Rel rules s ms {}) (hs : FinShape s s' a t (finRule2 (finRule1 s ri0) t))
    (ht : s.taskInfos.lookup a = some t) (hl : s.ruleInfos.lookup a = some ri0) (hfin : a ∈ s.finishedTaskInfos)
    (hU : ClosedU rules U s)
    (hdl : t.discoveredDependencies.length ≤ (specOf rules a).discs.length)
    (hdk : ∀ d ∈ t.discoveredDependencies, d.key ∈ (specOf rules a).discs.map (fun p => p.2)) :
    TermStep rules U s {} s' {} 1 := by
  obtain ⟨t', ht', hst0', hdone⟩ := hr.finTaskOk a hfin
  rw [ht] at ht'; cases ht'
  have hst0 : ri0.state = .inProgressComputing := by rw [← rule_of_lookup hl]; exact hst0'
  have htask : s.task a = t := task_of_lookup ht
  have haU : a ∈ U := hU.registered a (by unfold Registered; rw [hl]; rfl)
  have hpa_s : phase s a = 1 := by
    unfold phase; rw [hl]; simp [hst0, htask, hdone]
  have hpa_F : phase s' a = 0 := by
    unfold phase; rw [hs.lookA]
    have h1 : (finRule2 (finRule1 s ri0) t).state = .complete := rfl
    have h2 : (finRule2 (finRule1 s ri0) t).result.builtAt = s'.currentEpoch := by rw [hs.epoch]; rfl
    simp [h1, h2]
  have htask_ne : ∀ k, k ≠ a → s'.task k = s.task k := by
    intro k hne; unfold State.task; rw [hs.tasks, lookup_alErase]; simp [hne]
  have hphase_ne : ∀ k, k ≠ a → phase s' k = phase s k := by
    intro k hne
    unfold phase
    cases hlk : s.ruleInfos.lookup k with
    | some rk => rw [hs.keep k rk hne hlk]; simp only; rw [htask_ne k hne, hs.epoch]
    | none =>
      cases hlk' : s'.ruleInfos.lookup k with
      | none => rfl
      | some rk =>
        rcases hs.new k rk hne hlk' with h1 | ⟨_, h2, _⟩
        · rw [hlk] at h1; cases h1
        · simp [h2]
  have hdeps_ne : ∀ k, k ≠ a → deps0 s' k = deps0 s k := by
    intro k hne
    unfold deps0
    cases hlk : s.ruleInfos.lookup k with
    | some rk => rw [hs.keep k rk hne hlk]
    | none =>
      cases hlk' : s'.ruleInfos.lookup k with
      | none => simp only; rw [hs.rows, lookup_rowsSet]; simp [hne]
      | some rk =>
        rcases hs.new k rk hne hlk' with h1 | ⟨_, _, h3⟩
        · rw [hlk] at h1; cases h1
        · simp only; rw [h3]
  have hruleW_ne : ∀ k, k ≠ a → ruleW rules s' k = ruleW rules s k := by
    intro k hne; unfold ruleW; rw [hphase_ne k hne, hdeps_ne k hne, htask_ne k hne]
  have hruleW_s : ruleW rules s a = 1 + 6 * (specOf rules a).discs.length := by
    unfold ruleW; rw [hpa_s]; simp
  have hruleW_F : ruleW rules s' a = 0 := by
    unfold ruleW; rw [hpa_F]; simp
  have hphase_le : ∀ k, phase s' k ≤ phase s k := by
    intro k
    by_cases e : k = a
    · rw [e, hpa_s, hpa_F]; omega
    · rw [hphase_ne k e]; exact Nat.le_refl _
  have hinputQW : ∀ r, inputQW s' r = inputQW s r := by
    intro r; unfold inputQW
    by_cases e : r.inputRuleInfo = a
    · rw [e, hpa_s, hpa_F]; simp
    · rw [hphase_ne _ e]
  have hrule_ne : ∀ k, k ≠ a → Registered s k → s'.rule k = s.rule k := by
    intro k hne hreg
    obtain ⟨rk, hrk⟩ := Option.isSome_iff_exists.1 hreg
    unfold State.rule; rw [hs.keep k rk hne hrk, hrk]
  -- scan requests
  have hscan_rule : ∀ r ∈ scanReqs s {}, s'.rule r.ruleInfo = s.rule r.ruleInfo := by
    intro r hm
    have h0 := hr.scanOk r hm
    have hne : r.ruleInfo ≠ a := by
      intro e; have := h0.scanning; rw [e, rule_of_lookup hl, hst0] at this; cases this
    exact hrule_ne _ hne h0.reg
  have hscanRest : ∀ r ∈ scanReqs s {}, scanRest s' r = scanRest s r := by
    intro r hm; unfold scanRest; rw [hscan_rule r hm]
  have hscanQW_le : ∀ r ∈ scanReqs s {}, scanQW s' r ≤ scanQW s r := by
    intro r hm
    unfold scanQW
    rw [hscanRest r hm, hscan_rule r hm]
    cases (s.rule r.ruleInfo).result.deps[r.inputIndex]? with
    | none => exact Nat.le_refl _
    | some d =>
      have := hphase_le d.key
      simp only
      apply Nat.add_le_add_left
      split <;> split <;> (try split) <;> (try split) <;> omega
  have hmemQ : ∀ r ∈ s.ruleInfosToScan, r ∈ scanReqs s {} := by
    intro r hm; unfold scanReqs; exact List.mem_append_left _ (List.mem_append_right _ hm)
  have hmemL : ∀ r ∈ (liveRecords s).flatMap (fun p => p.2.deferredScanRequests), r ∈ scanReqs s {} := by
    intro r hm; unfold scanReqs deferredAll; exact List.mem_append_right _ (List.mem_append_left _ hm)
  have hmemT : ∀ r ∈ s.taskInfos.flatMap (fun p => p.2.deferredScanRequests), r ∈ scanReqs s {} := by
    intro r hm; unfold scanReqs deferredAll; exact List.mem_append_right _ (List.mem_append_right _ hm)
  have hatmem : (a, t) ∈ s.taskInfos := lookup_mem _ _ _ ht
  have hmemD : ∀ r ∈ t.deferredScanRequests, r ∈ scanReqs s {} := by
    intro r hm; exact hmemT r (List.mem_flatMap.2 ⟨(a, t), hatmem, hm⟩)
  have hscanQW_def : ∀ r ∈ t.deferredScanRequests, scanQW s' r = scanRest s r + 1 := by
    intro r hm
    have hsr := hmemD r hm
    have hin := hr.deferredAtTask (a, t) hatmem r hm
    obtain ⟨_, d, hd1, hd2, _⟩ := (hr.scanOk r hsr).cached a hin
    unfold scanQW
    rw [hscanRest r hsr, hscan_rule r hsr, hd1]
    simp only
    rw [hd2, hpa_F]; simp
  obtain ⟨l1, l2, hs1, hs2⟩ := alErase_split s.taskInfos a t hr.taskNodup ht
  have hT' : s'.taskInfos = l1 ++ l2 := hs.tasks.trans hs2
  -- the components of the potential
  have C1 : sumBy (ruleW rules s') U + (1 + 6 * (specOf rules a).discs.length) = sumBy (ruleW rules s) U := by
    have := ft_sumBy_split (f := ruleW rules s') (g := ruleW rules s) hU.nodup haU (fun k _ hne => hruleW_ne k hne)
    rw [hruleW_s, hruleW_F] at this
    omega
  have C2 : sumBy (inputQW s') s'.inputRequests ≤ sumBy (inputQW s) s.inputRequests + 5 * t.discoveredDependencies.length := by
    rw [hs.inputs, ft_sumBy_append, ft_sumBy_congr (fun r _ => hinputQW r)]
    have := ft_sumBy_le_const (f := inputQW s') (c := 5) (l := t.discoveredDependencies.map dummyOf)
      (fun r _ => ft_inputQW_le s' r)
    rw [List.length_map] at this
    omega
  have C3 : pausedAll s' = pausedAll s := by unfold pausedAll; rw [hs.live]
  have C4 : (requestedByAll s).length = (requestedByAll s').length + t.requestedBy.length := by
    unfold requestedByAll; rw [hT', hs1]; exact ft_flatMap_length_append _ l1 l2 (a, t)
  have C5 : s'.finishedInputRequests.length = s.finishedInputRequests.length + t.requestedBy.length := by
    rw [hs.finQ, List.length_append]
  have C6 : sumBy (scanQW s') s'.ruleInfosToScan ≤
      sumBy (scanQW s) s.ruleInfosToScan + sumBy (fun r => scanRest s r + 1) t.deferredScanRequests := by
    rw [hs.scanQ, ft_sumBy_append, ft_sumBy_congr hscanQW_def]
    have := ft_sumBy_le (f := scanQW s') (g := scanQW s) (l := s.ruleInfosToScan) (fun r hm => hscanQW_le r (hmemQ r hm))
    omega
  have C7 : sumBy (fun r => scanRest s' r + 4) ((liveRecords s').flatMap (fun p => p.2.deferredScanRequests)) =
      sumBy (fun r => scanRest s r + 4) ((liveRecords s).flatMap (fun p => p.2.deferredScanRequests)) := by
    rw [hs.live]
    exact ft_sumBy_congr (fun r hm => by rw [hscanRest r (hmemL r hm)])
  have C8 : sumBy (fun r => scanRest s' r + 2) (s'.taskInfos.flatMap (fun p => p.2.deferredScanRequests)) +
      sumBy (fun r => scanRest s r + 2) t.deferredScanRequests =
      sumBy (fun r => scanRest s r + 2) (s.taskInfos.flatMap (fun p => p.2.deferredScanRequests)) := by
    have e1 : sumBy (fun r => scanRest s' r + 2) (s'.taskInfos.flatMap (fun p => p.2.deferredScanRequests)) =
        sumBy (fun r => scanRest s r + 2) (s'.taskInfos.flatMap (fun p => p.2.deferredScanRequests)) := by
      apply ft_sumBy_congr
      intro r hm
      have : r ∈ s.taskInfos.flatMap (fun p => p.2.deferredScanRequests) := by
        obtain ⟨p, hp, hrp⟩ := List.mem_flatMap.1 hm
        refine List.mem_flatMap.2 ⟨p, ?_, hrp⟩
        rw [hs.tasks] at hp
        exact (List.filter_sublist (l := s.taskInfos)).subset hp
      rw [hscanRest r (hmemT r this)]
    rw [e1, hT', hs1]
    exact (ft_sumBy_flatMap_append _ _ l1 l2 (a, t)).symm
  have C9 : sumBy (fun r => scanRest s r + 1) t.deferredScanRequests ≤ sumBy (fun r => scanRest s r + 2) t.deferredScanRequests :=
    ft_sumBy_le (fun r _ => by omega)
  have hPs : Phi rules U s {} = sumBy (ruleW rules s) U + sumBy (inputQW s) s.inputRequests + 4 * (pausedAll s).length +
      2 * (requestedByAll s).length + s.finishedInputRequests.length + sumBy (scanQW s) s.ruleInfosToScan +
      sumBy (fun r => scanRest s r + 4) ((liveRecords s).flatMap (fun p => p.2.deferredScanRequests)) +
      sumBy (fun r => scanRest s r + 2) (s.taskInfos.flatMap (fun p => p.2.deferredScanRequests)) := rfl
  have hPF : Phi rules U s' {} = sumBy (ruleW rules s') U + sumBy (inputQW s') s'.inputRequests + 4 * (pausedAll s').length +
      2 * (requestedByAll s').length + s'.finishedInputRequests.length + sumBy (scanQW s') s'.ruleInfosToScan +
      sumBy (fun r => scanRest s' r + 4) ((liveRecords s').flatMap (fun p => p.2.deferredScanRequests)) +
      sumBy (fun r => scanRest s' r + 2) (s'.taskInfos.flatMap (fun p => p.2.deferredScanRequests)) := rfl
  have hdU : ∀ d ∈ t.discoveredDependencies, d.key ∈ U := by
    intro d hd
    obtain ⟨p, hp, hpd⟩ := List.mem_map.1 (hdk d hd)
    rw [← hpd]; exact hU.discs a haU p hp
  refine ⟨?_, ?_⟩
  · refine { nodup := hU.nodup, registered := ?_, reqs := hU.reqs, discs := hU.discs, deps := ?_, inputs := ?_ }
    · intro k hk
      rcases hs.newKey k hk with h1 | ⟨d, hd, hdk'⟩
      · exact hU.registered k h1
      · rw [← hdk']; exact hdU d hd
    · intro k hk d hd
      by_cases e : k = a
      · subst e
        unfold deps0 at hd
        rw [hs.lookA] at hd
        replace hd : d ∈ ri0.result.deps ++ t.discoveredDependencies := hd
        rcases List.mem_append.1 hd with h1 | h1
        · apply hU.deps k hk d
          unfold deps0; rw [hl]; exact h1
        · exact hdU d h1
      · rw [hdeps_ne k e] at hd; exact hU.deps k hk d hd
    · intro r hm
      rw [hs.inputs] at hm
      rcases List.mem_append.1 hm with h1 | h1
      · exact hU.inputs r h1
      · obtain ⟨d, hd, hdr⟩ := List.mem_map.1 h1
        rw [← hdr]; exact hdU d hd
  · rw [hPs, hPF, C3, C7]
    omega

/-! ## the statements -/

/-- STRENGTHENED (loop-level invariant that `Rel` does not carry): the discovered dependencies a task has reported are
among the `discs` of its spec (`DslTask::inputsAvailable` reports `discKeys spec recv`, a filter of `spec.discs`).
`Rel` only has `t.discoveredDependencies = discDeps (m.task a).discs`; the monitor's check `discs == P.disc a (recvOf seq)`
at `inputsAvail` is not kept by any clause.  Only `readyStep` changes `discoveredDependencies` (it has to ESTABLISH
this for the task it runs); every other function preserves it trivially. -/
structure DiscInv (rules : List RuleSpec) (s : State) : Prop where
  len : ∀ a t, s.taskInfos.lookup a = some t → t.discoveredDependencies.length ≤ (specOf rules a).discs.length
  keys : ∀ a t, s.taskInfos.lookup a = some t →
    ∀ d ∈ t.discoveredDependencies, d.key ∈ (specOf rules a).discs.map (fun p => p.2)

/-- (T1) the body never halts (from `finishedTaskStep_strong`) -/
theorem finishedTaskStep_nohalt {rules : List RuleSpec} {s : State} {ms : MSt} {a : Key}
    (_hok : RulesOk rules) (hr : Rel rules s ms {}) (hp : ms.pend = none) (hh : s.halted = false)
    (hlast : s.finishedTaskInfos.getLast? = some a) (hnm : NoMid s) :
    (finishedTaskWake a (s.task a) (finishedTaskWrite a { s with finishedTaskInfos := s.finishedTaskInfos.dropLast }).2).halted = false :=
  (finishedTaskStep_strong s ms a hr hp hh hlast hnm).2.1

/-- (T2) **the body of `finishedTasksLoop` drops `Phi` by ≥ 1** -/
theorem finishedTaskStep_term {rules : List RuleSpec} {U : List Key} {s : State} {ms : MSt} {a : Key}
    (_hok : RulesOk rules) (hr : Rel rules s ms {}) (_hp : ms.pend = none) (hh : s.halted = false)
    (hlast : s.finishedTaskInfos.getLast? = some a) (_hnm : NoMid s) (hU : ClosedU rules U s)
    -- STRENGTHENED: `DiscInv` (see its comment): bounds the dummies by the rule's `6·|discs|` budget, puts their keys in `U`
    (hdi : DiscInv rules s) :
    TermStep rules U s {}
      (finishedTaskWake a (s.task a) (finishedTaskWrite a { s with finishedTaskInfos := s.finishedTaskInfos.dropLast }).2) {} 1 := by
  obtain ⟨t, ri0, ht, hl, hs⟩ := finishedTaskStep_finShape s ms a hr hh hlast
  exact hs.term hr ht hl (List.mem_of_getLast? hlast) hU (hdi.len a t ht) (hdi.keys a t ht)

/-- `DiscInv` across the body (tasks are only erased) -/
theorem finishedTaskStep_discInv {rules : List RuleSpec} {s : State} {ms : MSt} {a : Key}
    (hr : Rel rules s ms {}) (hh : s.halted = false) (hlast : s.finishedTaskInfos.getLast? = some a)
    (hdi : DiscInv rules s) :
    DiscInv rules (finishedTaskWake a (s.task a) (finishedTaskWrite a { s with finishedTaskInfos := s.finishedTaskInfos.dropLast }).2) := by
  obtain ⟨t, ri0, _, _, hs⟩ := finishedTaskStep_finShape s ms a hr hh hlast
  have hsub : ∀ b tb, (finishedTaskWake a (s.task a) (finishedTaskWrite a { s with finishedTaskInfos := s.finishedTaskInfos.dropLast }).2).taskInfos.lookup b = some tb →
      s.taskInfos.lookup b = some tb := by
    intro b tb h1
    rw [hs.tasks, lookup_alErase] at h1
    by_cases e : b = a
    · simp [e] at h1
    · simpa [e] using h1
  exact ⟨fun b tb h1 => hdi.len b tb (hsub b tb h1), fun b tb h1 => hdi.keys b tb (hsub b tb h1)⟩

/-- **`finishedTasksLoop`: no halt, no failed write, `Phi` drops** when the fuel exceeds the potential -/
theorem finishedTasksLoop_term {rules : List RuleSpec} {U : List Key} (hok : RulesOk rules) :
    ∀ (fuel : Nat) (w : Bool) (s : State) (ms : MSt),
      Rel rules s ms {} → ms.pend = none → s.halted = false → NoMid s → ClosedU rules U s →
      -- STRENGTHENED: `DiscInv`
      DiscInv rules s →
      Phi rules U s {} < fuel →
      (finishedTasksLoop fuel w s).2.2.halted = false ∧ (finishedTasksLoop fuel w s).1 = false ∧
      DiscInv rules (finishedTasksLoop fuel w s).2.2 ∧
      TermStep rules U s {} (finishedTasksLoop fuel w s).2.2 {} (if s.finishedTaskInfos = [] then 0 else 1)
  | 0, _, _, _, _, _, _, _, _, _, hlt => by omega
  | n + 1, w, s, ms, hr, hp, hh, hnm, hU, hdi, hlt => by
    rw [finishedTasksLoop_succ]
    cases hlast : s.finishedTaskInfos.getLast? with
    | none =>
      have he : s.finishedTaskInfos = [] := List.getLast?_eq_none_iff.1 hlast
      simp only [he, if_true]
      exact ⟨hh, trivial, hdi, hU, Nat.le_refl _⟩
    | some a =>
      have hne : s.finishedTaskInfos ≠ [] := by
        intro e; rw [e] at hlast; cases hlast
      simp only [hne, if_false]
      obtain ⟨h1, h2, _, ms', _, _, hrel, hp', _, _, hnm'⟩ := finishedTaskStep_strong s ms a hr hp hh hlast hnm
      have hT := finishedTaskStep_term hok hr hp hh hlast hnm hU hdi
      have hdi' := finishedTaskStep_discInv hr hh hlast hdi
      rw [h1]
      simp only [Bool.not_true, Bool.false_eq_true, if_false]
      have hlt' : Phi rules U (finishedTaskWake a (s.task a)
          (finishedTaskWrite a { s with finishedTaskInfos := s.finishedTaskInfos.dropLast }).2) {} < n := by
        have := hT.2; omega
      obtain ⟨i1, i2, i3, i4⟩ := finishedTasksLoop_term hok n true _ ms' hrel hp' h2 hnm' hT.1 hdi' hlt'
      refine ⟨i1, i2, i3, i4.1, ?_⟩
      have a1 := Nat.le_trans (Nat.le_add_right _ _) i4.2
      exact Nat.le_trans (Nat.add_le_add_right a1 1) hT.2

/-- (T1) for the loop, separately -/
theorem finishedTasksLoop_nohalt {rules : List RuleSpec} {U : List Key} (hok : RulesOk rules)
    (fuel : Nat) (w : Bool) (s : State) (ms : MSt)
    (hr : Rel rules s ms {}) (hp : ms.pend = none) (hh : s.halted = false) (hnm : NoMid s) (hU : ClosedU rules U s)
    (hdi : DiscInv rules s) (hlt : Phi rules U s {} < fuel) :
    (finishedTasksLoop fuel w s).2.2.halted = false :=
  (finishedTasksLoop_term hok fuel w s ms hr hp hh hnm hU hdi hlt).1

end LLBuild.Refine
