/-
IM5 — process death in the middle of a build (property C04): the END RESULTS (design: notes/REFINE.md §10).
Harness op `K`: the build runs in a forked child that is killed before its n-th event, at the latest just before `DE` (the
commit); the parent, whose store image is the database as of the last commit, starts a new engine.  Model of a crashed
build from state `s`: the token trace of `runBuildA key cancelAt sched a s` CUT before `DE` (`cutToks`: at most `cut + 1`
tokens, so at least `B key`), then the monitor event `crash`; the state afterwards is `opRestart s` (everything the killed
build did vanishes, including its store writes).  The events of the cut trace are `evOfToks none` (Crash0.lean): a cut
inside a write window `S k 2 … ‖ DS k` keeps the registrations and drops the completion.
* `crashedBuild_refines`: one crashed build from related, committed states is accepted and ends related, committed;
* `buildC_refines`: a completed build ends committed (`runBuildA_committed`: the trace ends `DE [; X] ; R v ; Z n 0`);
* `refinement_final_crash`: histories of `W`/`E`/`M`/`B`/`K` ops from a fresh harness, under `histSizedC` (the size
  condition of IM3 also for the killed builds: the hypothetical full run must be one the refinement covers);
* `refinement_final_async_of_crash`: without `K` ops this IS `refinement_final_async`.
-/
import LLBuild.Lemmas.Refine.Crash2

namespace LLBuild.Refine
open LLBuild.Engine LLBuild.Engine.DSL LLBuild.EngineImpl

/-! ## 1. the cut trace -/

/-- the tokens the killed child recorded: those before the commit `DE`, at most `cut + 1` of them -/
def cutToks (key cancelAt : Nat) (sched : List SchedItem) (a : Async) (cut : Nat) (s : State) : List Tok :=
  (((runBuildA key cancelAt sched a s).trace.reverse).takeWhile (fun t => !Tok.isDE t)).take (cut + 1)

theorem takeWhile_append_stop {α : Type} (p : α → Bool) : ∀ (l : List α) (b : α) (c : List α),
    (∀ x ∈ l, p x = true) → p b = false → (l ++ b :: c).takeWhile p = l
  | [], b, c, _, hb => by simp [hb]
  | x :: l, b, c, hl, hb => by
    have hx : p x = true := hl x List.mem_cons_self
    simp only [List.cons_append, List.takeWhile, hx]
    rw [takeWhile_append_stop p l b c (fun y hy => hl y (List.mem_cons_of_mem _ hy)) hb]

theorem isClose_false {t : Tok} (h : Tok.isClose t = false) : Tok.isDE t = false ∧ Tok.isZ t = false := by
  cases t <;> first | exact ⟨rfl, rfl⟩ | cases h

/-- the database is attached throughout a build from `RelIdle` -/
theorem runBuildA_hasDB {rules : List RuleSpec} (hloop : WorkLoopSpecA rules) {s : State} {m : Engine.St}
    (hr : RelIdle rules s m) (key cancelAt : Nat) (sched : List SchedItem) (a : Async)
    (hnh : (runBuildA key cancelAt sched a s).halted = false) :
    (buildPreA key a (emit (.B key) (buildInit cancelAt sched s))).2.hasDB = true := by
  obtain ⟨toks1, m1, he1, hrun1, hr1, hh1⟩ := prologue_B hr key cancelAt sched
  have hnhP : (buildPreA key a (emit (.B key) (buildInit cancelAt sched s))).2.halted = false := by
    rw [← runBuildA_pre_halted]; exact hnh
  obtain ⟨toks2, m2, b, he2, hrun2, hp⟩ := buildPreA_sim hloop a hr1 hh1 hnhP
  exact hp.post.base.hasDB

/-- **the shape of the trace of a build that did not halt**: `B key :: rest` without `DE`/`R`/`Z`, then
`DE [; X] ; R v ; Z n 0` -/
theorem runBuildA_trace_shape {rules : List RuleSpec} (hloop : WorkLoopSpecA rules) {s : State} {m : Engine.St}
    (hr : RelIdle rules s m) (key cancelAt : Nat) (sched : List SchedItem) (a : Async)
    (hnh : (runBuildA key cancelAt sched a s).halted = false) :
    ∃ rest v n x, (runBuildA key cancelAt sched a s).trace.reverse = (.B key :: rest) ++ .DE :: (x ++ [.R v, .Z n 0]) ∧
      (x = [] ∨ x = [.X]) ∧ ∀ t ∈ Tok.B key :: rest, Tok.isClose t = false := by
  have hdb := runBuildA_hasDB hloop hr key cancelAt sched a hnh
  obtain ⟨v, n, x, htr, hx⟩ := runBuildA_trace_end key cancelAt sched a s hnh hdb
  obtain ⟨⟨rest, hB⟩, hnc⟩ := buildPreA_trace key cancelAt sched a s
  refine ⟨rest, v, n, x, ?_, hx, ?_⟩
  · rw [htr, hB]; simp
  · intro t ht
    rw [← hB] at ht
    exact hnc t (List.mem_reverse.1 ht)

/-- the first token of every trace is `B key` -/
theorem runBuildA_trace_head {rules : List RuleSpec} (hloop : WorkLoopSpecA rules) {s : State} {m : Engine.St}
    (hr : RelIdle rules s m) (key cancelAt : Nat) (sched : List SchedItem) (a : Async)
    (hnh : (runBuildA key cancelAt sched a s).halted = false) :
    ∃ rest, (runBuildA key cancelAt sched a s).trace.reverse = .B key :: rest := by
  obtain ⟨rest, v, n, x, h, _, _⟩ := runBuildA_trace_shape hloop hr key cancelAt sched a hnh
  exact ⟨_, by rw [h]; rfl⟩

/-- the cut trace is a non-empty prefix of the part of the trace before `DE` -/
theorem cutToks_spec {rules : List RuleSpec} (hloop : WorkLoopSpecA rules) {s : State} {m : Engine.St}
    (hr : RelIdle rules s m) (key cancelAt : Nat) (sched : List SchedItem) (a : Async) (cut : Nat)
    (hnh : (runBuildA key cancelAt sched a s).halted = false) :
    ∃ rest q, cutToks key cancelAt sched a cut s = .B key :: rest ∧
      (runBuildA key cancelAt sched a s).trace.reverse = (.B key :: rest) ++ q ∧
      ∀ t ∈ Tok.B key :: rest, Tok.isDE t = false ∧ Tok.isZ t = false := by
  obtain ⟨rest, v, n, x, h, _, hnc⟩ := runBuildA_trace_shape hloop hr key cancelAt sched a hnh
  have htw : ((runBuildA key cancelAt sched a s).trace.reverse).takeWhile (fun t => !Tok.isDE t) = .B key :: rest := by
    rw [h]
    apply takeWhile_append_stop
    · intro t ht; simp [(isClose_false (hnc t ht)).1]
    · rfl
  refine ⟨rest.take cut, rest.drop cut ++ .DE :: (x ++ [.R v, .Z n 0]), ?_, ?_, ?_⟩
  · unfold cutToks; rw [htw]; rfl
  · rw [h]
    simp only [List.cons_append, List.cons.injEq, true_and]
    rw [← List.append_assoc, List.take_append_drop]
  · intro t ht
    apply isClose_false
    apply hnc
    rcases List.mem_cons.1 ht with e | e
    · exact e ▸ List.mem_cons_self
    · exact List.mem_cons_of_mem _ (List.mem_of_mem_take e)

/-! ## 2. one crashed build, one completed build -/

/-- **A crashed build is accepted.**  From related, committed states, under the size condition of IM3 (so that the build
that was being run is one the refinement covers), for every asynchronous schedule and every cut point before the commit:
the events of the cut trace followed by `crash` are accepted by the monitor, which is then related to the new engine on
the unchanged store, and committed again. -/
theorem crashedBuild_refines {rules : List RuleSpec} (hok : RulesOk rules) {s : State} {m : Engine.St}
    (hr : RelIdle rules s m) (hc : Committed m) (key cancelAt : Nat) (sched : List SchedItem) (a : Async) (cut : Nat)
    (hsize : workBound rules s key + 2 < scanFuel) :
    ∃ evs mc, evOfToks none (cutToks key cancelAt sched a cut s) = some evs ∧
      run (program rules) m (evs ++ [.crash]) = some mc ∧ RelIdle rules (opRestart s) mc ∧ Committed mc := by
  have hloop := workLoopA_final rules hok
  have hnh := build_terminates_async hok hr key cancelAt sched a hsize
  obtain ⟨m', hrun, _⟩ := runBuildA_sim hloop hr key cancelAt sched a hnh
  obtain ⟨rest, q, hcut, hfull, hp⟩ := cutToks_spec hloop hr key cancelAt sched a cut hnh
  rw [hfull] at hrun
  obtain ⟨msp, hpre, _⟩ := trun_prefix hrun
  obtain ⟨mc, hstep, hrel, hcm⟩ := crash_relIdle hr hc hpre hp
  obtain ⟨evs, hev, hrunE⟩ := trun_evOfToks _ _ _ hpre
  refine ⟨evs, mc, by rw [hcut]; exact hev, ?_, hrel, hcm⟩
  rw [run_append, hrunE]
  simp [run, hstep]

/-- a completed asynchronous build: accepted (`runBuildA_refines`), and the monitor ends COMMITTED -/
theorem buildC_refines {rules : List RuleSpec} (hok : RulesOk rules) {s : State} {m : Engine.St}
    (hr : RelIdle rules s m) (key cancelAt : Nat) (sched : List SchedItem) (a : Async)
    (hsize : workBound rules s key + 2 < scanFuel) :
    ∃ evs m', toEvents (runBuildA key cancelAt sched a s).trace.reverse = some evs ∧
      run (program rules) m evs = some m' ∧ RelIdle rules (runBuildA key cancelAt sched a s) m' ∧ Committed m' := by
  have hloop := workLoopA_final rules hok
  have hnh := build_terminates_async hok hr key cancelAt sched a hsize
  obtain ⟨m', h1, h2⟩ := runBuildA_sim hloop hr key cancelAt sched a hnh
  obtain ⟨evs, h3, h4⟩ := trun_toEvents h1
  exact ⟨evs, m', h3, h4, h2, runBuildA_committed hloop hr key cancelAt sched a hnh h1⟩

/-! ## 3. histories with crashes -/

/-- the ops of `OpA` plus `K`: a build killed after `cut + 1` tokens (at the latest just before `DE`) -/
inductive OpC
  | wipe
  | restart
  | mutate (slot val : Nat)
  | build (key cancelAt : Nat) (sched : List SchedItem) (a : Async)
  | crashedBuild (key cancelAt : Nat) (sched : List SchedItem) (a : Async) (cut : Nat)

def runOpC : OpC → State → State
  | .wipe, s => opWipe s
  | .restart, s => opRestart s
  | .mutate a b, s => opMutate a b s
  | .build key cancelAt sched a, s => runBuildA key cancelAt sched a s
  | .crashedBuild _ _ _ _ _, s => opRestart s

def opEventsC : OpC → State → Option (List Event)
  | .wipe, _ => some [.wipe]
  | .restart, _ => some [.restart]
  | .mutate a b, _ => some [.mutate a b]
  | .build key cancelAt sched a, s => toEvents (runBuildA key cancelAt sched a s).trace.reverse
  | .crashedBuild key cancelAt sched a cut, s =>
    (evOfToks none (cutToks key cancelAt sched a cut s)).map (fun evs => evs ++ [.crash])

def runOpsC : List OpC → State → State
  | [], s => s
  | op :: ops, s => runOpsC ops (runOpC op s)

def histEventsC : List OpC → State → Option (List Event)
  | [], _ => some []
  | op :: ops, s => do
    let a ← opEventsC op s
    let b ← histEventsC ops (runOpC op s)
    some (a ++ b)

/-- the size condition on a history: for completed AND for killed builds -/
def histSizedC (rules : List RuleSpec) : List OpC → State → Prop
  | [], _ => True
  | op :: ops, s =>
    (match op with
     | .build key _ _ _ => workBound rules s key + 2 < scanFuel
     | .crashedBuild key _ _ _ _ => workBound rules s key + 2 < scanFuel
     | _ => True) ∧ histSizedC rules ops (runOpC op s)

theorem refinement_opC {rules : List RuleSpec} (hok : RulesOk rules) {s : State} {m : Engine.St}
    (hr : RelIdle rules s m) (hc : Committed m) (op : OpC) (hs : histSizedC rules [op] s) :
    ∃ evs m', opEventsC op s = some evs ∧ run (program rules) m evs = some m' ∧ RelIdle rules (runOpC op s) m' ∧
      Committed m' := by
  cases op with
  | wipe =>
    obtain ⟨m', h1, h2⟩ := hr.wipe (program rules)
    exact ⟨[.wipe], m', rfl, by simp [run, h1], h2, Committed.step h1 rfl hc⟩
  | restart =>
    obtain ⟨m', h1, h2⟩ := hr.restart (program rules)
    exact ⟨[.restart], m', rfl, by simp [run, h1], h2, Committed.step h1 rfl hc⟩
  | mutate a b =>
    obtain ⟨m', h1, h2⟩ := hr.mutate (program rules) a b
    exact ⟨[.mutate a b], m', rfl, by simp [run, h1], h2, Committed.step h1 rfl hc⟩
  | build key cancelAt sched a => exact buildC_refines hok hr key cancelAt sched a hs.1
  | crashedBuild key cancelAt sched a cut =>
    obtain ⟨evs, mc, h1, h2, h3, h4⟩ := crashedBuild_refines hok hr hc key cancelAt sched a cut hs.1
    exact ⟨evs ++ [.crash], mc, by simp [opEventsC, h1], h2, h3, h4⟩

theorem refinement_historyC {rules : List RuleSpec} (hok : RulesOk rules) :
    ∀ (ops : List OpC) (s : State) (m : Engine.St), RelIdle rules s m → Committed m → histSizedC rules ops s →
      ∃ evs m', histEventsC ops s = some evs ∧ run (program rules) m evs = some m' ∧ RelIdle rules (runOpsC ops s) m' ∧
        Committed m'
  | [], s, m, hr, hc, _ => ⟨[], m, rfl, rfl, hr, hc⟩
  | op :: ops, s, m, hr, hc, hs => by
    obtain ⟨evs1, m1, h1, h2, h3, hc1⟩ := refinement_opC hok hr hc op ⟨hs.1, trivial⟩
    obtain ⟨evs2, m2, h4, h5, h6, hc2⟩ := refinement_historyC hok ops (runOpC op s) m1 h3 hc1 hs.2
    refine ⟨evs1 ++ evs2, m2, ?_, ?_, h6, hc2⟩
    · simp [histEventsC, h1, h4]
    · rw [run_append, h2]; simpa using h5

/-- **IM2 + IM3 + IM4 + IM5.**  From a fresh harness with program `rules`, any history of ops whose builds — completed OR
KILLED at any point before their commit, each with an arbitrary schedule of completions and cancellations by other
threads — satisfy the size condition is accepted by the abstract monitor (with `crash` after each killed build), and the
engine ends related to the monitor. -/
theorem refinement_final_crash {rules : List RuleSpec} (hok : RulesOk rules) (ops : List OpC)
    (hs : histSizedC rules ops (opProgram rules {})) :
    ∃ evs m', histEventsC ops (opProgram rules {}) = some evs ∧ run (program rules) {} evs = some m' ∧
      RelIdle rules (runOpsC ops (opProgram rules {})) m' := by
  obtain ⟨evs, m', h1, h2, h3, _⟩ := refinement_historyC hok ops _ _ (RelIdle.init rules) Committed.init hs
  exact ⟨evs, m', h1, h2, h3⟩

/-- … and the monitor ends committed: a crash right after the history would lose nothing -/
theorem refinement_final_crash_committed {rules : List RuleSpec} (hok : RulesOk rules) (ops : List OpC)
    (hs : histSizedC rules ops (opProgram rules {})) :
    ∃ evs m', histEventsC ops (opProgram rules {}) = some evs ∧ run (program rules) {} evs = some m' ∧
      RelIdle rules (runOpsC ops (opProgram rules {})) m' ∧ Committed m' :=
  refinement_historyC hok ops _ _ (RelIdle.init rules) Committed.init hs

/-! ## 4. histories without crashes: `refinement_final_async` is the special case -/

def OpA.toC : OpA → OpC
  | .wipe => .wipe
  | .restart => .restart
  | .mutate a b => .mutate a b
  | .build key cancelAt sched a => .build key cancelAt sched a

theorem runOpC_toC (op : OpA) (s : State) : runOpC op.toC s = runOpA op s := by
  cases op <;> rfl

theorem opEventsC_toC (op : OpA) (s : State) : opEventsC op.toC s = opEventsA op s := by
  cases op <;> rfl

theorem runOpsC_toC : ∀ (ops : List OpA) (s : State), runOpsC (ops.map OpA.toC) s = runOpsA ops s
  | [], _ => rfl
  | op :: ops, s => by
    simp only [List.map_cons, runOpsC, runOpsA, runOpC_toC]
    exact runOpsC_toC ops _

theorem histEventsC_toC : ∀ (ops : List OpA) (s : State), histEventsC (ops.map OpA.toC) s = histEventsA ops s
  | [], _ => rfl
  | op :: ops, s => by
    simp only [List.map_cons, histEventsC, histEventsA, runOpC_toC, opEventsC_toC, histEventsC_toC ops]

theorem histSizedC_toC (rules : List RuleSpec) : ∀ (ops : List OpA) (s : State),
    histSizedC rules (ops.map OpA.toC) s ↔ histSizedA rules ops s
  | [], _ => Iff.rfl
  | op :: ops, s => by
    simp only [List.map_cons, histSizedC, histSizedA, runOpC_toC, histSizedC_toC rules ops]
    cases op <;> simp [OpA.toC]

/-- `refinement_final_async` (Final3.lean) is `refinement_final_crash` for histories without `K` ops -/
theorem refinement_final_async_of_crash {rules : List RuleSpec} (hok : RulesOk rules) (ops : List OpA)
    (hs : histSizedA rules ops (opProgram rules {})) :
    ∃ evs m', histEventsA ops (opProgram rules {}) = some evs ∧ run (program rules) {} evs = some m' ∧
      RelIdle rules (runOpsA ops (opProgram rules {})) m' := by
  have h := refinement_final_crash hok (ops.map OpA.toC) ((histSizedC_toC rules ops _).2 hs)
  rwa [histEventsC_toC, runOpsC_toC] at h

/-! ## 5. non-vacuity: a history with builds killed INSIDE and OUTSIDE a write window -/

/-- the state before the first build of the examples: program `exRulesD` (Final3.lean), input `1` set to 55 -/
def exS0 : State := opMutate 1 55 (opProgram exRulesD {})

/-- * a build of `3` (cancellation armed at event 18) killed after 19 tokens: `… ; C 1 55 0 ; S 1 2 ; X ‖ DS 1 …` — INSIDE the
  write window of rule `1`, after the registration `X`;
* the build again, completed (everything is rebuilt: nothing of the killed build survived);
* the input changes; a build killed after 8 tokens (outside any window), one killed at the last possible point, just
  before `DE` (all its `DS` writes vanish with it), then the completed build -/
def exOpsC : List OpC :=
  [.mutate 1 55, .crashedBuild 3 18 [] exAsyncComplete 18, .build 3 0 [] exAsyncComplete, .mutate 1 56,
   .crashedBuild 3 0 [] exAsyncCancel 7, .crashedBuild 3 0 [] [] 1000, .build 3 0 [] []]

theorem exOpsC_sized : histSizedC exRulesD exOpsC (opProgram exRulesD {}) := by
  simp only [exOpsC, histSizedC, runOpC, and_true, true_and]
  refine ⟨by decide, by decide, by decide, by decide, by decide⟩

/-- the theorem applies -/
example : ∃ evs m', histEventsC exOpsC (opProgram exRulesD {}) = some evs ∧ run (program exRulesD) {} evs = some m' ∧
    RelIdle exRulesD (runOpsC exOpsC (opProgram exRulesD {})) m' :=
  refinement_final_crash exRulesD_ok exOpsC exOpsC_sized

/-- the first killed build is cut INSIDE the write window of rule `1`: 19 tokens, the 18th is `S 1 2`, the last one is a
registration token (`X`); `toEvents` rejects the cut trace (a completion without its write), `evOfToks` reads 18 events
(the 17 before `S 1 2` and the `cancel`; the completion `finished 1 _` never took effect) -/
example : (cutToks 3 18 [] exAsyncComplete 18 exS0).length = 19 ∧
    ((cutToks 3 18 [] exAsyncComplete 18 exS0)[17]?.bind Tok.isS2) = some 1 ∧
    ((cutToks 3 18 [] exAsyncComplete 18 exS0)[18]?.map Tok.isReg) = some true ∧
    (toEvents (cutToks 3 18 [] exAsyncComplete 18 exS0)).isNone = true ∧
    (evOfToks none (cutToks 3 18 [] exAsyncComplete 18 exS0)).map List.length = some 18 := by
  decide

/-- a cut OUTSIDE a window: 8 tokens, 8 events, and `toEvents` reads the same number -/
example : (cutToks 3 0 [] exAsyncComplete 7 exS0).length = 8 ∧
    (evOfToks none (cutToks 3 0 [] exAsyncComplete 7 exS0)).map List.length = some 8 ∧
    (toEvents (cutToks 3 0 [] exAsyncComplete 7 exS0)).map List.length = some 8 := by
  decide

/-- the latest cut (just before `DE`): the killed build had written both rows (`DS 1`, `DS 3`: the completed build's store
has 2 rows); after the crash the store is the one the build started from (no row) -/
example : (cutToks 3 0 [] exAsyncComplete 1000 exS0).length = 25 ∧
    (runBuildA 3 0 [] exAsyncComplete exS0).store.rows.length = 2 ∧
    (runOpC (.crashedBuild 3 0 [] exAsyncComplete 1000) exS0).store.rows.length = 0 := by
  decide

/-- the events of the whole example history exist (every cut trace is readable) -/
example : (histEventsC exOpsC (opProgram exRulesD {})).isSome = true := by decide

/-
#print axioms trun_evOfToks                    -- [propext, Quot.sound]
#print axioms trun_prefix                      -- [propext]
#print axioms toEvents_evOfToks                -- [propext, Quot.sound]
#print axioms trun_inner                       -- [propext, Quot.sound]
#print axioms crash_relIdle                    -- [propext, Quot.sound]
#print axioms buildPreA_trace                  -- [propext, Quot.sound]
#print axioms runBuildA_trace_end              -- [propext]
#print axioms runBuildA_committed              -- [propext, Classical.choice, Quot.sound]
#print axioms crashedBuild_refines             -- [propext, Classical.choice, Quot.sound]
#print axioms refinement_final_crash           -- [propext, Classical.choice, Quot.sound]
#print axioms refinement_final_crash_committed -- [propext, Classical.choice, Quot.sound]
#print axioms refinement_final_async_of_crash  -- [propext, Classical.choice, Quot.sound]
-/
end LLBuild.Refine
