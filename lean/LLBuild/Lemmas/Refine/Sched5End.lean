/-
C05 on the transliterated engine — the monitor's view of the END of ANY build (`build_general`) and what follows from it:
* `ret v` with `v ≠ 0` is accepted only through the success-shaped branch: flags `cycleSeen`/`errSeen` down, the requested
  rule complete with value `v`, nothing pending (`step_ret_nonzero`) — whether or not the build was cancelled;
* `build_store_rows`: every store row after the build is the row before it or the `row` of a `DS k row` token;
* `build_DS_after_C`: in the trace of a build every `DS k row` is preceded by a `C k v f`.
-/
import LLBuild.Lemmas.Refine.Sched5

namespace LLBuild.Refine
open LLBuild.Engine LLBuild.Engine.DSL LLBuild.EngineImpl

/-- `ret v` with a non-empty value: the success-shaped branch -/
theorem step_ret_nonzero {P : Program} {m m' : Engine.St} {v : Val} (h : step P m (.ret v) = some m') (hv : v ≠ 0) :
    m.cycleSeen = false ∧ m.errSeen = false ∧ m'.pendingDropped = m.pendingDropped ∧
    ∃ root, m.target = some root ∧ m.status root = .done ∧ v = (m.mem.res root).value ∧ m.pending = [] := by
  simp only [step] at h
  split at h
  · cases h
  · rename_i root htgt
    split at h
    · cases h
    · split at h
      · rename_i hc
        cases h
        simp only [Bool.and_eq_true, Bool.not_eq_eq_eq_not, Bool.not_true, beq_iff_eq] at hc
        obtain ⟨⟨⟨hcy, her⟩, ⟨⟨⟨hd, hval⟩, hpe⟩, _⟩⟩, _⟩ := hc
        exact ⟨hcy, her, rfl, root, htgt, by simpa [isDone] using hd, hval, List.isEmpty_iff.1 hpe⟩
      · split at h
        · rename_i hc
          simp only [Bool.and_eq_true, beq_iff_eq] at hc
          exact absurd hc.2 hv
        · cases h

theorem step_cancel_frame {P : Program} {m m' : Engine.St} (h : step P m .cancel = some m') :
    m'.cancelled = true ∧ m'.cycleSeen = m.cycleSeen ∧ m'.errSeen = m.errSeen ∧ m'.target = m.target ∧ m'.env = m.env ∧
    m'.pending = m.pending ∧ m'.pendingDropped = m.pendingDropped := by
  simp only [step] at h; cases h; exact ⟨rfl, rfl, rfl, rfl, rfl, rfl, rfl⟩

/-- **the monitor at the end of ANY build** (from related states, under the size condition): the trace is
`B key :: rest ++ DE :: x ++ [R v, Z 0 0]`; the monitor accepts the events `pre` of everything before `R v` and reaches `m1`,
where `ret v` is accepted; `m1` has the target, the engine's external state, the `pending` list the middle of the build
left, `pendingDropped` raised iff that list is non-empty, and flags that are up whenever their token was printed. -/
theorem build_general {rules : List RuleSpec} (hok : RulesOk rules) {s : State} {m : Engine.St}
    (hr : RelIdle rules s m) (key cancelAt : Nat) (sched : List SchedItem) (a : Async)
    (hsize : workBound rules s key + 2 < scanFuel) :
    ∃ rest v x pre m1 m2 m',
      (runBuildA key cancelAt sched a s).trace.reverse = (.B key :: rest) ++ .DE :: (x ++ [.R v, .Z 0 0]) ∧
      (x = [] ∨ x = [.X]) ∧ (∀ t ∈ rest, Tok.isClose t = false) ∧
      run (program rules) m pre = some m1 ∧ step (program rules) m1 (.ret v) = some m2 ∧
      m1.target = some key ∧ m1.env = s.env ∧
      m1.pendingDropped = (m.pendingDropped || !m1.pending.isEmpty) ∧
      Flags m1 (rest.any Tok.isCY) (rest.any Tok.isER) ((rest ++ x).any Tok.isXc) ∧
      trun (program rules) ⟨m, none⟩ (runBuildA key cancelAt sched a s).trace.reverse = some ⟨m', none⟩ ∧
      RelIdle rules (runBuildA key cancelAt sched a s) m' ∧
      step (program rules) m2 (.tail 0 0) = some m' ∧ (NoFail (rest ++ x) → NoFlags m1) := by
  have hloop := workLoopA_final rules hok
  have hnh := build_terminates_async hok hr key cancelAt sched a hsize
  obtain ⟨m', hrun, hrel⟩ := runBuildA_sim hloop hr key cancelAt sched a hnh
  obtain ⟨rest, v, x, htr, hx, hnc⟩ := runBuildA_trace_shape0 hloop hr key cancelAt sched a hnh
  have hnc' : ∀ t ∈ rest, Tok.isClose t = false := fun t ht => hnc t (List.mem_cons_of_mem _ ht)
  have hrun0 := hrun
  rw [htr] at hrun
  obtain ⟨msA, hA, hclose⟩ := trun_prefix hrun
  obtain ⟨htA, heA, hdA, hnfA⟩ := trun_B_mid hA hnc'
  -- flags after the middle
  have hflA : Flags msA.m (rest.any Tok.isCY) (rest.any Tok.isER) (rest.any Tok.isXc) := by
    have hA' := hA
    simp only [trun] at hA'
    cases hB : tstep (program rules) ⟨m, none⟩ (.B key) with
    | none => rw [hB] at hA'; simp at hA'
    | some ms1 =>
      rw [hB] at hA'; simp only [Option.bind_some] at hA'
      have ht1 : ms1.m.target.isSome = true := by rw [(tstep_B hB).2.1]; rfl
      have := trun_sticky rest ms1 msA false false false hA' (fun t ht => Or.inl (hnc' t ht)) ht1
        ⟨(fun h => by cases h), (fun h => by cases h), (fun h => by cases h)⟩
      simpa using this
  -- `DE`
  simp only [trun] at hclose
  cases hDE : tstep (program rules) msA .DE with
  | none => rw [hDE] at hclose; simp at hclose
  | some msB =>
    rw [hDE] at hclose; simp only [Option.bind_some] at hclose
    have sDE := tstep_ev_inv hDE (e := .dbEnd) rfl
    obtain ⟨d1, d2, d3, d4, d5, d6, d7⟩ := step_dbEnd_frame sDE
    have hDE1 : trun (program rules) msA [.DE] = some msB := by simp [trun, hDE]
    rcases hx with hx | hx
    · subst hx
      simp only [List.nil_append, trun] at hclose
      cases hR : tstep (program rules) msB (.R v) with
      | none => rw [hR] at hclose; simp at hclose
      | some msC =>
        rw [hR] at hclose; simp only [Option.bind_some] at hclose
        have sR := tstep_ev_inv hR (e := .ret v) rfl
        have sZ : step (program rules) msC.m (.tail 0 0) = some m' := by
          cases hZ : tstep (program rules) msC (.Z 0 0) with
          | none => rw [hZ] at hclose; simp at hclose
          | some msD =>
            rw [hZ] at hclose; simp only [Option.bind_some, Option.some.injEq] at hclose; subst hclose
            exact tstep_ev_inv hZ (e := .tail 0 0) rfl
        obtain ⟨pre, _, hpre⟩ := trun_evOfToks _ _ _ (trun_append_some hA hDE1)
        refine ⟨rest, v, [], pre, msB.m, msC.m, m', htr, Or.inl rfl, hnc', hpre, sR, d4.trans htA, (d5.trans heA).trans hr.env, ?_, ?_,
          hrun0, hrel, sZ, ?_⟩
        · rw [d7, d6, hdA]
        · refine ⟨fun hh => d2.trans (hflA.cy hh), fun hh => d3.trans (hflA.er hh), fun hh => ?_⟩
          rw [List.append_nil] at hh
          exact d1.trans (hflA.xc hh)
        · intro hnf
          rw [List.append_nil] at hnf
          obtain ⟨f1, f2, f3⟩ := hnfA hnf
          exact ⟨d1.trans f1, d2.trans f2, d3.trans f3⟩
    · subst hx
      simp only [List.cons_append, List.nil_append, trun] at hclose
      cases hX : tstep (program rules) msB .X with
      | none => rw [hX] at hclose; simp at hclose
      | some msX =>
        rw [hX] at hclose; simp only [Option.bind_some] at hclose
        have sX := tstep_ev_inv hX (e := .cancel) rfl
        obtain ⟨c1, c2, c3, c4, c5, c6, c7⟩ := step_cancel_frame sX
        cases hR : tstep (program rules) msX (.R v) with
        | none => rw [hR] at hclose; simp at hclose
        | some msC =>
          rw [hR] at hclose; simp only [Option.bind_some] at hclose
          have sR := tstep_ev_inv hR (e := .ret v) rfl
          have sZ : step (program rules) msC.m (.tail 0 0) = some m' := by
            cases hZ : tstep (program rules) msC (.Z 0 0) with
            | none => rw [hZ] at hclose; simp at hclose
            | some msD =>
              rw [hZ] at hclose; simp only [Option.bind_some, Option.some.injEq] at hclose; subst hclose
              exact tstep_ev_inv hZ (e := .tail 0 0) rfl
          have hDX : trun (program rules) msA [.DE, .X] = some msX := by simp [trun, hDE, hX]
          obtain ⟨pre, _, hpre⟩ := trun_evOfToks _ _ _ (trun_append_some hA hDX)
          refine ⟨rest, v, [.X], pre, msX.m, msC.m, m', htr, Or.inr rfl, hnc', hpre, sR, (c4.trans d4).trans htA,
            ((c5.trans d5).trans heA).trans hr.env, ?_, ?_, hrun0, hrel, sZ, ?_⟩
          · rw [c7, c6, d7, d6, hdA]
          · exact ⟨fun hh => (c2.trans d2).trans (hflA.cy hh), fun hh => (c3.trans d3).trans (hflA.er hh), fun _ => c1⟩
          · intro hnf
            have := hnf.mem (t := .X) (by simp)
            cases this

/-- **store rows change only at `DS`**: a row of the store after a build is the row before the build or the `row` of a
`DS k row` token of its trace -/
theorem build_store_rows {rules : List RuleSpec} (hok : RulesOk rules) {s : State} {m : Engine.St}
    (hr : RelIdle rules s m) (key cancelAt : Nat) (sched : List SchedItem) (a : Async)
    (hsize : workBound rules s key + 2 < scanFuel) (k : Key) (row : Res)
    (hrow : (runBuildA key cancelAt sched a s).store.rows.lookup k = some row) :
    s.store.rows.lookup k = some row ∨ Tok.DS k row ∈ (runBuildA key cancelAt sched a s).trace.reverse := by
  obtain ⟨_, _, _, _, _, _, m', _, _, _, _, _, _, _, _, _, hrun, hrel, _, _⟩ := build_general hok hr key cancelAt sched a hsize
  have hdb' : m'.db.res k = row := by rw [hrel.db k, hrow]; rfl
  rcases trun_db _ _ _ hrun k with e | e
  · left
    have hb : row.builtAt ≠ 0 := hrel.dbBuilt k row hrow
    have hold : (s.store.rows.lookup k).getD {} = row := by
      rw [← hr.db k]; show m.db.res k = row; rw [← hdb']; exact e.symm
    cases hl : s.store.rows.lookup k with
    | none =>
      rw [hl] at hold
      have : row.builtAt = 0 := by rw [← hold]; rfl
      exact absurd this hb
    | some r => rw [hl] at hold; exact congrArg some hold
  · right
    have : (⟨m', none⟩ : MSt).m.db.res k = row := hdb'
    rw [this] at e; exact e

/-- two trailing tokens that are not `DS` can be dropped from a split at a `DS` -/
theorem split_DS_tail {L pre post : List Tok} {a b : Tok} {k : Key} {row : Res}
    (h : L ++ [a, b] = pre ++ Tok.DS k row :: post) (ha : ∀ k r, a ≠ .DS k r) (hb : ∀ k r, b ≠ .DS k r) :
    ∃ post', L = pre ++ Tok.DS k row :: post' := by
  rcases List.append_eq_append_iff.1 h with ⟨a', h1, h2⟩ | ⟨c', h1, h2⟩
  · -- pre = L ++ a' : the `DS` lies in `[a, b]`
    cases a' with
    | nil => simp only [List.nil_append, List.cons.injEq] at h2; exact absurd h2.1 (ha k row)
    | cons z zs =>
      simp only [List.cons_append, List.cons.injEq] at h2
      obtain ⟨_, h3⟩ := h2
      cases zs with
      | nil => simp only [List.nil_append, List.cons.injEq] at h3; exact absurd h3.1 (hb k row)
      | cons y ys => simp at h3
  · cases c' with
    | nil =>
      simp only [List.nil_append, List.cons.injEq] at h2
      exact absurd h2.1.symm (ha k row)
    | cons z zs =>
      simp only [List.cons_append, List.cons.injEq] at h2
      obtain ⟨e1, _⟩ := h2
      subst e1
      exact ⟨zs, h1⟩

/-- **a row is written only for a task that completed**: in the trace of a build every `DS k row` is preceded by a
`C k v f` -/
theorem build_DS_after_C {rules : List RuleSpec} (hok : RulesOk rules) {s : State} {m : Engine.St}
    (hr : RelIdle rules s m) (key cancelAt : Nat) (sched : List SchedItem) (a : Async)
    (hsize : workBound rules s key + 2 < scanFuel) {pre post : List Tok} {k : Key} {row : Res}
    (hsplit : (runBuildA key cancelAt sched a s).trace.reverse = pre ++ Tok.DS k row :: post) :
    ∃ v f, Tok.C k v f ∈ pre := by
  obtain ⟨rest, v, x, _, _, _, m', htr, hx, hnc, _, _, _, _, _, _, hrun, _, _, _⟩ := build_general hok hr key cancelAt sched a hsize
  rw [htr] at hsplit hrun
  -- the build without its last two tokens
  have hL : (Tok.B key :: rest) ++ Tok.DE :: (x ++ [Tok.R v, Tok.Z 0 0]) = (Tok.B key :: (rest ++ Tok.DE :: x)) ++ [Tok.R v, Tok.Z 0 0] := by
    simp
  rw [hL] at hsplit hrun
  obtain ⟨post', hsp⟩ := split_DS_tail hsplit (fun _ _ e => by cases e) (fun _ _ e => by cases e)
  obtain ⟨msL, hrunL, _⟩ := trun_prefix hrun
  cases pre with
  | nil => cases hsp
  | cons p pre' =>
    simp only [List.cons_append, List.cons.injEq] at hsp
    obtain ⟨e1, e2⟩ := hsp
    subst e1
    simp only [trun] at hrunL
    cases hB : tstep (program rules) ⟨m, none⟩ (.B key) with
    | none => rw [hB] at hrunL; simp at hrunL
    | some ms1 =>
      rw [hB] at hrunL; simp only [Option.bind_some] at hrunL
      have ht1 : ms1.m.target.isSome = true := by rw [(tstep_B hB).2.1]; rfl
      have hcs : CompSeen [] ms1.m := by
        intro k' hk'
        have hst := tstep_ev_inv hB (e := .buildStart key) rfl
        simp only [step] at hst
        split at hst
        · cases ms1; simp only [Option.some.injEq] at hst; subst hst; cases hk'
        · cases hst
      have hall : ∀ t ∈ rest ++ Tok.DE :: x, Tok.isClose t = false ∨ t = .DE := by
        intro t ht
        rcases List.mem_append.1 ht with h1 | h1
        · exact Or.inl (hnc t h1)
        · rcases List.mem_cons.1 h1 with h2 | h2
          · exact Or.inr h2
          · rcases hx with e | e <;> rw [e] at h2
            · cases h2
            · simp only [List.mem_cons, List.not_mem_nil, or_false] at h2; subst h2; exact Or.inl rfl
      obtain ⟨v', f', hm⟩ := trun_completed _ ms1 msL [] hrunL hall ht1 hcs pre' k row post' e2
      exact ⟨v', f', List.mem_cons_of_mem _ (by simpa using hm)⟩

end LLBuild.Refine
