/-
C06 on the transliterated engine — SCHEDULE INDEPENDENCE, part 2: THE GHOST FLAG `pendingDropped` READ OFF THE PRINTED
TRACES (notes/REFINESCHED.md §12).

`Engine.step` raises `pendingDropped` in exactly two places: `dbEnd` (the commit of a build) and the failure-shaped branch
of `ret`, each time iff the monitor's list `pending` (discovered dependencies of tasks finished in this build that are not
yet up to date) is non-empty.  `pending` is itself a function of the tokens of the build:
  `B _` empties it; `IA k ds` declares the discovered dependencies of task `k`; `DS k _` (the merged `finished k`) removes `k`
  and adds those `ds` that are not yet done (`S d 1` / `DS d _` seen in this build) and are not `k`; `S k 1` removes `k`.
`ptStep` is that function (`PT`: done keys, declared discovered dependencies, pending keys, the flag), `PTIn` the invariant
that ties it to the monitor, `tstep_pt` the one-token step.  Result:
* `trun_B_pt`: after the accepted tokens `B key :: rest` of a build the monitor's flag is `buildDropped d (B key :: rest)`;
* `histDropped ops s d`: the flag after a history — `wipe` clears it, a completed build applies `buildDropped` to its printed
  trace, `restart`/`mutate`/a KILLED build leave it;
* `sched_history`: the refinement of Final4.lean with one more conjunct, `m'.pendingDropped = histDropped ops s m.pendingDropped`;
* `histNoFail_dropped`: a history none of whose completed builds printed `X`/`CY`/`ER` has `histDropped … false = false`.
-/
import LLBuild.Lemmas.Refine.Sched1

namespace LLBuild.Refine
open LLBuild.Engine LLBuild.Engine.DSL LLBuild.EngineImpl

/-! ## 1. the tracker -/

/-- what the tokens of a build say about the monitor's `pending` list -/
structure PT where
  /-- keys reported complete in this build (`S k 1`, `DS k _`) -/
  done : List Key := []
  /-- discovered dependencies declared by the task of a key (`IA k ds`) -/
  discs : Key → List Key := fun _ => []
  /-- the keys of the monitor's `pending` -/
  pending : List Key := []
  /-- the ghost flag -/
  dropped : Bool := false

def ptStep (pt : PT) : Tok → PT
  | .B _ => { dropped := pt.dropped }
  | .S k 1 => { pt with done := k :: pt.done, pending := pt.pending.filter (fun p => p != k) }
  | .T k => { pt with discs := upd pt.discs k [] }
  | .ST k _ => { pt with discs := upd pt.discs k [] }
  | .IA k ds => { pt with discs := upd pt.discs k ds }
  | .DS k _ =>
    { pt with done := k :: pt.done,
              pending := pt.pending.filter (fun p => p != k) ++
                (pt.discs k).filter (fun d => !(pt.done.contains d) && d != k) }
  | .DE => { pt with dropped := pt.dropped || !pt.pending.isEmpty }
  | .R _ => { pt with dropped := pt.dropped || !pt.pending.isEmpty, pending := [] }
  | .Z _ _ => { pt with done := [] }
  | _ => pt

def ptRun (pt : PT) (toks : List Tok) : PT := toks.foldl ptStep pt

/-- **the ghost flag after a completed build whose printed trace is `toks`, started with the flag at `d`** -/
def buildDropped (d : Bool) (toks : List Tok) : Bool := (ptRun { dropped := d } toks).dropped

/-- the tracker agrees with the monitor (inside a build) -/
structure PTIn (pt : PT) (m : Engine.St) : Prop where
  pend : m.pending.map (fun p => p.1) = pt.pending
  discs : ∀ k, (m.task k).discs = pt.discs k
  done : ∀ k, isDone m k = pt.done.contains k

theorem map_fst_filter_ne (l : List (Key × Val)) (k : Key) :
    (l.filter (fun p => p.1 != k)).map (fun p => p.1) = (l.map (fun p => p.1)).filter (fun p => p != k) := by
  induction l with
  | nil => rfl
  | cons x xs ih =>
    simp only [List.filter_cons, List.map_cons]
    split <;> simp [ih]

theorem map_fst_disc_filter (f : Key → Val) (g : Key → Bool) (ds : List Key) :
    ((ds.map (fun d => (d, f d))).filter (fun p => g p.1)).map (fun p => p.1) = ds.filter g := by
  induction ds with
  | nil => rfl
  | cons x xs ih =>
    simp only [List.map_cons, List.filter_cons]
    split <;> simp [ih]

theorem isEmpty_of_map_eq {l : List (Key × Val)} {l' : List Key} (h : l.map (fun p => p.1) = l') :
    l.isEmpty = l'.isEmpty := by
  subst h; cases l <;> rfl

/-- a status change of a key that was not done and is not done afterwards -/
theorem isDone_upd_notDone (m : Engine.St) (pt : PT) (hd : ∀ k, isDone m k = pt.done.contains k) (k : Key) (st : Status)
    (hk : (m.status k == .done) = false) (hst : (st == Status.done) = false) (k' : Key) :
    (upd m.status k st k' == Status.done) = pt.done.contains k' := by
  by_cases e : k' = k
  · subst e; rw [upd_same, hst, ← hd]; exact hk.symm
  · rw [upd_other _ _ _ _ e]; exact hd k'

/-- a key becomes done -/
theorem isDone_upd_done (m : Engine.St) (pt : PT) (hd : ∀ k, isDone m k = pt.done.contains k) (k k' : Key) :
    (upd m.status k Status.done k' == Status.done) = (k :: pt.done).contains k' := by
  by_cases e : k' = k
  · subst e; simp
  · rw [upd_other _ _ _ _ e, List.contains_cons]
    have : (k' == k) = false := by simpa using e
    rw [this, Bool.false_or]; exact hd k'

theorem discs_upd (m : Engine.St) (pt : PT) (hd : ∀ k, (m.task k).discs = pt.discs k) (k : Key) (t : Task) (ds : List Key)
    (ht : t.discs = ds) (k' : Key) : (upd m.task k t k').discs = upd pt.discs k ds k' := by
  by_cases e : k' = k
  · subst e; simp [ht]
  · rw [upd_other _ _ _ _ e, upd_other _ _ _ _ e]; exact hd k'

theorem discs_upd_same (m : Engine.St) (pt : PT) (hd : ∀ k, (m.task k).discs = pt.discs k) (k : Key) (t : Task)
    (ht : t.discs = (m.task k).discs) (k' : Key) : (upd m.task k t k').discs = pt.discs k' := by
  by_cases e : k' = k
  · subst e; rw [upd_same, ht]; exact hd k'
  · rw [upd_other _ _ _ _ e]; exact hd k'

/-! ## 2. one event against the tracker -/

section Events
variable {P : Program} {m m' : Engine.St} {pt : PT}

theorem pt_buildStart {k : Key} (h : step P m (.buildStart k) = some m') :
    PTIn { dropped := pt.dropped } m' ∧ m'.pendingDropped = m.pendingDropped := by
  simp only [step] at h
  split at h
  · cases h
    exact ⟨⟨rfl, fun _ => rfl, fun _ => rfl⟩, rfl⟩
  · cases h

theorem pt_scanning {k : Key} (h : step P m (.scanning k) = some m') (hin : PTIn pt m) :
    PTIn pt m' ∧ m'.pendingDropped = m.pendingDropped := by
  simp only [step] at h
  split at h
  · rename_i hc
    cases h
    simp only [Bool.and_eq_true, beq_iff_eq] at hc
    refine ⟨⟨hin.pend, hin.discs, ?_⟩, rfl⟩
    exact isDone_upd_notDone m pt hin.done k _ (by rw [hc.1.1.2]; rfl) rfl
  · cases h

theorem pt_needs {k : Key} {r : Nat} {i : Option Key} (h : step P m (.needs k r i) = some m') (hin : PTIn pt m) :
    PTIn pt m' ∧ m'.pendingDropped = m.pendingDropped := by
  simp only [step] at h
  split at h
  · rename_i hc
    cases h
    simp only [Bool.and_eq_true, beq_iff_eq] at hc
    refine ⟨⟨hin.pend, hin.discs, ?_⟩, rfl⟩
    exact isDone_upd_notDone m pt hin.done k _ (by rw [hc.1]; rfl) rfl
  · cases h

theorem pt_upToDate {k : Key} (h : step P m (.upToDate k) = some m') (hin : PTIn pt m) :
    PTIn { pt with done := k :: pt.done, pending := pt.pending.filter (fun p => p != k) } m' ∧
      m'.pendingDropped = m.pendingDropped := by
  simp only [step] at h
  split at h
  · cases h
    refine ⟨⟨?_, hin.discs, ?_⟩, rfl⟩
    · show (m.pending.filter (fun p => p.1 != k)).map (fun p => p.1) = _
      rw [map_fst_filter_ne, hin.pend]
    · exact isDone_upd_done m pt hin.done k
  · cases h

theorem pt_create {k : Key} (h : step P m (.create k) = some m') (hin : PTIn pt m) :
    PTIn { pt with discs := upd pt.discs k [] } m' ∧ m'.pendingDropped = m.pendingDropped := by
  simp only [step] at h
  split at h
  · rename_i hc
    cases h
    simp only [Bool.and_eq_true, beq_iff_eq] at hc
    refine ⟨⟨hin.pend, ?_, ?_⟩, rfl⟩
    · exact discs_upd m pt hin.discs k {} [] rfl
    · exact isDone_upd_notDone m pt hin.done k _ (by rw [hc.1]; rfl) rfl
  · cases h

theorem pt_start {k : Key} {reqs : List Req} (h : step P m (.start k reqs) = some m') (hin : PTIn pt m) :
    PTIn { pt with discs := upd pt.discs k [] } m' ∧ m'.pendingDropped = m.pendingDropped := by
  simp only [step] at h
  split at h
  · cases h
    exact ⟨⟨hin.pend, discs_upd m pt hin.discs k _ [] rfl, hin.done⟩, rfl⟩
  · cases h

theorem pt_prior {k : Key} {v : Val} (h : step P m (.prior k v) = some m') (hin : PTIn pt m) :
    PTIn pt m' ∧ m'.pendingDropped = m.pendingDropped := by
  simp only [step] at h
  split at h
  · cases h
    exact ⟨⟨hin.pend, discs_upd_same m pt hin.discs k _ rfl, hin.done⟩, rfl⟩
  · cases h

theorem pt_provide {k : Key} {id : Nat} {key : Key} {v : Val} {reqs : List Req}
    (h : step P m (.provide k id key v reqs) = some m') (hin : PTIn pt m) :
    PTIn pt m' ∧ m'.pendingDropped = m.pendingDropped := by
  simp only [step] at h
  split at h
  · split at h
    · cases h
    · split at h
      · cases h
        exact ⟨⟨hin.pend, discs_upd_same m pt hin.discs k _ rfl, hin.done⟩, rfl⟩
      · cases h
  · cases h

theorem pt_inputsAvail {k : Key} {ds : List Key} (h : step P m (.inputsAvail k ds) = some m') (hin : PTIn pt m) :
    PTIn { pt with discs := upd pt.discs k ds } m' ∧ m'.pendingDropped = m.pendingDropped := by
  simp only [step] at h
  split at h
  · rename_i hc
    cases h
    simp only [Bool.and_eq_true, beq_iff_eq] at hc
    refine ⟨⟨hin.pend, discs_upd m pt hin.discs k _ ds rfl, ?_⟩, rfl⟩
    exact isDone_upd_notDone m pt hin.done k _ (by rw [hc.1.1.1.1]; rfl) rfl
  · cases h

theorem pt_complete {k : Key} {v : Val} {f : Bool} (h : step P m (.complete k v f) = some m') (hin : PTIn pt m) :
    PTIn pt m' ∧ m'.pendingDropped = m.pendingDropped := by
  simp only [step] at h
  split at h
  · cases h
    exact ⟨⟨hin.pend, discs_upd_same m pt hin.discs k _ rfl, hin.done⟩, rfl⟩
  · cases h

theorem pt_finished {k : Key} {row : Res} (h : step P m (.finished k row) = some m') (hin : PTIn pt m) :
    PTIn { pt with done := k :: pt.done,
                   pending := pt.pending.filter (fun p => p != k) ++
                     (pt.discs k).filter (fun d => !(pt.done.contains d) && d != k) } m' ∧
      m'.pendingDropped = m.pendingDropped := by
  simp only [step] at h
  split at h
  · cases h
    refine ⟨⟨?_, hin.discs, ?_⟩, rfl⟩
    · show ((m.pending.filter (fun p => p.1 != k)) ++
          ((m.task k).discs.map (fun d => (d, P.out d m.env []))).filter (fun p => !(isDone m p.1) && p.1 != k)).map
            (fun p => p.1) = _
      rw [List.map_append, map_fst_filter_ne, hin.pend,
        map_fst_disc_filter (fun d => P.out d m.env []) (fun d => !(isDone m d) && d != k), hin.discs k]
      congr 1
      apply List.filter_congr
      intro d _
      rw [hin.done d]
    · exact isDone_upd_done m pt hin.done k
  · cases h

theorem pt_dbEnd (h : step P m .dbEnd = some m') (hd : m.pendingDropped = pt.dropped) (hin : PTIn pt m) :
    PTIn { pt with dropped := pt.dropped || !pt.pending.isEmpty } m' ∧
      m'.pendingDropped = (pt.dropped || !pt.pending.isEmpty) := by
  simp only [step] at h
  split at h
  · cases h
    refine ⟨⟨hin.pend, hin.discs, hin.done⟩, ?_⟩
    show (m.pendingDropped || !m.pending.isEmpty) = _
    rw [hd, isEmpty_of_map_eq hin.pend]
  · cases h

theorem pt_ret {v : Val} (h : step P m (.ret v) = some m') (hd : m.pendingDropped = pt.dropped) (hin : PTIn pt m) :
    PTIn { pt with dropped := pt.dropped || !pt.pending.isEmpty, pending := [] } m' ∧
      m'.pendingDropped = (pt.dropped || !pt.pending.isEmpty) := by
  have hem := isEmpty_of_map_eq hin.pend
  simp only [step] at h
  split at h
  · cases h
  · split at h
    · cases h
    · split at h
      · rename_i hc
        cases h
        simp only [Bool.and_eq_true] at hc
        have he : m.pending.isEmpty = true := hc.1.2.1.2
        have hnil : m.pending = [] := List.isEmpty_iff.1 he
        refine ⟨⟨?_, hin.discs, hin.done⟩, ?_⟩
        · show m.pending.map (fun p => p.1) = []
          rw [hnil]; rfl
        · show m.pendingDropped = _
          rw [← hem, he, hd]; simp
      · split at h
        · cases h
          refine ⟨⟨rfl, hin.discs, hin.done⟩, ?_⟩
          show (m.pendingDropped || !m.pending.isEmpty) = _
          rw [hd, hem]
        · cases h

theorem pt_tail {a b : Nat} (h : step P m (.tail a b) = some m') (hin : PTIn pt m) :
    PTIn { pt with done := [] } m' ∧ m'.pendingDropped = m.pendingDropped := by
  simp only [step] at h
  split at h
  · cases h
    exact ⟨⟨hin.pend, hin.discs, fun _ => rfl⟩, rfl⟩
  · cases h

/-- the events that touch neither `pending`, `task`, `status` nor the ghost flag -/
theorem pt_other {e : Event} (h : step P m e = some m')
    (he : (match e with
           | .queueCreated | .lookup _ | .dbGet _ _ | .dbBegin | .valid _ _ _ | .dbIter _ | .cycle _ | .error _
           | .cancel => true
           | _ => false) = true) (hin : PTIn pt m) :
    PTIn pt m' ∧ m'.pendingDropped = m.pendingDropped := by
  cases e <;> first
    | (exact Bool.noConfusion he)
    | (simp only [step] at h
       repeat' split at h
       all_goals (cases h; first | done | exact ⟨⟨hin.pend, hin.discs, hin.done⟩, rfl⟩))

end Events

/-! ## 3. one token, a token run -/

def Tok.isB : Tok → Bool
  | .B _ => true
  | _ => false

/-- **one accepted token**: the tracker follows the monitor (`B _` re-establishes the invariant from nothing) -/
theorem tstep_pt {P : Program} {ms ms' : MSt} {t : Tok} {pt : PT} (h : tstep P ms t = some ms')
    (hd : ms.m.pendingDropped = pt.dropped) (hin : Tok.isB t = false → PTIn pt ms.m) :
    PTIn (ptStep pt t) ms'.m ∧ ms'.m.pendingDropped = (ptStep pt t).dropped := by
  rcases tstep_event h with ⟨⟨k, e⟩, hm⟩ | ⟨e, he | ⟨k, row, ht, he⟩, hst⟩
  · subst e
    rw [hm]
    exact ⟨hin rfl, hd⟩
  · cases t with
    | B k =>
      simp only [Tok.toEvent?, Option.some.injEq] at he; subst he
      obtain ⟨a, b⟩ := pt_buildStart (pt := pt) hst
      exact ⟨a, b.trans hd⟩
    | S k n =>
      rcases n with _ | _ | n
      · simp only [Tok.toEvent?, Option.some.injEq] at he; subst he
        obtain ⟨a, b⟩ := pt_scanning hst (hin rfl)
        exact ⟨a, b.trans hd⟩
      · simp only [Tok.toEvent?, Option.some.injEq] at he; subst he
        obtain ⟨a, b⟩ := pt_upToDate hst (hin rfl)
        exact ⟨a, b.trans hd⟩
      · simp [Tok.toEvent?] at he
    | N k r i =>
      simp only [Tok.toEvent?, Option.some.injEq] at he; subst he
      obtain ⟨a, b⟩ := pt_needs hst (hin rfl)
      exact ⟨a, b.trans hd⟩
    | T k =>
      simp only [Tok.toEvent?, Option.some.injEq] at he; subst he
      obtain ⟨a, b⟩ := pt_create hst (hin rfl)
      exact ⟨a, b.trans hd⟩
    | ST k reqs =>
      simp only [Tok.toEvent?, Option.some.injEq] at he; subst he
      obtain ⟨a, b⟩ := pt_start hst (hin rfl)
      exact ⟨a, b.trans hd⟩
    | PP k v =>
      simp only [Tok.toEvent?, Option.some.injEq] at he; subst he
      obtain ⟨a, b⟩ := pt_prior hst (hin rfl)
      exact ⟨a, b.trans hd⟩
    | PV k id key v reqs =>
      simp only [Tok.toEvent?, Option.some.injEq] at he; subst he
      obtain ⟨a, b⟩ := pt_provide hst (hin rfl)
      exact ⟨a, b.trans hd⟩
    | IA k ds =>
      simp only [Tok.toEvent?, Option.some.injEq] at he; subst he
      obtain ⟨a, b⟩ := pt_inputsAvail hst (hin rfl)
      exact ⟨a, b.trans hd⟩
    | C k v f =>
      simp only [Tok.toEvent?, Option.some.injEq] at he; subst he
      obtain ⟨a, b⟩ := pt_complete hst (hin rfl)
      exact ⟨a, b.trans hd⟩
    | DE =>
      simp only [Tok.toEvent?, Option.some.injEq] at he; subst he
      exact pt_dbEnd hst hd (hin rfl)
    | R v =>
      simp only [Tok.toEvent?, Option.some.injEq] at he; subst he
      exact pt_ret hst hd (hin rfl)
    | Z x y =>
      simp only [Tok.toEvent?, Option.some.injEq] at he; subst he
      obtain ⟨a, b⟩ := pt_tail hst (hin rfl)
      exact ⟨a, b.trans hd⟩
    | DS k row => simp [Tok.toEvent?] at he
    | FUEL => simp [Tok.toEvent?] at he
    | BAD w => simp [Tok.toEvent?] at he
    | _ =>
      simp only [Tok.toEvent?, Option.some.injEq] at he; subst he
      obtain ⟨a, b⟩ := pt_other hst rfl (hin rfl)
      exact ⟨a, b.trans hd⟩
  · subst ht; subst he
    obtain ⟨a, b⟩ := pt_finished hst (hin rfl)
    exact ⟨a, b.trans hd⟩

theorem trun_pt {P : Program} : ∀ (toks : List Tok) (ms ms' : MSt) (pt : PT), trun P ms toks = some ms' →
    ms.m.pendingDropped = pt.dropped → PTIn pt ms.m →
    PTIn (ptRun pt toks) ms'.m ∧ ms'.m.pendingDropped = (ptRun pt toks).dropped
  | [], ms, ms', pt, h, hd, hin => by
    simp only [trun, Option.some.injEq] at h; subst h; exact ⟨hin, hd⟩
  | t :: ts, ms, ms', pt, h, hd, hin => by
    simp only [trun] at h
    cases hts : tstep P ms t with
    | none => rw [hts] at h; simp at h
    | some ms1 =>
      rw [hts] at h; simp only [Option.bind_some] at h
      obtain ⟨a, b⟩ := tstep_pt hts hd (fun _ => hin)
      exact trun_pt ts ms1 ms' (ptStep pt t) h b a

/-- **the ghost flag along the accepted tokens of a build** (`B key` first): it is the tracker's -/
theorem trun_B_pt {P : Program} {m : Engine.St} {key : Key} {rest : List Tok} {ms' : MSt}
    (h : trun P ⟨m, none⟩ (.B key :: rest) = some ms') :
    ms'.m.pendingDropped = buildDropped m.pendingDropped (.B key :: rest) := by
  simp only [trun] at h
  cases hts : tstep P ⟨m, none⟩ (.B key) with
  | none => rw [hts] at h; simp at h
  | some ms1 =>
    rw [hts] at h; simp only [Option.bind_some] at h
    obtain ⟨a, b⟩ := tstep_pt (pt := { dropped := m.pendingDropped }) hts rfl (fun hb => by cases hb)
    exact (trun_pt rest ms1 ms' _ h b a).2

/-! ## 4. histories -/

/-- the ghost flag after one op -/
def opDropped : OpC → State → Bool → Bool
  | .wipe, _, _ => false
  | .restart, _, d => d
  | .mutate _ _, _, d => d
  | .build key cancelAt sched a, s, d => buildDropped d (runBuildA key cancelAt sched a s).trace.reverse
  | .crashedBuild _ _ _ _ _, _, d => d

/-- **the ghost flag after a history, computed from the printed traces of its completed builds**: `true` iff, since the
last `wipe`, some completed build reached its commit `DE` while a discovered dependency of a finished task was still not
up to date (which only a failed or cancelled build does) -/
def histDropped : List OpC → State → Bool → Bool
  | [], _, d => d
  | op :: ops, s, d => histDropped ops (runOpC op s) (opDropped op s d)

/-- no completed build of the history printed `X`, `CY _` or `ER _` -/
def histNoFail : List OpC → State → Prop
  | [], _ => True
  | op :: ops, s =>
    (match op with
     | .build key cancelAt sched a => NoFail (runBuildA key cancelAt sched a s).trace.reverse
     | _ => True) ∧ histNoFail ops (runOpC op s)

/-- the cut trace of a killed build consists of tokens that do not close a build -/
theorem cutToks_noClose {rules : List RuleSpec} (hloop : WorkLoopSpecA rules) {s : State} {m : Engine.St}
    (hr : RelIdle rules s m) (key cancelAt : Nat) (sched : List SchedItem) (a : Async) (cut : Nat)
    (hnh : (runBuildA key cancelAt sched a s).halted = false) :
    ∃ rest q, cutToks key cancelAt sched a cut s = .B key :: rest ∧
      (runBuildA key cancelAt sched a s).trace.reverse = (.B key :: rest) ++ q ∧
      ∀ t ∈ rest, Tok.isClose t = false := by
  obtain ⟨rest, v, n, x, h, _, hnc⟩ := runBuildA_trace_shape hloop hr key cancelAt sched a hnh
  have htw : ((runBuildA key cancelAt sched a s).trace.reverse).takeWhile (fun t => !Tok.isDE t) = .B key :: rest := by
    rw [h]
    apply takeWhile_append_stop
    · intro t ht; simp [(isClose_false (hnc t ht)).1]
    · rfl
  refine ⟨rest.take cut, rest.drop cut ++ .DE :: (x ++ [.R v, .Z n 0]), ?_, ?_, ?_⟩
  · unfold cutToks; rw [htw]; rfl
  · rw [h]
    simp only [List.cons_append, List.cons.injEq, true_and]
    rw [← List.append_assoc, List.take_append_drop]
  · intro t ht
    exact hnc t (List.mem_cons_of_mem _ (List.mem_of_mem_take ht))

/-- one op: the refinement of `refinement_opC` plus the ghost flag -/
theorem sched_op {rules : List RuleSpec} (hok : RulesOk rules) {s : State} {m : Engine.St}
    (hr : RelIdle rules s m) (hc : Committed m) (op : OpC) (hs : histSizedC rules [op] s) :
    ∃ evs m', opEventsC op s = some evs ∧ run (program rules) m evs = some m' ∧ RelIdle rules (runOpC op s) m' ∧
      Committed m' ∧ m'.pendingDropped = opDropped op s m.pendingDropped ∧
      (histNoFail [op] s → m.pendingDropped = false → m'.pendingDropped = false) := by
  cases op with
  | wipe =>
    obtain ⟨m', h1, h2⟩ := hr.wipe (program rules)
    have hpd : m'.pendingDropped = false := by
      simp only [step] at h1
      split at h1
      · cases h1; rfl
      · cases h1
    exact ⟨[.wipe], m', rfl, by simp [run, h1], h2, Committed.step h1 rfl hc, hpd, fun _ _ => hpd⟩
  | restart =>
    obtain ⟨m', h1, h2⟩ := hr.restart (program rules)
    have hpd : m'.pendingDropped = m.pendingDropped := by
      simp only [step] at h1
      split at h1
      · cases h1; rfl
      · cases h1
    exact ⟨[.restart], m', rfl, by simp [run, h1], h2, Committed.step h1 rfl hc, hpd, fun _ h => hpd.trans h⟩
  | mutate a b =>
    obtain ⟨m', h1, h2⟩ := hr.mutate (program rules) a b
    have hpd : m'.pendingDropped = m.pendingDropped := by
      simp only [step] at h1
      split at h1
      · cases h1; rfl
      · cases h1
    exact ⟨[.mutate a b], m', rfl, by simp [run, h1], h2, Committed.step h1 rfl hc, hpd, fun _ h => hpd.trans h⟩
  | build key cancelAt sched a =>
    have hloop := workLoopA_final rules hok
    have hnh := build_terminates_async hok hr key cancelAt sched a hs.1
    obtain ⟨m', h1, h2⟩ := runBuildA_sim hloop hr key cancelAt sched a hnh
    obtain ⟨evs, h3, h4⟩ := trun_toEvents h1
    obtain ⟨rest, hB⟩ := runBuildA_trace_head hloop hr key cancelAt sched a hnh
    have hpd : m'.pendingDropped = buildDropped m.pendingDropped (runBuildA key cancelAt sched a s).trace.reverse := by
      have h1' := h1
      rw [hB] at h1' ⊢
      exact trun_B_pt h1'
    refine ⟨evs, m', h3, h4, h2, runBuildA_committed hloop hr key cancelAt sched a hnh h1, hpd, ?_⟩
    intro hnf hd
    obtain ⟨_, _, _, _, _, _, m'', _, _, _, _, _, _, _, _, h1'', _, hd''⟩ :=
      build_nofail_ret hok hr key cancelAt sched a hs.1 hnf.1
    rw [h1] at h1''
    cases h1''
    exact hd''.trans hd
  | crashedBuild key cancelAt sched a cut =>
    have hloop := workLoopA_final rules hok
    have hnh := build_terminates_async hok hr key cancelAt sched a hs.1
    obtain ⟨m', hrun, _⟩ := runBuildA_sim hloop hr key cancelAt sched a hnh
    obtain ⟨rest, q, hcut, hfull, hnc⟩ := cutToks_noClose hloop hr key cancelAt sched a cut hnh
    have hp : ∀ t ∈ Tok.B key :: rest, Tok.isDE t = false ∧ Tok.isZ t = false := by
      intro t ht
      rcases List.mem_cons.1 ht with e | e
      · subst e; exact ⟨rfl, rfl⟩
      · exact isClose_false (hnc t e)
    rw [hfull] at hrun
    obtain ⟨msp, hpre, _⟩ := trun_prefix hrun
    obtain ⟨mc, hstep, hrel, hcm⟩ := crash_relIdle hr hc hpre hp
    obtain ⟨evs, hev, hrunE⟩ := trun_evOfToks _ _ _ hpre
    have hpd : mc.pendingDropped = m.pendingDropped := by
      have h1 := (trun_B_mid hpre hnc).2.2.1
      rw [step_crash _ _ (trun_B_target hpre hp).2] at hstep
      cases hstep
      exact h1
    refine ⟨evs ++ [.crash], mc, by simp [opEventsC, hcut, hev], ?_, hrel, hcm, hpd, fun _ h => hpd.trans h⟩
    rw [run_append, hrunE]
    simp [run, hstep]

/-- **histories**: `refinement_historyC` (Final4.lean) with the ghost flag read off the traces -/
theorem sched_history {rules : List RuleSpec} (hok : RulesOk rules) :
    ∀ (ops : List OpC) (s : State) (m : Engine.St), RelIdle rules s m → Committed m → histSizedC rules ops s →
      ∃ evs m', histEventsC ops s = some evs ∧ run (program rules) m evs = some m' ∧ RelIdle rules (runOpsC ops s) m' ∧
        Committed m' ∧ m'.pendingDropped = histDropped ops s m.pendingDropped ∧
        (histNoFail ops s → m.pendingDropped = false → m'.pendingDropped = false)
  | [], s, m, hr, hc, _ => ⟨[], m, rfl, rfl, hr, hc, rfl, fun _ h => h⟩
  | op :: ops, s, m, hr, hc, hs => by
    obtain ⟨evs1, m1, h1, h2, h3, hc1, hd1, hn1⟩ := sched_op hok hr hc op ⟨hs.1, trivial⟩
    obtain ⟨evs2, m2, h4, h5, h6, hc2, hd2, hn2⟩ := sched_history hok ops (runOpC op s) m1 h3 hc1 hs.2
    refine ⟨evs1 ++ evs2, m2, ?_, ?_, h6, hc2, ?_, ?_⟩
    · simp [histEventsC, h1, h4]
    · rw [run_append, h2]; simpa using h5
    · rw [hd2, hd1]; rfl
    · intro hnf hd
      exact hn2 hnf.2 (hn1 ⟨hnf.1, trivial⟩ hd)

/-- **no `X`/`CY`/`ER` in any completed build ⇒ nothing was ever dropped** (from a fresh harness; the tracker's answer
is derived through the monitor: a build whose flags stay down passes the success-shaped `ret`, whose guard says that
nothing is pending) -/
theorem histNoFail_dropped {rules : List RuleSpec} (hok : RulesOk rules) (ops : List OpC)
    (hs : histSizedC rules ops (opProgram rules {})) (hnf : histNoFail ops (opProgram rules {})) :
    histDropped ops (opProgram rules {}) false = false := by
  obtain ⟨_, m', _, _, _, _, hd, hn⟩ := sched_history hok ops _ _ (RelIdle.init rules) Committed.init hs
  have : m'.pendingDropped = false := hn hnf rfl
  rw [hd] at this
  exact this

end LLBuild.Refine
