/-
IM4 — `readyTasksLoopA` (`Async0.lean`): `readyTasksLoop` with one asynchronous item consumed before each iteration.
(N) `readyTasksLoopA_nil`, (R) `readyTasksLoopA_sim`, (X) `readyTasksLoopA_aux`, (T) `readyTasksLoopA_nohalt_term`
(+ projections).  Uses the PROVED facts of `AsyncStep.lean` directly (no `hS/hF/hA/hT` hypotheses).
-/
import LLBuild.Lemmas.Refine.AsyncStep

namespace LLBuild.Refine
open LLBuild.Engine LLBuild.Engine.DSL LLBuild.EngineImpl
open LLBuild.Refine.TermReady

/-- an item boundary is a `Step` of section D -/
theorem asyncPoint_step {rules : List RuleSpec} {s : State} {ms : MSt} (a : Async)
    (hr : Rel rules s ms {}) (hh : s.halted = false) : Step rules s ms (asyncPoint a s).2 := by
  cases a with
  | nil => exact Step.refl hr hh
  | cons it rest => exact asyncStep_step it hr hh

theorem asyncPoint_term {rules : List RuleSpec} {U : List Key} {s : State} {ms : MSt} (a : Async)
    (hr : Rel rules s ms {}) (hp : ms.pend = none) (hh : s.halted = false) (hc : ClosedU rules U s) :
    TermStep rules U s {} (asyncPoint a s).2 {} 0 := by
  cases a with
  | nil => exact TermStep.refl hc
  | cons it rest => exact TermStep.weaken (asyncStepTerm rules U it s ms hr hp hh hc) (Nat.zero_le _)

/-- (N) with the empty schedule the asynchronous loop is the model's loop -/
theorem readyTasksLoopA_nil : ∀ (fuel : Nat) (w : Bool) (s : State),
    readyTasksLoopA fuel w [] s = ((readyTasksLoop fuel w s).1, [], (readyTasksLoop fuel w s).2)
  | 0, _, _ => rfl
  | fuel + 1, w, s => by
    rw [readyTasksLoopA, readyTasksLoop_succ]
    show (match s.readyTaskInfos with
      | [] => (w, [], s)
      | task :: rest => readyTasksLoopA fuel true [] (readyStep task { s with readyTaskInfos := rest })) = _
    cases s.readyTaskInfos with
    | nil => rfl
    | cons task rest => exact readyTasksLoopA_nil fuel true _

theorem readyTasksLoopA_succ (fuel : Nat) (w : Bool) (a : Async) (s : State) :
    readyTasksLoopA (fuel + 1) w a s =
      match (asyncPoint a s).2.readyTaskInfos with
      | [] => (w, (asyncPoint a s).1, (asyncPoint a s).2)
      | task :: rest =>
        readyTasksLoopA fuel true (asyncPoint a s).1 (readyStep task { (asyncPoint a s).2 with readyTaskInfos := rest }) := by
  rw [readyTasksLoopA]
  rfl

/-- (R) the refinement statement of `readyTasksLoop_sim`, for every asynchronous schedule -/
theorem readyTasksLoopA_sim : ∀ rules, RulesOk rules → ∀ (fuel : Nat) (w : Bool) (a : Async) (s : State) (ms : MSt),
    Rel rules s ms {} → ms.pend = none → s.halted = false → NoMid s →
    Sim rules s ms (readyTasksLoopA fuel w a s).2.2 {} (fun _ =>
      (readyTasksLoopA fuel w a s).2.2.readyTaskInfos = [] ∧ NoMid (readyTasksLoopA fuel w a s).2.2) := by
  intro rules hro fuel
  induction fuel with
  | zero =>
    intro w a s ms _ _ _ _ hres
    simp [readyTasksLoopA, halt_halted] at hres
  | succ fuel ih =>
    intro w a s ms hr hp hh hnm
    rw [readyTasksLoopA_succ]
    obtain ⟨toks0, ms0, z1, z2, z3, z4, z5, z6, z7, z8, _⟩ := asyncPoint_step a hr hh
    have hp0 : ms0.pend = none := z4.trans hp
    generalize asyncPoint a s = p at z1 z3 z5 z7 z8 ⊢
    cases hq : p.2.readyTaskInfos with
    | nil =>
      simp only
      intro _
      exact ⟨toks0, ms0, z1, z2, z3, hp0, z5, z6, hq, z7 hnm⟩
    | cons k rest =>
      simp only
      intro hres
      obtain ⟨⟨toks, ms1, a1, a2, a3, a4, a5, a6, a7⟩, a8, _⟩ := readyStep_full z3 hp0 z8 hq (z7 hnm)
      obtain ⟨toks2, ms2, b1, b2, b3, b4, b5, b6, b7⟩ := ih true p.1 _ ms1 a3 a4 a8 a7 hres
      exact ⟨toks0 ++ (toks ++ toks2), ms2, z1.trans (a1.trans b1), trun_append_some z2 (trun_append_some a2 b2), b3, b4,
        fun x hx => b5 x (a5 x (z5 x hx)), (b6.trans a6).trans z6, b7⟩

/-- (X) `Aux` -/
theorem readyTasksLoopA_aux {rules : List RuleSpec} (key : Key) : ∀ (fuel : Nat) (w : Bool) (a : Async) (s : State) (ms : MSt),
    Rel rules s ms {} → ms.pend = none → s.halted = false → NoMid s → (readyTasksLoopA fuel w a s).2.2.halted = false →
    Aux key s {} → Aux key (readyTasksLoopA fuel w a s).2.2 {}
  | 0, w, a, s, _, _, _, _, _, hres, _ => by simp [readyTasksLoopA, halt_halted] at hres
  | fuel + 1, w, a, s, ms, hr, hp, hh, hnm, hres, hx => by
    rw [readyTasksLoopA_succ] at hres ⊢
    have hstep := asyncPoint_step a hr hh
    have hx0 := hstep.aux key hx
    obtain ⟨_, ms0, _, _, z3, z4, _, _, z7, z8, _⟩ := hstep
    have hp0 : ms0.pend = none := z4.trans hp
    generalize asyncPoint a s = p at z3 z7 z8 hx0 hres ⊢
    cases hq : p.2.readyTaskInfos with
    | nil => simp only; exact hx0
    | cons k rest =>
      rw [hq] at hres
      simp only at hres ⊢
      obtain ⟨⟨_, ms1, _, _, a3, a4, _, _, a7⟩, a8, a9⟩ := readyStep_full z3 hp0 z8 hq (z7 hnm)
      exact readyTasksLoopA_aux key fuel true p.1 _ ms1 a3 a4 a8 a7 hres (a9 key hx0)

/-- (T) no halt and termination: with `Phi + 1` fuel the loop does not halt, `Phi` never rises, and it dropped if the
work flag went from `false` to `true` -/
theorem readyTasksLoopA_nohalt_term {rules : List RuleSpec} {U : List Key} :
    ∀ (fuel : Nat) (w : Bool) (a : Async) (s : State) (ms : MSt),
    Rel rules s ms {} → ms.pend = none → s.halted = false → NoMid s → ClosedU rules U s → Phi rules U s {} < fuel →
    (readyTasksLoopA fuel w a s).2.2.halted = false ∧
      TermStep rules U s {} (readyTasksLoopA fuel w a s).2.2 {}
        (if w = false ∧ (readyTasksLoopA fuel w a s).1 = true then 1 else 0)
  | 0, _, _, _, _, _, _, _, _, _, hlt => by cases hlt
  | fuel + 1, w, a, s, ms, hr, hp, hh, hnm, hc, hlt => by
    rw [readyTasksLoopA_succ]
    have t0 := asyncPoint_term (U := U) a hr hp hh hc
    obtain ⟨_, ms0, _, _, z3, z4, _, _, z7, z8, _⟩ := asyncPoint_step a hr hh
    have hp0 : ms0.pend = none := z4.trans hp
    generalize asyncPoint a s = p at z3 z7 z8 t0 ⊢
    cases hq : p.2.readyTaskInfos with
    | nil =>
      simp only
      refine ⟨z8, TermStep.weaken t0 ?_⟩
      cases w <;> simp
    | cons k rest =>
      simp only
      obtain ⟨⟨_, ms1, _, _, a3, a4, _, _, a7⟩, a8, _⟩ := readyStep_full z3 hp0 z8 hq (z7 hnm)
      have hstep := readyStep_term (U := U) z3 hp0 z8 hq (z7 hnm) t0.1
      obtain ⟨b1, b2⟩ := readyTasksLoopA_nohalt_term fuel true p.1 _ ms1 a3 a4 a8 a7 hstep.1
        (by have h1 := hstep.2; have h2 := t0.2; omega)
      refine ⟨b1, tstrans t0 (tstrans hstep b2 (Nat.le_refl _)) ?_⟩
      split <;> omega

theorem readyTasksLoopA_nohalt {rules : List RuleSpec} {U : List Key} (fuel : Nat) (w : Bool) (a : Async) {s : State} {ms : MSt}
    (hr : Rel rules s ms {}) (hp : ms.pend = none) (hh : s.halted = false) (hnm : NoMid s) (hc : ClosedU rules U s)
    (hlt : Phi rules U s {} < fuel) : (readyTasksLoopA fuel w a s).2.2.halted = false :=
  (readyTasksLoopA_nohalt_term fuel w a s ms hr hp hh hnm hc hlt).1

theorem readyTasksLoopA_term {rules : List RuleSpec} {U : List Key} (fuel : Nat) (w : Bool) (a : Async) {s : State} {ms : MSt}
    (hr : Rel rules s ms {}) (hp : ms.pend = none) (hh : s.halted = false) (hnm : NoMid s) (hc : ClosedU rules U s)
    (hlt : Phi rules U s {} < fuel) :
    TermStep rules U s {} (readyTasksLoopA fuel w a s).2.2 {}
      (if w = false ∧ (readyTasksLoopA fuel w a s).1 = true then 1 else 0) :=
  (readyTasksLoopA_nohalt_term fuel w a s ms hr hp hh hnm hc hlt).2

end LLBuild.Refine
