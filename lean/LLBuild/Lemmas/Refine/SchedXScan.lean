/-
C06 "the same set of executed rules" — stage 1 of `runBuildA_simX` (the concrete engine model passes the in-order
guards `tokOkX` of Sched3.lean):

* `SimX` = `Sim` (Spec.lean) with `trunX` in place of `trun`; `SimX.toSim`, `SimX.prepend`, `SimX.of_noX` (a `Sim` whose
  recorded tokens contain no `S k 0` / `N k 3 (some d)` is a `SimX`), `SimX.of_headS` (… or start with ONE `S k 0` whose guard
  `demandedX` holds in the monitor state the function starts from);
* the two guard lemmas `Rel.hand_demandedX` (the input of the scan request in hand: in-order alternative of `demandedX`),
  `demandedX_of_hand` (the key of the input request in hand), and `Rel.hand_firstStale` (guard of `N k 3 (some i)`);
* the token shape of `scanRule` (`scanRule_headS`: nothing, or `S k 0` followed by tokens that are not X-tokens) and
  `scanRule_simX`.
-/
import LLBuild.Lemmas.Refine.Sched3

namespace LLBuild.Refine
open LLBuild.Engine LLBuild.Engine.DSL LLBuild.EngineImpl

/-! ## 0. token lists without X-tokens -/

/-- no `S k 0` / `N k 3 (some d)` in the list -/
def NoXL (toks : List Tok) : Prop := ∀ t ∈ toks, Tok.isXTok t = false

theorem NoXL.nil : NoXL [] := fun _ h => by cases h

theorem NoXL.append {a b : List Tok} (ha : NoXL a) (hb : NoXL b) : NoXL (a ++ b) := by
  intro t ht
  rcases List.mem_append.1 ht with h | h
  · exact ha t h
  · exact hb t h

theorem NoXL.cons {t : Tok} {a : List Tok} (ht : Tok.isXTok t = false) (ha : NoXL a) : NoXL (t :: a) := by
  intro x hx
  rcases List.mem_cons.1 hx with h | h
  · subst h; exact ht
  · exact ha x h

/-- a run accepted by `trun` whose first token passes the check and whose other tokens are not X-tokens -/
theorem trunX_cons_of {P : Program} {t : Tok} {rest : List Tok} {ms ms' : MSt}
    (hrun : trun P ms (t :: rest) = some ms') (hok : tokOkX ms.m t = true) (hrest : NoXL rest) :
    trunX P ms (t :: rest) = some ms' := by
  simp only [trun] at hrun
  cases hs : tstep P ms t with
  | none => rw [hs] at hrun; simp at hrun
  | some ms1 =>
    rw [hs] at hrun; simp only [Option.bind_some] at hrun
    simp only [trunX, tstepX_of hs hok, Option.bind_some]
    exact trunX_of_notX rest ms1 ms' hrun hrest

/-- the tokens recorded between `s` and `s'` contain no X-token -/
def NoXB (s s' : State) : Prop := ∃ toks, Emits s toks s' ∧ NoXL toks

theorem NoXB.refl (s : State) : NoXB s s := ⟨[], Emits.refl s, NoXL.nil⟩

theorem NoXB.trans {s1 s2 s3 : State} (h1 : NoXB s1 s2) (h2 : NoXB s2 s3) : NoXB s1 s3 := by
  obtain ⟨a, ea, ha⟩ := h1
  obtain ⟨b, eb, hb⟩ := h2
  exact ⟨a ++ b, ea.trans eb, ha.append hb⟩

theorem NoXB.of_trace {s s' : State} (h : s'.trace = s.trace) : NoXB s s' :=
  ⟨[], by unfold Emits; simpa using h, NoXL.nil⟩

/-- `Emits` only looks at the traces -/
theorem Emits.of_trace_eq {s X Y : State} {toks : List Tok} (h : Emits X toks Y) (hX : X.trace = s.trace) :
    Emits s toks Y := by
  unfold Emits at h ⊢; rw [← hX]; exact h

theorem NoXB.of_trace_eq {s X Y : State} (h : NoXB X Y) (hX : X.trace = s.trace) : NoXB s Y := by
  obtain ⟨a, ea, ha⟩ := h
  exact ⟨a, ea.of_trace_eq hX, ha⟩

theorem NoXB.emit (t : Tok) (s : State) (ht : Tok.isXTok t = false) : NoXB s (emit t s) := by
  by_cases hh : s.halted = true
  · rw [emit_halted t s hh]; exact NoXB.refl s
  · have hh' : s.halted = false := by simpa using hh
    rcases emit_emits t s hh' with e | e
    · exact ⟨[t], e, NoXL.cons ht NoXL.nil⟩
    · exact ⟨[t, .X], e, NoXL.cons ht (NoXL.cons rfl NoXL.nil)⟩

theorem NoXB.emitAll : ∀ (toks : List Tok) (s : State), NoXL toks → NoXB s (emitAll toks s)
  | [], s, _ => NoXB.refl s
  | t :: rest, s, h => by
    rw [emitAll_cons]
    exact (NoXB.emit t s (h t List.mem_cons_self)).trans
      (NoXB.emitAll rest _ (fun x hx => h x (List.mem_cons_of_mem _ hx)))

/-- a `trun`-accepted run of the tokens recorded between two states with no X-token between them -/
theorem NoXB.trunX {P : Program} {s s' : State} (hn : NoXB s s') {toks : List Tok} (he : Emits s toks s')
    {ms ms' : MSt} (hrun : trun P ms toks = some ms') : trunX P ms toks = some ms' := by
  obtain ⟨toks', he', hn'⟩ := hn
  have := Emits.inj he he'
  subst this
  exact trunX_of_notX toks ms ms' hrun hn'

/-! ## 1. `SimX` -/

/-- `Sim` with the in-order guards checked -/
def SimX (rules : List RuleSpec) (s : State) (ms : MSt) (s' : State) (h' : Hand) (Post : MSt → Prop) : Prop :=
  s'.halted = false →
    ∃ toks ms', Emits s toks s' ∧ trunX (program rules) ms toks = some ms' ∧ Rel rules s' ms' h' ∧ ms'.pend = none ∧
      RegMono s s' ∧ ms'.m.target = ms.m.target ∧ Post ms'

theorem SimX.toSim {rules : List RuleSpec} {s s' : State} {ms : MSt} {h' : Hand} {Post : MSt → Prop}
    (h : SimX rules s ms s' h' Post) : Sim rules s ms s' h' Post := by
  intro hh
  obtain ⟨toks, ms', h1, h2, h3⟩ := h hh
  exact ⟨toks, ms', h1, trunX_trun toks ms ms' h2, h3⟩

theorem SimX.mono {rules : List RuleSpec} {s s' : State} {ms : MSt} {h' : Hand} {Post Post' : MSt → Prop}
    (h : SimX rules s ms s' h' Post) (hpp : ∀ ms', Post ms' → Post' ms') : SimX rules s ms s' h' Post' := by
  intro hh
  obtain ⟨toks, ms', h1, h2, h3, h4, h5, h6, h7⟩ := h hh
  exact ⟨toks, ms', h1, h2, h3, h4, h5, h6, hpp ms' h7⟩

theorem SimX.prepend {rules : List RuleSpec} {s s1 s' : State} {ms ms1 : MSt} {h' : Hand} {Post : MSt → Prop}
    {toks1 : List Tok} (he : Emits s toks1 s1) (hrun : trunX (program rules) ms toks1 = some ms1)
    (hreg : RegMono s s1) (htg : ms1.m.target = ms.m.target) (h : SimX rules s1 ms1 s' h' Post) :
    SimX rules s ms s' h' Post := by
  intro hh
  obtain ⟨toks2, ms', a, b, c, d, e, f, g⟩ := h hh
  exact ⟨toks1 ++ toks2, ms', he.trans a, trunX_append_some hrun b, c, d, fun k hk => e k (hreg k hk), f.trans htg, g⟩

/-- a `Sim` whose tokens contain no X-token -/
theorem SimX.of_noX {rules : List RuleSpec} {s s' : State} {ms : MSt} {h' : Hand} {Post : MSt → Prop}
    (h : Sim rules s ms s' h' Post) (hn : s'.halted = false → NoXB s s') : SimX rules s ms s' h' Post := by
  intro hh
  obtain ⟨toks, ms', h1, h2, h3⟩ := h hh
  exact ⟨toks, ms', h1, (hn hh).trunX h1 h2, h3⟩

/-- the tokens between `s` and `s'`: no X-token at all, or `S k 0` first and no X-token behind it -/
def HeadS (k : Key) (s s' : State) : Prop :=
  ∃ toks, Emits s toks s' ∧ (NoXL toks ∨ ∃ rest, toks = .S k 0 :: rest ∧ NoXL rest)

theorem HeadS.of_noX {k : Key} {s s' : State} (h : NoXB s s') : HeadS k s s' := by
  obtain ⟨a, ea, ha⟩ := h
  exact ⟨a, ea, Or.inl ha⟩

theorem HeadS.trans_noX {k : Key} {s1 s2 s3 : State} (h1 : HeadS k s1 s2) (h2 : NoXB s2 s3) : HeadS k s1 s3 := by
  obtain ⟨a, ea, ha⟩ := h1
  obtain ⟨b, eb, hb⟩ := h2
  refine ⟨a ++ b, ea.trans eb, ?_⟩
  rcases ha with ha | ⟨rest, e, hr⟩
  · exact Or.inl (ha.append hb)
  · exact Or.inr ⟨rest ++ b, by rw [e]; rfl, hr.append hb⟩

theorem step_scanning_idle {P : Program} {m m' : Engine.St} {k : Key} (h : step P m (.scanning k) = some m') :
    m.status k = .idle := by
  simp only [step] at h
  split at h
  · rename_i hc
    simp only [Bool.and_eq_true, beq_iff_eq] at hc
    exact hc.1.1.2
  · cases h

/-- a `Sim` whose tokens are `S k 0` followed by no X-token (or no X-token at all), when the guard of `S k 0` holds -/
theorem SimX.of_headS {rules : List RuleSpec} {s s' : State} {ms : MSt} {h' : Hand} {Post : MSt → Prop} {k : Key}
    (h : Sim rules s ms s' h' Post) (hn : s'.halted = false → HeadS k s s')
    (hdem : ms.m.status k = .idle → demandedX ms.m k = true) : SimX rules s ms s' h' Post := by
  intro hh
  obtain ⟨toks, ms', h1, h2, h3⟩ := h hh
  refine ⟨toks, ms', h1, ?_, h3⟩
  obtain ⟨toks', he', hs⟩ := hn hh
  have := Emits.inj h1 he'
  subst this
  rcases hs with hs | ⟨rest, e, hr⟩
  · exact trunX_of_notX toks ms ms' h2 hs
  · subst e
    refine trunX_cons_of h2 ?_ hr
    rw [tokOkX_S0]
    apply hdem
    simp only [trun] at h2
    cases hts : tstep (program rules) ms (.S k 0) with
    | none => rw [hts] at h2; simp at h2
    | some ms1 => exact step_scanning_idle (tstep_ev_inv hts (by rfl))

/-! ## 2. the guards -/

/-- the in-order alternative is an instance of the monitor's alternative -/
theorem any_of_inOrderAt (m : Engine.St) (r : Res) : ∀ (deps : List Dep) (k : Key), inOrderAt m r deps k = true →
    deps.any (fun d => d.key == k) = true
  | [], _, h => by simp [inOrderAt] at h
  | d :: ds, k, h => by
    simp only [inOrderAt, Bool.or_eq_true, Bool.and_eq_true] at h
    simp only [List.any_cons, Bool.or_eq_true]
    rcases h with h | ⟨_, h⟩
    · exact Or.inl h
    · exact Or.inr (any_of_inOrderAt m r ds k h)

/-- `demandedX` is stronger than `demanded` -/
theorem demanded_of_demandedX {m : Engine.St} {k : Key} (h : demandedX m k = true) : demanded m k = true := by
  unfold demandedX at h
  unfold demanded
  simp only [Bool.or_eq_true] at h ⊢
  rcases h with ((h | h) | h) | h
  · exact Or.inl (Or.inl (Or.inl h))
  · exact Or.inl (Or.inl (Or.inr h))
  · refine Or.inl (Or.inr ?_)
    rw [List.any_eq_true] at h ⊢
    obtain ⟨a, ha, hc⟩ := h
    simp only [Bool.and_eq_true] at hc
    exact ⟨a, ha, by simp only [Bool.and_eq_true]; exact ⟨hc.1.1, any_of_inOrderAt _ _ _ _ hc.2⟩⟩
  · exact Or.inr h

/-- the in-order guard `demandedX` for the input of the scan request in hand -/
theorem Rel.hand_demandedX {rules : List RuleSpec} {s : State} {ms : MSt} {r : RuleScanRequest} {input : Key}
    (hr : Rel rules s ms { scan := [r] }) (hin : r.inputRuleInfo = some input) : demandedX ms.m input = true := by
  obtain ⟨rk, rec, hlk, hsc, hrec, hstM⟩ := hr.hand_rule
  have hok := hr.scanOk r (mem_scanReqs_hand s r)
  obtain ⟨_, d, hd, hdk, _⟩ := hok.cached input hin
  obtain ⟨hdeps, _⟩ := hr.scanning_res hlk hsc
  rw [rule_of_lookup hlk, ← hdeps] at hd
  have hvs : ms.m.validSeen r.ruleInfo = some true := (hr.scanningOk _ rk hlk (Or.inl hsc)).1
  have hio : inOrderAt ms.m (ms.m.mem.res r.ruleInfo) (ms.m.mem.res r.ruleInfo).deps input = true :=
    inOrderAt_of_take ms.m _ _ r.inputIndex d input hd hdk hok.prefixFresh
  have h3 : ms.m.scanned.any (fun a => ms.m.status a == .scanning && ms.m.validSeen a == some true &&
      inOrderAt ms.m (ms.m.mem.res a) (ms.m.mem.res a).deps input) = true := by
    rw [List.any_eq_true]
    refine ⟨r.ruleInfo, hr.inScanned _ hstM, ?_⟩
    rw [hstM, hvs, hio]
    rfl
  unfold demandedX
  rw [h3]
  simp

theorem mem_ofTask' {a : Key} {l : List TaskInputRequest} {r : TaskInputRequest} :
    r ∈ ofTask a l ↔ r ∈ l ∧ r.taskInfo = some a := by simp [ofTask]

/-- the guard `demandedX` for the key of the input request in hand (as `demanded_of_hand`, Input.lean) -/
theorem demandedX_of_hand {rules : List RuleSpec} {s : State} {ms : MSt} {r : TaskInputRequest}
    (hr : Rel rules s ms { inp := [r] }) (hp : ms.pend = none) :
    ms.m.status r.inputRuleInfo = .idle → demandedX ms.m r.inputRuleInfo = true := by
  intro hidle
  have hrm : r ∈ outstanding s { inp := [r] } := by rw [outstanding_hand]; exact List.mem_cons_self
  have hru : r ∈ unprocessed s { inp := [r] } := by rw [unprocessed_hand]; exact List.mem_cons_self
  unfold demandedX
  simp only [Bool.or_eq_true]
  cases hti : r.taskInfo with
  | none =>
    rcases hr.dummyOk r hru hti with h1 | h1 | ⟨p, h1, h2⟩ | ⟨k, t, h1, _⟩
    · exact absurd hidle h1
    · exact Or.inl (Or.inl (Or.inl (by simp [h1])))
    · exact Or.inl (Or.inl (Or.inr (List.any_eq_true.2 ⟨p, h1, by simp [h2]⟩)))
    · rw [hp] at h1; cases h1
  | some a =>
    obtain ⟨hts, hst⟩ := hr.reqTask r hrm a hti
    obtain ⟨t, ht⟩ := Option.isSome_iff_exists.1 hts
    have tok := hr.taskOk a t ht
    obtain ⟨q, hq, hrq, _⟩ := tok.outIssued r (mem_ofTask'.2 ⟨hrm, hti⟩)
    obtain ⟨ria, hla⟩ := lookup_of_state (s := s) (k := a) (by rw [hst]; decide)
    have hstat : ms.m.status a = .running := by
      rw [hr.status a]
      unfold statusOf
      rw [hla]
      rw [rule_of_lookup hla] at hst
      simp [hst]
    have hran : a ∈ ms.m.ran := hr.inRan a (Or.inl hstat)
    have hqm : q ∈ (ms.m.task a).issued := by rw [tok.issued]; exact List.mem_append_left _ hq
    have hqk : q.key = r.inputRuleInfo := by rw [hrq]; rfl
    refine Or.inr (List.any_eq_true.2 ⟨a, hran, ?_⟩)
    simp only [hstat, beq_self_eq_true, Bool.true_and]
    exact List.any_eq_true.2 ⟨q, hqm, by simp [hqk]⟩

/-- the guard of `N k 3 (some i)`: the dependency the scan request in hand stands at is the FIRST stale one
(hypotheses of `finishScan_needs_sim`) -/
theorem Rel.hand_firstStale {rules : List RuleSpec} {s : State} {ms : MSt} {r : RuleScanRequest} {i : Key}
    (hr : Rel rules s ms { scan := [r] }) (hin : r.inputRuleInfo = some i)
    (hoo : r.orderOnly = false) (hdone : isDone ms.m i = true)
    (hlt : (s.rule r.ruleInfo).result.builtAt < (s.rule i).result.computedAt) :
    tokOkX ms.m (.N r.ruleInfo 3 (some i)) = true := by
  obtain ⟨rk, rec, hlk, hsc, hrec, hstM⟩ := hr.hand_rule
  have hok := hr.scanOk r (mem_scanReqs_hand s r)
  obtain ⟨hregi, d, hd, hdk, hdo⟩ := hok.cached i hin
  obtain ⟨ri, hli⟩ := Option.isSome_iff_exists.1 hregi
  obtain ⟨hdeps, hbuilt⟩ := hr.scanning_res hlk hsc
  rw [rule_of_lookup hlk, ← hdeps] at hd
  have h3 : (ms.m.mem.res r.ruleInfo).builtAt < (ms.m.mem.res i).computedAt := by
    rw [hbuilt, hr.computedAt_eq hli]
    rw [rule_of_lookup hlk, rule_of_lookup hli] at hlt
    exact hlt
  have hstale : depFresh ms.m (ms.m.mem.res r.ruleInfo) d = false := by
    unfold depFresh
    rw [hdk, hdone, hdo, hoo]
    simp [h3]
  have hfs := firstStale_of_take ms.m (ms.m.mem.res r.ruleInfo) _ r.inputIndex d hd hstale hok.prefixFresh
  rw [tokOkX_N3, hfs]
  simp [hdk]

/-! ## 3. `scanRule` -/

/-- tokens of `scanRule`: nothing, or `S k 0` and then no X-token -/
theorem emitAll_headS (k : Key) (l : List Tok) (hl : NoXL l) (s X : State) (hX : X.trace = s.trace) :
    HeadS k s (emitAll (.S k 0 :: l) X) := by
  rw [emitAll_cons]
  by_cases hh : X.halted = true
  · rw [emit_halted _ X hh]
    exact HeadS.of_noX ((NoXB.emitAll l X hl).of_trace_eq hX)
  · have hh' : X.halted = false := by simpa using hh
    obtain ⟨b, eb, hb⟩ := NoXB.emitAll l (emit (.S k 0) X) hl
    rcases emit_emits (.S k 0) X hh' with e | e
    · exact ⟨[.S k 0] ++ b, (e.of_trace_eq hX).trans eb, Or.inr ⟨b, rfl, hb⟩⟩
    · exact ⟨[.S k 0, .X] ++ b, (e.of_trace_eq hX).trans eb, Or.inr ⟨.X :: b, rfl, NoXL.cons rfl hb⟩⟩

theorem scanRule_headS (k : Key) (s : State) : HeadS k s (scanRule k s).2 := by
  rw [scanRule_eq]
  dsimp only
  have nx2 : ∀ a b : Tok, Tok.isXTok a = false → Tok.isXTok b = false → NoXL [a, b] :=
    fun a b ha hb => NoXL.cons ha (NoXL.cons hb NoXL.nil)
  split
  · exact HeadS.of_noX (NoXB.refl s)
  · split
    · exact HeadS.of_noX (NoXB.refl s)
    · split
      · exact emitAll_headS k _ (NoXL.cons rfl NoXL.nil) s _ rfl
      · split
        · exact emitAll_headS k _ (NoXL.cons rfl NoXL.nil) s _ rfl
        · split
          · exact emitAll_headS k _ (nx2 _ _ rfl rfl) s _ rfl
          · split
            · exact emitAll_headS k _ (NoXL.cons rfl NoXL.nil) s _ rfl
            · exact emitAll_headS k _ (NoXL.cons rfl NoXL.nil) s _ rfl

/-- **`scanRule` passes the in-order guard**: `Todo_scanRule` with `demandedX` in the hypothesis and `SimX` in the
conclusion -/
theorem scanRule_simX {rules : List RuleSpec} (hok : RulesOk rules) (s : State) (ms : MSt) (h : Hand) (k : Key)
    (hr : Rel rules s ms h) (hp : ms.pend = none) (hh : s.halted = false) (hreg : Registered s k)
    (hin : InHand h s k) (hdem : ms.m.status k = .idle → demandedX ms.m k = true) :
    SimX rules s ms (scanRule k s).2 h (fun _ =>
      InHand h (scanRule k s).2 k ∧
      ((scanRule k s).1 = true → isScanned (scanRule k s).2 ((scanRule k s).2.rule k) = true) ∧
      ((scanRule k s).1 = false → ((scanRule k s).2.rule k).state = .isScanning)) :=
  SimX.of_headS (scanRule_sim rules hok s ms h k hr hp hh hreg hin (fun hi => demanded_of_demandedX (hdem hi)))
    (fun _ => scanRule_headS k s) hdem

end LLBuild.Refine
