/-
IM4 — `finishedTasksLoopA`: the LIFO drain of the finished tasks with completions (and `cancelBuild()`) arriving at every
item boundary (a completion that arrives while the drain runs is popped next).
(N) `finishedTasksLoopA_nil`, (R) `finishedTasksLoopA_sim`, (X) `finishedTasksLoopA_aux`, (T) `finishedTasksLoopA_term`.
-/
import LLBuild.Lemmas.Refine.FinTask
import LLBuild.Lemmas.Refine.TermFinTask
import LLBuild.Lemmas.Refine.TermLoop
import LLBuild.Lemmas.Refine.AsyncSpec

namespace LLBuild.Refine
open LLBuild.Engine LLBuild.Engine.DSL LLBuild.EngineImpl

/-! ## (N) the empty schedule -/

theorem drainLoopA_nil : ∀ (fuel : Nat) (s : State), drainLoopA fuel [] s = ([], drainLoop fuel s)
  | 0, s => rfl
  | fuel + 1, s => by
    rw [drainLoopA, drainLoop]
    by_cases h0 : (s.numOutstandingUnfinishedTasks == 0) = true
    · simp only [h0, if_true]
    · simp only [h0, if_false, Bool.false_eq_true, asyncPoint]
      by_cases h1 : (hook 2 s).finishedTaskInfos.isEmpty = true
      · simp only [h1, if_true]
      · simp only [h1, if_false, Bool.false_eq_true]
        exact drainLoopA_nil fuel _

theorem cancelRemainingTasksA_nil (s : State) : cancelRemainingTasksA [] s = ([], cancelRemainingTasks s) := by
  unfold cancelRemainingTasksA
  rw [drainLoopA_nil, cancelRemainingTasks_eq_tail]

theorem finishedTasksLoopA_succ (fuel : Nat) (w : Bool) (a : Async) (s : State) :
    finishedTasksLoopA (fuel + 1) w a s =
      match (asyncPoint a s).2.finishedTaskInfos.getLast? with
      | none => (false, w, (asyncPoint a s).1, (asyncPoint a s).2)
      | some task =>
        if !(finishedTaskWrite task { (asyncPoint a s).2 with finishedTaskInfos := (asyncPoint a s).2.finishedTaskInfos.dropLast }).1 then
          (true, true,
            (cancelRemainingTasksA (asyncPoint a s).1
              { emit (.ER 6) (finishedTaskWrite task { (asyncPoint a s).2 with finishedTaskInfos := (asyncPoint a s).2.finishedTaskInfos.dropLast }).2 with
                numOutstandingUnfinishedTasks := (emit (.ER 6) (finishedTaskWrite task { (asyncPoint a s).2 with finishedTaskInfos := (asyncPoint a s).2.finishedTaskInfos.dropLast }).2).numOutstandingUnfinishedTasks - 1 }).1,
            (cancelRemainingTasksA (asyncPoint a s).1
              { emit (.ER 6) (finishedTaskWrite task { (asyncPoint a s).2 with finishedTaskInfos := (asyncPoint a s).2.finishedTaskInfos.dropLast }).2 with
                numOutstandingUnfinishedTasks := (emit (.ER 6) (finishedTaskWrite task { (asyncPoint a s).2 with finishedTaskInfos := (asyncPoint a s).2.finishedTaskInfos.dropLast }).2).numOutstandingUnfinishedTasks - 1 }).2)
        else finishedTasksLoopA fuel true (asyncPoint a s).1
          (finishedTaskWake task ((asyncPoint a s).2.task task)
            (finishedTaskWrite task { (asyncPoint a s).2 with finishedTaskInfos := (asyncPoint a s).2.finishedTaskInfos.dropLast }).2) := by
  rw [finishedTasksLoopA]
  cases (asyncPoint a s).2.finishedTaskInfos.getLast? <;> rfl

/-- **(N)** with the empty schedule the loop is the model's loop -/
theorem finishedTasksLoopA_nil : ∀ (fuel : Nat) (w : Bool) (s : State),
    finishedTasksLoopA fuel w [] s =
      ((finishedTasksLoop fuel w s).1, (finishedTasksLoop fuel w s).2.1, [], (finishedTasksLoop fuel w s).2.2)
  | 0, w, s => rfl
  | fuel + 1, w, s => by
    rw [finishedTasksLoopA_succ, finishedTasksLoop_succ]
    simp only [asyncPoint]
    cases s.finishedTaskInfos.getLast? with
    | none => rfl
    | some task =>
      simp only
      by_cases h : (finishedTaskWrite task { s with finishedTaskInfos := s.finishedTaskInfos.dropLast }).1 = true
      · simp only [h, Bool.not_true, Bool.false_eq_true, if_false]
        exact finishedTasksLoopA_nil fuel true _
      · have h' : (finishedTaskWrite task { s with finishedTaskInfos := s.finishedTaskInfos.dropLast }).1 = false := by
          simpa using h
        simp only [h', Bool.not_false, if_true, cancelRemainingTasksA_nil]

/-! ## one item boundary -/

/-- the relation across an item boundary -/
theorem asyncPoint_rel (hS : AsyncStepSim) (hF : AsyncStepFrame) {rules : List RuleSpec} (hok : RulesOk rules)
    (a : Async) (s : State) (ms : MSt) (hr : Rel rules s ms {}) (hp : ms.pend = none) (hh : s.halted = false)
    (hnm : NoMid s) :
    (asyncPoint a s).2.halted = false ∧ NoMid (asyncPoint a s).2 ∧
    ∃ toks ms', Emits s toks (asyncPoint a s).2 ∧ trun (program rules) ms toks = some ms' ∧
      Rel rules (asyncPoint a s).2 ms' {} ∧ ms'.pend = none ∧ RegMono s (asyncPoint a s).2 ∧ ms'.m.target = ms.m.target := by
  cases a with
  | nil => exact ⟨hh, hnm, [], ms, Emits.refl s, rfl, hr, hp, fun _ h => h, rfl⟩
  | cons it rest =>
    obtain ⟨h1, h2⟩ := hS rules hok it s ms hr hp hh
    obtain ⟨toks, ms', e1, e2, e3, e4, e5, e6, _⟩ := h2 h1
    exact ⟨h1, (hF it s).2.2.2.2.2.2.2.2.1 hnm, toks, ms', e1, e2, e3, e4, e5, e6⟩

theorem asyncPoint_aux_fintask (hA : AsyncStepAux) {rules : List RuleSpec} {key : Key}
    (a : Async) (s : State) (ms : MSt) (hr : Rel rules s ms {}) (hp : ms.pend = none) (hh : s.halted = false)
    (ha : Aux key s {}) : Aux key (asyncPoint a s).2 {} := by
  cases a with
  | nil => exact ha
  | cons it rest => exact hA rules it s ms key hr hp hh ha

theorem asyncPoint_term_fintask (hT : AsyncStepTerm) {rules : List RuleSpec} {U : List Key}
    (a : Async) (s : State) (ms : MSt) (hr : Rel rules s ms {}) (hp : ms.pend = none) (hh : s.halted = false)
    (hU : ClosedU rules U s) : TermStep rules U s {} (asyncPoint a s).2 {} 0 := by
  cases a with
  | nil => exact ⟨hU, Nat.le_refl _⟩
  | cons it rest =>
    have := hT rules U it s ms hr hp hh hU
    exact ⟨this.1, Nat.le_trans (Nat.le_add_right _ _) this.2⟩

/-! ## (R) refinement -/

/-- **(R)** every write succeeds and the tokens of the drain (with the completions / the cancellation that arrive at its
item boundaries) are accepted -/
theorem finishedTasksLoopA_sim (hS : AsyncStepSim) (hF : AsyncStepFrame) :
    ∀ rules, RulesOk rules → ∀ (fuel : Nat) (w : Bool) (a : Async) (s : State) (ms : MSt),
      Rel rules s ms {} → ms.pend = none → s.halted = false → NoMid s →
      (finishedTasksLoopA fuel w a s).1 = false ∧
      Sim rules s ms (finishedTasksLoopA fuel w a s).2.2.2 {} (fun _ =>
        (finishedTasksLoopA fuel w a s).2.2.2.finishedTaskInfos = [] ∧ NoMid (finishedTasksLoopA fuel w a s).2.2.2) := by
  intro rules hok fuel
  induction fuel with
  | zero =>
    intro w a s ms _ _ _ _
    refine ⟨rfl, fun hnh => ?_⟩
    have : (finishedTasksLoopA 0 w a s).2.2.2.halted = true := halt_halted .FUEL s
    rw [this] at hnh; cases hnh
  | succ n ih =>
    intro w a s ms hr hp hh hnm
    have key := asyncPoint_rel hS hF hok a s ms hr hp hh hnm
    rw [finishedTasksLoopA_succ]
    generalize asyncPoint a s = p at key ⊢
    obtain ⟨a1, s1⟩ := p
    simp only at key ⊢
    obtain ⟨hh1, hnm1, toks0, ms0, he0, hrun0, hr0, hp0, hreg0, htg0⟩ := key
    cases hlast : s1.finishedTaskInfos.getLast? with
    | none =>
      simp only
      exact ⟨trivial, fun _ => ⟨toks0, ms0, he0, hrun0, hr0, hp0, hreg0, htg0, List.getLast?_eq_none_iff.1 hlast, hnm1⟩⟩
    | some task =>
      simp only
      obtain ⟨h1, h2, toks, ms', he, hrun, hrel, hp', hreg, htg, hnm'⟩ :=
        finishedTaskStep_strong s1 ms0 task hr0 hp0 hh1 hlast hnm1
      simp only [h1, Bool.not_true, Bool.false_eq_true, if_false]
      obtain ⟨i1, i2⟩ := ih true a1 _ ms' hrel hp' h2 hnm'
      refine ⟨i1, fun hfin => ?_⟩
      obtain ⟨toks2, ms'', he2, hrun2, hrel2, hp2, hreg2, htg2, hpost⟩ := i2 hfin
      exact ⟨toks0 ++ toks ++ toks2, ms'', (he0.trans he).trans he2,
        trun_append_some (trun_append_some hrun0 hrun) hrun2, hrel2, hp2,
        fun k hk => hreg2 k (hreg k (hreg0 k hk)), (htg2.trans htg).trans htg0, hpost⟩

/-! ## (X) `Aux` -/

/-- **(X)** -/
theorem finishedTasksLoopA_aux (hS : AsyncStepSim) (hF : AsyncStepFrame) (hA : AsyncStepAux)
    {rules : List RuleSpec} {key : Key} (hok : RulesOk rules) :
    ∀ (fuel : Nat) (w : Bool) (a : Async) (s : State) (ms : MSt),
      Rel rules s ms {} → ms.pend = none → s.halted = false → NoMid s → Aux key s {} →
      Aux key (finishedTasksLoopA fuel w a s).2.2.2 {}
  | 0, w, a, s, _, _, _, _, _, ha => by
    show Aux key (halt .FUEL s) {}
    exact Aux.same (halt_same _ _) ha
  | n + 1, w, a, s, ms, hr, hp, hh, hnm, ha => by
    have key1 := asyncPoint_rel hS hF hok a s ms hr hp hh hnm
    have key2 := asyncPoint_aux_fintask hA (key := key) a s ms hr hp hh ha
    rw [finishedTasksLoopA_succ]
    generalize asyncPoint a s = p at key1 key2 ⊢
    obtain ⟨a1, s1⟩ := p
    simp only at key1 key2 ⊢
    obtain ⟨hh1, hnm1, toks0, ms0, _, _, hr0, hp0, _, _⟩ := key1
    cases hlast : s1.finishedTaskInfos.getLast? with
    | none => exact key2
    | some task =>
      simp only
      obtain ⟨h1, h2, _, ms', _, _, hrel, hp', _, _, hnm'⟩ := finishedTaskStep_strong s1 ms0 task hr0 hp0 hh1 hlast hnm1
      simp only [h1, Bool.not_true, Bool.false_eq_true, if_false]
      exact finishedTasksLoopA_aux hS hF hA hok n true a1 _ ms' hrel hp' h2 hnm'
        (finishedTaskStep_aux hok hr0 hp0 hh1 hlast hnm1 key2)

/-! ## (T) termination -/

/-- **(T)** with more fuel than potential the drain does not halt, no write fails, and when the flag goes from `false` to
`true` the potential dropped -/
theorem finishedTasksLoopA_term (hS : AsyncStepSim) (hF : AsyncStepFrame) (hT : AsyncStepTerm)
    {rules : List RuleSpec} {U : List Key} (hok : RulesOk rules) :
    ∀ (fuel : Nat) (w : Bool) (a : Async) (s : State) (ms : MSt),
      Rel rules s ms {} → ms.pend = none → s.halted = false → NoMid s → ClosedU rules U s →
      DiscM (program rules) ms.m → Phi rules U s {} < fuel →
      (finishedTasksLoopA fuel w a s).2.2.2.halted = false ∧ (finishedTasksLoopA fuel w a s).1 = false ∧
      TermStep rules U s {} (finishedTasksLoopA fuel w a s).2.2.2 {}
        (if w = false ∧ (finishedTasksLoopA fuel w a s).2.1 = true then 1 else 0)
  | 0, _, _, _, _, _, _, _, _, _, _, hlt => by omega
  | n + 1, w, a, s, ms, hr, hp, hh, hnm, hU, hd, hlt => by
    have key1 := asyncPoint_rel hS hF hok a s ms hr hp hh hnm
    have key2 := asyncPoint_term_fintask hT a s ms hr hp hh hU
    rw [finishedTasksLoopA_succ]
    generalize asyncPoint a s = p at key1 key2 ⊢
    obtain ⟨a1, s1⟩ := p
    simp only at key1 key2 ⊢
    obtain ⟨hh1, hnm1, toks0, ms0, _, hrun0, hr0, hp0, _, _⟩ := key1
    have hd0 : DiscM (program rules) ms0.m := trun_discM hrun0 hd
    cases hlast : s1.finishedTaskInfos.getLast? with
    | none =>
      simp only
      refine ⟨hh1, trivial, key2.1, ?_⟩
      have : ¬ (w = false ∧ w = true) := by cases w <;> simp
      rw [if_neg this]; exact key2.2
    | some task =>
      simp only
      obtain ⟨h1, h2, _, ms', _, hrun, hrel, hp', _, _, hnm'⟩ := finishedTaskStep_strong s1 ms0 task hr0 hp0 hh1 hlast hnm1
      have hTs := finishedTaskStep_term hok hr0 hp0 hh1 hlast hnm1 key2.1 (DiscInv_of_rel hr0 hd0)
      have hd' : DiscM (program rules) ms'.m := trun_discM hrun hd0
      simp only [h1, Bool.not_true, Bool.false_eq_true, if_false]
      have hlt' : Phi rules U (finishedTaskWake task (s1.task task)
          (finishedTaskWrite task { s1 with finishedTaskInfos := s1.finishedTaskInfos.dropLast }).2) {} < n := by
        have := hTs.2; have := key2.2; omega
      obtain ⟨i1, i2, i3⟩ := finishedTasksLoopA_term hS hF hT hok n true a1 _ ms' hrel hp' h2 hnm' hTs.1 hd' hlt'
      refine ⟨i1, i2, i3.1, ?_⟩
      have b1 := Nat.le_trans (Nat.le_add_right _ _) i3.2
      have b2 := Nat.le_trans (Nat.add_le_add_right b1 1) hTs.2
      have b3 := Nat.le_trans b2 (Nat.le_trans (Nat.le_add_right _ 0) key2.2)
      refine Nat.le_trans (Nat.add_le_add_left ?_ _) b3
      split <;> omega

end LLBuild.Refine
