/-
IM7-F — ONE history theorem over every op kind INCLUDING `F` (an injected failure of the next database write).
`OpV` = an `OpU` of `Final5.lean` (wipe, restart, mutate, asynchronous build, killed build, `program`) or `fail`.
The events use the failed-write reading `evOfToksF` (Fail0.lean: `DS k row` followed by `[X ;] ER 6` is a write that did not
happen — no `finished` event) for EVERY build and killed build, whatever the state (a uniform rule of the translation: no
peeking at the flag); `fail` itself has no event.
Invariant between ops: `RelIdle rules (withFail false s) m ∧ Committed m` — the engine with its failure flag cleared is
related to the monitor (the flag is invisible to the monitor until the write it makes fail).
* `refinement_opF`: one `OpC` from `withFail b s0`, both flag values;
* `refinement_vop`, `refinement_vhistory`, **`refinement_final_fail`**, `runOpsV_rules`;
* `refinement_final_all_of_fail`: for histories without `fail` the statement of `Final5.refinement_final_all` verbatim;
* `histEventsV_mutOk`, `refinement_final_fail_clamp` (the `runG_clamp` story, as `Final5Clamp.lean`);
* an example by `decide`.
-/
import LLBuild.Lemmas.Refine.FailCrash
import LLBuild.Lemmas.Refine.FailTok6
import LLBuild.Lemmas.Refine.Final5Clamp

namespace LLBuild.Refine
open LLBuild.Engine LLBuild.Engine.DSL LLBuild.EngineImpl

/-! ## 1. histories with `F` -/

inductive OpV
  | u (o : OpU)
  /-- harness op `F`: the next database write fails -/
  | fail

def runOpV : OpV → State → State
  | .u o, s => runOpU o s
  | .fail, s => opFail s

def runOpsV : List OpV → State → State
  | [], s => s
  | o :: os, s => runOpsV os (runOpV o s)

/-- the monitor events of an op, builds read with the failed-write clause -/
def opEventsF : OpC → State → Option (List Event)
  | .wipe, _ => some [.wipe]
  | .restart, _ => some [.restart]
  | .mutate a b, _ => some [.mutate a b]
  | .build key cancelAt sched a, s => evOfToksF none (runBuildA key cancelAt sched a s).trace.reverse
  | .crashedBuild key cancelAt sched a cut, s =>
    (evOfToksF none (cutToks key cancelAt sched a cut s)).map (fun evs => evs ++ [.crash])

def vopEvents (g : Nat) : OpV → State → Option (List GEvent)
  | .fail, _ => some []
  | .u (.program _), _ => some [.reprogram (g + 1)]
  | .u (.op o), s => (opEventsF o s).map (fun evs => evs.map GEvent.ev)

def nextGenV (g : Nat) : OpV → Nat
  | .u o => nextGenU g o
  | .fail => g

def lastGenV : Nat → List OpV → Nat
  | g, [] => g
  | g, o :: os => lastGenV (nextGenV g o) os

def histEventsV : Nat → List OpV → State → Option (List GEvent)
  | _, [], _ => some []
  | g, o :: os, s => do
    let a ← vopEvents g o s
    let b ← histEventsV (nextGenV g o) os (runOpV o s)
    some (a ++ b)

/-- the `OpU`s of a history -/
def uopsOf : List OpV → List OpU
  | [] => []
  | .u o :: t => o :: uopsOf t
  | .fail :: t => uopsOf t

def programsOfV (ops : List OpV) : List (List RuleSpec) := programsOfU (uopsOf ops)
def installedV (rs0 : List RuleSpec) (ops : List OpV) : List (List RuleSpec) := installedU rs0 (uopsOf ops)

def InstallsV (rs : List (List RuleSpec)) : Nat → List OpV → Prop
  | _, [] => True
  | g, .fail :: t => InstallsV rs g t
  | g, .u o :: t => InstallsU rs g [o] ∧ InstallsV rs (nextGenU g o) t

/-- the size condition (as `histSizedU`: each build, completed or killed, under the rules of its generation) -/
def histSizedV (rs : List (List RuleSpec)) : Nat → List OpV → State → Prop
  | _, [], _ => True
  | g, o :: os, s =>
    (match o with
     | .u o => histSizedU rs g [o] s
     | .fail => True) ∧ histSizedV rs (nextGenV g o) os (runOpV o s)

def currentRulesV (rs0 : List RuleSpec) (ops : List OpV) : List RuleSpec :=
  genRules (installedV rs0 ops) (lastGenV 0 ops)

theorem lastGenV_eq : ∀ (ops : List OpV) (g : Nat), lastGenV g ops = lastGenU g (uopsOf ops)
  | [], _ => rfl
  | .u o :: t, g => by simp only [lastGenV, nextGenV, uopsOf, lastGenU]; exact lastGenV_eq t _
  | .fail :: t, g => by simp only [lastGenV, nextGenV, uopsOf]; exact lastGenV_eq t g

theorem currentRulesV_eq (rs0 : List RuleSpec) (ops : List OpV) :
    currentRulesV rs0 ops = currentRulesU rs0 (uopsOf ops) := by
  unfold currentRulesV currentRulesU installedV; rw [lastGenV_eq]

theorem InstallsU_cons (rs : List (List RuleSpec)) (g : Nat) (o : OpU) (t : List OpU) :
    InstallsU rs g (o :: t) ↔ InstallsU rs g [o] ∧ InstallsU rs (nextGenU g o) t := by
  cases o with
  | op o => exact ⟨fun h => ⟨trivial, h⟩, fun h => h.2⟩
  | program rules => exact ⟨fun h => ⟨⟨h.1, trivial⟩, h.2⟩, fun h => ⟨h.1.1, h.2⟩⟩

theorem InstallsV_iff (rs : List (List RuleSpec)) : ∀ (ops : List OpV) (g : Nat),
    InstallsV rs g ops ↔ InstallsU rs g (uopsOf ops)
  | [], _ => Iff.rfl
  | .fail :: t, g => by simp only [InstallsV, uopsOf]; exact InstallsV_iff rs t g
  | .u o :: t, g => by
    show (InstallsU rs g [o] ∧ InstallsV rs (nextGenU g o) t) ↔ InstallsU rs g (o :: uopsOf t)
    rw [InstallsV_iff rs t]
    exact (InstallsU_cons rs g o (uopsOf t)).symm

theorem InstallsV.self (rs0 : List RuleSpec) (ops : List OpV) : InstallsV (installedV rs0 ops) 0 ops :=
  (InstallsV_iff _ ops 0).2 (InstallsU.self rs0 (uopsOf ops))

/-! ## 2. the size condition does not look at the flag -/

theorem workBound_withFail (rules : List RuleSpec) (b : Bool) (s : State) (key : Key) :
    workBound rules (withFail b s) key = workBound rules s key := rfl

theorem histSizedC_withFail (rules : List RuleSpec) (b : Bool) (o : OpC) (s : State) :
    histSizedC rules [o] (withFail b s) ↔ histSizedC rules [o] s := by
  cases o <;> simp only [histSizedC, workBound_withFail]

/-! ## 3. one `OpC`, both flag values -/

/-- **one op from `withFail b s0`** (`s0` related to the monitor, hence unflagged): the events under the failed-write
reading are accepted; afterwards the engine with the flag cleared is related to the monitor, which is committed -/
theorem refinement_opF {rules : List RuleSpec} (hok : RulesOk rules) {s0 : State} {m : Engine.St}
    (hr : RelIdle rules s0 m) (hc : Committed m) (b : Bool) (o : OpC) (hs : histSizedC rules [o] s0) :
    ∃ evs m', opEventsF o (withFail b s0) = some evs ∧ run (program rules) m evs = some m' ∧
      RelIdle rules (withFail false (runOpC o (withFail b s0))) m' ∧ Committed m' := by
  cases o with
  | wipe =>
    obtain ⟨m', h1, h2⟩ := hr.wipe (program rules)
    refine ⟨[.wipe], m', rfl, by simp [run, h1], ?_, Committed.step h1 rfl hc⟩
    have e : withFail false (runOpC .wipe (withFail b s0)) = opWipe s0 := withFail_of_flag (s := opWipe s0) h2.noFail
    rw [e]; exact h2
  | restart =>
    obtain ⟨m', h1, h2⟩ := hr.restart (program rules)
    refine ⟨[.restart], m', rfl, by simp [run, h1], ?_, Committed.step h1 rfl hc⟩
    have e : withFail false (runOpC .restart (withFail b s0)) = opRestart s0 := withFail_of_flag (s := opRestart s0) h2.noFail
    rw [e]; exact h2
  | mutate x y =>
    obtain ⟨m', h1, h2⟩ := hr.mutate (program rules) x y
    refine ⟨[.mutate x y], m', rfl, by simp [run, h1], ?_, Committed.step h1 rfl hc⟩
    have e : withFail false (runOpC (.mutate x y) (withFail b s0)) = opMutate x y s0 :=
      withFail_of_flag (s := opMutate x y s0) h2.noFail
    rw [e]; exact h2
  | build key cancelAt sched a =>
    cases b with
    | true => exact runBuildF_refines_sized hok hr hc key cancelAt sched a hs.1
    | false =>
      rw [withFail_of_flag hr.noFail]
      obtain ⟨evs, m', h1, h2, h3, h4⟩ := buildC_refines hok hr key cancelAt sched a hs.1
      refine ⟨evs, m', ?_, h2, ?_, h4⟩
      · show evOfToksF none (runBuildA key cancelAt sched a s0).trace.reverse = some evs
        rw [evOfToksF_runBuildA key cancelAt sched a s0 hr.noFail]
        exact toEvents_evOfToks h1
      · show RelIdle rules (withFail false (runBuildA key cancelAt sched a s0)) m'
        rw [withFail_of_flag h3.noFail]; exact h3
  | crashedBuild key cancelAt sched a cut =>
    cases b with
    | true =>
      obtain ⟨evs, mc, h1, h2, h3, h4⟩ := crashedBuildF_refines hok hr hc key cancelAt sched a cut hs.1
      refine ⟨evs ++ [.crash], mc, by simp [opEventsF, h1], h2, ?_, h4⟩
      have e : withFail false (runOpC (.crashedBuild key cancelAt sched a cut) (withFail true s0)) = opRestart s0 :=
        withFail_of_flag (s := opRestart s0) h3.noFail
      rw [e]; exact h3
    | false =>
      rw [withFail_of_flag hr.noFail]
      obtain ⟨evs, mc, h1, h2, h3, h4⟩ := crashedBuild_refines hok hr hc key cancelAt sched a cut hs.1
      refine ⟨evs ++ [.crash], mc, ?_, h2, ?_, h4⟩
      · simp only [opEventsF]
        rw [evOfToksF_cutToks key cancelAt sched a cut s0 hr.noFail, h1]; rfl
      · have e : withFail false (runOpC (.crashedBuild key cancelAt sched a cut) s0) = opRestart s0 :=
          withFail_of_flag (s := opRestart s0) h3.noFail
        rw [e]; exact h3

/-! ## 4. the refinement -/

/-- **refinement_vop**: one op, from states related (flag cleared) and committed, in generation `g` -/
theorem refinement_vop {rs : List (List RuleSpec)} (hok : ∀ r ∈ rs, RulesOk r) {g : Nat} {s : State} {m : Engine.St}
    (hr : RelIdle (genRules rs g) (withFail false s) m) (hc : Committed m) (o : OpV) (hi : InstallsV rs g [o])
    (hs : histSizedV rs g [o] s) :
    ∃ gevs m', vopEvents g o s = some gevs ∧ runG (PPof rs) (m, g) gevs = some (m', nextGenV g o) ∧
      RelIdle (genRules rs (nextGenV g o)) (withFail false (runOpV o s)) m' ∧ Committed m' := by
  cases o with
  | fail => exact ⟨[], m, rfl, rfl, hr, hc⟩
  | u o =>
    cases o with
    | program rules =>
      obtain ⟨m', h1, h2⟩ := hr.program rules (PPof rs g)
      have hg : genRules rs (g + 1) = rules := genRules_of_getElem? hi.1.1
      refine ⟨[.reprogram (g + 1)], m', rfl, ?_, ?_, Committed.step h1 rfl hc⟩
      · simp only [runG, stepG, h1, Option.map, Option.bind, nextGenV, nextGenU]
      · show RelIdle (genRules rs (g + 1)) (opProgram rules (withFail false s)) m'
        rw [hg]; exact h2
    | op o =>
      have hs0 : histSizedC (genRules rs g) [o] (withFail false s) :=
        (histSizedC_withFail _ false o s).2 hs.1.1
      obtain ⟨evs, m', h1, h2, h3, h4⟩ :=
        refinement_opF (RulesOk.genRules hok g) hr hc s.store.failNextSet o hs0
      rw [withFail_split] at h1 h3
      refine ⟨evs.map .ev, m', by simp [vopEvents, h1], ?_, h3, h4⟩
      rw [runG_ev]
      show (run (program (genRules rs g)) m evs).map _ = _
      rw [h2]; rfl

/-- **refinement_vhistory** (general form) -/
theorem refinement_vhistory {rs : List (List RuleSpec)} (hok : ∀ r ∈ rs, RulesOk r) :
    ∀ (ops : List OpV) (g : Nat) (s : State) (m : Engine.St), RelIdle (genRules rs g) (withFail false s) m →
      Committed m → InstallsV rs g ops → histSizedV rs g ops s →
      ∃ gevs m', histEventsV g ops s = some gevs ∧ runG (PPof rs) (m, g) gevs = some (m', lastGenV g ops) ∧
        RelIdle (genRules rs (lastGenV g ops)) (withFail false (runOpsV ops s)) m' ∧ Committed m'
  | [], g, s, m, hr, hc, _, _ => ⟨[], m, rfl, rfl, hr, hc⟩
  | o :: os, g, s, m, hr, hc, hi, hs => by
    have hi1 : InstallsV rs g [o] ∧ InstallsV rs (nextGenV g o) os := by
      cases o with
      | fail => exact ⟨trivial, hi⟩
      | u o => exact ⟨⟨hi.1, trivial⟩, hi.2⟩
    obtain ⟨a, m1, h1, h2, h3, hc1⟩ := refinement_vop hok hr hc o hi1.1 ⟨hs.1, trivial⟩
    obtain ⟨b, m2, h4, h5, h6, hc2⟩ := refinement_vhistory hok os (nextGenV g o) (runOpV o s) m1 h3 hc1 hi1.2 hs.2
    refine ⟨a ++ b, m2, ?_, ?_, h6, hc2⟩
    · simp [histEventsV, h1, h4]
    · rw [runG_append, h2]; exact h5

/-- **IM2 – IM7: every op kind, including injected write failures.**  From a fresh harness with rule list `rs0`, any
history of `W`, `E`, `M`, `F`, builds — completed or KILLED before their commit, with arbitrary asynchronous schedules, with
or without an armed write failure — and `P` ops, in which every installed rule list satisfies `RulesOk` and every build
satisfies the size condition under the rules of its generation, produces `GEvent`s (builds read with the failed-write
clause) that the generation monitor accepts from its initial state; the engine WITH ITS FAILURE FLAG CLEARED, whose rule
list is the last one installed, and the monitor are related again, and the monitor is committed. -/
theorem refinement_final_fail (rs0 : List RuleSpec) (ops : List OpV)
    (hok : ∀ r ∈ installedV rs0 ops, RulesOk r)
    (hs : histSizedV (installedV rs0 ops) 0 ops (opProgram rs0 {})) :
    ∃ gevs m', histEventsV 0 ops (opProgram rs0 {}) = some gevs ∧
      runG (PPof (installedV rs0 ops)) ({}, 0) gevs = some (m', lastGenV 0 ops) ∧
      RelIdle (currentRulesV rs0 ops) (withFail false (runOpsV ops (opProgram rs0 {}))) m' ∧ Committed m' :=
  refinement_vhistory hok ops 0 _ _ (RelIdle.init rs0) Committed.init (InstallsV.self rs0 ops) hs

/-- the engine's rule list after the history is the last one installed -/
theorem runOpsV_rules (rs0 : List RuleSpec) (ops : List OpV)
    (hok : ∀ r ∈ installedV rs0 ops, RulesOk r)
    (hs : histSizedV (installedV rs0 ops) 0 ops (opProgram rs0 {})) :
    (runOpsV ops (opProgram rs0 {})).rules = currentRulesV rs0 ops := by
  obtain ⟨_, _, _, _, h, _⟩ := refinement_final_fail rs0 ops hok hs
  exact h.rules_eq

/-! ## 5. special case: no `fail` op (`Final5.refinement_final_all`) -/

theorem uopsOf_u : ∀ (ops : List OpU), uopsOf (ops.map OpV.u) = ops
  | [] => rfl
  | o :: t => by simp only [List.map_cons, uopsOf, uopsOf_u t]

theorem runOpsV_u : ∀ (ops : List OpU) (s : State), runOpsV (ops.map OpV.u) s = runOpsU ops s
  | [], _ => rfl
  | o :: t, s => by simp only [List.map_cons, runOpsV, runOpsU, runOpV]; exact runOpsV_u t _

theorem histSizedV_u (rs : List (List RuleSpec)) : ∀ (ops : List OpU) (g : Nat) (s : State),
    histSizedV rs g (ops.map OpV.u) s ↔ histSizedU rs g ops s
  | [], _, _ => Iff.rfl
  | o :: t, g, s => by
    simp only [List.map_cons, histSizedV, histSizedU, nextGenV, runOpV, histSizedV_u rs t]
    constructor
    · rintro ⟨⟨h1, _⟩, h2⟩; exact ⟨h1, h2⟩
    · rintro ⟨h1, h2⟩; exact ⟨⟨h1, trivial⟩, h2⟩

/-- no op but `fail` sets the flag -/
theorem runOpU_flag (o : OpU) {s : State} (h : s.store.failNextSet = false) : (runOpU o s).store.failNextSet = false := by
  cases o with
  | program rules => exact h
  | op o =>
    cases o with
    | wipe => rfl
    | restart => exact h
    | mutate a b => exact h
    | build key cancelAt sched a => exact runBuildA_flag_false key cancelAt sched a s h
    | crashedBuild key cancelAt sched a cut => exact h

theorem runOpsU_flag : ∀ (ops : List OpU) {s : State}, s.store.failNextSet = false →
    (runOpsU ops s).store.failNextSet = false
  | [], _, h => h
  | o :: t, _, h => runOpsU_flag t (runOpU_flag o h)

/-- with the flag clear, the events of a refined op are the same under both readings -/
theorem vopEvents_u {rs : List (List RuleSpec)} (hok : ∀ r ∈ rs, RulesOk r) {g : Nat} {s : State} {m : Engine.St}
    (hr : RelIdle (genRules rs g) s m) (o : OpU) (hs : histSizedU rs g [o] s) :
    vopEvents g (.u o) s = uopEvents g o s := by
  cases o with
  | program rules => rfl
  | op o =>
    simp only [vopEvents, uopEvents]
    congr 1
    cases o with
    | wipe => rfl
    | restart => rfl
    | mutate a b => rfl
    | build key cancelAt sched a =>
      obtain ⟨evs, m', h1, _⟩ := buildC_refines (RulesOk.genRules hok g) hr key cancelAt sched a hs.1.1
      show evOfToksF none _ = toEvents _
      rw [evOfToksF_runBuildA key cancelAt sched a s hr.noFail, h1]
      exact toEvents_evOfToks h1
    | crashedBuild key cancelAt sched a cut =>
      simp only [opEventsF, opEventsC]
      rw [evOfToksF_cutToks key cancelAt sched a cut s hr.noFail]

theorem histEventsV_u {rs : List (List RuleSpec)} (hok : ∀ r ∈ rs, RulesOk r) :
    ∀ (ops : List OpU) (g : Nat) (s : State) (m : Engine.St), RelIdle (genRules rs g) s m → Committed m →
      InstallsU rs g ops → histSizedU rs g ops s → histEventsV g (ops.map OpV.u) s = histEventsU g ops s
  | [], _, _, _, _, _, _, _ => rfl
  | o :: t, g, s, m, hr, hc, hi, hs => by
    have hi1 := (InstallsU_cons rs g o t).1 hi
    obtain ⟨_, m1, _, _, h3, hc1⟩ := refinement_uop hok hr hc o hi1.1 ⟨hs.1, trivial⟩
    simp only [List.map_cons, histEventsV, histEventsU, nextGenV, runOpV, vopEvents_u hok hr o ⟨hs.1, trivial⟩,
      histEventsV_u hok t (nextGenU g o) (runOpU o s) m1 h3 hc1 hi1.2 hs.2]

/-- `refinement_final_all` (Final5.lean) is `refinement_final_fail` for histories without `fail` ops -/
theorem refinement_final_all_of_fail (rs0 : List RuleSpec) (ops : List OpU)
    (hok : ∀ r ∈ installedU rs0 ops, RulesOk r)
    (hs : histSizedU (installedU rs0 ops) 0 ops (opProgram rs0 {})) :
    ∃ gevs m', histEventsU 0 ops (opProgram rs0 {}) = some gevs ∧
      runG (PPof (installedU rs0 ops)) ({}, 0) gevs = some (m', lastGenU 0 ops) ∧
      RelIdle (currentRulesU rs0 ops) (runOpsU ops (opProgram rs0 {})) m' ∧ Committed m' := by
  have hinst : installedV rs0 (ops.map OpV.u) = installedU rs0 ops := by unfold installedV; rw [uopsOf_u]
  obtain ⟨gevs, m', h1, h2, h3, h4⟩ := refinement_final_fail rs0 (ops.map OpV.u)
    (by rw [hinst]; exact hok) (by rw [hinst]; exact (histSizedV_u _ ops 0 _).2 hs)
  rw [hinst] at h2
  rw [histEventsV_u hok ops 0 _ _ (RelIdle.init rs0) Committed.init (InstallsU.self rs0 ops) hs] at h1
  rw [lastGenV_eq, uopsOf_u] at h2
  rw [currentRulesV_eq, uopsOf_u, runOpsV_u, withFail_of_flag (runOpsU_flag ops (s := opProgram rs0 {}) rfl)] at h3
  exact ⟨gevs, m', h1, h2, h3, h4⟩

/-! ## 6. `MutOk` / clamp -/

def OpV.mutOk (c : Env → Env) : OpV → Prop
  | .u o => o.mutOk c
  | .fail => True

theorem opEventsF_noMutate {o : OpC} {s : State} {evs : List Event} (h : opEventsF o s = some evs)
    (ho : ∀ a b, o ≠ .mutate a b) : ∀ e ∈ evs, isMutate e = false := by
  cases o with
  | wipe => cases h; intro e he; simp at he; subst he; rfl
  | restart => cases h; intro e he; simp at he; subst he; rfl
  | mutate a b => exact absurd rfl (ho a b)
  | build key cancelAt sched a => exact evOfToksF_noMutate _ _ evs h
  | crashedBuild key cancelAt sched a cut =>
    simp only [opEventsF] at h
    cases hb : evOfToksF none (cutToks key cancelAt sched a cut s) with
    | none => rw [hb] at h; cases h
    | some b =>
      rw [hb] at h
      simp only [Option.map_some, Option.some.injEq] at h; subst h
      intro e he
      rcases List.mem_append.1 he with he' | he'
      · exact evOfToksF_noMutate _ _ b hb e he'
      · simp only [List.mem_cons, List.not_mem_nil, or_false] at he'; subst he'; rfl

theorem vopEvents_mutOk {c : Env → Env} {g : Nat} {o : OpV} {s : State} {gevs : List GEvent}
    (h : vopEvents g o s = some gevs) (hm : o.mutOk c) : ∀ e ∈ gevs, MutOk c e := by
  cases o with
  | fail => cases h; intro e he; cases he
  | u o =>
    cases o with
    | program rules => cases h; intro e he; simp at he; subst he; trivial
    | op o =>
      simp only [vopEvents] at h
      cases h1 : opEventsF o s with
      | none => rw [h1] at h; cases h
      | some evs =>
        rw [h1] at h; cases h
        intro e he
        obtain ⟨x, hx, rfl⟩ := List.mem_map.1 he
        by_cases hmu : ∃ a b, o = .mutate a b
        · obtain ⟨a, b, rfl⟩ := hmu
          cases h1; simp at hx; subst hx; exact hm
        · exact MutOk.of_noMutate c (opEventsF_noMutate h1 (fun a b e => hmu ⟨a, b, e⟩) x hx)

theorem histEventsV_mutOk {c : Env → Env} : ∀ (ops : List OpV) (g : Nat) (s : State) (gevs : List GEvent),
    histEventsV g ops s = some gevs → (∀ o ∈ ops, o.mutOk c) → ∀ e ∈ gevs, MutOk c e
  | [], g, s, gevs, h, _ => by cases h; intro e he; cases he
  | o :: os, g, s, gevs, h, hm => by
    simp only [histEventsV] at h
    cases h1 : vopEvents g o s with
    | none => rw [h1] at h; cases h
    | some a =>
      cases h2 : histEventsV (nextGenV g o) os (runOpV o s) with
      | none => rw [h1, h2] at h; cases h
      | some b =>
        rw [h1, h2] at h; cases h
        intro e he
        rcases List.mem_append.1 he with he' | he'
        · exact vopEvents_mutOk h1 (hm o List.mem_cons_self) e he'
        · exact histEventsV_mutOk os _ _ b h2 (fun x hx => hm x (List.mem_cons_of_mem _ hx)) e he'

/-- `refinement_final_fail` with the clamped run added (as `refinement_final_all_clamp`, Final5Clamp.lean) -/
theorem refinement_final_fail_clamp {c : Env → Env} (h0 : c (fun _ => 0) = fun _ => 0)
    (rs0 : List RuleSpec) (ops : List OpV)
    (hok : ∀ r ∈ installedV rs0 ops, RulesOk r)
    (hs : histSizedV (installedV rs0 ops) 0 ops (opProgram rs0 {}))
    (hm : ∀ o ∈ ops, o.mutOk c) :
    ∃ gevs m', histEventsV 0 ops (opProgram rs0 {}) = some gevs ∧
      (∀ e ∈ gevs, MutOk c e) ∧
      runG (PPof (installedV rs0 ops)) ({}, 0) gevs = some (m', lastGenV 0 ops) ∧
      runG (clampPP c (PPof (installedV rs0 ops))) ({}, 0) gevs = some (m', lastGenV 0 ops) ∧
      c m'.env = m'.env ∧
      RelIdle (currentRulesV rs0 ops) (withFail false (runOpsV ops (opProgram rs0 {}))) m' ∧ Committed m' := by
  obtain ⟨gevs, m', h1, h2, h3, h4⟩ := refinement_final_fail rs0 ops hok hs
  have hmo := histEventsV_mutOk ops 0 _ gevs h1 hm
  obtain ⟨h5, h6⟩ := runG_clamp h0 gevs ({}, 0) _ h2 h0 hmo
  exact ⟨gevs, m', h1, hmo, h2, h5, h6, h3, h4⟩

/-! ## 7. non-vacuity: a history with injected write failures, one of them in a KILLED build -/

/-- program `exRules` (Final.lean: input rule `1`, derived rule `3`).  A build; `F`; the input changes; the build whose
first write fails (`… S 1 2 ; DS 1 row ; ER 6 …`); the build again, which succeeds; `F` again; the input changes; the build
KILLED right after the failing `DS 1 row` (15 tokens: the cut `… DS ‖ ER 6 …` at which `trunF` does not split); the flag
survives the kill, so the next build fails at its first write too; a final build succeeds -/
def exOpsV : List OpV :=
  [.u (.op (.mutate 1 55)), .u (.op (.build 3 0 [] [])), .fail, .u (.op (.mutate 1 56)), .u (.op (.build 3 0 [] [])),
   .u (.op (.build 3 0 [] [])), .fail, .u (.op (.mutate 1 57)), .u (.op (.crashedBuild 3 0 [] [] 14)),
   .u (.op (.build 3 0 [] [])), .u (.op (.build 3 0 [] []))]

theorem exOpsV_ok : ∀ r ∈ installedV exRules exOpsV, RulesOk r := by
  intro r hr
  simp only [installedV, installedU, exOpsV, uopsOf, programsOfU, List.mem_cons, List.not_mem_nil, or_false] at hr
  subst hr; exact exRules_ok

theorem exOpsV_sized : histSizedV (installedV exRules exOpsV) 0 exOpsV (opProgram exRules {}) := by
  simp only [exOpsV, histSizedV, histSizedU, histSizedC, nextGenV, nextGenU, runOpV, runOpU, runOpC, and_true, true_and]
  refine ⟨by decide, by decide, by decide, by decide, by decide, by decide⟩

/-- the theorem applies -/
example : ∃ gevs m', histEventsV 0 exOpsV (opProgram exRules {}) = some gevs ∧
    runG (PPof (installedV exRules exOpsV)) ({}, 0) gevs = some (m', 0) ∧
    RelIdle exRules (withFail false (runOpsV exOpsV (opProgram exRules {}))) m' ∧ Committed m' :=
  refinement_final_fail exRules exOpsV exOpsV_ok exOpsV_sized

/-- the state before the first failing build (flag set) -/
def exV1 : State := runOpsV (exOpsV.take 4) (opProgram exRules {})
/-- the state before the killed build (flag set) -/
def exV2 : State := runOpsV (exOpsV.take 8) (opProgram exRules {})

/-- the first failing build: `S 1 2 ; DS 1 row ; ER 6` at positions 13–15; the flag is consumed, the store unchanged
(2 rows, from the first build); read with the failed-write clause the trace has 18 events (20 tokens: no event for `S 1 2`,
none for the failed `DS`; `ER 6` is `error 6`) -/
example : exV1.store.failNextSet = true ∧
    ((runBuildA 3 0 [] [] exV1).trace.reverse[13]?.bind Tok.isS2) = some 1 ∧
    ((runBuildA 3 0 [] [] exV1).trace.reverse[14]?.map Tok.isDS) = some true ∧
    ((runBuildA 3 0 [] [] exV1).trace.reverse[15]?.map Tok.isER6) = some true ∧
    (runBuildA 3 0 [] [] exV1).trace.length = 20 ∧
    (evOfToksF none (runBuildA 3 0 [] [] exV1).trace.reverse).map List.length = some 18 ∧
    (runBuildA 3 0 [] [] exV1).store.failNextSet = false ∧
    (runBuildA 3 0 [] [] exV1).store.rows = exV1.store.rows := by
  decide

/-- the killed build: cut right after the failing `DS 1 row` (token 14 of 15; the next token of the full trace is `ER 6`);
the cut trace reads the write as completed (14 events: the 13 before `S 1 2` and `finished 1 row`) — the `crash` rolls it
back anyway; afterwards a new engine on the unchanged store, THE FLAG STILL SET -/
example : exV2.store.failNextSet = true ∧
    (cutToks 3 0 [] [] 14 exV2).length = 15 ∧
    ((cutToks 3 0 [] [] 14 exV2)[13]?.bind Tok.isS2) = some 1 ∧
    ((cutToks 3 0 [] [] 14 exV2)[14]?.map Tok.isDS) = some true ∧
    ((runBuildA 3 0 [] [] exV2).trace.reverse[15]?.map Tok.isER6) = some true ∧
    (evOfToksF none (cutToks 3 0 [] [] 14 exV2)).map List.length = some 14 ∧
    (runOpC (.crashedBuild 3 0 [] [] 14) exV2).store.failNextSet = true ∧
    (runOpC (.crashedBuild 3 0 [] [] 14) exV2).store.rows = exV2.store.rows := by
  decide

set_option maxRecDepth 8192 in
/-- the events of the whole history exist; at the end the flag is clear (consumed by the build after the kill) -/
example : (histEventsV 0 exOpsV (opProgram exRules {})).isSome = true ∧
    (runOpsV exOpsV (opProgram exRules {})).store.failNextSet = false ∧
    (runOpsV (exOpsV.take 10) (opProgram exRules {})).store.failNextSet = false ∧
    (runOpsV (exOpsV.take 9) (opProgram exRules {})).store.failNextSet = true := by
  decide

/-
all of: [propext, Classical.choice, Quot.sound]
#print axioms refinement_opF
#print axioms refinement_vop
#print axioms refinement_vhistory
#print axioms refinement_final_fail
#print axioms runOpsV_rules
#print axioms refinement_final_all_of_fail
#print axioms histEventsV_mutOk
#print axioms refinement_final_fail_clamp
-/
end LLBuild.Refine
